/* CRC-8, polynomial x^8+x^5+x^4+1 (0x31), MSB first, no reflection, no final xor:
 * the textbook bit-serial definition, written out as 8 explicit rounds so that it can be
 * used inside contract clauses (no loop).  Independent of igris/util/crc.h. */
#ifndef CRC8_SPEC_H
#define CRC8_SPEC_H
#include <stdint.h>
#define SPEC_CRC8_ROUND(x) ((uint8_t)(((x) & 0x80u) ? ((((x) << 1) & 0xFFu) ^ 0x31u) : (((x) << 1) & 0xFFu)))
static inline uint8_t spec_crc8_step(uint8_t crc, uint8_t byte)
{
    uint8_t x = (uint8_t)(crc ^ byte);
    x = SPEC_CRC8_ROUND(x); x = SPEC_CRC8_ROUND(x); x = SPEC_CRC8_ROUND(x); x = SPEC_CRC8_ROUND(x);
    x = SPEC_CRC8_ROUND(x); x = SPEC_CRC8_ROUND(x); x = SPEC_CRC8_ROUND(x); x = SPEC_CRC8_ROUND(x);
    return x;
}
#endif
