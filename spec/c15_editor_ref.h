/* Reference line editor / terminal of property C15, written from the property statement's key
 * semantics (not from sline.h / readline.h / vterm.c):
 *
 *   line      at most cap-1 characters (the cap-th byte is for the terminator), a cursor 0 <= cursor <= len.
 *   char      any byte that is not one of the keys below is an ordinary character: inserted at the cursor if the
 *             line has room (len < cap-1), the tail moves right, cursor and len advance; without room nothing
 *             changes and nothing is to be echoed.
 *   BS        deletes the character left of the cursor (nothing if the cursor is at column 0).
 *   ESC [ A   history: one entry older.      ESC [ B   one entry newer (entry 0 = the empty fresh line).
 *   ESC [ C   cursor right (not beyond len). ESC [ D   cursor left (not below 0).
 *   ESC [ 3 ~ deletes the character under the cursor (at the '3'; the byte after it is swallowed).
 *   ESC x, ESC [ x with any other x: unknown escape, ignored (the bytes are consumed, nothing changes).
 *   CR / LF   end of line.  A CR directly followed by LF (or LF directly followed by CR) is ONE end of line: the
 *             second byte of such a pair is swallowed, and it does not start a new pair ("\r\n\r\n" = two lines).
 *   history   a ring of H entries (initially empty strings).  An entered line that is not empty and differs from
 *             the most recent entry becomes the most recent entry (the oldest is dropped).  Recall loads the
 *             entry into the line, cursor at its end; n-th press of "up" shows the n-th last entered line.
 *   Ctrl-C    (terminal level) discards the line being edited, signals SIGINT, starts a fresh line; it does not
 *             go through the key parser.
 *   return    what the terminal has to do with the screen (same vocabulary as READLINE_*).
 *
 * Scalar machine (DESIGN 3.3/3.4, like gstuff_ref.h): the line is tracked at ONE arbitrary ghost index k
 * (at_k meaningful iff k < len), the history at ONE arbitrary ghost slot j (its length and its byte k).
 * A step that moves characters needs the old line at k-1 / k+1 / k+n, recall needs the entry that is loaded:
 * those values of the reference's own (whole) state cannot be held by a scalar machine and are handed in as an
 * "oracle"; the harness takes them from the pre-state, which the simulation relation ties to the reference at
 * every index.  The yes/no question "does the line equal the most recent entry" is an oracle bit as well; the
 * harness that uses it proves it true at the ghost index (yes) or exhibits a differing index (no).
 */
#ifndef C15_EDITOR_REF_H
#define C15_EDITOR_REF_H
#include <stddef.h>
#include <stdint.h>

enum { ED_NOTHING = 0, ED_ECHOCHAR = 1, ED_NEWLINE = 2, ED_BACKSPACE = 3, ED_DELETE = 4,
       ED_UPDATELINE = 7, ED_LEFT = 8, ED_RIGHT = 9 };
enum { ED_KEY_CTRL_C = 3, ED_KEY_BS = 8, ED_KEY_LF = 10, ED_KEY_CR = 13, ED_KEY_ESC = 27 };

/* ------------------------------------------------------------------------------------------- the line */
struct ed_line {
    unsigned cap, len, cursor;
    size_t k;  /* ghost index */
    char at_k; /* character at index k, meaningful iff k < len */
};

static inline int spec_ed_line_ok(const struct ed_line *l)
{
    return l->cap >= 2 && l->cursor <= l->len && l->len <= l->cap - 1;
}

/* insert one character at the cursor; old_km1 = the line's character at k-1 before the step */
static inline int spec_ed_insert(struct ed_line *l, char c, char old_km1)
{
    if (l->len >= l->cap - 1) return 0;
    if (l->k == l->cursor) l->at_k = c;
    else if (l->k > l->cursor) l->at_k = old_km1;
    l->len++;
    l->cursor++;
    return 1;
}

/* insert the first min(n, room) of n characters at the cursor (n <= 0: nothing);
 * data_at = data[k - cursor], old_kmn = the line's character at k - (number inserted) before the step */
static inline unsigned spec_ed_room(const struct ed_line *l) { return l->cap - 1 - l->len; }
static inline unsigned spec_ed_bulk_count(const struct ed_line *l, long long n)
{
    if (n <= 0) return 0;
    return n > (long long)spec_ed_room(l) ? spec_ed_room(l) : (unsigned)n;
}
static inline unsigned spec_ed_bulk_insert(struct ed_line *l, long long n, char data_at, char old_kmn)
{
    unsigned m = spec_ed_bulk_count(l, n);
    if (l->k >= l->cursor && l->k < (size_t)l->cursor + m) l->at_k = data_at;
    else if (l->k >= (size_t)l->cursor + m) l->at_k = old_kmn;
    l->len += m;
    l->cursor += m;
    return m;
}

/* delete min(count, cursor) characters left of the cursor; old_kpn = the line's character at
 * k + (number deleted) before the step */
static inline unsigned spec_ed_backspace_count(const struct ed_line *l, unsigned count)
{
    return count > l->cursor ? l->cursor : count;
}
static inline unsigned spec_ed_backspace(struct ed_line *l, unsigned count, char old_kpn)
{
    unsigned m = spec_ed_backspace_count(l, count);
    if (l->k >= l->cursor - m) l->at_k = old_kpn;
    l->len -= m;
    l->cursor -= m;
    return m;
}

/* delete min(count, len - cursor) characters at / right of the cursor */
static inline unsigned spec_ed_delete_count(const struct ed_line *l, unsigned count)
{
    return count > l->len - l->cursor ? l->len - l->cursor : count;
}
static inline unsigned spec_ed_delete(struct ed_line *l, unsigned count, char old_kpn)
{
    unsigned m = spec_ed_delete_count(l, count);
    if (l->k >= l->cursor) l->at_k = old_kpn;
    l->len -= m;
    return m;
}

static inline int spec_ed_left(struct ed_line *l)
{
    if (l->cursor == 0) return 0;
    l->cursor--;
    return 1;
}
static inline int spec_ed_right(struct ed_line *l)
{
    if (l->cursor == l->len) return 0;
    l->cursor++;
    return 1;
}
static inline void spec_ed_clear(struct ed_line *l) { l->len = 0; l->cursor = 0; }

/* ------------------------------------------------------------------------------------------- the editor */
struct ed_ref {
    struct ed_line l;
    uint8_t esc;  /* 0 plain, 1 after ESC, 2 after ESC [, 3 after ESC [ 3 */
    char last;    /* the byte before this one (0 after the swallowed half of a CR/LF pair) */
    int lastsize; /* length of the line a recall replaced (what the terminal has to wipe) */
    int has_hist;
    unsigned H;      /* history depth >= 1 */
    unsigned head;   /* ring slot the next entered line goes to; the n-th last entry is slot (head + H - n) % H */
    unsigned browse; /* 0 = fresh line, n = showing the n-th last entry */
    unsigned j;      /* ghost slot */
    unsigned hj_len; /* length of the entry in slot j */
    char hj_at_k;    /* its character k, meaningful iff k < hj_len */
};
struct ed_oracle {
    char line_km1, line_kp1; /* the line's characters at k-1 and k+1 before the step */
    unsigned q_len;          /* the history entry this key consults (spec_ed_consults): its length ... */
    char q_at_k;             /* ... and its character k */
    int same_as_last;        /* the line equals the most recent entry */
};

static inline unsigned spec_ed_slot(const struct ed_ref *r, unsigned n) { return (r->head + r->H - n) % r->H; }

static inline int spec_ed_is_eol(char c) { return c == ED_KEY_CR || c == ED_KEY_LF; }
static inline int spec_ed_swallowed_eol(const struct ed_ref *r, char c)
{
    return spec_ed_is_eol(c) && spec_ed_is_eol(r->last) && r->last != c;
}

/* the history slot whose content decides / provides the result of this key, -1 if none */
static inline int spec_ed_consults(const struct ed_ref *r, char c)
{
    if (!r->has_hist) return -1;
    if (r->esc == 0 && spec_ed_is_eol(c) && !spec_ed_swallowed_eol(r, c) && r->l.len != 0)
        return (int)spec_ed_slot(r, 1);
    if (r->esc == 2 && c == 'A' && r->browse < r->H) return (int)spec_ed_slot(r, r->browse + 1);
    if (r->esc == 2 && c == 'B' && r->browse > 1) return (int)spec_ed_slot(r, r->browse - 1);
    return -1;
}

static inline void spec_ed_recall(struct ed_ref *r, const struct ed_oracle *o)
{
    r->lastsize = (int)r->l.len;
    if (r->browse == 0) { spec_ed_clear(&r->l); return; }
    r->l.len = o->q_len;
    r->l.cursor = o->q_len;
    r->l.at_k = o->q_at_k;
}

static inline int spec_ed_key(struct ed_ref *r, char c, const struct ed_oracle *o)
{
    int ret = ED_NOTHING;
    switch (r->esc) {
    case 0:
        if (spec_ed_is_eol(c)) {
            if (spec_ed_swallowed_eol(r, c)) { r->last = 0; return ED_NOTHING; }
            if (r->has_hist && r->l.len != 0 && !o->same_as_last) {
                if (r->j == r->head) { r->hj_len = r->l.len; r->hj_at_k = r->l.at_k; }
                r->head = (r->head + 1) % r->H;
            }
            r->browse = 0;
            ret = ED_NEWLINE;
        } else if (c == ED_KEY_BS) {
            ret = spec_ed_backspace(&r->l, 1, spec_ed_backspace_count(&r->l, 1) ? o->line_kp1 : r->l.at_k) ? ED_BACKSPACE : ED_NOTHING;
        } else if (c == ED_KEY_ESC) {
            r->esc = 1;
        } else {
            ret = spec_ed_insert(&r->l, c, o->line_km1) ? ED_ECHOCHAR : ED_NOTHING;
        }
        break;
    case 1:
        r->esc = (c == '[') ? 2 : 0;
        break;
    case 2:
        r->esc = 0;
        if (c == 'A') {
            if (r->has_hist && r->browse < r->H) { r->browse++; spec_ed_recall(r, o); ret = ED_UPDATELINE; }
        } else if (c == 'B') {
            if (r->has_hist && r->browse > 0) { r->browse--; spec_ed_recall(r, o); ret = ED_UPDATELINE; }
        } else if (c == 'C') {
            if (spec_ed_right(&r->l)) ret = ED_RIGHT;
        } else if (c == 'D') {
            if (spec_ed_left(&r->l)) ret = ED_LEFT;
        } else if (c == '3') {
            if (spec_ed_delete(&r->l, 1, spec_ed_delete_count(&r->l, 1) ? o->line_kp1 : r->l.at_k)) ret = ED_DELETE;
            r->esc = 3;
        }
        break;
    default:
        r->esc = 0;
        break;
    }
    r->last = c;
    return ret;
}

/* ------------------------------------------------------------------------------------------- the terminal */
struct term_ref {
    int fresh;        /* a fresh line (and a prompt) is due before the next byte is looked at */
    struct ed_ref ed;
    /* what the last step did */
    int delivered;    /* a line was handed over: its length is dl_len, its character k is dl_at_k */
    unsigned dl_len;
    char dl_at_k;
    int interrupted;  /* Ctrl-C seen */
    int prompts;      /* prompts printed */
};

static inline void spec_term_fresh(struct term_ref *t)
{
    spec_ed_clear(&t->ed.l);
    t->ed.browse = 0;
    t->prompts++;
    t->fresh = 0;
}

/* one call of the terminal automaton, in three parts so that a modular proof can put the real editor's outcome
 * (proved equal to spec_ed_key's by the refinement unit) in the middle.  in < 0 means "no byte" (initial step:
 * prints the prompt only).
 * spec_term_begin: what happens before the editor sees the byte; returns 0 no byte, 1 interrupt (Ctrl-C), 2 the byte
 * goes to the editor.  spec_term_end: what happens after the editor answered ed_ret. */
static inline int spec_term_begin(struct term_ref *t, int in)
{
    t->delivered = 0;
    t->interrupted = 0;
    t->prompts = 0;
    if (t->fresh) spec_term_fresh(t);
    if (in < 0) return 0;
    if ((char)in == ED_KEY_CTRL_C) {
        t->interrupted = 1;
        spec_term_fresh(t);
        return 1;
    }
    return 2;
}
static inline void spec_term_end(struct term_ref *t, int ed_ret)
{
    if (ed_ret == ED_NEWLINE) {
        t->delivered = 1;
        t->dl_len = t->ed.l.len;
        t->dl_at_k = t->ed.l.at_k;
        spec_term_fresh(t);
    }
}
static inline int spec_term_step(struct term_ref *t, int in, const struct ed_oracle *o)
{
    int ret;
    if (spec_term_begin(t, in) != 2) return ED_NOTHING;
    ret = spec_ed_key(&t->ed, (char)in, o);
    spec_term_end(t, ret);
    return ret;
}
#endif
