/* C12: vocabulary of the debug-print float units (igris/dprint/dprint_func_impl.c:
 * debug_printdec_double_prec / debug_printdec_float_prec).
 *
 * The functions emit characters one by one through debug_putchar, which igris leaves to the platform
 * ("implemented outside the library", dprint.h).  The unit supplies it as the OBSERVER of the property: a
 * streaming acceptor for   -?[0-9]+(\.[0-9]*)?   that counts the digits on both sides of the point and keeps the
 * first characters (for the nan / inf tokens).  No buffer, hence no bound on the length of the output.
 *
 * The fraction is co-simulated: g_s is the fractional part of |a| (set by the harness from the argument), a ghost
 * statement in the loop body multiplies it by ten once per iteration, the loop invariant states o == g_s, and
 * g_z counts the iterations in which the scaled fraction is still below 1 (= leading zero digits). */
#ifndef C12_DPRINT_H
#define C12_DPRINT_H
#include <stdint.h>

enum { C12_S_START, C12_S_SIGN, C12_S_INT, C12_S_DOT, C12_S_FRAC, C12_S_BAD };
static unsigned g_st;       /* acceptor state */
static unsigned g_on;       /* characters emitted */
static unsigned g_id, g_fd; /* digits before / after the point */
static char g_first[8];     /* the first characters (nan / inf tokens) */
static unsigned g_minus;    /* the stream starts with '-' */
static double g_s;          /* the spec's scaled fraction: frac(|a|) * 10^(iterations so far) */
static unsigned g_z;        /* iterations in which g_s < 1 (leading zeros of the fraction) */

#define C12_ISDIG(c) ((c) >= '0' && (c) <= '9')
static inline void c12_sink(char c)
{
    /* the first characters are kept for the nan / inf tokens only (never once the point has been seen, so the
     * fraction loop does not touch g_first); the counter saturates */
    if (g_on < 8 && g_st != C12_S_DOT && g_st != C12_S_FRAC)
        g_first[g_on] = c;
    if (g_on < 1000u)
        g_on++;
    if (g_st == C12_S_START && c == '-') {
        g_st = C12_S_SIGN;
        g_minus = 1;
    }
    else if ((g_st == C12_S_START || g_st == C12_S_SIGN || g_st == C12_S_INT) && C12_ISDIG(c)) {
        g_st = C12_S_INT;
        g_id++;
    } else if (g_st == C12_S_INT && c == '.')
        g_st = C12_S_DOT;
    else if ((g_st == C12_S_DOT || g_st == C12_S_FRAC) && C12_ISDIG(c)) {
        g_st = C12_S_FRAC;
        g_fd++;
    } else
        g_st = C12_S_BAD;
}
static inline void c12_sink_reset(void)
{
    g_st = C12_S_START;
    g_on = g_id = g_fd = 0;
    g_minus = 0;
    g_z = 0;
}

/* number of integer digits of x >= 0 (0 when x < 1); loop-free, usable in invariants */
/* number of decimal digits of a uint64_t (1 for 0) */
#define C12_NDIG64(x)                                                                                          \
    ((x) < 10ull ? 1u : (x) < 100ull ? 2u : (x) < 1000ull ? 3u : (x) < 10000ull ? 4u : (x) < 100000ull ? 5u       \
     : (x) < 1000000ull ? 6u : (x) < 10000000ull ? 7u : (x) < 100000000ull ? 8u : (x) < 1000000000ull ? 9u       \
     : (x) < 10000000000ull ? 10u : (x) < 100000000000ull ? 11u : (x) < 1000000000000ull ? 12u                   \
     : (x) < 10000000000000ull ? 13u : (x) < 100000000000000ull ? 14u : (x) < 1000000000000000ull ? 15u          \
     : (x) < 10000000000000000ull ? 16u : (x) < 100000000000000000ull ? 17u : (x) < 1000000000000000000ull ? 18u \
     : (x) < 10000000000000000000ull ? 19u : 20u)
#define C12_DIGITS(x)                                                                                         \
    ((x) < 1.0 ? 0u : (x) < 1e1 ? 1u : (x) < 1e2 ? 2u : (x) < 1e3 ? 3u : (x) < 1e4 ? 4u : (x) < 1e5 ? 5u       \
     : (x) < 1e6 ? 6u : (x) < 1e7 ? 7u : (x) < 1e8 ? 8u : (x) < 1e9 ? 9u : (x) < 1e10 ? 10u : (x) < 1e11 ? 11u \
     : (x) < 1e12 ? 12u : (x) < 1e13 ? 13u : (x) < 1e14 ? 14u : (x) < 1e15 ? 15u : (x) < 1e16 ? 16u           \
     : (x) < 1e17 ? 17u : (x) < 1e18 ? 18u : 19u)
/* 10^n as a double, n <= 18 */
#define C12_POW10D(n)                                                                                        \
    ((n) <= 0 ? 1.0 : (n) == 1 ? 1e1 : (n) == 2 ? 1e2 : (n) == 3 ? 1e3 : (n) == 4 ? 1e4 : (n) == 5 ? 1e5       \
     : (n) == 6 ? 1e6 : (n) == 7 ? 1e7 : (n) == 8 ? 1e8 : (n) == 9 ? 1e9 : (n) == 10 ? 1e10 : (n) == 11 ? 1e11 \
     : (n) == 12 ? 1e12 : (n) == 13 ? 1e13 : (n) == 14 ? 1e14 : (n) == 15 ? 1e15 : (n) == 16 ? 1e16           \
     : (n) == 17 ? 1e17 : 1e18)

/* one step of the spec's fraction (ghost statement at the top of the loop body) */
static inline void spec_dprint_step(void)
{
    g_s = g_s * 10;
    if (g_s < 1.0)
        g_z = g_z + 1;
}

/* Region of known finding C12_dprint_fracdigits, decided on the spec's scaled fraction g_s = frac(|a|) * 10^prec
 * when the loop is done: the fraction rounds to 0 (the code then prints one digit too many), or rounding carries
 * into a further digit (0.96 at one digit: 9.6 -> 10), or no fraction digits were requested (the code prints
 * the point and one digit regardless).  kf: 0 nothing carved, 1 region excluded, 2 only the region. */
static inline void spec_dprint_frac_region(int kf, int prec)
{
    double m = (double)(long long)(g_s + 0.5);
    int r = prec <= 0 || m == 0.0 || C12_DIGITS(m) > C12_DIGITS(g_s);
    __CPROVER_assume(kf == 0 ? 1 : kf == 1 ? !r : r);
}
#endif
