/* C07: ghost state and harness helpers shared by the *toa units (igris_i64toa/u64toa + wrappers,
 * itoa/utoa/ltoa/ultoa).  All six digit loops in /repo have the same shape
 *
 *     do { remainder = ud % base; *(p++) = digit(remainder); } while (ud /= base);   -- loop 0
 *     *p = 0; p2 = p - 1; while (p1 < p2) { swap(*p1, *p2); p1++; p2--; }            -- loop 1
 *
 * Proof structure (see units/C07/NOTES.md): both loops are bounded by the width of the type
 * (<= 64 digits, <= 32 swaps) and are unwound completely.
 *  loop 0  The reference of the property (d_0 = v mod b, v_1 = v div b, ... until 0) runs in
 *          lock-step as ghost code: g_q is the reference's quotient, started from the *spec*
 *          magnitude g_mag (not from the code's ud), g_i the number of digits emitted, g_refc the
 *          reference's character for the digit with index g_j (least significant first).  Every
 *          iteration asserts ud == g_q; after that assertion the ghost step is computed from `ud`
 *          (the same value), which lets the back end share one divider between code and reference
 *          instead of proving two 64-bit dividers equivalent (which no back end finishes).
 *          After the loop one assertion ties the reference to the closed form: it emitted exactly
 *          g_len = (least n with mag < base^n) digits and p is right behind them.
 *  loop 1  in-place reversal: the harness reads the final buffer at the ghost index and compares
 *          with g_refc (g_j == g_len - 1 - g_k: the k-th character from the left is the j-th digit).
 *  cuts    `assert(c); assume(c);` pairs (iteration bound per base, digit count after loop 0) are
 *          proof cuts, not assumptions: the assert is an obligation of the same run, the assume
 *          only stops the solver from re-deriving it (cbmc's own loop-contract instrumentation
 *          and --unwinding-assertions work the same way).
 */
#ifndef C07_TOA_H
#define C07_TOA_H
#include "c07_radix.h"

uint64_t g_mag, g_q;          /* magnitude per the spec; quotient of the co-simulated reference   */
unsigned g_maxlen;            /* digits of the largest magnitude of the type: loop 0 iteration bound */
unsigned g_i, g_len;          /* digits emitted so far; number of digits per the spec               */
unsigned g_j, g_k;            /* ghost indices: digit index LS-first / MS-first (g_j == g_len-1-g_k) */
unsigned g_neg;               /* 1 iff a '-' is expected at buf[0]                                   */
unsigned g_n, g_t;            /* loop counters of the reversal / parser loops (iteration bounds)     */
char g_refc;                 /* character of the reference for the digit g_j                        */

/* Exact-size output buffer without a symbolic-size object (which costs 5-10x in the array
 * theory): a fixed array in which the n bytes the routine may touch are aligned either at the
 * start or at the end (nondeterministic).  An access below buf[0] leaves the array in the first
 * alignment, an access at or above buf[n] leaves it in the second; the routine cannot observe the
 * alignment, so every access outside [buf, buf+n) fails a bounds obligation (cbmc) / is reported
 * by ASan (replay) for one of the two choices: the same guarantee as an object of exactly n bytes. */
#define SPEC_BUFMAX 72
#define SPEC_EXACT_BUF(arr, ptr, n, at_end)                                                        \
    char arr[SPEC_BUFMAX];                                                                         \
    __CPROVER_assume((n) <= SPEC_BUFMAX);                                                          \
    char *ptr = (at_end) ? arr + (SPEC_BUFMAX - (n)) : arr

#endif
