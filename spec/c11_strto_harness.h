/* Shared checker for the six strto* units.  The unit defines, before including this file:
 *   STRTO_FN      the (renamed) function under proof, e.g. vc_strtol
 *   STRTO_T       its result type
 *   STRTO_SIGNED  1 / 0
 *   STRTO_SETS_ERANGE   1 when the code stores ERANGE on overflow (then that is checked), else 0
 *   BASE          from the unit's `params` (0, 2..36)
 * and its harness() declares the symbolic inputs (WIT ...) and passes them to strto_check().
 * Postconditions: ISO/IEC 9899 7.22.1.4 through the reference machine of c11_strto_ref.h, which the injected
 * ghost statements step over the text itself while the real loops run. */
#ifndef C11_STRTO_HARNESS_H
#define C11_STRTO_HARNESS_H

#define STRTO_BITS ((int)(sizeof(STRTO_T) * 8))

/* n: size of the text object, content: its bytes in the concretisation runs, want_end: pass &end or NULL,
 * k: ghost index for "the text is not modified" */
static void strto_check(size_t n, uchar *content, uchar want_end, size_t k)
{
#ifdef WITNESS_MODE
    __CPROVER_assume(n >= 1);
#else
    __CPROVER_assume(n >= 1 && n <= VC_MAXOBJ);
#endif
    uchar *t = NEW_OBJ(n);
#ifdef WITNESS_MODE
    __CPROVER_assume(n <= 6);
    for (size_t vc_i = 0; vc_i < n; vc_i++)
        t[vc_i] = content[vc_i];
#endif
#if VC_FALLBACK
    /* ghost-free bounded fallback (units/README.md): no ghost statement steps the reference machine, which otherwise supplies the
     * assumption that the text object extends as far as the automaton has to look: the text is a NUL-terminated string instead */
    __CPROVER_assume(t[n - 1] == 0);
#endif
    uchar at_k = k < n ? t[k] : 0;
    char sentinel;
    char *end = &sentinel;
    vc_errno = 0;
    spec_strto_reset(t, n);

    STRTO_T r = STRTO_FN((const char *)t, want_end ? &end : (char **)0, BASE);
#if VC_FALLBACK
    spec_strto_run(t, n, BASE, STRTO_BITS, STRTO_SIGNED, 0);      /* the whole reference machine as a plain loop over the (small, concrete) text */
#endif

    __CPROVER_assert(g_i < n && spec_strto_stopped(), "reference machine stands on the first character that is not part of the subject sequence");
#if STRTO_SIGNED
    __CPROVER_assert((long long)r == spec_strto_signed_result(STRTO_BITS), "ISO 7.22.1.4: value incl. sign, prefix and clamping to MIN/MAX");
#else
    __CPROVER_assert((unsigned long long)r == spec_strto_unsigned_result(STRTO_BITS), "ISO 7.22.1.4: value incl. sign (negated in the return type), prefix and clamping to MAX");
#endif
    if (want_end)
        __CPROVER_assert(end == (char *)t + spec_strto_end(), "ISO 7.22.1.4p5/p7: *endptr = first unconsumed character, nptr when no digits were consumed");
    else
        __CPROVER_assert(end == &sentinel, "endptr == NULL: nothing stored");
#if STRTO_SETS_ERANGE
    __CPROVER_assert(!g_sat || vc_errno == ERANGE, "ISO 7.22.1.4p8: ERANGE stored when the value is out of range");
    __CPROVER_assert(g_sat || !g_any || vc_errno == 0, "errno untouched by a successful conversion");
#endif
    __CPROVER_assert(!(k < n) || t[k] == at_k, "the text is not modified");
    CANARY("strto harness end reachable");
}
#endif
