/* C02 — C stand-ins for the libstdc++ algorithms igris/container/vector.h calls (cxx2c rule R8), at
 * iterator type ELEM* and value type ELEM (spec/elem_lifetime.h).  Each states the ISO C++ element-wise behaviour
 * ([alg.move], [alg.copy], [alg.lex.comparison], [iterator.operations]) in terms of the ELEM_* protocol functions;
 * libstdc++ is TRUSTED to behave like this.
 *
 * An overlap that ISO forbids and that would change the result is asserted ("std:" group) and the path is then cut
 * (behaviour undefined).  The stubs model ranges inside ONE block (all igris::vector uses are). */
#ifndef C02_STD_ALGO_H
#define C02_STD_ALGO_H
#include <stddef.h>

size_t g_j;                 /* second tracked slot index (value bookkeeping: harnesses tie it to g_k +- shift) */

/* The three shifting algorithms  std::move_backward / std::move / std::copy  on a range inside one block.
 * ISO ([alg.move], [alg.copy]): for n = 0..N-1 (move_backward: n = 1..N from the back), in this order,
 *      *(d_first + n) = std::move(*(first + n))      resp.  = *(first + n).
 * Natively (REPLAY) that loop runs as written.  Under cbmc the element-wise loop over a symbolic-size block is
 * replaced by its effect ON THE TRACKED SLOTS (g_k, g_j; c02_vec.h), stated with the same ELEM_* protocol calls:
 * a slot g of the source range [F, L) is read / moved from once (event S), a slot of the destination range
 * [Dlo, Dlo+N) is assigned once (event A) from the slot g - Dlo + F; for a slot in both ranges the order of its two
 * events is the order of the loop (forward: S first iff Dlo < F; backward: S first iff F < Dlo; Dlo == F: one
 * self-assignment).  Under the ISO precondition (destination start not inside the source range, asserted) a source
 * slot still holds its pre-state VALUE when it is read.  Every other slot of the block is havocked (its content is
 * unknown to the proof).  The partner of an event is a scratch element (LIVE; the partner's own obligations are
 * checked when the partner is the tracked slot).  units/C02/algo_sparse_vs_loop.c cross-checks this summary against
 * the element-wise loop on blocks of up to 4 slots (bounded). */
#ifdef REPLAY
#define C02_ALGO_LOOPS 1
#endif
struct c02_shift { size_t NS, F, L, N, Dlo; int is_move, backward; };
/* the events of slot g, applied to a local copy *slot of it (one array read before, one array write after) */
static inline void c02_shift_slot(ELEM *slot, const struct c02_shift *h, size_t g, int vsrc)
{
    ELEM scratch;
    _Bool inS = g >= h->F && g < h->L, inA = g >= h->Dlo && g - h->Dlo < h->N;
    _Bool s_first = h->backward ? h->F < h->Dlo : h->Dlo < h->F;
    if (inS && inA && h->Dlo == h->F) {                 /* *p = std::move(*p) / *p = *p */
        if (h->is_move) ELEM_move_assign(slot, slot); else ELEM_copy_assign(slot, slot);
        return;
    }
    if (inS && (s_first || !inA)) {
        ELEM_SET(&scratch, ELEM_LIVE, 0);
        if (h->is_move) ELEM_move_assign(&scratch, slot); else ELEM_copy_assign(&scratch, slot);
    }
    if (inA) {
        ELEM_SET(&scratch, ELEM_LIVE, vsrc);
        if (h->is_move) ELEM_move_assign(slot, &scratch); else ELEM_copy_assign(slot, &scratch);
    }
    if (inS && inA && !s_first) {
        ELEM_SET(&scratch, ELEM_LIVE, 0);
        if (h->is_move) ELEM_move_assign(&scratch, slot); else ELEM_copy_assign(&scratch, slot);
    }
}
/* the element-wise loop, as ISO writes it */
static inline void c02_shift_loop(ELEM *first, ELEM *d_lo, size_t N, int is_move, int backward)
{
    if (backward) for (size_t n = 0; n < N; n++) { if (is_move) ELEM_move_assign(d_lo + (N - 1 - n), first + (N - 1 - n)); else ELEM_copy_assign(d_lo + (N - 1 - n), first + (N - 1 - n)); }
    else for (size_t n = 0; n < N; n++) { if (is_move) ELEM_move_assign(d_lo + n, first + n); else ELEM_copy_assign(d_lo + n, first + n); }
}
/* its effect on the tracked slots, everything else havocked (cbmc) */
static inline void c02_shift_sparse(ELEM *first, ELEM *last, ELEM *d_lo, size_t N, int is_move, int backward)
{
    ELEM *base = C02_BASE(first);
    struct c02_shift h = { C02_NSLOTS(first), C02_IDX(first), C02_IDX(last), N, C02_IDX(d_lo), is_move, backward };
    /* ISO: backward: d_last not in (first, last]; forward: d_first not in [first, last) - except the harmless self-assignment Dlo == F */
    __CPROVER_assert(N == 0 || h.Dlo == h.F || (backward ? !(h.Dlo + N > h.F && h.Dlo < h.F) : !(h.Dlo > h.F && h.Dlo < h.L)),
                     "std: move / move_backward / copy: the destination does not start inside the source range in copy direction (ISO precondition)");
    if (!(N == 0 || h.Dlo == h.F || (backward ? !(h.Dlo + N > h.F && h.Dlo < h.F) : !(h.Dlo > h.F && h.Dlo < h.L)))) __CPROVER_assume(0);
    __CPROVER_assert(h.L <= h.NS && h.Dlo + N <= h.NS, "bounds: move / move_backward / copy: source and destination range inside the block");
    if (!(h.L <= h.NS && h.Dlo + N <= h.NS)) __CPROVER_assume(0);
    if (N == 0) return;
    /* local copies of the tracked slots, pre-state values of their source slots */
#ifdef C02_NO_J
    _Bool exk = g_k < h.NS, exj = 0;
#else
    _Bool exk = g_k < h.NS, exj = g_j < h.NS && g_j != g_k;
#endif
    ELEM ck, cj, sk, sj;
    ck.g_bits = exk ? base[g_k].g_bits : 0; cj.g_bits = exj ? base[g_j].g_bits : 0;
    sk.g_bits = (exk && g_k >= h.Dlo && g_k - h.Dlo < N) ? base[g_k - h.Dlo + h.F].g_bits : 0;
    sj.g_bits = (exj && g_j >= h.Dlo && g_j - h.Dlo < N) ? base[g_j - h.Dlo + h.F].g_bits : 0;
    /* the copy of slot g_k is checked exactly as the slot itself would be (same waiver) */
    g_solo2 = (exk && !C02_WAIVED(&base[g_k])) ? &ck : 0;
    if (exk) c02_shift_slot(&ck, &h, g_k, ELEM_V(&sk));
    g_solo2 = 0;
    if (exj) c02_shift_slot(&cj, &h, g_j, ELEM_V(&sj));
    __CPROVER_havoc_object(base);
    if (exk) base[g_k] = ck;
    if (exj) base[g_j] = cj;
}
/* common part: valid range, then the loop (native replay) or the sparse effect (cbmc) */
static inline void c02_shift(ELEM *first, ELEM *last, ELEM *d_lo, int is_move, int backward, const char *unused)
{
    (void)unused;
    __CPROVER_assert(__CPROVER_same_object(first, last) && __CPROVER_same_object(first, d_lo), "spec: std algorithm stub models ranges inside one block");
    __CPROVER_assert(first <= last, "std: move / move_backward / copy: [first, last) is a valid range");
    if (!(first <= last)) __CPROVER_assume(0);
    size_t N = (size_t)(last - first);
#ifdef C02_ALGO_LOOPS
    c02_shift_loop(first, d_lo, N, is_move, backward);
#else
    c02_shift_sparse(first, last, d_lo, N, is_move, backward);
#endif
}
/* std::move_backward(first, last, d_last): for n = 1..N  *(d_last - n) = std::move(*(last - n)); returns d_last - N */
static inline ELEM *c02_std_move_backward(ELEM *first, ELEM *last, ELEM *d_last)
{
    c02_shift(first, last, d_last - (last - first), 1, 1, "move_backward");
    return d_last - (last - first);
}
/* std::move(first, last, d_first): for n = 0..N-1  *(d_first + n) = std::move(*(first + n)); returns d_first + N */
static inline ELEM *c02_std_move(ELEM *first, ELEM *last, ELEM *d_first)
{
    c02_shift(first, last, d_first, 1, 0, "move");
    return d_first + (last - first);
}
/* std::copy(first, last, d_first): for n = 0..N-1  *(d_first + n) = *(first + n); returns d_first + N */
static inline ELEM *c02_std_copy(const ELEM *first, const ELEM *last, ELEM *d_first)
{
    c02_shift((ELEM *)first, (ELEM *)last, d_first, 0, 0, "copy");
    return d_first + (last - first);
}

/* std::distance / std::prev on random access iterators */
static inline ptrdiff_t c02_std_distance(const ELEM *first, const ELEM *last) { return last - first; }
static inline ELEM *c02_std_prev(ELEM *it, ptrdiff_t n) { return it - n; }

/* std::lexicographical_compare(f1, l1, f2, l2) with operator< of the value type ([alg.lex.comparison]);
 * g_lex_m = number of leading positions found equivalent (ghost, for the harness' reference statement) */
size_t g_lex_m;
static inline bool c02_std_lexicographical_compare(const ELEM *f1, const ELEM *l1, const ELEM *f2, const ELEM *l2)
{
    /* random access iterators: the loop `for (; f1 != l1 && f2 != l2; ++f1, ++f2)` in index form */
    size_t n1 = (size_t)c02_ptr_diff(l1, f1), n2 = (size_t)c02_ptr_diff(l2, f2);
    size_t n = n1 < n2 ? n1 : n2;
    g_lex_m = 0;
    for (size_t i = 0; i < n; i++)
    __CPROVER_assigns(i, g_lex_m)
    __CPROVER_loop_invariant(i <= n && g_lex_m == i)
    __CPROVER_loop_invariant(!(g_k < i) || ELEM_V(&f1[g_k]) == ELEM_V(&f2[g_k]))
    __CPROVER_decreases(n - i)
    {
        if (ELEM_value(&f1[i]) < ELEM_value(&f2[i])) return true;
        if (ELEM_value(&f2[i]) < ELEM_value(&f1[i])) return false;
        g_lex_m = i + 1;
    }
    return n1 < n2;
}
#endif
