/* C02 — C stand-ins for the libstdc++ algorithms igris/container/vector.h calls (cxx2c rule R8), at
 * iterator type ELEM* and value type ELEM (spec/elem_lifetime.h).  Each states the ISO C++ element-wise behaviour
 * ([alg.move], [alg.copy], [alg.lex.comparison], [iterator.operations]) in terms of the ELEM_* protocol functions;
 * libstdc++ is TRUSTED to behave like this.
 *
 * The loops carry their own loop contracts (two tracked slot indices g_k / g_j, see c02_vec.h): after n steps
 * the tracked slot is "assigned" (LIVE, value of its pre-state source slot), "moved-from" or still in its
 * pre-state.  An overlap that ISO forbids and that would change the result is asserted ("std:" group) and the path
 * is then cut (behaviour undefined).  The stubs model ranges inside ONE block (all igris::vector uses are). */
#ifndef C02_STD_ALGO_H
#define C02_STD_ALGO_H
#include <stddef.h>

size_t g_j;                 /* second tracked slot index (value bookkeeping: harnesses tie it to g_k +- shift) */

/* pre-state snapshot of the slot at relative index r of the range base `first` (cbmc only; guarded deref) */
#ifdef REPLAY
#define C02_REL(first, gi) ((ptrdiff_t)0)
#define C02_BLK_SLOTS(first) ((ptrdiff_t)0)
#else
#define C02_REL(first, gi) ((ptrdiff_t)(gi) - (ptrdiff_t)C02_IDX(first))
#define C02_BLK_SLOTS(first) ((ptrdiff_t)(__CPROVER_OBJECT_SIZE(first) C02_SHR))
#endif
/* the slot with relative index r exists in the block that holds `first` */
#define C02_EXISTS(first, r) ((r) + (ptrdiff_t)C02_IDX(first) >= 0 && (r) + (ptrdiff_t)C02_IDX(first) < C02_BLK_SLOTS(first))

/* state of one tracked slot (relative index kk) after n steps of a shifting assignment loop
 *   asg: slot already assigned   mov: slot already moved-from (only for move loops)   */
#define C02_SHIFT_INV(first, kk, ex, asg, mov, s, vsrc, st0, v0)                                              \
    (!(ex) || C02_IS(&(first)[kk], ((asg) && (s) != 0) ? ELEM_LIVE : ((mov) && !(asg)) ? ELEM_MOVED : (st0),             \
                     ((asg) && (s) != 0) ? (vsrc) : (v0)))

/* std::move_backward(first, last, d_last): for n = 1..N  *(d_last - n) = std::move(*(last - n)); returns d_last - N */
static inline ELEM *c02_std_move_backward(ELEM *first, ELEM *last, ELEM *d_last)
{
    __CPROVER_assert(__CPROVER_same_object(first, last) && __CPROVER_same_object(first, d_last), "spec: std algorithm stub models ranges inside one block");
    __CPROVER_assert(first <= last, "std: move_backward: [first, last) is a valid range");
    ptrdiff_t N = last - first, s = d_last - last;
    __CPROVER_assert(!(N > 0 && s < 0 && -s < N), "std: move_backward: d_last not inside (first, last) (ISO precondition)");
    if (N < 0 || (N > 0 && s < 0 && -s < N)) __CPROVER_assume(0);
    /* relative indices: source [0, N), destination [s, N + s) */
    ptrdiff_t ka = C02_REL(first, g_k), kb = C02_REL(first, g_j);
    _Bool exa = C02_EXISTS(first, ka), exb = C02_EXISTS(first, kb);
    _Bool sea = exa && C02_EXISTS(first, ka - s), seb = exb && C02_EXISTS(first, kb - s);
    ELEM ea, eb, eas, ebs;
    ea.g_bits = exa ? first[ka].g_bits : 0; eb.g_bits = exb ? first[kb].g_bits : 0;
    eas.g_bits = sea ? first[ka - s].g_bits : 0; ebs.g_bits = seb ? first[kb - s].g_bits : 0;
    unsigned char sa0 = ELEM_ST(&ea), sb0 = ELEM_ST(&eb);
    int va0 = ELEM_V(&ea), vb0 = ELEM_V(&eb), vas = ELEM_V(&eas), vbs = ELEM_V(&ebs);
    for (ptrdiff_t n = 0; n < N; n++)
    __CPROVER_assigns(n, __CPROVER_object_whole(first))
    __CPROVER_loop_invariant(0 <= n && n <= N)
    __CPROVER_loop_invariant(C02_SHIFT_INV(first, ka, exa, ka >= s && ka < N + s && ka >= N + s - n, ka >= 0 && ka < N && ka >= N - n, s, vas, sa0, va0))
    __CPROVER_loop_invariant(C02_SHIFT_INV(first, kb, exb, kb >= s && kb < N + s && kb >= N + s - n, kb >= 0 && kb < N && kb >= N - n, s, vbs, sb0, vb0))
    __CPROVER_decreases(N - n)
    {
        ELEM_move_assign(first + (N + s - 1 - n), first + (N - 1 - n));
    }
    return d_last - N;
}

/* std::move(first, last, d_first): for n = 0..N-1  *(d_first + n) = std::move(*(first + n)); returns d_first + N */
static inline ELEM *c02_std_move(ELEM *first, ELEM *last, ELEM *d_first)
{
    __CPROVER_assert(__CPROVER_same_object(first, last) && __CPROVER_same_object(first, d_first), "spec: std algorithm stub models ranges inside one block");
    __CPROVER_assert(first <= last, "std: move: [first, last) is a valid range");
    ptrdiff_t N = last - first, s = d_first - first;
    __CPROVER_assert(!(s > 0 && s < N), "std: move: d_first not inside (first, last) (ISO precondition)");
    if (N < 0 || (s > 0 && s < N)) __CPROVER_assume(0);
    ptrdiff_t ka = C02_REL(first, g_k), kb = C02_REL(first, g_j);
    _Bool exa = C02_EXISTS(first, ka), exb = C02_EXISTS(first, kb);
    _Bool sea = exa && C02_EXISTS(first, ka - s), seb = exb && C02_EXISTS(first, kb - s);
    ELEM ea, eb, eas, ebs;
    ea.g_bits = exa ? first[ka].g_bits : 0; eb.g_bits = exb ? first[kb].g_bits : 0;
    eas.g_bits = sea ? first[ka - s].g_bits : 0; ebs.g_bits = seb ? first[kb - s].g_bits : 0;
    unsigned char sa0 = ELEM_ST(&ea), sb0 = ELEM_ST(&eb);
    int va0 = ELEM_V(&ea), vb0 = ELEM_V(&eb), vas = ELEM_V(&eas), vbs = ELEM_V(&ebs);
    for (ptrdiff_t n = 0; n < N; n++)
    __CPROVER_assigns(n, __CPROVER_object_whole(first))
    __CPROVER_loop_invariant(0 <= n && n <= N)
    __CPROVER_loop_invariant(C02_SHIFT_INV(first, ka, exa, ka >= s && ka < s + n, ka >= 0 && ka < n, s, vas, sa0, va0))
    __CPROVER_loop_invariant(C02_SHIFT_INV(first, kb, exb, kb >= s && kb < s + n, kb >= 0 && kb < n, s, vbs, sb0, vb0))
    __CPROVER_decreases(N - n)
    {
        ELEM_move_assign(first + (s + n), first + n);
    }
    return d_first + N;
}

/* std::copy(first, last, d_first): for n = 0..N-1  *(d_first + n) = *(first + n); returns d_first + N */
static inline ELEM *c02_std_copy(const ELEM *first_c, const ELEM *last, ELEM *d_first)
{
    ELEM *first = (ELEM *)first_c;
    __CPROVER_assert(__CPROVER_same_object(first, last) && __CPROVER_same_object(first, d_first), "spec: std algorithm stub models ranges inside one block");
    __CPROVER_assert(first <= last, "std: copy: [first, last) is a valid range");
    ptrdiff_t N = last - first, s = d_first - first;
    __CPROVER_assert(!(s > 0 && s < N), "std: copy: d_first not inside (first, last) (ISO precondition)");
    if (N < 0 || (s > 0 && s < N)) __CPROVER_assume(0);
    ptrdiff_t ka = C02_REL(first, g_k), kb = C02_REL(first, g_j);
    _Bool exa = C02_EXISTS(first, ka), exb = C02_EXISTS(first, kb);
    _Bool sea = exa && C02_EXISTS(first, ka - s), seb = exb && C02_EXISTS(first, kb - s);
    ELEM ea, eb, eas, ebs;
    ea.g_bits = exa ? first[ka].g_bits : 0; eb.g_bits = exb ? first[kb].g_bits : 0;
    eas.g_bits = sea ? first[ka - s].g_bits : 0; ebs.g_bits = seb ? first[kb - s].g_bits : 0;
    unsigned char sa0 = ELEM_ST(&ea), sb0 = ELEM_ST(&eb);
    int va0 = ELEM_V(&ea), vb0 = ELEM_V(&eb), vas = ELEM_V(&eas), vbs = ELEM_V(&ebs);
    for (ptrdiff_t n = 0; n < N; n++)
    __CPROVER_assigns(n, __CPROVER_object_whole(first))
    __CPROVER_loop_invariant(0 <= n && n <= N)
    __CPROVER_loop_invariant(C02_SHIFT_INV(first, ka, exa, ka >= s && ka < s + n, 0, s, vas, sa0, va0))
    __CPROVER_loop_invariant(C02_SHIFT_INV(first, kb, exb, kb >= s && kb < s + n, 0, s, vbs, sb0, vb0))
    __CPROVER_decreases(N - n)
    {
        ELEM_copy_assign(first + (s + n), first + n);
    }
    return d_first + N;
}

/* std::distance / std::prev on random access iterators */
static inline ptrdiff_t c02_std_distance(const ELEM *first, const ELEM *last) { return last - first; }
static inline ELEM *c02_std_prev(ELEM *it, ptrdiff_t n) { return it - n; }

/* std::lexicographical_compare(f1, l1, f2, l2) with operator< of the value type ([alg.lex.comparison]);
 * g_lex_m = number of leading positions found equivalent (ghost, for the harness' reference statement) */
size_t g_lex_m;
static inline bool c02_std_lexicographical_compare(const ELEM *f1, const ELEM *l1, const ELEM *f2, const ELEM *l2)
{
    const ELEM *b1 = f1, *b2 = f2;
    g_lex_m = 0;
    for (; f1 != l1 && f2 != l2; ++f1, ++f2)
    __CPROVER_assigns(f1, f2, g_lex_m)
    __CPROVER_loop_invariant(__CPROVER_same_object(f1, l1) && __CPROVER_same_object(f2, l2) && f1 <= l1 && f2 <= l2)
    __CPROVER_loop_invariant(f1 - b1 == f2 - b2 && g_lex_m == (size_t)(f1 - b1))
    __CPROVER_loop_invariant(!(g_k < g_lex_m) || ELEM_V(&b1[g_k]) == ELEM_V(&b2[g_k]))
    __CPROVER_decreases(l1 - f1)
    {
        if (ELEM_value(f1) < ELEM_value(f2)) return true;
        if (ELEM_value(f2) < ELEM_value(f1)) return false;
        g_lex_m++;
    }
    return f1 == l1 && f2 != l2;
}
#endif
