/* C02 — C stand-ins for the libstdc++ algorithms igris/container/vector.h calls (cxx2c rule R8), at
 * iterator type ELEM* and value type ELEM (spec/elem_lifetime.h).  Each states the ISO C++ element-wise behaviour
 * ([alg.move], [alg.copy], [alg.lex.comparison], [iterator.operations]) in terms of the ELEM_* protocol functions;
 * libstdc++ is TRUSTED to behave like this.
 *
 * An overlap that ISO forbids and that would change the result is asserted ("std:" group) and the path is then cut
 * (behaviour undefined).  The stubs model ranges inside ONE block (all igris::vector uses are). */
#ifndef C02_STD_ALGO_H
#define C02_STD_ALGO_H
#include <stddef.h>

size_t g_j;                 /* second tracked slot index (value bookkeeping: harnesses tie it to g_k +- shift) */

/* Type traits of the element type.  `std::is_trivially_copyable<T>::value` and friends are rewritten to C02_T_TRIVIAL; a unit
 * runs with C02_T_TRIVIAL=1 to verify code paths taken for "plain data" element types.  A trivially copyable T need not have
 * bytewise equality (double: 0.0 == -0.0, NaN != NaN; a POD with a user-defined operator==): with C02_T_TRIVIAL set the
 * element's operator== ignores value bit 0, so a fast path that replaces T's == by a byte comparison is a visible difference. */
#ifndef C02_T_TRIVIAL
#define C02_T_TRIVIAL 0
#endif
#define C02_EQ_MASK (C02_T_TRIVIAL ? 0x3E : 0x3F)
#define C02_VEQ(a, b) ((((a) ^ (b)) & C02_EQ_MASK) == 0)                 /* T::operator== on two element values */
#define C02_ELEM_EQ(p, q) C02_VEQ(ELEM_value(p), ELEM_value(q))          /* *p == *q (reads both elements: both must be LIVE) */
const ELEM *g_eq_it;        /* ghost: where an element-wise comparison (operator== loop, std::equal, memcmp) found a difference */

/* The three shifting algorithms  std::move_backward / std::move / std::copy  on a range inside one block.
 * ISO ([alg.move], [alg.copy]): for n = 0..N-1 (move_backward: n = 1..N from the back), in this order,
 *      *(d_first + n) = std::move(*(first + n))      resp.  = *(first + n).
 * Natively (REPLAY) that loop runs as written.  Under cbmc the element-wise loop over a symbolic-size block is
 * replaced by its effect ON THE TRACKED SLOTS (g_k, g_j; c02_vec.h), stated with the same ELEM_* protocol calls:
 * a slot g of the source range [F, L) is read / moved from once (event S), a slot of the destination range
 * [Dlo, Dlo+N) is assigned once (event A) from the slot g - Dlo + F; for a slot in both ranges the order of its two
 * events is the order of the loop (forward: S first iff Dlo < F; backward: S first iff F < Dlo; Dlo == F: one
 * self-assignment).  Under the ISO precondition (destination start not inside the source range, asserted) a source
 * slot still holds its pre-state VALUE when it is read.  Every other slot of the block is havocked (its content is
 * unknown to the proof).  The partner of an event is a scratch element (LIVE; the partner's own obligations are
 * checked when the partner is the tracked slot).  units/C02/algo_sparse_vs_loop.c cross-checks this summary against
 * the element-wise loop on blocks of up to 4 slots (bounded). */
#ifdef REPLAY
#define C02_ALGO_LOOPS 1
#endif
struct c02_shift { size_t NS, F, L, N, Dlo; int is_move, backward; };
/* the events of slot g, applied to a local copy *slot of it (one array read before, one array write after) */
static inline void c02_shift_slot(ELEM *slot, const struct c02_shift *h, size_t g, int vsrc)
{
    ELEM scratch;
    _Bool inS = g >= h->F && g < h->L, inA = g >= h->Dlo && g - h->Dlo < h->N;
    _Bool s_first = h->backward ? h->F < h->Dlo : h->Dlo < h->F;
    if (inS && inA && h->Dlo == h->F) {                 /* *p = std::move(*p) / *p = *p */
        if (h->is_move) ELEM_move_assign(slot, slot); else ELEM_copy_assign(slot, slot);
        return;
    }
    if (inS && (s_first || !inA)) {
        ELEM_SET(&scratch, ELEM_LIVE, 0);
        if (h->is_move) ELEM_move_assign(&scratch, slot); else ELEM_copy_assign(&scratch, slot);
    }
    if (inA) {
        ELEM_SET(&scratch, ELEM_LIVE, vsrc);
        if (h->is_move) ELEM_move_assign(slot, &scratch); else ELEM_copy_assign(slot, &scratch);
    }
    if (inS && inA && !s_first) {
        ELEM_SET(&scratch, ELEM_LIVE, 0);
        if (h->is_move) ELEM_move_assign(&scratch, slot); else ELEM_copy_assign(&scratch, slot);
    }
}
/* the element-wise loop, as ISO writes it */
static inline void c02_shift_loop(ELEM *first, ELEM *d_lo, size_t N, int is_move, int backward)
{
    if (backward) for (size_t n = 0; n < N; n++) { if (is_move) ELEM_move_assign(d_lo + (N - 1 - n), first + (N - 1 - n)); else ELEM_copy_assign(d_lo + (N - 1 - n), first + (N - 1 - n)); }
    else for (size_t n = 0; n < N; n++) { if (is_move) ELEM_move_assign(d_lo + n, first + n); else ELEM_copy_assign(d_lo + n, first + n); }
}
/* its effect on the tracked slots, everything else havocked (cbmc) */
static inline void c02_shift_sparse(ELEM *first, ELEM *last, ELEM *d_lo, size_t N, int is_move, int backward)
{
    ELEM *base = C02_BASE(first);
    struct c02_shift h = { C02_NSLOTS(first), C02_IDX(first), C02_IDX(last), N, C02_IDX(d_lo), is_move, backward };
    /* ISO: backward: d_last not in (first, last]; forward: d_first not in [first, last) - except the harmless self-assignment Dlo == F */
    __CPROVER_assert(N == 0 || h.Dlo == h.F || (backward ? !(h.Dlo + N > h.F && h.Dlo < h.F) : !(h.Dlo > h.F && h.Dlo < h.L)),
                     "std: move / move_backward / copy: the destination does not start inside the source range in copy direction (ISO precondition)");
    if (!(N == 0 || h.Dlo == h.F || (backward ? !(h.Dlo + N > h.F && h.Dlo < h.F) : !(h.Dlo > h.F && h.Dlo < h.L)))) __CPROVER_assume(0);
    __CPROVER_assert(h.L <= h.NS && h.Dlo + N <= h.NS, "bounds: move / move_backward / copy: source and destination range inside the block");
    if (!(h.L <= h.NS && h.Dlo + N <= h.NS)) __CPROVER_assume(0);
    if (N == 0) return;
    /* local copies of the tracked slots, pre-state values of their source slots */
#ifdef C02_NO_J
    _Bool exk = g_k < h.NS, exj = 0;
#else
    _Bool exk = g_k < h.NS, exj = g_j < h.NS && g_j != g_k;
#endif
    ELEM ck, cj, sk, sj;
    ck.g_bits = exk ? base[g_k].g_bits : 0; cj.g_bits = exj ? base[g_j].g_bits : 0;
    sk.g_bits = (exk && g_k >= h.Dlo && g_k - h.Dlo < N) ? base[g_k - h.Dlo + h.F].g_bits : 0;
    sj.g_bits = (exj && g_j >= h.Dlo && g_j - h.Dlo < N) ? base[g_j - h.Dlo + h.F].g_bits : 0;
    /* the copy of slot g_k is checked exactly as the slot itself would be (same waiver) */
    g_solo2 = (exk && !C02_WAIVED(&base[g_k])) ? &ck : 0;
    if (exk) c02_shift_slot(&ck, &h, g_k, ELEM_V(&sk));
    g_solo2 = 0;
    if (exj) c02_shift_slot(&cj, &h, g_j, ELEM_V(&sj));
    __CPROVER_havoc_object(base);
    if (exk) base[g_k] = ck;
    if (exj) base[g_j] = cj;
}
/* source range and destination in DIFFERENT blocks (e.g. std::copy(other.begin(), other.end(), m_data)): no overlap question; the
 * tracked slot of the destination block is assigned once from source slot g_k - Dlo + F, the tracked slot of the source block is
 * read (copy) / moved from (move) once; the destination block (for move also the source block) is otherwise havocked */
static inline void c02_shift_cross(ELEM *first, ELEM *last, ELEM *d_lo, size_t N, int is_move)
{
    ELEM *sb = C02_BASE(first), *db = C02_BASE(d_lo);
    size_t F = C02_IDX(first), L = C02_IDX(last), Dlo = C02_IDX(d_lo), SNS = C02_NSLOTS(first), DNS = C02_NSLOTS(d_lo);
    __CPROVER_assert(L <= SNS && Dlo + N <= DNS, "bounds: move / copy: source and destination range inside their blocks");
    if (!(L <= SNS && Dlo + N <= DNS)) __CPROVER_assume(0);
    if (N == 0) return;
    _Bool dk = g_k < DNS, sk = g_k < SNS;
    _Bool dA = dk && g_k >= Dlo && g_k - Dlo < N, sS = sk && g_k >= F && g_k < L;
    ELEM cd, cs, src, scratch;
    cd.g_bits = dk ? db[g_k].g_bits : 0; cs.g_bits = sk ? sb[g_k].g_bits : 0;
    src.g_bits = dA ? sb[g_k - Dlo + F].g_bits : 0;
    if (sS) {                                   /* event S on the source block's tracked slot */
        g_solo2 = &cs; ELEM_SET(&scratch, ELEM_LIVE, 0);
        if (is_move) ELEM_move_assign(&scratch, &cs); else ELEM_copy_assign(&scratch, &cs);
    }
    if (dA) {                                   /* event A on the destination block's tracked slot */
        g_solo2 = C02_WAIVED(&db[g_k]) ? 0 : &cd; ELEM_SET(&scratch, ELEM_LIVE, ELEM_V(&src));
        if (is_move) ELEM_move_assign(&cd, &scratch); else ELEM_copy_assign(&cd, &scratch);
    }
    g_solo2 = 0;
    __CPROVER_havoc_object(db);
    if (dk) db[g_k] = cd;
    if (is_move) { __CPROVER_havoc_object(sb); if (sk) sb[g_k] = cs; }
}
/* common part: valid range, then the loop (native replay) or the sparse effect (cbmc) */
static inline void c02_shift(ELEM *first, ELEM *last, ELEM *d_lo, int is_move, int backward, const char *unused)
{
    (void)unused;
    __CPROVER_assert(__CPROVER_same_object(first, last), "std: move / move_backward / copy: [first, last) is a range of one block");
    __CPROVER_assert(c02_ptr_diff(last, first) >= 0, "std: move / move_backward / copy: [first, last) is a valid range");
    if (!(c02_ptr_diff(last, first) >= 0)) __CPROVER_assume(0);
    size_t N = (size_t)c02_ptr_diff(last, first);
#ifdef C02_ALGO_LOOPS
    c02_shift_loop(first, d_lo, N, is_move, backward);
#else
    if (N == 0) return;
    if (__CPROVER_same_object(first, d_lo)) c02_shift_sparse(first, last, d_lo, N, is_move, backward);
    else c02_shift_cross(first, last, d_lo, N, is_move);
#endif
}
/* std::move_backward(first, last, d_last): for n = 1..N  *(d_last - n) = std::move(*(last - n)); returns d_last - N */
static inline ELEM *c02_std_move_backward(ELEM *first, ELEM *last, ELEM *d_last)
{
    c02_shift(first, last, d_last - c02_ptr_diff(last, first), 1, 1, "move_backward");
    return d_last - c02_ptr_diff(last, first);
}
/* std::move(first, last, d_first): for n = 0..N-1  *(d_first + n) = std::move(*(first + n)); returns d_first + N */
static inline ELEM *c02_std_move(ELEM *first, ELEM *last, ELEM *d_first)
{
    c02_shift(first, last, d_first, 1, 0, "move");
    return d_first + c02_ptr_diff(last, first);
}
/* std::copy(first, last, d_first): for n = 0..N-1  *(d_first + n) = *(first + n); returns d_first + N */
static inline ELEM *c02_std_copy(const ELEM *first, const ELEM *last, ELEM *d_first)
{
    c02_shift((ELEM *)first, (ELEM *)last, d_first, 0, 0, "copy");
    return d_first + c02_ptr_diff(last, first);
}

/* std::copy_n(first, n, d_first) == std::copy(first, first + n, d_first) */
static inline ELEM *c02_std_copy_n(const ELEM *first, size_t n, ELEM *d_first)
{
    c02_shift((ELEM *)first, (ELEM *)first + n, d_first, 0, 0, "copy_n");
    return d_first + n;
}
/* element-wise comparisons.  Result r and, for "different", a witness position g_eq_it:
 *   r == equal      => the elements at the tracked index are equal (arbitrary index => all)
 *   r == different  => the elements at g_eq_it differ
 * (libstdc++ / libc trusted; natively the loops run as written).  std::equal uses T::operator== and READS the elements (lifetime
 * protocol); memcmp compares the object representation = the full value (the ghost lifetime bits are not part of the value). */
static inline bool c02_std_equal(const ELEM *f1, const ELEM *l1, const ELEM *f2)
{
    size_t n = (size_t)c02_ptr_diff(l1, f1);
#ifdef REPLAY
    for (size_t i = 0; i < n; i++) if (!C02_ELEM_EQ(&f1[i], &f2[i])) { g_eq_it = &f1[i]; return false; }
    return true;
#else
    size_t F1 = C02_IDX(f1), F2 = C02_IDX(f2);
    __CPROVER_assert(n == 0 || (F1 + n <= C02_NSLOTS(f1) && F2 + n <= C02_NSLOTS(f2)), "bounds: std::equal: both ranges inside their blocks");
    if (!(n == 0 || (F1 + n <= C02_NSLOTS(f1) && F2 + n <= C02_NSLOTS(f2)))) __CPROVER_assume(0);
    _Bool r = nondet__Bool();
    size_t d = nondet_size_t();
    if (r) {
        if (g_k >= F1 && g_k - F1 < n) __CPROVER_assume(C02_ELEM_EQ(&C02_BASE(f1)[g_k], &f2[g_k - F1]));
        else if (g_k >= F2 && g_k - F2 < n) __CPROVER_assume(C02_ELEM_EQ(&f1[g_k - F2], &C02_BASE(f2)[g_k]));
    } else {
        __CPROVER_assume(d < n && !C02_ELEM_EQ(&f1[d], &f2[d]));
        g_eq_it = &f1[d];
    }
    return r;
#endif
}
static inline int c02_memcmp(const void *a, const void *b, size_t nbytes)
{
    const ELEM *p = (const ELEM *)a, *q = (const ELEM *)b;
    size_t n = nbytes / sizeof(ELEM);
#ifdef REPLAY
    for (size_t i = 0; i < n; i++) if (ELEM_V(&p[i]) != ELEM_V(&q[i])) { g_eq_it = &p[i]; return ELEM_V(&p[i]) < ELEM_V(&q[i]) ? -1 : 1; }
    return 0;
#else
    __CPROVER_assert(n == 0 || (C02_IDX(p) + n <= C02_NSLOTS(p) && C02_IDX(q) + n <= C02_NSLOTS(q)), "bounds: memcmp: both ranges inside their blocks");
    if (!(n == 0 || (C02_IDX(p) + n <= C02_NSLOTS(p) && C02_IDX(q) + n <= C02_NSLOTS(q)))) __CPROVER_assume(0);
    int r = nondet_int();
    size_t d = nondet_size_t();
    if (r == 0) {
        if (g_k >= C02_IDX(p) && g_k - C02_IDX(p) < n) __CPROVER_assume(ELEM_V(&C02_BASE(p)[g_k]) == ELEM_V(&q[g_k - C02_IDX(p)]));
    } else {
        __CPROVER_assume(d < n && ELEM_V(&p[d]) != ELEM_V(&q[d]));
        g_eq_it = &p[d];
    }
    return r;
#endif
}

/* std::distance / std::prev on random access iterators */
static inline ptrdiff_t c02_std_distance(const ELEM *first, const ELEM *last) { return last - first; }
static inline ELEM *c02_std_prev(ELEM *it, ptrdiff_t n) { return it - n; }

/* std::lexicographical_compare(f1, l1, f2, l2) with operator< of the value type ([alg.lex.comparison]);
 * g_lex_m = number of leading positions found equivalent (ghost, for the harness' reference statement) */
size_t g_lex_m;
static inline bool c02_std_lexicographical_compare(const ELEM *f1, const ELEM *l1, const ELEM *f2, const ELEM *l2)
{
    /* random access iterators: the loop `for (; f1 != l1 && f2 != l2; ++f1, ++f2)` in index form */
    size_t n1 = (size_t)c02_ptr_diff(l1, f1), n2 = (size_t)c02_ptr_diff(l2, f2);
    size_t n = n1 < n2 ? n1 : n2;
    g_lex_m = 0;
    for (size_t i = 0; i < n; i++)
    __CPROVER_assigns(i, g_lex_m)
    __CPROVER_loop_invariant(i <= n && g_lex_m == i)
    __CPROVER_loop_invariant(!(g_k < i) || ELEM_V(&f1[g_k]) == ELEM_V(&f2[g_k]))
    __CPROVER_decreases(n - i)
    {
        if (ELEM_value(&f1[i]) < ELEM_value(&f2[i])) return true;
        if (ELEM_value(&f2[i]) < ELEM_value(&f1[i])) return false;
        g_lex_m = i + 1;
    }
    return n1 < n2;
}
#endif
