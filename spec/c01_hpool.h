/* C01 — pool for the hlist units: C01_KN exact-size nodes, C01_KH heads, every `next`, `pprev`, `first`
 * chosen by a symbolic index (a pool node / slot, NULL, or an invalid pointer that must not be followed).
 * A *slot* is a place that can hold a pointer to a node: slot j < KN is &node[j]->next, slot KN+k is
 * &head[k]->first.  With C01H_ENTRY the nodes are the `lnk` members of a concrete entry type. */
#ifndef C01_HPOOL_H
#define C01_HPOOL_H
#include "vc.h"
/* igris' member_offsetof is the classic `&((type *)0)->member`; UBSan's `null` group reports it on every
 * dlist_entry / mcast_out and would abort each native replay before the real code runs.  Harnesses that
 * expand these macros switch that one group off (replay only); ASan and the other UBSan groups stay on. */
#ifdef REPLAY
#define C01_NO_UBSAN_NULL __attribute__((no_sanitize("null")))
#else
#define C01_NO_UBSAN_NULL
#endif
#include <igris/util/member.h>
#include <igris/datastruct/hlist.h>

#ifndef C01_KN
#define C01_KN 6
#endif
#ifndef C01_KH
#define C01_KH 3
#endif
#define C01H_NINV 2
/* node index space:  [0,KN) node, KN = NULL, KN+1.. invalid */
#define HN_NULL C01_KN
#define HN_NIDX (C01_KN + 1 + C01H_NINV)
/* slot index space:  [0,KN) &node->next, [KN,KN+KH) &head->first, KN+KH = NULL, then invalid */
#define HS_NSLOT (C01_KN + C01_KH)
#define HS_NULL HS_NSLOT
#define HS_NIDX (HS_NSLOT + 1 + C01H_NINV)

struct c01_hentry {
    long key;
    struct hlist_node lnk;
    int tail;
};
#ifdef C01H_ENTRY
#define C01H_OBJ_T struct c01_hentry
#define C01H_LNK(o) (&(o).lnk)
#else
#define C01H_OBJ_T struct hlist_node
#define C01H_LNK(o) (&(o))
#endif
static C01H_OBJ_T c01h_o0, c01h_o1, c01h_o2, c01h_o3, c01h_o4, c01h_o5, c01h_o6, c01h_o7;
static struct hlist_node *const c01h_objs[8] = {C01H_LNK(c01h_o0), C01H_LNK(c01h_o1), C01H_LNK(c01h_o2), C01H_LNK(c01h_o3),
                                                C01H_LNK(c01h_o4), C01H_LNK(c01h_o5), C01H_LNK(c01h_o6), C01H_LNK(c01h_o7)};
static struct hlist_head c01h_h0, c01h_h1, c01h_h2, c01h_h3;
static struct hlist_head *const c01h_heads[4] = {&c01h_h0, &c01h_h1, &c01h_h2, &c01h_h3};

static struct hlist_node *c01h_node[HN_NIDX];    /* index -> pointer */
static struct hlist_node **c01h_slot[HS_NIDX];
static uchar c01h_nx[C01_KN], c01h_pp[C01_KN], c01h_first[C01_KH];          /* pre-state indices */
static struct hlist_node *c01h_onx[C01_KN], **c01h_opp[C01_KN], *c01h_ofirst[C01_KH];

#define C01H_POOL(nxarr, pparr, firstarr)                                                            \
    do {                                                                                             \
        for (int c01_i = 0; c01_i < C01_KN; c01_i++) {                                               \
            c01h_node[c01_i] = c01h_objs[c01_i];                                                     \
            c01h_slot[c01_i] = &c01h_objs[c01_i]->next;                                              \
        }                                                                                            \
        c01h_node[HN_NULL] = 0;                                                                      \
        for (int c01_i = 0; c01_i < C01H_NINV; c01_i++)                                              \
            c01h_node[HN_NULL + 1 + c01_i] = NEW_OBJ(0);                                             \
        for (int c01_i = 0; c01_i < C01_KH; c01_i++)                                                 \
            c01h_slot[C01_KN + c01_i] = &c01h_heads[c01_i]->first;                                   \
        c01h_slot[HS_NULL] = 0;                                                                      \
        for (int c01_i = 0; c01_i < C01H_NINV; c01_i++)                                              \
            c01h_slot[HS_NULL + 1 + c01_i] = NEW_OBJ(0);                                             \
        for (int c01_i = 0; c01_i < C01_KN; c01_i++) {                                               \
            __CPROVER_assume((nxarr)[c01_i] < HN_NIDX && (pparr)[c01_i] < HS_NIDX);                  \
            c01h_nx[c01_i] = (nxarr)[c01_i];                                                         \
            c01h_pp[c01_i] = (pparr)[c01_i];                                                         \
            c01h_node[c01_i]->next = c01h_onx[c01_i] = c01h_node[c01h_nx[c01_i]];                    \
            c01h_node[c01_i]->pprev = c01h_opp[c01_i] = c01h_slot[c01h_pp[c01_i]];                   \
        }                                                                                            \
        for (int c01_i = 0; c01_i < C01_KH; c01_i++) {                                               \
            __CPROVER_assume((firstarr)[c01_i] < HN_NIDX);                                           \
            c01h_first[c01_i] = (firstarr)[c01_i];                                                   \
            c01h_heads[c01_i]->first = c01h_ofirst[c01_i] = c01h_node[c01h_first[c01_i]];            \
        }                                                                                            \
    } while (0)

#define HN_(i) (c01h_node[i])
#define HS_(s) (c01h_slot[s])
#define HH_(k) (c01h_heads[k])
#define HVALID0(i) ((i) < C01_KN)
#define HSVALID0(s) ((s) < HS_NSLOT)
/* pre-state content of a valid slot */
#define HSLOTVAL0(s) ((s) < C01_KN ? c01h_nx[s] : c01h_first[(s)-C01_KN])
/* hlist invariant at node i: *i->pprev == i && (i->next => i->next->pprev == &i->next) */
#define HLINKED0(i)                                                                                  \
    (HVALID0(i) && HSVALID0(c01h_pp[i]) && HSLOTVAL0(c01h_pp[i]) == (i) &&                           \
     (c01h_nx[i] == HN_NULL || (HVALID0(c01h_nx[i]) && c01h_pp[c01h_nx[i]] == (i))))
/* at a head: first == NULL or first->pprev == &first */
#define HHEADOK0(k)                                                                                  \
    ((k) < C01_KH && (c01h_first[k] == HN_NULL || (HVALID0(c01h_first[k]) && c01h_pp[c01h_first[k]] == C01_KN + (k))))

static int c01h_idx(const struct hlist_node *p)
{
    if (p == 0)
        return HN_NULL;
    for (int i = 0; i < C01_KN; i++)
        if (p == c01h_node[i])
            return i;
    return HN_NULL + 1;
}
static int c01h_sidx(struct hlist_node **p)
{
    if (p == 0)
        return HS_NULL;
    for (int i = 0; i < HS_NSLOT; i++)
        if (p == c01h_slot[i])
            return i;
    return HS_NULL + 1;
}
static int c01h_linked(struct hlist_node *n)
{
    int s = c01h_sidx(n->pprev), nx = c01h_idx(n->next);
    if (s >= HS_NSLOT || *c01h_slot[s] != n)
        return 0;
    return nx == HN_NULL || (nx < C01_KN && c01h_node[nx]->pprev == &n->next);
}
static int c01h_headok(struct hlist_head *h)
{
    int f = c01h_idx(h->first);
    return f == HN_NULL || (f < C01_KN && c01h_node[f]->pprev == &h->first);
}
#define HBIT(i) ((i) < 32 ? 1u << (i) : 0u)
/* frame: masks over node.next, node.pprev (node indices) and head.first (head indices) */
static void c01h_frame(uint may_nx, uint may_pp, uint may_first)
{
    for (int i = 0; i < C01_KN; i++) {
        __CPROVER_assert((may_nx >> i & 1) || c01h_node[i]->next == c01h_onx[i],
                         "frame: next field outside the operation's assigns set is unchanged");
        __CPROVER_assert((may_pp >> i & 1) || c01h_node[i]->pprev == c01h_opp[i],
                         "frame: pprev field outside the operation's assigns set is unchanged");
    }
    for (int k = 0; k < C01_KH; k++)
        __CPROVER_assert((may_first >> k & 1) || c01h_heads[k]->first == c01h_ofirst[k],
                         "frame: first field outside the operation's assigns set is unchanged");
}
/* masks for "the slot s" */
#define HSLOT_NX(s) ((s) < C01_KN ? HBIT(s) : 0u)
#define HSLOT_FIRST(s) ((s) >= C01_KN && (s) < HS_NSLOT ? HBIT((s)-C01_KN) : 0u)
#endif
