/* C01 — node pool for the *local* dlist contracts (harness form of DESIGN.md section C01).
 *
 * The pool stands for the neighbourhood of the operation inside rings of ANY length:
 *   - C01_K exact-size node objects (one variable each: any access outside a node fails a pointer
 *     obligation under cbmc / is reported by ASan in the native replay),
 *   - C01_NINV zero-size objects that play the role of "a pointer the operation must not follow"
 *     (indices C01_K .. C01_K+3: every access through them fails; four, because no operation has more
 *     than four links leaving its footprint, so they can all be pairwise different),
 *   - every link field of every node is chosen by a symbolic index (WIT_ARR nx/pv): any pool node or an
 *     invalid pointer.  Nothing is assumed about a node unless the unit says LINKED0(i) for it, so the
 *     neighbours of neighbours stay unconstrained (possibly invalid, possibly aliasing anything).
 *
 * The pre-state is described by the index arrays (spec level), the post-state is read back from the real
 * objects.  Each unit sets C01_K to the largest number of distinct nodes its formulas can mention (the
 * argument nodes, the neighbours named by their LINKED preconditions, the successor/predecessor taken
 * over, the ghost node and its 2 neighbours); fewer distinct nodes are reached through aliasing of the
 * indices, more nodes would not be mentioned by any formula nor reachable by the code (every other
 * pointer is invalid).  LINKED is required at the argument nodes only; "LINKED at every touched node
 * afterwards" is the instance g = touched node of the third-party clause (g linked before => linked after).
 */
#ifndef C01_POOL_H
#define C01_POOL_H
#include "vc.h"
/* igris' member_offsetof is the classic `&((type *)0)->member`; UBSan's `null` group reports it on every
 * dlist_entry / mcast_out and would abort each native replay before the real code runs.  Harnesses that
 * expand these macros switch that one group off (replay only); ASan and the other UBSan groups stay on. */
#ifdef REPLAY
#define C01_NO_UBSAN_NULL __attribute__((no_sanitize("null")))
#else
#define C01_NO_UBSAN_NULL
#endif
/* node type: the C list head by default; the C++ igris::dlist_node (extracted to C, same two link fields) when a
 * unit defines C01_NODE_T before including this header */
#ifndef C01_NODE_T
#include <igris/datastruct/dlist.h>
#define C01_NODE_T struct dlist_head
#endif

#ifndef C01_K
#define C01_K 9
#endif
#define C01_NINV 4
#define C01_NIDX (C01_K + C01_NINV)

static C01_NODE_T *c01_node[C01_NIDX];
/* the node objects: separate variables = separate exact-size objects with a known type (cheap for the
 * solver; an allocation per node costs 30x more); only the first C01_K are used.  With C01_ENTRY the
 * nodes are the `lnk` members of a concrete entry type (member at a non-zero offset, for the
 * dlist_entry / mcast_out based macros). */
#ifdef C01_ENTRY
struct c01_entry {
    long key;
    C01_NODE_T lnk;
    int tail;
};
#define C01_OBJ_T struct c01_entry
#define C01_LNK(o) (&(o).lnk)
#else
#define C01_OBJ_T C01_NODE_T
#define C01_LNK(o) (&(o))
#endif
static C01_OBJ_T c01_o0, c01_o1, c01_o2, c01_o3, c01_o4, c01_o5, c01_o6, c01_o7, c01_o8, c01_o9, c01_o10, c01_o11;
static C01_NODE_T *const c01_objs[12] = {C01_LNK(c01_o0), C01_LNK(c01_o1), C01_LNK(c01_o2),  C01_LNK(c01_o3),
                                               C01_LNK(c01_o4), C01_LNK(c01_o5), C01_LNK(c01_o6),  C01_LNK(c01_o7),
                                               C01_LNK(c01_o8), C01_LNK(c01_o9), C01_LNK(c01_o10), C01_LNK(c01_o11)};
static uchar c01_nx[C01_K], c01_pv[C01_K];          /* pre-state link indices                         */
static C01_NODE_T *c01_onx[C01_K], *c01_opv[C01_K]; /* pre-state link values (frame)          */

/* builds the pool from the witness arrays; the only assumption is the index range */
#define C01_POOL(nxarr, pvarr)                                                                       \
    do {                                                                                             \
        for (int c01_i = 0; c01_i < C01_K; c01_i++)                                                  \
            c01_node[c01_i] = c01_objs[c01_i];                                    \
        for (int c01_i = 0; c01_i < C01_NINV; c01_i++)                                               \
            c01_node[C01_K + c01_i] = NEW_OBJ(0);                                                    \
        for (int c01_i = 0; c01_i < C01_K; c01_i++) {                                                \
            __CPROVER_assume((nxarr)[c01_i] < C01_NIDX && (pvarr)[c01_i] < C01_NIDX);                \
            c01_nx[c01_i] = (nxarr)[c01_i];                                                          \
            c01_pv[c01_i] = (pvarr)[c01_i];                                                          \
            c01_node[c01_i]->next = c01_onx[c01_i] = c01_node[c01_nx[c01_i]];                        \
            c01_node[c01_i]->prev = c01_opv[c01_i] = c01_node[c01_pv[c01_i]];                        \
        }                                                                                            \
    } while (0)

#define N_(i) (c01_node[i])

/* pre-state predicates over indices (short-circuit keeps every array index in range) */
#define VALID0(i) ((i) < C01_K)
/* LINKED(n): n->next->prev == n && n->prev->next == n */
#define LINKED0(i)                                                                                   \
    (VALID0(i) && VALID0(c01_nx[i]) && VALID0(c01_pv[i]) && c01_pv[c01_nx[i]] == (i) &&              \
     c01_nx[c01_pv[i]] == (i))
#define SELF0(i) (VALID0(i) && c01_nx[i] == (i) && c01_pv[i] == (i))
/* "x is not a member of n's ring": n is x itself or none of n's links points at x */
#define NOTNEIGH0(x, n) (!VALID0(n) || (n) == (x) || (c01_nx[n] != (x) && c01_pv[n] != (x)))

/* post-state, read from the real objects */
static int c01_idx(const C01_NODE_T *p)
{
    for (int i = 0; i < C01_K; i++)
        if (p == c01_node[i])
            return i;
    return C01_K;
}
static int c01_linked(C01_NODE_T *n)
{
    /* the neighbours are dereferenced through their pool index, never through the stored pointer:
     * a stored pointer may be DLIST_POISONx (an integer address), and cbmc models a dereference that
     * may hit an integer address with a byte-level memory array (100x larger formulas) */
    int a = c01_idx(n->next), b = c01_idx(n->prev);
    if (a >= C01_K || b >= C01_K)
        return 0;
    return c01_node[a]->prev == n && c01_node[b]->next == n;
}
static int c01_self(C01_NODE_T *n) { return n->next == n && n->prev == n; }

/* frame: every link field outside the two masks has its pre-state value */
#define BIT(i) (VALID0(i) ? 1u << (i) : 0u)
static void c01_frame(uint may_nx, uint may_pv)
{
    for (int i = 0; i < C01_K; i++) {
        __CPROVER_assert((may_nx >> i & 1) || c01_node[i]->next == c01_onx[i],
                         "frame: next field outside the operation's assigns set is unchanged");
        __CPROVER_assert((may_pv >> i & 1) || c01_node[i]->prev == c01_opv[i],
                         "frame: prev field outside the operation's assigns set is unchanged");
    }
}
/* take the current state as the new reference state of the frame check */
static void c01_snapshot(void)
{
    for (int i = 0; i < C01_K; i++) {
        c01_onx[i] = c01_node[i]->next;
        c01_opv[i] = c01_node[i]->prev;
    }
}
/* whole pool unchanged (no-op cases of the reference list) */
#define c01_unchanged() c01_frame(0u, 0u)

#endif
