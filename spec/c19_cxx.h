/* C19: ghost recorders that stand for the C++ result containers of igris::split / split_cmdargs / trim / replace after the
 * mechanical extraction (units/C19/string_extract.py).  The scanning code calls
 *     g_rec(p, n)        where the C++ source says  outvec.emplace_back(p, n)  /  return std::string(p, n)
 *     g_rec_empty()      where it says  return ""
 *     g_app(p, n, kind)  where it says  output.append(p, n) / output.append(str)      (kind 0: input gap, 1: replacement, 2: tail)
 * Nothing is stored: for one arbitrary ghost token index g_t (ghost output index g_o) the (offset, length) (the source position)
 * is kept and checked against the reference by the harness; that is a statement about every token (every output byte).
 */
#ifndef C19_CXX_H
#define C19_CXX_H
#include <stddef.h>
#ifdef REPLAY
/* native runs link the extracted file as a whole (cxx_replace calls igris_memmem): the real routine */
#include "igris/string/memmem.c"
#endif

const char *g_data0;          /* in: start of the input buffer */
size_t g_t;                   /* in: ghost token index */
size_t g_ntok;                /* out: tokens recorded so far */
size_t g_ts, g_tl;            /* out: offset / length of token g_t */
size_t g_ts1;                 /* out: offset of token g_t + 1 */
size_t g_last_s, g_last_end;  /* out: offset / end offset of the last token */
int g_empty;                  /* out: the empty result was returned */
int g_isq;                    /* split_cmdargs: the token being scanned is a quoted one (set by an injected ghost statement) */
int g_tq, g_tq1, g_last_q;    /* out: quoted flag of token g_t / g_t + 1 / of the last token */

#ifdef WITNESS_MODE
/* concretisation / replay / bounded fallback runs (small concrete sizes): the whole recorded sequence is kept, so that the harness can
 * compare it with a directly computed reference without relying on injected ghost statements */
#define C19_REC_MAX 16
size_t g_all_s[C19_REC_MAX], g_all_l[C19_REC_MAX];
size_t g_all_n;
#endif
static inline void g_rec(const char *p, ptrdiff_t n)
{
    size_t off = (size_t)(p - g_data0);
#ifdef WITNESS_MODE
    if (g_all_n < C19_REC_MAX) { g_all_s[g_all_n] = off; g_all_l[g_all_n] = (size_t)n; }
    g_all_n++;
#endif
    if (g_ntok == g_t) { g_ts = off; g_tl = (size_t)n; g_tq = g_isq; }
    if (g_t != (size_t)-1 && g_ntok == g_t + 1) { g_ts1 = off; g_tq1 = g_isq; }
    g_last_s = off;
    g_last_end = off + (size_t)n;
    g_last_q = g_isq;
    g_ntok++;
}
static inline void g_rec_empty(void) { g_empty = 1; }

/* append recorder of igris::replace.  Output offsets are 128-bit: the output of a growing replacement is not bounded by a product the
 * back end can handle symbolically, and a 64-bit counter could wrap in the (arbitrary) states a loop invariant ranges over. */
typedef unsigned __int128 c19_u128;
c19_u128 g_o;                 /* in: ghost output index */
c19_u128 g_out_len;           /* out: output length so far */
int g_okind;                  /* out: where output byte g_o comes from: 0 input gap, 1 replacement, 2 tail, -1 not written */
const char *g_osrc;           /* out: the source byte of output byte g_o */
size_t g_napp;                /* out: number of appends */
static inline void g_app(const char *p, ptrdiff_t n, int kind)
{
    if (g_o >= g_out_len && g_o - g_out_len < (c19_u128)(size_t)n) { g_okind = kind; g_osrc = p + (size_t)(g_o - g_out_len); }
    g_out_len += (c19_u128)(size_t)n;
    g_napp++;
}
#endif
