/* C06 oracle: what ISO C (C11 7.21.6.1 "The fprintf function") says one conversion specification
 * produces, as a function of the parsed directive and the argument value.  Written from the text of the
 * standard, not from igris/util/printf_impl.c.  Paragraph numbers refer to 7.21.6.1.
 *
 * A directive is (flags, width, has_prec, prec, conv):
 *   flags     set of ISO_F_*                                   (p6)
 *   width     minimum field width, >= 0  (a negative `*` argument has already been turned into the
 *             '-' flag and a positive width, p5)                (p4, p5)
 *   has_prec  a precision was given ('.' seen and, for `.*`, the argument was not negative, p5)
 *   prec      its value, >= 0 ('.' alone means 0, p4)
 *   conv      one of d i u o x X c s p                          (p8)
 *
 * The text produced is always the concatenation of five segments
 *     0 [left pad]  1 [prefix]  2 [zeros]  3 [digits | bytes]  4 [right pad]
 * and is described by a layout (struct iso_layout): iso_layout_seg_len(seg) / iso_layout_seg_char(seg, j)
 * give length and j-th character of a segment; iso_len() is the total length and iso_char_at(k) the k-th
 * character (0-based) of the concatenation, defined through iso_layout_locate(k) = (segment, offset).  All lengths are long long so that nothing overflows for int-sized
 * widths and precisions; whether the total fits the int return value is the caller's concern (p14 in
 * C11 7.21.6.1: the return value is the number of characters transmitted; more than INT_MAX is outside
 * what the interface can report).
 *
 * Choices where the standard leaves room, stated once:
 *   - flag/conversion combinations p6 calls undefined ('#' with d i u c s p, '0' with c s p) have no
 *     effect here (what every mainstream libc does); '+' and ' ' are defined for signed conversions
 *     only and have no effect on u o x X c s p;
 *   - %p is implementation-defined (p8): the property fixes it to "0x followed by hex digits that
 *     parse back to the pointer"; the oracle renders exactly ISO_P_DIGITS = 2*sizeof(void*) lower-case
 *     hex digits, zero filled, which is the implementation's declared format (field of 2+2*sizeof
 *     characters in __printf) and trivially parses back; flags other than '-' have no effect on it.
 *
 * Loops in here run over at most ISO_MAXDIG = 22 positions (digits of a 64-bit value in base 8) with
 * constant bounds; they are harness-side code and are unwound completely.
 */
#ifndef C06_ISO_PRINTF_H
#define C06_ISO_PRINTF_H
#include <limits.h>
#include <stddef.h>

#define ISO_F_MINUS 0x01u /* '-'  left-justified within the field (p6) */
#define ISO_F_PLUS 0x02u  /* '+'  a signed conversion always begins with a sign (p6) */
#define ISO_F_SPACE 0x04u /* ' '  space instead of the sign of a non-negative signed conversion; ignored with '+' (p6) */
#define ISO_F_HASH 0x08u  /* '#'  alternative form: o -> first digit is 0; x/X -> nonzero result gets 0x/0X (p6) */
#define ISO_F_ZERO 0x10u  /* '0'  d i o u x X: leading zeros (after sign/base) pad to the width; ignored with '-' or a precision (p6) */

#define ISO_MAXDIG 22
#define ISO_P_DIGITS ((int)(2 * sizeof(void *)))

struct iso_layout
{
    long long lpad;          /* spaces before */
    int plen;                /* prefix: sign, or 0x / 0X */
    char p0, p1;
    long long zeros;         /* leading zeros demanded by the precision, the '0' flag or '#' with o */
    long long nbody;         /* digits of the magnitude (most significant first), or bytes of the string / the %c byte */
    long long rpad;          /* spaces after */
    /* what the body is made of */
    unsigned long long mag;  /* integer conversions: magnitude */
    unsigned base;
    int upper;
    const char *str;         /* %s: the array; %c: NULL and chr is the byte */
    int chr;
};

/* number of digits of mag in the given base; 0 for mag == 0 (the value zero has no significant digit) */
static inline int iso_ndigits(unsigned long long mag, unsigned base)
{
    int n = 0;
    unsigned long long p = 1; /* base^j */
    for (int j = 0; j < ISO_MAXDIG; j++)
    {
        if (mag >= p)
            n = j + 1;
        if (p > ULLONG_MAX / base)
            break;
        p *= base;
    }
    return n;
}

/* table of powers for loop invariants (which must be call-free expressions): pw[j] = base^j for
 * 0 <= j <= ISO_MAXDIG, 0 when base^j does not fit 64 bits (then it exceeds every value) */
static inline void iso_pow_init(unsigned long long *pw, unsigned base)
{
    pw[0] = 1;
    for (int j = 1; j <= ISO_MAXDIG; j++)
        pw[j] = (pw[j - 1] != 0 && pw[j - 1] <= ULLONG_MAX / base) ? pw[j - 1] * base : 0;
}

/* digit of weight base^s of mag */
static inline unsigned iso_digit(unsigned long long mag, unsigned base, long long s)
{
    unsigned d = 0;
    unsigned long long p = 1;
    for (int j = 0; j < ISO_MAXDIG; j++)
    {
        if (j == s)
            d = (unsigned)((mag / p) % base);
        if (p > ULLONG_MAX / base)
            break;
        p *= base;
    }
    return d;
}

/* p8: "the letters abcdef are used for x conversion and the letters ABCDEF for X conversion" */
static inline char iso_digit_char(unsigned d, int upper)
{
    return (char)(d < 10 ? '0' + d : (upper ? 'A' : 'a') + (d - 10));
}

static inline long long iso_max(long long a, long long b) { return a > b ? a : b; }

/* ---- d i u o x X ------------------------------------------------------------------------------
 * base 10 signed = d,i; base 10 unsigned = u; base 8 = o; base 16 = x (upper: X).
 * v is the argument after the conversion the length modifier prescribes, sign- or zero-extended
 * to 64 bits. */
static inline struct iso_layout iso_int_layout(unsigned flags, long long width, int has_prec, long long prec,
                                               unsigned base, int is_signed, int upper, unsigned long long v)
{
    struct iso_layout L;
    int neg = is_signed && (long long)v < 0;
    L.mag = neg ? 0ULL - v : v; /* |v| without overflow at the minimum */
    L.base = base;
    L.upper = upper;
    L.str = NULL;
    L.chr = 0;
    int nat = iso_ndigits(L.mag, base);
    /* p8 (d,i and o,u,x,X): "The precision specifies the minimum number of digits to appear; if the
     * value being converted can be represented in fewer digits, it is expanded with leading zeros.
     * The default precision is 1.  The result of converting a zero value with a precision of zero is
     * no characters." */
    long long ndig = has_prec ? iso_max(prec, nat) : iso_max(1, nat);
    /* p6 '#', o conversion: "it increases the precision, if and only if necessary, to force the first
     * digit of the result to be a zero (if the value and precision are both 0, a single 0 is printed)".
     * The first digit is already 0 exactly when there is at least one leading zero. */
    if (base == 8 && (flags & ISO_F_HASH) && ndig == nat)
        ndig = nat + 1;
    /* prefix: sign (p6 '+', ' ', and the '-' of a negative value, p8 "[-]dddd") ... */
    L.plen = 0;
    L.p0 = L.p1 = 0;
    if (neg)
        L.plen = 1, L.p0 = '-';
    else if (is_signed && (flags & ISO_F_PLUS))
        L.plen = 1, L.p0 = '+';
    else if (is_signed && (flags & ISO_F_SPACE))
        L.plen = 1, L.p0 = ' ';
    /* ... or base: p6 '#': "For x (or X) conversion, a nonzero result has 0x (or 0X) prefixed to it." */
    if (base == 16 && (flags & ISO_F_HASH) && L.mag != 0)
        L.plen = 2, L.p0 = '0', L.p1 = upper ? 'X' : 'x';
    /* the digits: ndig characters, the last `nbody` of them the digits of the magnitude, zeros before.  The
     * number zero is written as the single digit 0 whenever at least one digit has to appear. */
    L.nbody = nat ? nat : (ndig > 0 ? 1 : 0);
    L.zeros = ndig - L.nbody;
    long long pad = iso_max(width - (L.plen + ndig), 0); /* p4: padded to the field width */
    L.lpad = L.rpad = 0;
    if (flags & ISO_F_MINUS)
        L.rpad = pad; /* p6 '-': left-justified; "If the 0 and - flags both appear, the 0 flag is ignored." */
    else if ((flags & ISO_F_ZERO) && !has_prec)
        L.zeros += pad; /* p6 '0': "leading zeros (following any indication of sign or base) are used to pad to
                           the field width rather than performing space padding ... if a precision is
                           specified, the 0 flag is ignored." */
    else
        L.lpad = pad; /* p4: "padded with spaces (by default) on the left" */
    return L;
}

/* ---- p ------------------------------------------------------------------------------------------ */
static inline struct iso_layout iso_ptr_layout(unsigned flags, long long width, unsigned long long v)
{
    struct iso_layout L;
    L.mag = v;
    L.base = 16;
    L.upper = 0;
    L.str = NULL;
    L.chr = 0;
    int nat = iso_ndigits(v, 16);
    L.plen = 2, L.p0 = '0', L.p1 = 'x';
    L.nbody = nat ? nat : 1;
    L.zeros = ISO_P_DIGITS - L.nbody;
    long long pad = iso_max(width - (2 + ISO_P_DIGITS), 0);
    L.lpad = (flags & ISO_F_MINUS) ? 0 : pad;
    L.rpad = (flags & ISO_F_MINUS) ? pad : 0;
    return L;
}

/* ---- s ------------------------------------------------------------------------------------------
 * p8: "Characters from the array are written up to (but not including) the terminating null character.
 * If the precision is specified, no more than that many bytes are written.  If the precision is not
 * specified or is greater than the size of the array, the array shall contain a null character."
 * nbytes is that count: the index of the first null character, or the precision when that is smaller
 * (then the array need not be terminated and nothing beyond nbytes may be read). */
static inline struct iso_layout iso_str_layout(unsigned flags, long long width, const char *s, long long nbytes)
{
    struct iso_layout L;
    L.mag = 0, L.base = 0, L.upper = 0, L.chr = 0;
    L.str = s;
    L.plen = 0, L.p0 = L.p1 = 0;
    L.zeros = 0;
    L.nbody = nbytes;
    long long pad = iso_max(width - nbytes, 0);
    L.lpad = (flags & ISO_F_MINUS) ? 0 : pad;
    L.rpad = (flags & ISO_F_MINUS) ? pad : 0;
    return L;
}

/* ---- c ------------------------------------------------------------------------------------------
 * p8: "the int argument is converted to an unsigned char, and the resulting character is written" --
 * one byte, whatever its value (a zero byte included). */
static inline struct iso_layout iso_chr_layout(unsigned flags, long long width, int arg)
{
    struct iso_layout L = iso_str_layout(flags, width, NULL, 1);
    L.chr = (unsigned char)arg;
    return L;
}

static inline long long iso_layout_len(const struct iso_layout *L)
{
    return L->lpad + L->plen + L->zeros + L->nbody + L->rpad;
}

/* length of segment seg (0 left pad, 1 prefix, 2 zeros, 3 digits/bytes, 4 right pad) */
static inline long long iso_layout_seg_len(const struct iso_layout *L, int seg)
{
    return seg == 0 ? L->lpad : seg == 1 ? L->plen : seg == 2 ? L->zeros : seg == 3 ? L->nbody : seg == 4 ? L->rpad : 0;
}

/* j-th character of segment seg, as a value 0..255 (the callback receives the implementation's `char`
 * converted to int: callers compare modulo 256) */
static inline int iso_layout_seg_char(const struct iso_layout *L, int seg, long long j)
{
    switch (seg)
    {
    case 0:
    case 4:
        return ' ';
    case 1:
        return j == 0 ? L->p0 : L->p1;
    case 2:
        return '0';
    default:
        if (L->base) /* digits of the magnitude, most significant first */
            return iso_digit_char(iso_digit(L->mag, L->base, L->nbody - 1 - j), L->upper);
        if (L->str)
            return (unsigned char)L->str[j];
        return L->chr;
    }
}

/* position k of the whole text -> (segment, offset); -1 beyond the end */
static inline int iso_layout_locate(const struct iso_layout *L, long long k, long long *j)
{
    if (k < 0)
        return -1;
    for (int seg = 0; seg < 5; seg++)
    {
        long long n = iso_layout_seg_len(L, seg);
        if (k < n)
        {
            *j = k;
            return seg;
        }
        k -= n;
    }
    return -1;
}

/* k-th character of the text; -1 beyond the end */
static inline int iso_layout_char_at(const struct iso_layout *L, long long k)
{
    long long j = 0;
    int seg = iso_layout_locate(L, k, &j);
    return seg < 0 ? -1 : iso_layout_seg_char(L, seg, j);
}

/* ---- generic entry points -----------------------------------------------------------------------
 * conv selects the conversion; the argument is u (integers: already converted per length modifier and
 * extended to 64 bits; c: the int; p: the pointer value) or s/nbytes (s). */
static inline struct iso_layout iso_layout_of(unsigned flags, long long width, int has_prec, long long prec, int conv,
                                              unsigned long long u, const char *s, long long nbytes)
{
    switch (conv)
    {
    case 'd':
    case 'i':
        return iso_int_layout(flags, width, has_prec, prec, 10, 1, 0, u);
    case 'u':
        return iso_int_layout(flags, width, has_prec, prec, 10, 0, 0, u);
    case 'o':
        return iso_int_layout(flags, width, has_prec, prec, 8, 0, 0, u);
    case 'x':
        return iso_int_layout(flags, width, has_prec, prec, 16, 0, 0, u);
    case 'X':
        return iso_int_layout(flags, width, has_prec, prec, 16, 0, 1, u);
    case 'p':
        return iso_ptr_layout(flags, width, u);
    case 'c':
        return iso_chr_layout(flags, width, (int)u);
    default: /* 's' */
        return iso_str_layout(flags, width, s, nbytes);
    }
}

static inline long long iso_len(unsigned flags, long long width, int has_prec, long long prec, int conv,
                                unsigned long long u, const char *s, long long nbytes)
{
    struct iso_layout L = iso_layout_of(flags, width, has_prec, prec, conv, u, s, nbytes);
    return iso_layout_len(&L);
}

static inline int iso_char_at(long long k, unsigned flags, long long width, int has_prec, long long prec, int conv,
                              unsigned long long u, const char *s, long long nbytes)
{
    struct iso_layout L = iso_layout_of(flags, width, has_prec, prec, conv, u, s, nbytes);
    return iso_layout_char_at(&L, k);
}

/* ---- the ghost recorder -------------------------------------------------------------------------
 * The output callback handed to the real code: counts, and remembers ONE character.  No buffer, so widths
 * and precisions are unbounded.  Which character is chosen by a ghost index the harness fixes before the
 * call; it is arbitrary, so a statement about the recorded character is a statement about every character
 * of the output.  Two forms of index:
 *   g_k            absolute position in the output;
 *   (g_kseg,g_kj)  segment-relative: the code's emission events are labelled by the ghost variable g_seg,
 *                  which injected ghost statements set in front of each output loop of the real function
 *                  (values 0..4 in program order, never decreasing) and g_pos counts inside the segment.
 *                  If every segment of the code has the ISO segment's length and every (segment, offset)
 *                  character equals the ISO one, the two concatenations are the same text.  This form keeps
 *                  sums of symbolic lengths out of the solver (the absolute form costs minutes there). */
long long g_count; /* characters emitted so far */
long long g_k;     /* ghost index, absolute (-1: unused) */
int g_seg;         /* label of the segment being emitted */
long long g_pos;   /* characters emitted in the current segment */
int g_kseg;        /* ghost index, segment-relative */
long long g_kj;
int g_got;         /* the character emitted at the ghost index */
static void iso_recorder(void *d, int c)
{
    (void)d;
    if (g_count == g_k || (g_seg == g_kseg && g_pos == g_kj))
        g_got = c;
    g_pos++;
    g_count++;
}

#endif
