/* C06 oracle: what ISO C (C11 7.21.6.1 "The fprintf function") says one conversion specification
 * produces, as a function of the parsed directive and the argument value.  Written from the text of the
 * standard, not from igris/util/printf_impl.c.  Paragraph numbers refer to 7.21.6.1.
 *
 * A directive is (flags, width, has_prec, prec, conv):
 *   flags     set of ISO_F_*                                   (p6)
 *   width     minimum field width, >= 0  (a negative `*` argument has already been turned into the
 *             '-' flag and a positive width, p5)                (p4, p5)
 *   has_prec  a precision was given ('.' seen and, for `.*`, the argument was not negative, p5)
 *   prec      its value, >= 0 ('.' alone means 0, p4)
 *   conv      one of d i u o x X c s p                          (p8)
 *
 * The text produced is always   [left pad] [prefix] [zeros] [digits | bytes] [right pad]
 * and is described by a layout (struct iso_layout); iso_len() is its total length and iso_char_at(k)
 * its k-th character (0-based).  All lengths are long long so that nothing overflows for int-sized
 * widths and precisions; whether the total fits the int return value is the caller's concern (p14 in
 * C11 7.21.6.1: the return value is the number of characters transmitted; more than INT_MAX is outside
 * what the interface can report).
 *
 * Choices where the standard leaves room, stated once:
 *   - flag/conversion combinations p6 calls undefined ('#' with d i u c s p, '0' with c s p) have no
 *     effect here (what every mainstream libc does); '+' and ' ' are defined for signed conversions
 *     only and have no effect on u o x X c s p;
 *   - %p is implementation-defined (p8): the property fixes it to "0x followed by hex digits that
 *     parse back to the pointer"; the oracle renders exactly ISO_P_DIGITS = 2*sizeof(void*) lower-case
 *     hex digits, zero filled, which is the implementation's declared format (field of 2+2*sizeof
 *     characters in __printf) and trivially parses back; flags other than '-' have no effect on it.
 *
 * Loops in here run over at most ISO_MAXDIG = 22 positions (digits of a 64-bit value in base 8) with
 * constant bounds; they are harness-side code and are unwound completely.
 */
#ifndef C06_ISO_PRINTF_H
#define C06_ISO_PRINTF_H
#include <limits.h>
#include <stddef.h>

#define ISO_F_MINUS 0x01u /* '-'  left-justified within the field (p6) */
#define ISO_F_PLUS 0x02u  /* '+'  a signed conversion always begins with a sign (p6) */
#define ISO_F_SPACE 0x04u /* ' '  space instead of the sign of a non-negative signed conversion; ignored with '+' (p6) */
#define ISO_F_HASH 0x08u  /* '#'  alternative form: o -> first digit is 0; x/X -> nonzero result gets 0x/0X (p6) */
#define ISO_F_ZERO 0x10u  /* '0'  d i o u x X: leading zeros (after sign/base) pad to the width; ignored with '-' or a precision (p6) */

#define ISO_MAXDIG 22
#define ISO_P_DIGITS ((int)(2 * sizeof(void *)))

struct iso_layout
{
    long long lpad;          /* spaces before */
    int plen;                /* prefix: sign, or 0x / 0X */
    char p0, p1;
    long long zeros;         /* leading zeros demanded by the precision, the '0' flag or '#' with o */
    long long nbody;         /* digits of the magnitude (most significant first), or bytes of the string / the %c byte */
    long long rpad;          /* spaces after */
    /* what the body is made of */
    unsigned long long mag;  /* integer conversions: magnitude */
    unsigned base;
    int upper;
    const char *str;         /* %s: the array; %c: NULL and chr is the byte */
    int chr;
};

/* number of digits of mag in the given base; 0 for mag == 0 (the value zero has no significant digit) */
static inline int iso_ndigits(unsigned long long mag, unsigned base)
{
    int n = 0;
    unsigned long long p = 1; /* base^j */
    for (int j = 0; j < ISO_MAXDIG; j++)
    {
        if (mag >= p)
            n = j + 1;
        if (p > ULLONG_MAX / base)
            break;
        p *= base;
    }
    return n;
}

/* digit of weight base^s of mag */
static inline unsigned iso_digit(unsigned long long mag, unsigned base, long long s)
{
    unsigned d = 0;
    unsigned long long p = 1;
    for (int j = 0; j < ISO_MAXDIG; j++)
    {
        if (j == s)
            d = (unsigned)((mag / p) % base);
        if (p > ULLONG_MAX / base)
            break;
        p *= base;
    }
    return d;
}

/* p8: "the letters abcdef are used for x conversion and the letters ABCDEF for X conversion" */
static inline char iso_digit_char(unsigned d, int upper)
{
    return (char)(d < 10 ? '0' + d : (upper ? 'A' : 'a') + (d - 10));
}

static inline long long iso_max(long long a, long long b) { return a > b ? a : b; }

/* ---- d i u o x X ------------------------------------------------------------------------------
 * base 10 signed = d,i; base 10 unsigned = u; base 8 = o; base 16 = x (upper: X).
 * v is the argument after the conversion the length modifier prescribes, sign- or zero-extended
 * to 64 bits. */
static inline struct iso_layout iso_int_layout(unsigned flags, long long width, int has_prec, long long prec,
                                               unsigned base, int is_signed, int upper, unsigned long long v)
{
    struct iso_layout L;
    int neg = is_signed && (long long)v < 0;
    L.mag = neg ? 0ULL - v : v; /* |v| without overflow at the minimum */
    L.base = base;
    L.upper = upper;
    L.str = NULL;
    L.chr = 0;
    int nat = iso_ndigits(L.mag, base);
    /* p8 (d,i and o,u,x,X): "The precision specifies the minimum number of digits to appear; if the
     * value being converted can be represented in fewer digits, it is expanded with leading zeros.
     * The default precision is 1.  The result of converting a zero value with a precision of zero is
     * no characters." */
    long long ndig = has_prec ? iso_max(prec, nat) : iso_max(1, nat);
    /* p6 '#', o conversion: "it increases the precision, if and only if necessary, to force the first
     * digit of the result to be a zero (if the value and precision are both 0, a single 0 is printed)".
     * The first digit is already 0 exactly when there is at least one leading zero. */
    if (base == 8 && (flags & ISO_F_HASH) && ndig == nat)
        ndig = nat + 1;
    /* prefix: sign (p6 '+', ' ', and the '-' of a negative value, p8 "[-]dddd") ... */
    L.plen = 0;
    L.p0 = L.p1 = 0;
    if (neg)
        L.plen = 1, L.p0 = '-';
    else if (is_signed && (flags & ISO_F_PLUS))
        L.plen = 1, L.p0 = '+';
    else if (is_signed && (flags & ISO_F_SPACE))
        L.plen = 1, L.p0 = ' ';
    /* ... or base: p6 '#': "For x (or X) conversion, a nonzero result has 0x (or 0X) prefixed to it." */
    if (base == 16 && (flags & ISO_F_HASH) && L.mag != 0)
        L.plen = 2, L.p0 = '0', L.p1 = upper ? 'X' : 'x';
    L.nbody = nat;
    L.zeros = ndig - nat;
    long long pad = iso_max(width - (L.plen + ndig), 0); /* p4: padded to the field width */
    L.lpad = L.rpad = 0;
    if (flags & ISO_F_MINUS)
        L.rpad = pad; /* p6 '-': left-justified; "If the 0 and - flags both appear, the 0 flag is ignored." */
    else if ((flags & ISO_F_ZERO) && !has_prec)
        L.zeros += pad; /* p6 '0': "leading zeros (following any indication of sign or base) are used to pad to
                           the field width rather than performing space padding ... if a precision is
                           specified, the 0 flag is ignored." */
    else
        L.lpad = pad; /* p4: "padded with spaces (by default) on the left" */
    return L;
}

/* ---- p ------------------------------------------------------------------------------------------ */
static inline struct iso_layout iso_ptr_layout(unsigned flags, long long width, unsigned long long v)
{
    struct iso_layout L;
    L.mag = v;
    L.base = 16;
    L.upper = 0;
    L.str = NULL;
    L.chr = 0;
    int nat = iso_ndigits(v, 16);
    L.plen = 2, L.p0 = '0', L.p1 = 'x';
    L.nbody = nat;
    L.zeros = ISO_P_DIGITS - nat;
    long long pad = iso_max(width - (2 + ISO_P_DIGITS), 0);
    L.lpad = (flags & ISO_F_MINUS) ? 0 : pad;
    L.rpad = (flags & ISO_F_MINUS) ? pad : 0;
    return L;
}

/* ---- s ------------------------------------------------------------------------------------------
 * p8: "Characters from the array are written up to (but not including) the terminating null character.
 * If the precision is specified, no more than that many bytes are written.  If the precision is not
 * specified or is greater than the size of the array, the array shall contain a null character."
 * nbytes is that count: the index of the first null character, or the precision when that is smaller
 * (then the array need not be terminated and nothing beyond nbytes may be read). */
static inline struct iso_layout iso_str_layout(unsigned flags, long long width, const char *s, long long nbytes)
{
    struct iso_layout L;
    L.mag = 0, L.base = 0, L.upper = 0, L.chr = 0;
    L.str = s;
    L.plen = 0, L.p0 = L.p1 = 0;
    L.zeros = 0;
    L.nbody = nbytes;
    long long pad = iso_max(width - nbytes, 0);
    L.lpad = (flags & ISO_F_MINUS) ? 0 : pad;
    L.rpad = (flags & ISO_F_MINUS) ? pad : 0;
    return L;
}

/* ---- c ------------------------------------------------------------------------------------------
 * p8: "the int argument is converted to an unsigned char, and the resulting character is written" --
 * one byte, whatever its value (a zero byte included). */
static inline struct iso_layout iso_chr_layout(unsigned flags, long long width, int arg)
{
    struct iso_layout L = iso_str_layout(flags, width, NULL, 1);
    L.chr = (unsigned char)arg;
    return L;
}

static inline long long iso_layout_len(const struct iso_layout *L)
{
    return L->lpad + L->plen + L->zeros + L->nbody + L->rpad;
}

/* k-th character of the text, as the int value the output callback receives for it when the
 * implementation passes plain `char`s (digits, signs, spaces are < 128, string bytes are passed as
 * (int)(char)byte by a callback of type void(void*, int) fed from a `const char *`); -1 beyond the end.
 * Callers compare modulo 256 where the signedness of char matters. */
static inline int iso_layout_char_at(const struct iso_layout *L, long long k)
{
    if (k < 0)
        return -1;
    if (k < L->lpad)
        return ' ';
    k -= L->lpad;
    if (k < L->plen)
        return k == 0 ? L->p0 : L->p1;
    k -= L->plen;
    if (k < L->zeros)
        return '0';
    k -= L->zeros;
    if (k < L->nbody)
    {
        if (L->base)
            return iso_digit_char(iso_digit(L->mag, L->base, L->nbody - 1 - k), L->upper);
        if (L->str)
            return (unsigned char)L->str[k];
        return L->chr;
    }
    k -= L->nbody;
    if (k < L->rpad)
        return ' ';
    return -1;
}

/* ---- generic entry points -----------------------------------------------------------------------
 * conv selects the conversion; the argument is u (integers: already converted per length modifier and
 * extended to 64 bits; c: the int; p: the pointer value) or s/nbytes (s). */
static inline struct iso_layout iso_layout_of(unsigned flags, long long width, int has_prec, long long prec, int conv,
                                              unsigned long long u, const char *s, long long nbytes)
{
    switch (conv)
    {
    case 'd':
    case 'i':
        return iso_int_layout(flags, width, has_prec, prec, 10, 1, 0, u);
    case 'u':
        return iso_int_layout(flags, width, has_prec, prec, 10, 0, 0, u);
    case 'o':
        return iso_int_layout(flags, width, has_prec, prec, 8, 0, 0, u);
    case 'x':
        return iso_int_layout(flags, width, has_prec, prec, 16, 0, 0, u);
    case 'X':
        return iso_int_layout(flags, width, has_prec, prec, 16, 0, 1, u);
    case 'p':
        return iso_ptr_layout(flags, width, u);
    case 'c':
        return iso_chr_layout(flags, width, (int)u);
    default: /* 's' */
        return iso_str_layout(flags, width, s, nbytes);
    }
}

static inline long long iso_len(unsigned flags, long long width, int has_prec, long long prec, int conv,
                                unsigned long long u, const char *s, long long nbytes)
{
    struct iso_layout L = iso_layout_of(flags, width, has_prec, prec, conv, u, s, nbytes);
    return iso_layout_len(&L);
}

static inline int iso_char_at(long long k, unsigned flags, long long width, int has_prec, long long prec, int conv,
                              unsigned long long u, const char *s, long long nbytes)
{
    struct iso_layout L = iso_layout_of(flags, width, has_prec, prec, conv, u, s, nbytes);
    return iso_layout_char_at(&L, k);
}

/* ---- the ghost recorder -------------------------------------------------------------------------
 * The output callback handed to the real code: counts, and remembers the g_k-th character.  No buffer,
 * so widths and precisions are unbounded; g_k is arbitrary, so a statement about the recorded character
 * is a statement about every character of the output. */
#ifndef ISO_COUNT_T
#define ISO_COUNT_T long long
#endif
ISO_COUNT_T g_count; /* characters emitted so far */
ISO_COUNT_T g_k;     /* ghost index (set by the harness before the call) */
int g_got;         /* the character emitted at position g_k */
static void iso_recorder(void *d, int c)
{
    (void)d;
    if (g_count == g_k)
        g_got = c;
    g_count++;
}

#endif
