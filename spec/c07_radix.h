/* C07 oracle: positional notation, transcribed from the property text.
 *
 *   "Every integer ... renders in every base 2..36 to the canonical digit string (optional '-',
 *    no leading zeros, NUL terminated, returned pointer at the terminator) ... Parsing that text
 *    in the same base returns the original value, accepts letters of either case, stops at the
 *    first character that cannot continue the number and reports that position."
 *
 * Nothing in here is taken from the code under verification.  A number v >= 0 in base b is the
 * digit sequence d_{n-1} ... d_0 with  d_j = floor(v / b^j) mod b  and n the least n >= 1 with
 * v < b^n (=> d_{n-1} != 0 unless v == 0: no leading zeros).  Digits are 0-9 then a-z (A-Z for
 * the routines that document upper case); a negative number is '-' followed by the digits of its
 * magnitude.  The value of a digit string is the Horner fold  acc' = acc * b + d.
 *
 * All functions are meant to be called with a *constant* base (units case-split over the base
 * with `params`): every division / multiplication below is then by a constant and every loop
 * has a constant trip count (cbmc's symbolic execution unrolls them without a bound).
 */
#ifndef C07_RADIX_H
#define C07_RADIX_H
#include <stdint.h>

#define SPEC_NODIGIT 255u

/* digit -> character ----------------------------------------------------------------------- */
static inline char spec_digit_char(unsigned d, int upper)
{
    return (char)(d < 10 ? '0' + d : (upper ? 'A' : 'a') + (d - 10));
}

/* character -> digit value (letters of either case), SPEC_NODIGIT when c is no digit at all.
 * Macro forms because loop invariants must be side-effect free expressions (no calls). */
#define SPEC_DIGIT_VALUE(c)                                                                        \
    ((c) >= '0' && (c) <= '9'   ? (unsigned)((c) - '0')                                            \
     : (c) >= 'a' && (c) <= 'z' ? (unsigned)((c) - 'a') + 10u                                      \
     : (c) >= 'A' && (c) <= 'Z' ? (unsigned)((c) - 'A') + 10u                                      \
                                : SPEC_NODIGIT)
/* "can continue a number in that base" */
#define SPEC_IS_DIGIT_OF(c, base) (SPEC_DIGIT_VALUE(c) < (unsigned)(base))

static inline unsigned spec_digit_value(char c)
{
    return SPEC_DIGIT_VALUE(c);
}
static inline int spec_is_digit_of(char c, unsigned base)
{
    return SPEC_IS_DIGIT_OF(c, base);
}

/* powers of the base: spec_pow[j] = base^j, or 0 when base^j >= 2^64 (greater than every value).
 * A table rather than a function because loop invariants must be side-effect free expressions
 * (no calls); a harness fills it once with spec_radix_init(BASE): constant base => the loop is
 * folded to constants by symbolic execution. */
#define SPEC_MAXPOW 65
static uint64_t spec_pow[SPEC_MAXPOW + 1];
static inline void spec_radix_init(unsigned base)
{
    spec_pow[0] = 1;
    for (unsigned j = 1; j <= SPEC_MAXPOW; j++)
        spec_pow[j] = (spec_pow[j - 1] != 0 && spec_pow[j - 1] <= UINT64_MAX / base) ? spec_pow[j - 1] * base : 0;
}

/* "q has exactly n digits": n is the least n >= 1 with q < base^n, i.e. base^(n-1) <= q < base^n
 * (n == 1 also covers q == 0).  Pure expression: usable inside loop invariants. */
#define SPEC_LEN_IS(q, n)                                                                          \
    ((n) >= 1 && (n) < SPEC_MAXPOW && ((n) == 1 || (q) >= spec_pow[(n)-1]) &&                     \
     (spec_pow[(n)] == 0 || (q) < spec_pow[(n)]))

/* number of digits: least n >= 1 with v < base^n (spec_radix_init(base) must have been called) */
static inline unsigned spec_radix_len(uint64_t v, unsigned base)
{
    unsigned n = 1;
    (void)base;
    while (n < SPEC_MAXPOW && spec_pow[n] != 0 && v >= spec_pow[n])
        n++;
    return n;
}

/* d_j = floor(v / base^j) mod base, j counted from the least significant digit, j < 64 ------- */
static inline unsigned spec_radix_digit(uint64_t v, unsigned base, unsigned j)
{
    uint64_t q = v;
    for (unsigned i = 0; i < 64; i++)
    {
        if (i == j)
            break;
        q /= base;
    }
    return (unsigned)(q % base);
}

/* magnitude of a signed value as a mathematical integer (no signed negation involved) -------- */
static inline uint64_t spec_magnitude(int64_t v)
{
    return v < 0 ? (uint64_t)0 - (uint64_t)v : (uint64_t)v;
}

/* canonical text of (neg ? -mag : mag): length without the NUL ... */
static inline unsigned spec_text_len(int neg, uint64_t mag, unsigned base)
{
    return (neg ? 1u : 0u) + spec_radix_len(mag, base);
}

/* ... and its k-th character, k <= length (the character at k == length is the NUL) */
static inline char spec_text_char(int neg, uint64_t mag, unsigned base, int upper, unsigned k)
{
    unsigned n = spec_radix_len(mag, base);
    unsigned s = neg ? 1u : 0u;
    if (k < s)
        return '-';
    if (k >= s + n)
        return '\0';
    return spec_digit_char(spec_radix_digit(mag, base, n - 1 - (k - s)), upper);
}

/* fixed-width rendering (debug_printhex_* / debug_printbin_*: the representation of the type,
 * zero padded to `width` digits): k-th character, k < width */
static inline char spec_fixed_char(uint64_t v, unsigned base, int upper, unsigned width, unsigned k)
{
    return spec_digit_char(spec_radix_digit(v, base, width - 1 - k), upper);
}

/* one step of the reference Horner fold in w-bit modular arithmetic (the unsigned types of the
 * ato* routines define the result modulo 2^w) */
static inline uint64_t spec_horner64(uint64_t acc, unsigned base, char c)
{
    return acc * base + spec_digit_value(c);
}
static inline uint32_t spec_horner32(uint32_t acc, unsigned base, char c)
{
    return acc * base + spec_digit_value(c);
}

#endif
