/* C19: component-wise reference vocabulary for igris/util/pathops.h.
 * A path is a C string; a *component* (node) is a maximal run of bytes other than '/' and NUL.
 * The helpers skip separators and components that are exactly "." ; the reference says which bytes that are. */
#ifndef C19_PATH_H
#define C19_PATH_H
#include "c19_harness.h"

/* byte that ends a component */
#define C19_PEND(c) ((c) == '/' || (c) == 0)
/* the component starting at p[i] is exactly "." (p[i+1] is only read when p[i] is a dot, hence not the terminator) */
#define C19_PDOT(p, i) ((p)[(i)] == '.' && C19_PEND((p)[(i) + 1]))
/* byte i is skipped by "skip separators and single-dot components" */
#define C19_PSKIP(p, i) ((p)[(i)] == '/' || C19_PDOT(p, i))

#endif
