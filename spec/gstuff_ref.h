/* Reference automaton of the configurable gstuff receiver, written from the protocol
 * definition and C05's statement (not from gstuff.cpp):
 *   alphabet: START, STOP (may equal START), STUB (escape) and the escape codes E_START,
 *   E_STOP, E_STUB; a frame is START, escaped(payload + CRC-8), STOP; CRC-8 poly 0x31, seed
 *   0xFF over the unescaped bytes, frame good iff the residue is 0, the delivered packet is the
 *   unescaped bytes since the last start marker minus the trailing CRC byte.
 *   idle:      START -> in-frame with an empty line; anything else is garbage.
 *   in-frame:  START (when START != STOP) restarts the frame; when the markers coincide a marker
 *              arriving with nothing collected is a repeated start (C05: "from the second frame at
 *              the latest" requires it, the legacy receiver does the same); otherwise STOP ends the
 *              frame (NEWPACKAGE iff residue 0, else CRC error) -> idle; STUB -> escape; else data.
 *   escape:    E_START/E_STOP/E_STUB -> data START/STOP/STUB; START restarts the frame;
 *              anything else is a stuffing error -> idle.
 *   data:      stored if fewer than cap-1 bytes are held, else overflow -> idle.
 * The line content is tracked at ONE arbitrary ghost index k (scalar machine). */
#ifndef GSTUFF_REF_H
#define GSTUFF_REF_H
#include <stdint.h>
#include <stddef.h>
#include "crc8_spec.h"
struct gs_alpha { char START, STOP, STUB, E_START, E_STOP, E_STUB; };
enum { GS_CONTINUE = 0, GS_NEWPACKAGE = 1, GS_FORCE_RESTART = 2, GS_GARBAGE = 3,
       GS_CRC_ERROR = -1, GS_OVERFLOW = -2, GS_STUFFING_ERROR = -3 };
struct gs_ref {
    uint8_t st;      /* 0 idle, 1 in frame, 2 after escape */
    uint8_t crc;
    unsigned len, cap;
    size_t k;        /* ghost index */
    char at_k;       /* byte at index k, meaningful iff k < len */
    struct gs_alpha a;
};
/* what the codec needs from a user-supplied alphabet */
static inline int spec_gs_alpha_valid(const struct gs_alpha *a)
{
    return a->START != a->STUB && a->STOP != a->STUB &&
           a->E_START != a->E_STUB && a->E_STOP != a->E_STUB &&
           (a->E_START != a->E_STOP || a->START == a->STOP) &&
           a->E_START != a->START && a->E_START != a->STOP &&
           a->E_STOP != a->START && a->E_STOP != a->STOP &&
           a->E_STUB != a->START && a->E_STUB != a->STOP;
}
static inline int spec_gs_step(struct gs_ref *r, char c)
{
    char x;
    if (r->st == 0) {
        if (c != r->a.START) return GS_GARBAGE;
        r->st = 1; r->len = 0; r->crc = 0xFF;
        return GS_CONTINUE;
    }
    if (r->st == 1) {
        if (c == r->a.START && r->a.START != r->a.STOP) { r->len = 0; r->crc = 0xFF; return GS_FORCE_RESTART; }
        if (c == r->a.STOP) {
            if (r->a.START == r->a.STOP && r->len == 0) return GS_CONTINUE;   /* repeated start marker */
            r->st = 0;
            if (r->crc != 0) return GS_CRC_ERROR;
            r->len -= 1;             /* strip the CRC byte (residue 0 implies len >= 1) */
            return GS_NEWPACKAGE;
        }
        if (c == r->a.STUB) { r->st = 2; return GS_CONTINUE; }
        x = c;
    } else {
        if (c == r->a.E_START) x = r->a.START;
        else if (c == r->a.E_STOP) x = r->a.STOP;
        else if (c == r->a.E_STUB) x = r->a.STUB;
        else if (c == r->a.START) { r->st = 1; r->len = 0; r->crc = 0xFF; return GS_FORCE_RESTART; }
        else { r->st = 0; return GS_STUFFING_ERROR; }
    }
    if (r->len >= r->cap - 1) { r->st = 0; return GS_OVERFLOW; }
    if (r->len == r->k) r->at_k = x;
    r->len++;
    r->crc = spec_crc8_step(r->crc, (uint8_t)x);
    r->st = 1;
    return GS_CONTINUE;
}
#endif
