/* C10 — fixed-block pools: representation invariant POOL written out for a bounded capacity, the ghost
 * set LIVE, and post-state readers (DESIGN.md section C10).
 *
 * POOL(p) for a pool over the zone [zone, zone + cap*elemsz):
 *   the free list starting at p->free_blocks.next is a simple path of pairwise distinct cells
 *   zone + i*elemsz (i < cap) that ends at the head (&p->free_blocks); the ghost set LIVE is the set of
 *   cells handed out and not yet given back; LIVE and the free list are disjoint and
 *   |free| + |LIVE| == cap.
 * The free list is an inductive structure and cbmc has no inductive predicates, so a pre-state is
 * GENERATED for cap <= C10_CAPMAX: the sequence of free cells is the symbolic index array order[0..nfree)
 * (every length, every order: only range and pairwise distinctness are assumed), LIVE is its
 * complement (so every LIVE subset occurs), the links are established by assignment in the real
 * zone object, every other byte of the zone is arbitrary.  Any state satisfying POOL with cap <=
 * C10_CAPMAX is one of the generated states, therefore "operation f from a generated state ends in a
 * state satisfying POOL" is the inductive step over histories; the bound is on the capacity only.
 * The post-state is read back from the real memory by c10_walk (bounded walk, complete for the
 * capacity bound: it fails closed with -1 when the path leaves the zone, is misaligned, repeats a
 * cell, or does not return to the head within cap steps). */
#ifndef C10_POOL_H
#define C10_POOL_H
#include "vc.h"

#ifndef C10_CAPMAX
#define C10_CAPMAX 6
#endif

/* element sizes the bounded units range over (symbolic choice).  The first entries are the ones a
 * wrapper has to refuse or round (smaller than a free-list link / cells not pointer-aligned). */
static const size_t c10_elemsz_tab[] = {8, 16, 24, 40, 4, 12};
#define C10_NELEMSZ_OK 4
#define C10_NELEMSZ 6
#define C10_ELEMSZ_OK(e) ((e) >= sizeof(struct slist_head) && (e) % _Alignof(struct slist_head) == 0)

static char *c10_zone;       /* exact-size object of cap*elemsz bytes */
#ifdef CAP
#define c10_cap ((size_t)(CAP))         /* parameter sweep: a zone object of symbolic size holding pointers exhausts cbmc's memory */
#else
static size_t c10_cap;       /* capacity in cells */
#endif
#ifdef ELEMSZ
#define c10_elemsz ((size_t)(ELEMSZ))   /* parameter sweep: division / remainder by a symbolic value does not finish */
#else
static size_t c10_elemsz;
#endif
static uchar c10_order[C10_CAPMAX + 1]; /* pre-state free list, as cell indices, first = next to be handed out */
static uint c10_nfree;

#define C10_CELL(i) (c10_zone + (size_t)(i) * c10_elemsz)

/* 1 iff p is the address of a cell of the zone (inside, at a multiple of elemsz) */
static inline int c10_is_cell(const void *p)
{
#ifdef REPLAY
    const char *q = (const char *)p;
    return q >= c10_zone && q < c10_zone + c10_cap * c10_elemsz && (size_t)(q - c10_zone) % c10_elemsz == 0;
#else
    /* offsets relative to the zone: the zone may be a member of a larger object (static_object_pool::storage) */
    return __CPROVER_same_object(p, c10_zone) && __CPROVER_POINTER_OFFSET(p) >= __CPROVER_POINTER_OFFSET(c10_zone) &&
           (size_t)(__CPROVER_POINTER_OFFSET(p) - __CPROVER_POINTER_OFFSET(c10_zone)) < c10_cap * c10_elemsz &&
           (size_t)(__CPROVER_POINTER_OFFSET(p) - __CPROVER_POINTER_OFFSET(c10_zone)) % c10_elemsz == 0;
#endif
}
static inline size_t c10_cell_index(const void *p)
{
#ifdef REPLAY
    return (size_t)((const char *)p - c10_zone) / c10_elemsz;
#else
    return (size_t)(__CPROVER_POINTER_OFFSET(p) - __CPROVER_POINTER_OFFSET(c10_zone)) / c10_elemsz;
#endif
}

/* pre-state membership, spec level */
static inline int c10_free0(uint i)
{
    int r = 0;
    for (uint j = 0; j < C10_CAPMAX; j++)
        if (j < c10_nfree && c10_order[j] == i) r = 1;
    return r;
}
#define C10_LIVE0(i) ((i) < c10_cap && !c10_free0(i))

/* assumptions on the generated state: ranges and pairwise distinctness only */
#define C10_STATE_ASSUME(orderarr, nfree_)                                                          \
    do {                                                                                            \
        __CPROVER_assume(c10_cap <= C10_CAPMAX && (nfree_) <= c10_cap);                             \
        c10_nfree = (nfree_);                                                                       \
        for (uint c10_j = 0; c10_j < C10_CAPMAX; c10_j++) {                                         \
            c10_order[c10_j] = (orderarr)[c10_j];                                                   \
            __CPROVER_assume(c10_j >= c10_nfree || c10_order[c10_j] < c10_cap);                     \
            for (uint c10_k = 0; c10_k < c10_j; c10_k++)                                            \
                __CPROVER_assume(c10_j >= c10_nfree || c10_order[c10_k] != c10_order[c10_j]);       \
        }                                                                                           \
    } while (0)

/* establishes the links of the generated free list in the real zone */
static inline void c10_link(struct pool_head *h)
{
    struct slist_head *prev = &h->free_blocks;
    for (uint j = 0; j < C10_CAPMAX; j++)
        if (j < c10_nfree) {
            struct slist_head *c = (struct slist_head *)C10_CELL(c10_order[j]);
            prev->next = c;
            prev = c;
        }
    prev->next = &h->free_blocks;
}

/* post-state reader: the free list as cell indices; -1 unless it is a simple path of distinct cells of
 * the zone that returns to the head within cap steps */
static inline int c10_walk(struct pool_head *h, uchar *out)
{
    struct slist_head *it = h->free_blocks.next;
    int n = 0;
    for (uint s = 0; s <= C10_CAPMAX; s++) {
        if (it == &h->free_blocks)
            return n;
        if (s >= c10_cap || !c10_is_cell(it))
            return -1;
        size_t idx = c10_cell_index(it);
        for (int k = 0; k < C10_CAPMAX; k++)
            if (k < n && out[k] == idx)
                return -1;
        out[n++] = (uchar)idx;
        it = it->next;
    }
    return -1;
}
static inline int c10_in(const uchar *seq, int n, size_t i)
{
    int r = 0;
    for (int k = 0; k < C10_CAPMAX; k++)
        if (k < n && seq[k] == i) r = 1;
    return r;
}
#endif
