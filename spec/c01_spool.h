/* C01 — node pool for the slist units (same idea as c01_pool.h, one link per node).
 * With C01S_ENTRY the nodes are the `lnk` members of a concrete entry type. */
#ifndef C01_SPOOL_H
#define C01_SPOOL_H
#include "vc.h"
/* igris' member_offsetof is the classic `&((type *)0)->member`; UBSan's `null` group reports it on every
 * dlist_entry / mcast_out and would abort each native replay before the real code runs.  Harnesses that
 * expand these macros switch that one group off (replay only); ASan and the other UBSan groups stay on. */
#ifdef REPLAY
#define C01_NO_UBSAN_NULL __attribute__((no_sanitize("null")))
#else
#define C01_NO_UBSAN_NULL
#endif
#include <stdbool.h>
#include "c01_dprint_stub.h"
#include <igris/datastruct/slist.h>

#ifndef C01_K
#define C01_K 5
#endif
#define C01_NINV 2
#define C01_NIDX (C01_K + C01_NINV)

struct c01_sentry {
    long key;
    struct slist_head lnk;
    int tail;
};
#ifdef C01S_ENTRY
#define C01S_OBJ_T struct c01_sentry
#define C01S_LNK(o) (&(o).lnk)
#else
#define C01S_OBJ_T struct slist_head
#define C01S_LNK(o) (&(o))
#endif
static C01S_OBJ_T c01s_o0, c01s_o1, c01s_o2, c01s_o3, c01s_o4, c01s_o5, c01s_o6, c01s_o7;
static struct slist_head *const c01s_objs[8] = {C01S_LNK(c01s_o0), C01S_LNK(c01s_o1), C01S_LNK(c01s_o2), C01S_LNK(c01s_o3),
                                                C01S_LNK(c01s_o4), C01S_LNK(c01s_o5), C01S_LNK(c01s_o6), C01S_LNK(c01s_o7)};
static struct slist_head *c01s_node[C01_NIDX];
static uchar c01s_nx[C01_K];
static struct slist_head *c01s_onx[C01_K];

#define C01S_POOL(nxarr)                                                                             \
    do {                                                                                             \
        for (int c01_i = 0; c01_i < C01_K; c01_i++)                                                  \
            c01s_node[c01_i] = c01s_objs[c01_i];                                                     \
        for (int c01_i = 0; c01_i < C01_NINV; c01_i++)                                               \
            c01s_node[C01_K + c01_i] = NEW_OBJ(0);                                                   \
        for (int c01_i = 0; c01_i < C01_K; c01_i++) {                                                \
            __CPROVER_assume((nxarr)[c01_i] < C01_NIDX);                                             \
            c01s_nx[c01_i] = (nxarr)[c01_i];                                                         \
            c01s_node[c01_i]->next = c01s_onx[c01_i] = c01s_node[c01s_nx[c01_i]];                    \
        }                                                                                            \
    } while (0)

#define S_(i) (c01s_node[i])
#define VALID0(i) ((i) < C01_K)
#define BIT(i) (VALID0(i) ? 1u << (i) : 0u)

static int c01s_idx(const struct slist_head *p)
{
    for (int i = 0; i < C01_K; i++)
        if (p == c01s_node[i])
            return i;
    return C01_K;
}
static void c01s_frame(uint may_nx)
{
    for (int i = 0; i < C01_K; i++)
        __CPROVER_assert((may_nx >> i & 1) || c01s_node[i]->next == c01s_onx[i],
                         "frame: next field outside the operation's assigns set is unchanged");
}
#endif
