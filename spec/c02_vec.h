/* C02 — verification vocabulary for igris::vector<T, Alloc> extracted to C at T = ELEM (spec/elem_lifetime.h).
 *
 * Ghost-index discipline (no `forall` in cbmc): ONE arbitrary slot index g_k is tracked in EVERY block (the
 * vector's own block, the other vector's block, every block allocated during the call).  The lifetime protocol
 * asserts of ELEM_* fire exactly for pointers whose offset inside their object is g_k * sizeof(ELEM) (and for
 * the stand-alone ELEM object g_solo of the harness, e.g. a `value` argument).  g_k is a nondet input that no
 * harness constrains, so a protocol violation at any slot of any block is a violation for g_k == that slot's
 * index.  State UPDATES of ELEM_* are unconditional, so the tracked slot's state is exactly what the untracked
 * model would compute.  A second index g_j (c02_std_algo.h) only carries values: harnesses tie it to g_k -+ shift.
 * Natively (REPLAY) every slot is tracked: the blocks are concretely initialised there.
 *
 * Known-finding waiver windows (g_lt_wbase, g_lt_wlo/whi): for a lifetime defect that fails on EVERY input an input
 * region would make the carved-out run vacuous; instead the protocol asserts are switched off for exactly the slot(s)
 * the recorded defect mistreats, between two injected ghost statements around the faulty statements, and only in the
 * carved-out main run (KF_<id> == 1).  Everything else in that run (other slots, bounds, values) is still checked.
 */
#ifndef C02_VEC_H
#define C02_VEC_H
#include <stddef.h>
#include <stdint.h>
#include <stdbool.h>

size_t g_k;                 /* the tracked slot index (arbitrary) */
const void *g_lt_wbase;     /* known-finding waiver windows: slots [g_lt_wlo[i], g_lt_whi[i]) of this block are not checked */
size_t g_lt_wlo[2], g_lt_whi[2];   /* both empty (0, 0) except between two injected ghost statements in a carved-out run (KF_<id> == 1) */
int g_thrown;               /* at(): `throw std::out_of_range` rewritten to g_thrown = 1; return NULL */

const void *g_solo;         /* a stand-alone ELEM object of the harness (e.g. the `value` argument): always tracked */
const void *g_solo2;        /* the algorithm stubs' local copy of the tracked slot while its events are applied */
#define C02_SHR >> 0      /* byte offset -> slot index (sizeof(ELEM) == 1) */
/* q lies in one of the two known-finding waiver windows (slots [lo, hi) of the block g_lt_wbase) */
#ifdef REPLAY
#define C02_WAIVED(q) (((const char *)(q) >= (const char *)g_lt_wbase + g_lt_wlo[0] && (const char *)(q) < (const char *)g_lt_wbase + g_lt_whi[0]) || \
                       ((const char *)(q) >= (const char *)g_lt_wbase + g_lt_wlo[1] && (const char *)(q) < (const char *)g_lt_wbase + g_lt_whi[1]))
#ifndef ELEM_TRACKED
#define ELEM_TRACKED(q) ((const void *)(q) == g_solo || !C02_WAIVED(q))
#endif
#else
#define C02_WAIVED(q) (__CPROVER_same_object(q, g_lt_wbase) && \
    (((size_t)__CPROVER_POINTER_OFFSET(q) >= g_lt_wlo[0] && (size_t)__CPROVER_POINTER_OFFSET(q) < g_lt_whi[0]) || \
     ((size_t)__CPROVER_POINTER_OFFSET(q) >= g_lt_wlo[1] && (size_t)__CPROVER_POINTER_OFFSET(q) < g_lt_whi[1])))
#ifndef ELEM_TRACKED      /* (units/C02/algo_sparse_vs_loop.c switches the protocol asserts off to compare states only) */
#define ELEM_TRACKED(q) ((const void *)(q) == g_solo || (const void *)(q) == g_solo2 || ((((size_t)__CPROVER_POINTER_OFFSET(q)) C02_SHR) == g_k && !C02_WAIVED(q)))
#endif
#endif
/* 1-byte element representation: one array read / write per element operation and no divider in cbmc's array
 * indexing (with the 8-byte struct the same units run out of memory).  Values are 0..63. */
#define ELEM_PACKED 1
#include "elem_lifetime.h"
_Static_assert(sizeof(ELEM) == 1, "packed ELEM");
/* the slot *p is in state st with value val - ONE read of the slot (cbmc's array theory is quadratic in the reads) */
#define C02_IS(p, st, val) ((p)->g_bits == (unsigned char)((((unsigned)(val)) << 2) | (unsigned)(st)))
#define C02_VMAX 63

#define C02_SZ sizeof(ELEM)
/* slot index of a pointer into a block */
#define C02_IDX(p) ((size_t)__CPROVER_POINTER_OFFSET(p) C02_SHR)
/* start and slot count of the block that holds p */
#ifdef REPLAY
#define C02_BASE(p) ((ELEM *)(p))
#define C02_NSLOTS(p) ((size_t)0)
#else
#define C02_BASE(p) ((ELEM *)(p) - (ptrdiff_t)C02_IDX(p))
#define C02_NSLOTS(p) ((size_t)(__CPROVER_OBJECT_SIZE(p) C02_SHR))
#endif
/* p points at a slot boundary of the block `base`, at most `n` slots in */
#define C02_IN(p, base, n) (__CPROVER_same_object((p), (base)) && __CPROVER_POINTER_OFFSET(p) >= 0 && \
    ((size_t)__CPROVER_POINTER_OFFSET(p) & (C02_SZ - 1)) == 0 && (size_t)__CPROVER_POINTER_OFFSET(p) <= (n) * C02_SZ)
/* largest capacity considered: 2^36 elements (cbmc object-size limit 2^40 bytes; size+1 / size+n never wrap) */
#ifdef WITNESS_MODE
#define C02_MAXN 4
#else
#define C02_MAXN ((size_t)1 << 36)
#endif

/* ------------------------------------------------------------------ allocator stub (std::allocator<ELEM>)
 * allocate(n): a fresh exact-size object of n zero-initialised (= RAW) slots; n is recorded in a ghost table.
 * deallocate(p, n): p is the start of a block obtained from allocate and not yet released, n is the recorded
 * size, and (ghost index) no slot of the block is still alive = "every constructed element is destroyed exactly
 * once" at release time.  The block is then released (any later access fails a pointer obligation / ASan). */
struct c02_allocator { char unused; };
#define C02_NBLK 6
const void *g_blk_p[C02_NBLK];
size_t g_blk_n[C02_NBLK];
int g_blk_freed[C02_NBLK];
int g_blk_cnt;
int g_alloc_calls, g_dealloc_calls;

static inline void g_blk_register(const void *p, size_t n)
{
    __CPROVER_assert(g_blk_cnt < C02_NBLK, "spec: ghost block table large enough");
    if (g_blk_cnt < C02_NBLK) {
        g_blk_p[g_blk_cnt] = p; g_blk_n[g_blk_cnt] = n; g_blk_freed[g_blk_cnt] = 0; g_blk_cnt++;
    }
}
static inline int g_blk_find(const void *p)
{
    /* loop-free on purpose (usable below loop contracts); latest entry wins (addresses may be reused natively) */
    if (g_blk_cnt > 5 && g_blk_p[5] == p) return 5;
    if (g_blk_cnt > 4 && g_blk_p[4] == p) return 4;
    if (g_blk_cnt > 3 && g_blk_p[3] == p) return 3;
    if (g_blk_cnt > 2 && g_blk_p[2] == p) return 2;
    if (g_blk_cnt > 1 && g_blk_p[1] == p) return 1;
    if (g_blk_cnt > 0 && g_blk_p[0] == p) return 0;
    return -1;
}
#ifdef REPLAY
#include <stdlib.h>
#define C02_RAW_FREE(p) free((void *)(p))
#else
#define C02_RAW_FREE(p) __CPROVER_deallocate((void *)(p))
#endif
static inline ELEM *c02_allocate(struct c02_allocator *a, size_t n)
{
    (void)a;
    __CPROVER_assert(n <= C02_MAXN, "bounds: allocate(n) within max_size");
#ifdef REPLAY
    ELEM *p = (ELEM *)(n ? calloc(n, C02_SZ) : malloc(0));
#else
    ELEM *p = (ELEM *)__CPROVER_allocate(n * C02_SZ, 1);
#endif
    g_blk_register(p, n);
    g_alloc_calls++;
    return p;
}
static inline void c02_deallocate(struct c02_allocator *a, ELEM *p, size_t n)
{
    (void)a;
    int b = g_blk_find(p);
    __CPROVER_assert(b >= 0 && !g_blk_freed[b], "bounds: deallocate(p, n): p is a block from allocate() that has not been released yet");
    __CPROVER_assert(b < 0 || g_blk_n[b] == n, "bounds: deallocate(p, n): n is the size the block was allocated with");
    if (b >= 0 && !g_blk_freed[b]) {
#ifdef REPLAY
        for (size_t i = 0; i < g_blk_n[b]; i++)
            __CPROVER_assert(ELEM_ST(&p[i]) == ELEM_RAW, "lifetime: block released while an element in it is still alive (constructed, never destroyed)");
#else
        if (g_k < g_blk_n[b])
            __CPROVER_assert(ELEM_ST(&p[g_k]) == ELEM_RAW, "lifetime: block released while an element in it is still alive (constructed, never destroyed)");
#endif
        g_blk_freed[b] = 1;
        C02_RAW_FREE(p);
    }
    g_dealloc_calls++;
}

/* C++ [expr.add]/5: nullptr - nullptr == 0 (undefined in C, cbmc flags it): `pos - m_data` on a vector without a block */
static inline ptrdiff_t c02_ptr_diff(const ELEM *p, const ELEM *q) { return (!p && !q) ? 0 : p - q; }

#include "c02_std_algo.h"

/* goto-instrument --apply-loop-contracts havocs statics: every harness starts with c02_init(k, j) */
static inline void c02_init(size_t k, size_t j)
{
    g_k = k; g_j = j; g_thrown = 0; g_solo = 0; g_solo2 = 0;
    g_lt_wbase = 0; g_lt_wlo[0] = g_lt_whi[0] = g_lt_wlo[1] = g_lt_whi[1] = 0;
    g_blk_cnt = 0; g_alloc_calls = 0; g_dealloc_calls = 0; g_lex_m = 0; g_eq_it = 0;
}
#endif
