/* C18 reference definitions for the hexascii codec (written from the definition of
 * hexadecimal notation, not from the code): alphabet "0123456789ABCDEF", digit value =
 * index in the alphabet, a byte is written as its high nibble followed by its low nibble,
 * an N-bit value as its bytes most significant first.  All macros are loop-free so that
 * they can be used inside loop invariants. */
#ifndef C18_HEX_REF_H
#define C18_HEX_REF_H
#include <stdint.h>
#include <stddef.h>

static const char SPEC_HEX_ALPHABET[17] = "0123456789ABCDEF";

#define SPEC_IS_HEXUP(c) (((c) >= '0' && (c) <= '9') || ((c) >= 'A' && (c) <= 'F'))
/* ISO C isxdigit in the "C" locale */
#define SPEC_IS_XDIGIT(c) (SPEC_IS_HEXUP(c) || ((c) >= 'a' && (c) <= 'f'))
/* digit value of a hexadecimal digit character (either case), ISO C 6.4.4.1 */
#define SPEC_HEXVAL(c) ((uint8_t)(((c) >= '0' && (c) <= '9') ? (c) - '0' : ((c) >= 'A' && (c) <= 'F') ? (c) - 'A' + 10 : (c) - 'a' + 10))
/* k-th character (k = 0 is the leftmost) of the W-digit big-endian upper-case hex text of v */
#define SPEC_HEX_CHAR(v, W, k) (SPEC_HEX_ALPHABET[((uint64_t)(v) >> (4 * ((W) - 1 - (k)))) & 0xF])
/* character at position k of the hexascii text of the byte string x: byte k/2, high nibble first */
#define SPEC_HEXASCII_CHAR(x, k) (SPEC_HEX_ALPHABET[((k) & 1) ? ((x)[(k) / 2] & 0xF) : (((x)[(k) / 2] >> 4) & 0xF)])

#endif
