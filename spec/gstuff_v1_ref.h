/* Reference automaton of the legacy gstuff receiver, written from the protocol definition:
 *   marker M = 0xAC delimits frames on both sides (a marker with nothing collected is a
 *   (repeated) start, a marker after data ends the frame); escape E = 0xAD: E,0xAE -> M,
 *   E,0xAF -> E, anything else after E is a data error; CRC-8 poly 0x31 seed 0xFF over the
 *   unescaped bytes, frame good iff the residue is 0 (the CRC stays in the line);
 *   at most cap-1 bytes are stored, a byte that does not fit is an overflow.
 * The line content is tracked at ONE arbitrary ghost index k (at_k), so the machine is purely
 * scalar and statements about at_k are statements about every byte of the line. */
#ifndef GSTUFF_V1_REF_H
#define GSTUFF_V1_REF_H
#include <stdint.h>
#include <stddef.h>
#include "crc8_spec.h"
#define RXV1_M ((char)0xAC)
#define RXV1_E ((char)0xAD)
#define RXV1_E_M ((char)0xAE)
#define RXV1_E_E ((char)0xAF)
enum { RXV1_CONTINUE = 0, RXV1_NEWPACKAGE = 1, RXV1_CRC_ERROR = -1, RXV1_OVERFLOW = -2, RXV1_DATA_ERROR = -3 };
struct rxv1_ref {
    uint8_t st;      /* 0 idle (next byte starts from an empty line), 1 collecting, 2 after escape */
    uint8_t crc;
    unsigned len, cap;
    size_t k;        /* ghost index */
    char at_k;       /* byte at index k, meaningful iff k < len */
};
static inline int spec_rxv1_step(struct rxv1_ref *r, char c)
{
    char x;
    if (r->st == 0) { r->len = 0; r->crc = 0xFF; r->st = 1; }
    if (r->st == 1) {
        if (c == RXV1_M) {
            if (r->len == 0) return RXV1_CONTINUE;
            r->st = 0;
            return r->crc != 0 ? RXV1_CRC_ERROR : RXV1_NEWPACKAGE;
        }
        if (c == RXV1_E) { r->st = 2; return RXV1_CONTINUE; }
        x = c;
    } else {
        if (c == RXV1_E_M) x = RXV1_M;
        else if (c == RXV1_E_E) x = RXV1_E;
        else { r->st = 0; return RXV1_DATA_ERROR; }
    }
    if (r->len >= r->cap - 1) { r->st = 0; return RXV1_OVERFLOW; }
    if (r->len == r->k) r->at_k = x;
    r->len++;
    r->crc = spec_crc8_step(r->crc, (uint8_t)x);
    r->st = 1;
    return RXV1_CONTINUE;
}
#endif
