/* C12: reference machine for the LEXICAL part of text -> float (igris_atof32, igris_atof64, igris_strtod, strtod,
 * atof), written from the grammar the property names
 *
 *        [+-] d* [ . d* ] [ (e|E) [+-] d+ ]
 *
 * with the two stipulations of ISO/IEC 9899 7.22.1.3p3 that make "the literal" unique (the property's oracle is
 * strtod): the mantissa holds at least one digit (before or after the point), and the exponent part belongs to
 * the literal only when at least one digit follows the e / e+ / e- ("subject sequence = LONGEST initial
 * subsequence of the expected form", p4).  No literal at the start of the text => nothing is converted: value 0,
 * *endptr = nptr (p7).  White space skipping, hexadecimal floats and the inf / nan spellings of 7.22.1.3 are not
 * part of the property's grammar and not modelled (PROPERTY.json).
 *
 * The machine walks over the text ITSELF (reads g_t[g_i]); it never looks at what the code read.  It keeps the
 * integers of the literal only: sign, digit counts, decimal exponent.  The value of the literal is a real
 * number; relating it to the returned binary float is the accuracy clause, which is not decidable here.
 *
 * Precondition on the text (the only assumption about it), P: every character the machine has to inspect lies
 * inside the text object.  A NUL-terminated string satisfies P; so does an object that ENDS exactly at the first
 * character that cannot be consumed (after "1e" / "1e+" one or two characters further: whether the e belongs to the
 * literal depends on them).  The object size g_n is arbitrary, so that tight object is among the verified inputs
 * and a read one byte beyond it is a failed pointer obligation.  P is instantiated at the machine's own cursor
 * (SPEC_NEED), at the moment the machine decides to go on.
 */
#ifndef C12_ATOF_REF_H
#define C12_ATOF_REF_H
#include <stddef.h>
#include <stdint.h>
#include <limits.h>

static const unsigned char *g_t; /* the text */
static size_t g_n;               /* size of the text object */
static size_t g_i;               /* cursor: index of the character under inspection */
static int g_neg;                /* literal begins with '-' */
static size_t g_sgn;             /* 1 when a sign character was consumed, else 0 */
static size_t g_nd, g_nf;        /* digits before / after the point */
static int g_dot;                /* a '.' was consumed */
static int g_exp;                /* an exponent part (marker, optional sign, >= 1 digit) belongs to the literal */
static int g_eneg;               /* ... and its sign is '-' */
static int g_emark;              /* e/E follows the mantissa but no digit follows it: not part of the literal */
static uint64_t g_eval;          /* magnitude of the decimal exponent, saturating at C12_ESAT */
static int g_hexseen;            /* atof32: the code consumed a letter a-f / A-F as a decimal digit */
static size_t g_end;             /* end of the literal as an index (valid after spec_atof_exp_done) */
#define C12_ESAT ((uint64_t)1 << 40)
/* exponent magnitudes below this bound are book-kept exactly by every implementation the units accept (a
 * saturating parser may stop counting beyond it: 10^+-100000000 is 0 / infinity for every mantissa that fits a
 * text of 2^30 characters) */
#define C12_EEXACT 100000000u
/* largest text considered: the code counts fraction digits in an `int` */
#define C12_MAXTEXTOBJ ((size_t)1 << 30)

/* sign bit of a double (-0.0 included); usable from ghost statements in all three compilation modes */
static inline int spec_signd(double x)
{
#ifdef REPLAY
    return __builtin_signbit(x) != 0;
#else
    return __CPROVER_signd(x);
#endif
}

#define SPEC_NEED(k) __CPROVER_assume((k) < g_n)
#define SPEC_ISDIGIT(ch) ((ch) >= '0' && (ch) <= '9')

static inline void spec_atof_reset(const void *t, size_t n)
{
    g_t = (const unsigned char *)t;
    g_n = n;
    g_i = 0;
    g_neg = 0;
    g_sgn = 0;
    g_nd = g_nf = 0;
    g_dot = g_exp = g_eneg = g_emark = 0;
    g_eval = 0;
    g_end = 0;
    g_hexseen = 0;
}

/* optional sign */
static inline void spec_atof_sign(void)
{
    unsigned char ch = g_t[g_i];
    if (ch == '+' || ch == '-') {
        g_neg = (ch == '-');
        g_sgn = 1;
        SPEC_NEED(g_i + 1);
        g_i++;
    }
}

/* one digit of the integer part; the caller (the code's loop) decides that there is one, the machine checks it */
static inline void spec_atof_int_step(void)
{
    __CPROVER_assert(SPEC_ISDIGIT(g_t[g_i]), "lock-step: the code consumes an integer digit where the grammar has one");
    SPEC_NEED(g_i + 1);
    g_i++;
    g_nd++;
}

/* The cursor g_i is TENTATIVE from here on: like every one-pass parser the machine steps over a '.', an e and an
 * exponent sign before it knows whether they belong to the literal (that is decided by what follows); the end of
 * the literal is kept separately in g_end.  A parser has to inspect the character behind each of them in any
 * case, hence the SPEC_NEEDs. */

/* decimal point (called where the integer digits end) */
static inline void spec_atof_point(void)
{
    __CPROVER_assert(!SPEC_ISDIGIT(g_t[g_i]), "the code leaves the integer part where the grammar's d* ends (longest match)");
    if (g_t[g_i] == '.') {
        SPEC_NEED(g_i + 1); /* "1." / ".5" / ".": the character behind the point is a digit or decides */
        g_dot = 1;
        g_i++;
    }
}

static inline void spec_atof_frac_step(void)
{
    __CPROVER_assert(g_dot && SPEC_ISDIGIT(g_t[g_i]), "lock-step: the code consumes a fraction digit where the grammar has one");
    SPEC_NEED(g_i + 1);
    g_i++;
    g_nf++;
}

/* mantissa finished: exponent part.  kf_*: values of the known-finding switches (0 nothing carved, 1 region
 * excluded, 2 only the region); the regions are decided here because this is the first point where the machine
 * knows them, and it lies before the code acts on the exponent. */
static inline void spec_atof_exp(int kf_nodigits, int kf_emark, int kf_negexp)
{
    int nodigits = (g_nd + g_nf == 0);
    __CPROVER_assert(!SPEC_ISDIGIT(g_t[g_i]), "the code leaves the mantissa where the grammar's digits end (longest match)");
    __CPROVER_assume(kf_nodigits == 0 ? 1 : kf_nodigits == 1 ? !nodigits : nodigits);
    g_exp = g_eneg = g_emark = 0;
    g_eval = 0;
    /* "1." ends behind the point, "." and "-." are no literal at all */
    g_end = nodigits ? 0 : g_i;
    if (!nodigits && (g_t[g_i] == 'e' || g_t[g_i] == 'E')) {
        size_t j = g_i + 1;
        int eneg = 0;
        SPEC_NEED(j); /* the e is a digit-less suffix unless a digit follows: the next character decides */
        if (g_t[j] == '+' || g_t[j] == '-') {
            eneg = (g_t[j] == '-');
            j++;
            SPEC_NEED(j);
        }
        if (SPEC_ISDIGIT(g_t[j])) {
            g_exp = 1;
            g_eneg = eneg;
        } else {
            g_emark = 1;
        }
        g_i = j; /* tentative */
    }
    __CPROVER_assume(kf_emark == 0 ? 1 : kf_emark == 1 ? !g_emark : g_emark);
    __CPROVER_assume(kf_negexp == 0 ? 1 : kf_negexp == 1 ? !(g_exp && g_eneg) : (g_exp && g_eneg));
}

/* one exponent digit.  kf_eovf: region "the exponent magnitude does not fit an int" */
static inline void spec_atof_exp_step(int kf_eovf)
{
    __CPROVER_assert(g_exp && SPEC_ISDIGIT(g_t[g_i]), "lock-step: the code consumes an exponent digit where the grammar has one");
    g_eval = g_eval * 10u + (uint64_t)(g_t[g_i] - '0');
    if (g_eval > C12_ESAT)
        g_eval = C12_ESAT;
    if (kf_eovf == 1)
        __CPROVER_assume(g_eval <= (uint64_t)INT_MAX);
    SPEC_NEED(g_i + 1);
    g_i++;
}

/* all parts read: the end of the literal */
static inline void spec_atof_done(int kf_eovf)
{
    __CPROVER_assert(!g_exp || !SPEC_ISDIGIT(g_t[g_i]), "the code leaves the exponent where the grammar's d+ ends (longest match)");
    if (g_exp)
        g_end = g_i;
    __CPROVER_assume(kf_eovf == 2 ? g_eval > (uint64_t)INT_MAX : 1);
}

/* decimal exponent of the digit string read as an integer: value = digits * 10^spec_atof_dexp() */
static inline int64_t spec_atof_dexp(void)
{
    int64_t e = (int64_t)g_eval;
    return (g_exp ? (g_eneg ? -e : e) : 0) - (int64_t)g_nf;
}

/* ---- igris_atof32: integer part through igris_atou32, fraction through igris_atou64 (both C07's code, run
 * inlined), no exponent support.  Same machine; the known-finding regions of this entry point are decided by the
 * machine at the first point where it knows them. ---- */
/* 10^n for n <= 18 (a loop-free expression for loop invariants); larger n: UINT64_MAX */
#define SPEC_POW10(n)                                                                                  \
    ((n) == 0 ? 1ull : (n) == 1 ? 10ull : (n) == 2 ? 100ull : (n) == 3 ? 1000ull : (n) == 4 ? 10000ull \
     : (n) == 5 ? 100000ull : (n) == 6 ? 1000000ull : (n) == 7 ? 10000000ull : (n) == 8 ? 100000000ull \
     : (n) == 9 ? 1000000000ull : (n) == 10 ? 10000000000ull : (n) == 11 ? 100000000000ull             \
     : (n) == 12 ? 1000000000000ull : (n) == 13 ? 10000000000000ull : (n) == 14 ? 100000000000000ull    \
     : (n) == 15 ? 1000000000000000ull : (n) == 16 ? 10000000000000000ull                              \
     : (n) == 17 ? 100000000000000000ull : (n) == 18 ? 1000000000000000000ull : 0xffffffffffffffffull)
#define SPEC_ISHEXLETTER(ch) (((ch) >= 'a' && (ch) <= 'f') || ((ch) >= 'A' && (ch) <= 'F'))

/* start of the text.  Regions: kf_gate  = the first character is neither a digit nor '-' (the function returns 0
 * at once and stores nothing);  kf_end = a digit or a point follows the optional sign, i.e. igris_atou32/64 are called and their *end is used (they report
 * *end one character too early, C07) */
static inline void spec_atof32_begin(int kf_gate, int kf_end)
{
    unsigned char c0 = g_t[0];
    int gate = !(SPEC_ISDIGIT(c0) || c0 == '-');
    __CPROVER_assume(kf_gate == 0 ? 1 : kf_gate == 1 ? !gate : gate);
    spec_atof_sign();
    if (g_t[g_i] == '.')
        SPEC_NEED(g_i + 1); /* ".5" vs ".": the character behind the point decides (same need as in spec_atof_point) */
    {
        int r_end = SPEC_ISDIGIT(g_t[g_i]) || g_t[g_i] == '.';
        __CPROVER_assume(kf_end == 0 ? 1 : kf_end == 1 ? !r_end : r_end);
    }
}

/* digit steps inside igris_atou32 / igris_atou64: the code's loop accepts every HEXADECIMAL digit although the
 * base is 10 (C07); region kf_hex = a letter a-f / A-F directly follows the digits */
static inline void spec_atof32_int_step(int kf_hex)
{
    int hex = SPEC_ISHEXLETTER(g_t[g_i]);
    __CPROVER_assume(kf_hex == 0 ? 1 : kf_hex == 1 ? !hex : 1);
    g_hexseen |= hex;
    spec_atof_int_step();
}
static inline void spec_atof32_frac_step(int kf_hex)
{
    int hex = SPEC_ISHEXLETTER(g_t[g_i]);
    __CPROVER_assume(kf_hex == 0 ? 1 : kf_hex == 1 ? !hex : 1);
    g_hexseen |= hex;
    spec_atof_frac_step();
}

/* mantissa read.  Regions: kf_noexp = a complete exponent part follows (the function has no exponent support);
 * kf_pow = 19 or more fraction digits (10^n is computed in an int64_t) */
static inline void spec_atof32_done(int kf_hex, int kf_noexp, int kf_pow)
{
    __CPROVER_assume(kf_hex == 2 ? g_hexseen : 1);
    __CPROVER_assume(kf_pow == 0 ? 1 : kf_pow == 1 ? g_nf <= 18 : g_nf >= 19);
    spec_atof_exp(0, 0, 0);
    __CPROVER_assume(kf_noexp == 0 ? 1 : kf_noexp == 1 ? !g_exp : g_exp);
    /* the function returns here; it has no exponent loop the machine could be stepped through */
    __CPROVER_assert(!g_exp, "a complete exponent part (e, optional sign, digit) follows the mantissa: it belongs to the literal, but the function stops in front of it");
}

#endif
