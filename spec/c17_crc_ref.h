/* C17 reference: the textbook bit-serial CRC, written from the definition (polynomial division over
 * GF(2) done by a shift register; parametrisation of Ross Williams' "Rocksoft model": WIDTH, POLY,
 * INIT, REFIN, REFOUT), not from igris/util/crc.c.
 *
 * The register is always kept in the *normal* (MSB-first) orientation here and POLY is always given
 * in normal notation (x^8+x^5+x^4+1 -> 0x31, never 0x8C).  A reflected algorithm (REFIN = REFOUT = 1,
 * e.g. Dallas/Maxim) is described the way the model does: message bytes are fed least significant
 * bit first and the final register is bit-reversed.  The code under verification shifts the other way
 * and uses other constants (0x8C, nibble tables, the x^12/x^5 shortcut of CRC-16/CCITT): the proof
 * units relate the two through the loop invariants.
 *
 * Everything is a pure function of its arguments (no memory is read or written).
 */
#ifndef C17_CRC_REF_H
#define C17_CRC_REF_H
#include <stdint.h>

/* all-ones mask of `width` bits, 1 <= width <= 32 */
static inline uint32_t spec_crc_mask(unsigned width)
{
    return width >= 32 ? 0xFFFFFFFFu : (((uint32_t)1 << width) - 1u);
}

/* bit reversal of the low `width` bits of v */
static inline uint32_t spec_crc_reflect(uint32_t v, unsigned width)
{
    uint32_t r = 0;
    for (unsigned k = 0; k < width; k++)
        if ((v >> k) & 1u)
            r |= (uint32_t)1 << (width - 1u - k);
    return r;
}

/* The same for width 8 as a loop-free expression (loop invariants must be side-effect free, so they cannot
 * call spec_crc_reflect); unit ref_selfcheck proves SPEC_REFLECT8(v) == spec_crc_reflect(v, 8) for all v. */
#define SPEC_REFLECT8(v)                                                                                   \
    ((uint8_t)((((v) & 0x01u) << 7) | (((v) & 0x02u) << 5) | (((v) & 0x04u) << 3) | (((v) & 0x08u) << 1) | \
               (((v) & 0x10u) >> 1) | (((v) & 0x20u) >> 3) | (((v) & 0x40u) >> 5) | (((v) & 0x80u) >> 7)))

/* One message bit enters the register: the bit that leaves at the top, xor the message bit, decides
 * whether the generator polynomial is subtracted (division step of (M(x) * x^width) mod G(x)). */
static inline uint32_t spec_crc_bit(unsigned width, uint32_t poly, uint32_t reg, unsigned bit)
{
    unsigned top = (unsigned)((reg >> (width - 1u)) & 1u) ^ (bit & 1u);
    reg = (reg << 1) & spec_crc_mask(width);
    if (top)
        reg ^= poly;
    return reg;
}

/* One message byte: eight bit steps, most significant bit first (REFIN = 0) or least significant bit
 * first (REFIN = 1). */
static inline uint32_t spec_crc_byte(unsigned width, uint32_t poly, int refin, uint32_t reg, uint8_t byte)
{
    for (unsigned k = 0; k < 8; k++)
        reg = spec_crc_bit(width, poly, reg, refin ? ((unsigned)byte >> k) & 1u : ((unsigned)byte >> (7u - k)) & 1u);
    return reg;
}

/* REFOUT */
static inline uint32_t spec_crc_out(unsigned width, int refout, uint32_t reg)
{
    return refout ? spec_crc_reflect(reg, width) : reg;
}

/* Whole message (used directly only where the length is small and concrete: witness / replay runs and
 * bounded stand-ins; the unbounded proofs run the same fold one byte per loop iteration as ghost code). */
static inline uint32_t spec_crc_fold(unsigned width, uint32_t poly, int refin, uint32_t reg, const uint8_t *msg, uint32_t n)
{
    for (uint32_t k = 0; k < n; k++)
        reg = spec_crc_byte(width, poly, refin, reg, msg[k]);
    return reg;
}

/* ------------------------------------------------------------------ the five instances the property names */

/* CRC-8 of gstuff ("streaming"): x^8+x^5+x^4+1, MSB first, register = running value (seed 0xFF at the call sites) */
#define SPEC_STRM8_BYTE(reg, b) ((uint8_t)spec_crc_byte(8, 0x31u, 0, (reg), (b)))

/* Dallas/Maxim 1-Wire CRC-8: same polynomial, REFIN = REFOUT = 1.  The routine's running value / seed is the
 * reflected register, so: routine value v  <->  normal register reflect8(v). */
#define SPEC_DOW8_REG_OF(v) (spec_crc_reflect((v), 8))
#define SPEC_DOW8_BYTE(reg, b) (spec_crc_byte(8, 0x31u, 1, (reg), (b)))
#define SPEC_DOW8_OUT(reg) ((uint8_t)spec_crc_out(8, 1, (reg)))

/* CRC-16/CCITT (x^16+x^12+x^5+1), MSB first, no reflection, seed = running value */
#define SPEC_CCITT16_BYTE(reg, b) ((uint16_t)spec_crc_byte(16, 0x1021u, 0, (reg), (b)))

/* CRC-7/MMC (x^7+x^3+1), MSB first, INIT 0 */
#define SPEC_MMC7_BYTE(reg, b) ((uint8_t)spec_crc_byte(7, 0x09u, 0, (reg), (b)))

/* CRC-32 with the Ethernet polynomial 0x04C11DB7, MSB first, no reflection, no final xor (CRC-32/MPEG-2 bit
 * algorithm), applied the way the STM32 CRC unit does and the way igris_crc32 defines itself: the message is
 * taken as little-endian 32-bit words and every word enters most significant bit first, i.e. the four bytes
 * of each group enter in the order 3,2,1,0.  A last group of 1..3 bytes is zero-extended to a word. */
#define SPEC_CRC32_BYTE(reg, b) (spec_crc_byte(32, 0x04C11DB7u, 0, (reg), (b)))
static inline uint32_t spec_crc32_word(uint32_t reg, uint8_t b0, uint8_t b1, uint8_t b2, uint8_t b3)
{
    reg = SPEC_CRC32_BYTE(reg, b3);
    reg = SPEC_CRC32_BYTE(reg, b2);
    reg = SPEC_CRC32_BYTE(reg, b1);
    reg = SPEC_CRC32_BYTE(reg, b0);
    return reg;
}
/* whole message, by words, zero-extended last group (small concrete n only, see spec_crc_fold) */
static inline uint32_t spec_crc32_msg(uint32_t reg, const uint8_t *msg, uint32_t n)
{
    uint32_t k = 0;
    for (; n - k >= 4; k += 4)
        reg = spec_crc32_word(reg, msg[k], msg[k + 1], msg[k + 2], msg[k + 3]);
    if (k < n)
        reg = spec_crc32_word(reg, msg[k], k + 1 < n ? msg[k + 1] : 0, k + 2 < n ? msg[k + 2] : 0, 0);
    return reg;
}

#endif
