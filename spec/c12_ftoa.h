/* C12: vocabulary of the float -> text units (igris_f32toa / igris_f64toa / igris_ftoa).
 *
 * What the property states about the rendered text (properties.jsonl C12) and what is decidable here:
 *   - well-formed decimal  -?[0-9]+(\.[0-9]{P})?  with exactly the requested number P of fraction digits
 *   - NUL terminated, no write beyond the text, no non-numeric character
 *   - infinities -> inf token, NaN -> nan token
 * The accuracy clause (|value(text) - f| <= one unit of the last printed digit) relates a binary float to
 * the real value of a decimal string: not expressible, see units/C12/PROPERTY.json.
 *
 * Nothing in this file looks at the code under proof: the classification works on the bit pattern of the
 * argument (IEEE-754 binary32 / binary64 layout), the expected length on float comparisons of the argument
 * with powers of ten.
 */
#ifndef C12_FTOA_H
#define C12_FTOA_H
#include <stdint.h>
#include <stddef.h>

#define C12_MAXPREC 10 /* numconvert.c: MAX_PRECISION; larger requests are clamped to it */
/* longest text: '-' + 10 integer digits (|f| < 2^31 = 2147483648) + '.' + 10 fraction digits */
#define C12_MAXTEXT (1 + 10 + 1 + C12_MAXPREC)

typedef union {
    float f;
    uint32_t u;
} c12_f32u;
typedef union {
    double d;
    uint64_t u;
} c12_f64u;

static inline float c12_f32(uint32_t bits)
{
    c12_f32u x;
    x.u = bits;
    return x.f;
}
static inline double c12_f64(uint64_t bits)
{
    c12_f64u x;
    x.u = bits;
    return x.d;
}
static inline uint32_t c12_bits32(float f)
{
    c12_f32u x;
    x.f = f;
    return x.u;
}

#define C12_EXP32(b) (((b) >> 23) & 0xffu)
#define C12_MAN32(b) ((b) & 0x7fffffu)
#define C12_NEG32(b) (((b) >> 31) != 0)
#define C12_ISNAN32(b) (C12_EXP32(b) == 0xffu && C12_MAN32(b) != 0)
#define C12_ISINF32(b) (C12_EXP32(b) == 0xffu && C12_MAN32(b) == 0)
/* |f| < 2^31  <=>  unbiased exponent <= 30  <=>  biased exponent <= 157 (covers zeros and subnormals) */
#define C12_INRANGE32(b) (C12_EXP32(b) <= 157u)

/* number of fraction digits the caller asked for (property: "exactly the requested number"); requests above
 * MAX_PRECISION are clamped (numconvert.c "check precision bounds"); -1 = automatic, table from the source
 * comment "negative precision == automatic precision guess": the magnitude decides */
static inline int c12_auto_prec(float a /* |f| */)
{
    return a < 1.0f ? 6 : a < 10.0f ? 5 : a < 100.0f ? 4 : a < 1000.0f ? 3 : a < 10000.0f ? 2 : a < 100000.0f ? 1 : 0;
}
static inline int c12_req_prec(int prec, float a)
{
    return prec < 0 ? c12_auto_prec(a) : prec > C12_MAXPREC ? C12_MAXPREC : prec;
}

/* half a unit of the last printed digit, the rounding increment for P fraction digits (P >= 1) */
static inline double c12_half_unit(int P)
{
    return P == 1 ? 0.05 : P == 2 ? 0.005 : P == 3 ? 0.0005 : P == 4 ? 0.00005 : P == 5 ? 0.000005
         : P == 6 ? 0.0000005 : P == 7 ? 0.00000005 : P == 8 ? 0.000000005 : P == 9 ? 0.0000000005
         : 0.00000000005;
}

/* number of decimal digits of the integer part of g (0 <= g < 2^31): 10^(n-1) <= floor(g) < 10^n
 * <=> 10^(n-1) <= g < 10^n because the bounds are integers */
static inline unsigned c12_int_digits(float g)
{
    return g < 10.0f ? 1u : g < 100.0f ? 2u : g < 1000.0f ? 3u : g < 10000.0f ? 4u : g < 100000.0f ? 5u
         : g < 1000000.0f ? 6u : g < 10000000.0f ? 7u : g < 100000000.0f ? 8u : g < 1000000000.0f ? 9u : 10u;
}

/* Exact-size output buffer without a symbolic-size object: a fixed array in which the n bytes the routine may
 * touch are aligned either at the start or at the end (nondeterministic).  The routine cannot observe the
 * alignment, so an access below buf[0] fails a bounds obligation (cbmc) / ASan (replay) in the first
 * alignment, an access at or above buf[n] in the second: the guarantee of an object of exactly n bytes. */
#define C12_BUFMAX (C12_MAXTEXT + 1)
#define C12_EXACT_BUF(arr, ptr, n, at_end)                                                         \
    char arr[C12_BUFMAX];                                                                          \
    __CPROVER_assume((n) >= 1 && (n) <= C12_BUFMAX);                                               \
    char *ptr = (at_end) ? arr + (C12_BUFMAX - (n)) : arr

/* Shape check of a finite rendering: text[0..len) must be  -?[0-9]+(\.[0-9]{P})?  and text[len] == 0.
 * Evaluated at one arbitrary index k (ghost index: arbitrary, so a statement about text[k] is a statement
 * about every character).  neg: a leading '-' is expected; nint: number of integer digits. */
/* (a loop-free expression, usable inside a loop invariant) */
#define C12_DIGIT(ch) ((ch) >= '0' && (ch) <= '9')
#define C12_DOT(neg, nint) ((neg) + (nint)) /* index of the '.' when P > 0, of the NUL when P == 0 */
#define C12_LEN(neg, nint, P) (C12_DOT(neg, nint) + ((P) ? 1u + (P) : 0u))
#define C12_CHAR_OK(ch, k, neg, nint, P)                                                           \
    ((k) < (neg) ? (ch) == '-'                                                                     \
     : (k) < C12_DOT(neg, nint) ? C12_DIGIT(ch)                                                    \
     : (k) == C12_LEN(neg, nint, P) ? (ch) == 0                                                    \
     : (k) == C12_DOT(neg, nint) ? (ch) == '.'                                                     \
     : (k) < C12_LEN(neg, nint, P) ? C12_DIGIT(ch)                                                 \
     : 1)
static inline int c12_char_ok(char ch, unsigned k, unsigned neg, unsigned nint, unsigned P)
{
    return C12_CHAR_OK(ch, k, neg, nint, P);
}

#endif
