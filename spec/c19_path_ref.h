/* C19: directly computed component-wise references for pathops.h, for the concretisation / replay / bounded fallback runs only
 * (WITNESS_MODE: small concrete strings, plain loops).  They do not depend on injected ghost statements. */
#ifndef C19_PATH_REF_H
#define C19_PATH_REF_H
#ifdef WITNESS_MODE
#include "c19_path.h"
/* index behind the slashes and single-dot components that start at p[i] */
static size_t c19_ref_skip(const char *p, size_t i)
{
    while (p[i] == '/' || (p[i] == '.' && C19_PEND(p[i + 1]))) i++;
    return i;
}
/* length of the component at p[i] */
static size_t c19_ref_complen(const char *p, size_t i)
{
    size_t n = 0;
    while (!C19_PEND(p[i + n])) n++;
    return n;
}
/* path_compare_node */
static int c19_ref_cmp(const char *a, const char *b)
{
    size_t i = 0;
    while (!C19_PEND(a[i]) && !C19_PEND(b[i]) && a[i] == b[i]) i++;
    return C19_PEND(a[i]) ? (C19_PEND(b[i]) ? 0 : -1) : C19_PEND(b[i]) ? 1 : (a[i] < b[i] ? -1 : 1);
}
/* path_iterate: index of the next node, or (size_t)-1 for NULL */
static size_t c19_ref_iterate(const char *p)
{
    if (p[0] == 0) return (size_t)-1;
    if (p[0] == '/') return c19_ref_skip(p, 0);
    return c19_ref_skip(p, c19_ref_complen(p, 0));
}
/* path_remove_prefix: index in path reached by the node-by-node walk (while both strings have bytes left) */
static size_t c19_ref_remove_prefix(const char *path, const char *prefix)
{
    size_t i = 0, j = 0;
    while (prefix[j] != 0 && path[i] != 0) {
        if (c19_ref_cmp(path + i, prefix + j) != 0) break;
        i += c19_ref_iterate(path + i);
        j += c19_ref_iterate(prefix + j);
    }
    return i;
}
#endif
#endif
