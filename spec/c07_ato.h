/* C07: ghost state shared by the ato* units.  The digit loop of igris_atou32 / igris_atou64
 *     for (char c = *buf; ((c = *buf)) && <is digit>(c); buf++) res = res * base + <value>(c);
 * is bounded by the input length: closed by an injected invariant.  The reference Horner fold of
 * the property runs alongside as ghost code (g_acc, in 64-bit modular arithmetic; a w-bit result is
 * its truncation because truncation commutes with + and *); a ghost index g_k speaks about every
 * consumed character; g_stop records where the routine stopped. */
#ifndef C07_ATO_H
#define C07_ATO_H
#include "c07_radix.h"
const char *g_s0;   /* start of the digit string handed to igris_atou32/64 */
const char *g_stop; /* where its digit loop stopped                         */
uint64_t g_acc;     /* reference Horner fold over the consumed characters   */
size_t g_k;         /* ghost index                                          */
#endif
