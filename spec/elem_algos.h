/* Plain C stand-ins, over the ELEM lifetime model (spec/elem_lifetime.h), for the std:: algorithms and iterator helpers
 * container code commonly uses.  Each body is the effects sentence of the ISO C++ clause named next to it; libstdc++ is
 * TRUSTED to behave like it.
 *
 * Purpose: these are the targets of the optional cxx2c rule set 'elemalgos' (vclib/cxx2c.py).  A recipe maps the algorithms
 * its functions use ON THE UNCHANGED TREE onto stand-ins that carry loop contracts (e.g. spec/c14_std_stubs.h,
 * spec/c02_std_algo.h).  A CHANGED function may call an algorithm it did not call before; with this rule set the extraction
 * still yields C.  The loops below have no contracts: the proof run then ends "undecided" on an unwinding assertion and the
 * driver's bounded fallback (small sizes, native replay) decides - a violation is reported only for a failing input that
 * reproduces natively.  Nothing on the unchanged tree calls these functions. */
#ifndef ELEM_ALGOS_H
#define ELEM_ALGOS_H
#include <stddef.h>
#include <stdbool.h>
#include "elem_lifetime.h"

/* [iterator.operations] */
static inline ptrdiff_t vcstd_distance(const ELEM *first, const ELEM *last) { return last - first; }
static inline ELEM *vcstd_next(ELEM *it, ptrdiff_t n) { return it + n; }
static inline ELEM *vcstd_prev(ELEM *it, ptrdiff_t n) { return it - n; }
/* [alg.copy] */
static inline ELEM *vcstd_copy(const ELEM *first, const ELEM *last, ELEM *d)
{ for (; first != last; ++first, ++d) ELEM_copy_assign(d, first); return d; }
static inline ELEM *vcstd_copy_n(const ELEM *first, size_t n, ELEM *d)
{ for (size_t i = 0; i < n; ++i) ELEM_copy_assign(d + i, first + i); return d + n; }
static inline ELEM *vcstd_copy_backward(const ELEM *first, const ELEM *last, ELEM *d_last)
{ while (first != last) ELEM_copy_assign(--d_last, --last); return d_last; }
/* [alg.move] */
static inline ELEM *vcstd_move_range(ELEM *first, ELEM *last, ELEM *d)
{ for (; first != last; ++first, ++d) ELEM_move_assign(d, first); return d; }
static inline ELEM *vcstd_move_backward(ELEM *first, ELEM *last, ELEM *d_last)
{ while (first != last) ELEM_move_assign(--d_last, --last); return d_last; }
/* [alg.fill] */
static inline void vcstd_fill(ELEM *first, ELEM *last, const ELEM *v)
{ for (; first != last; ++first) ELEM_copy_assign(first, v); }
static inline ELEM *vcstd_fill_n(ELEM *first, size_t n, const ELEM *v)
{ for (size_t i = 0; i < n; ++i) ELEM_copy_assign(first + i, v); return first + n; }
/* [alg.equal] */
static inline bool vcstd_equal(const ELEM *f1, const ELEM *l1, const ELEM *f2)
{ for (; f1 != l1; ++f1, ++f2) if (ELEM_value(f1) != ELEM_value(f2)) return false; return true; }
/* [specialized.algorithms]: uninitialized_copy / _move / _fill / _default_construct, destroy */
static inline ELEM *vcstd_uninitialized_copy(const ELEM *first, const ELEM *last, ELEM *d)
{ for (; first != last; ++first, ++d) ELEM_copy_construct(d, first); return d; }
static inline ELEM *vcstd_uninitialized_copy_n(const ELEM *first, size_t n, ELEM *d)
{ for (size_t i = 0; i < n; ++i) ELEM_copy_construct(d + i, first + i); return d + n; }
static inline ELEM *vcstd_uninitialized_move(ELEM *first, ELEM *last, ELEM *d)
{ for (; first != last; ++first, ++d) ELEM_move_construct(d, first); return d; }
static inline void vcstd_uninitialized_fill(ELEM *first, ELEM *last, const ELEM *v)
{ for (; first != last; ++first) ELEM_copy_construct(first, v); }
static inline ELEM *vcstd_uninitialized_fill_n(ELEM *first, size_t n, const ELEM *v)
{ for (size_t i = 0; i < n; ++i) ELEM_copy_construct(first + i, v); return first + n; }
static inline void vcstd_uninitialized_default_construct(ELEM *first, ELEM *last)
{ for (; first != last; ++first) ELEM_construct_default(first); }
static inline void vcstd_destroy(ELEM *first, ELEM *last)
{ for (; first != last; ++first) ELEM_destroy(first); }
static inline ELEM *vcstd_destroy_n(ELEM *first, size_t n)
{ for (size_t i = 0; i < n; ++i) ELEM_destroy(first + i); return first + n; }
static inline void vcstd_destroy_at(ELEM *p) { ELEM_destroy(p); }
/* std::min / std::max / std::swap / std::exchange at scalar (index, size, pointer) operands */
#define vcstd_min(a, b) ((b) < (a) ? (b) : (a))
#define vcstd_max(a, b) ((a) < (b) ? (b) : (a))
#define vcstd_swap_scalar(a, b) do { __typeof__(a) vc_sw_tmp = (a); (a) = (b); (b) = vc_sw_tmp; } while (0)
/* igris/util/ctrdtr.h helpers, for recipes that do not extract them */
static inline void vcigris_destructor(ELEM *p) { ELEM_destroy(p); }
static inline void vcigris_array_destructor(ELEM *first, ELEM *last) { while (first != last) { ELEM_destroy(first); ++first; } }
static inline void vcigris_copy_constructor(ELEM *p, const ELEM *o) { ELEM_copy_construct(p, o); }
static inline void vcigris_move_constructor(ELEM *p, ELEM *o) { ELEM_move_construct(p, o); }
#endif
