/* Header environment for the C11 units (compat/libc/stdlib/strto*.c, atol.c, qsort.c, bsearch.c ...).
 *
 * These sources include <stdlib.h> <ctype.h> <errno.h> <limits.h> <inttypes.h>.  Decision:
 *
 *  - <limits.h> <stdlib.h> <inttypes.h> <stdint.h> <errno.h>: HOST headers.  The proof platform is cbmc's
 *    x86_64 LP64 model (long = long long = intmax_t = 64 bit) and the native replay runs on the same ABI, so
 *    LONG_MAX etc. must be the host's.  The shim's own limits.h needs <asm/limits.h> of a target port and falls
 *    back to 32-bit LONG_MAX without it, which would contradict the compiler's `long`.
 *
 *  - <ctype.h>: the SHIM's header (compat/libc/include/ctype.h), i.e. isspace/isdigit/isalpha/isupper are the
 *    static inline functions that forward to igris_isspace ... in igris/util/ctype.h: that is the code these
 *    files are built against inside the shim, it is real /repo code with C-locale semantics, and it keeps
 *    glibc's table macros ((*__ctype_b_loc())[c]) and cbmc's own ctype models out of the proof.  The host
 *    <ctype.h> is switched off through its include guard so that the later `#include <ctype.h>` in the
 *    source is a no-op.  (That the igris functions ARE the C-locale predicates is not taken on trust: the
 *    reference machine uses its own spec_isspace / spec_digit and the co-simulation compares decisions.)
 *
 *  - errno: ISO 7.5 only says "a modifiable lvalue of type int".  It is modelled by the plain global vc_errno
 *    so that loop `assigns` clauses can name it (glibc's (*__errno_location()) is a call expression).
 */
#ifndef C11_LIBC_ENV_H
#define C11_LIBC_ENV_H
#include <stddef.h>
#include <stdint.h>
#include <inttypes.h>
#include <limits.h>
#include <stdlib.h>
#include <string.h>
#include <errno.h>

#ifdef _CTYPE_H
#error "host <ctype.h> already included: include c11_libc_env.h first"
#endif
#define _CTYPE_H 1
#include "compat/libc/include/ctype.h"

#undef errno
static int vc_errno;
#define errno vc_errno

#endif
