/* C18: C stand-in for the handful of std::string operations that igris/util/base64.cpp and
 * igris/string/hexascii_string.cpp use.  The code under proof is cut out of the real .cpp files by
 * vclib/cxx2c.py; its rewrite rules (units/C18/cxx_extract.py) map every std::string operation onto one
 * function of this file.  Each function states the ISO C++ behaviour of the operation ([basic.string],
 * N4659 24.3.2) on the model below and FAILS an obligation when the operation is used outside the
 * subset modelled here (so a change of the real code that needs more is noticed, not silently accepted).
 * libstdc++ is TRUSTED to implement these operations as ISO specifies; nothing of libstdc++ is verified.
 *
 * Model.  A string is (p, size, cap): the characters live in p[0..size), p points to the first byte of an
 * object of EXACTLY cap bytes, so any access through a raw pointer/iterator outside the storage fails a
 * pointer obligation (cbmc) / is reported by ASan (replay).
 *   - resize(n) on an empty string gives an exact-size object (cap == n): this is the operation after
 *     which the code writes through a raw pointer (&ret[0]), so every byte beyond size() is out of range.
 *   - a default-constructed string gets storage of g_vc_string_cap bytes, a ghost INPUT of the harness that is
 *     left completely arbitrary: it stands for "whatever the library will be able to provide".  Appending
 *     to a full string is the library failing to grow (std::length_error / std::bad_alloc): the call
 *     does not return normally, and exceptional exits are outside the property (VC_STRING_THROW).  Because
 *     the capacity is arbitrary, for every input there are executions with enough storage, and the value
 *     g_vc_string_cap == final size is among them, so a raw access beyond the final size() would fail here too.
 *   - reallocation (change of data() while growing) is not modelled; it is unobservable unless a
 *     pointer/reference/iterator is kept across a growing call.  None of the functions under proof does
 *     that (begin()/end()/&s[0] are taken after the last growing call); to keep this honest begin()/end()/&s[i] set the
 *     ghost flag g_iter of the string and every growing call asserts that it is still clear.
 * The terminating NUL of data()/c_str() is not modelled (no function under proof reads it):
 * operator[](size()) on a const string yields 0 without touching storage, as ISO says.
 */
#ifndef C18_STRING_STUB_H
#define C18_STRING_STUB_H
#include <stddef.h>
#include <stdint.h>
#include <stdbool.h>
#include <string.h>
#include "vc.h"

struct vc_string
{
    char *p;         /* data() */
    size_t size;     /* size() */
    size_t cap;      /* size of the storage object */
    size_t g_iter;   /* ghost: 1 once a pointer/iterator into the storage has been handed out */
};

size_t g_vc_string_cap; /* ghost in: storage of every default-constructed string (arbitrary) */

#ifdef REPLAY
#define VC_STRING_ALLOC0(n) memset(vc_alloc(n), 0, (n))
#else
#define VC_STRING_ALLOC0(n) __CPROVER_allocate((n), 1)
#endif
/* exceptional exit of a library call: the function under proof does not return normally.  When the harness has set
 * g_vc_string_nothrow (it does so exactly when the storage it provides is at least the length the specification
 * prescribes for the result) an exceptional exit is a violation: this proves that enough storage => normal return. */
_Bool g_vc_string_nothrow; /* ghost in */
#define VC_STRING_THROW(what)                                                                                     \
    {                                                                                                             \
        __CPROVER_assert(!g_vc_string_nothrow, "std::string stub: library call throws (" what ") although the storage suffices for the specified result"); \
        __CPROVER_assume(0 && what);                                                                              \
    }
#define VC_STRING_NO_LIVE_ITER(s) \
    __CPROVER_assert((*(s)).g_iter == 0, "std::string stub: growing call while a pointer/iterator into the string is live (invalidation not modelled)")

/* basic_string() : size() == 0 */
static inline struct vc_string vc_string_new(void)
{
    struct vc_string s;
    s.size = 0;
    s.cap = g_vc_string_cap;
    s.p = NEW_OBJ(s.cap);
    s.g_iter = 0;
    return s;
}

/* size() */
static inline size_t vc_string_size(const struct vc_string *s) { return s->size; }

/* data() const: pointer to the characters, [data(), data()+size()) is a valid range */
static inline const char *vc_string_data(const struct vc_string *s) { return s->p; }

/* reserve(n): no effect on size() and on the characters (24.3.2.4); only capacity() >= n afterwards, which has no
 * observable consequence in this model.  n > max_size() throws length_error. */
static inline void vc_string_reserve(struct vc_string *s, size_t n)
{
    VC_STRING_NO_LIVE_ITER(s);
    if (n > (size_t)PTRDIFF_MAX)
        VC_STRING_THROW("length_error");
}

/* push_back(c) / operator+=(char c): size() grows by one, the new last character is c, the others are unchanged.
 * A macro over the string lvalue (the extraction passes &name, so *(sp) is the variable itself): an inline function
 * taking a pointer costs six pointer obligations per member access at every one of the many call sites. */
#define vc_string_push_back(sp, c)                                                                                \
    {                                                                                                             \
        char vc_string_c = (char)(c);                                                                             \
        VC_STRING_NO_LIVE_ITER(sp);                                                                               \
        if ((*(sp)).size == (*(sp)).cap)                                                                          \
            VC_STRING_THROW("length_error / bad_alloc");                                                          \
        (*(sp)).p[(*(sp)).size] = vc_string_c;                                                                    \
        (*(sp)).size++;                                                                                           \
    }

/* resize(n): modelled on an empty string only; the n new characters are value-initialised (0).  Exact-size storage. */
static inline void vc_string_resize(struct vc_string *s, size_t n)
{
    VC_STRING_NO_LIVE_ITER(s);
    __CPROVER_assert(s->size == 0, "std::string stub: resize is modelled on an empty string only");
    if (n > (size_t)PTRDIFF_MAX)
        VC_STRING_THROW("length_error");
    s->p = VC_STRING_ALLOC0(n);
    s->cap = n;
    s->size = n;
}

/* operator[](pos) const: requires pos <= size(); *(begin()+pos) if pos < size(), otherwise charT() */
static inline char vc_string_at(const struct vc_string *s, size_t pos)
{
    __CPROVER_assert(pos <= s->size, "std::string operator[] const: pos <= size()");
    return pos < s->size ? s->p[pos] : (char)0;
}

/* &s[pos] on a non-const string: requires pos <= size(); the result may be used for [pos, size()) only, which the
 * exact-size storage object enforces */
static inline char *vc_string_ref(struct vc_string *s, size_t pos)
{
    __CPROVER_assert(pos <= s->size, "std::string operator[]: pos <= size()");
    s->g_iter = 1;
    return s->p + pos;
}

/* begin() / end(): iterators are pointers; [begin(), end()) is the character range */
static inline char *vc_string_begin(struct vc_string *s) { s->g_iter = 1; return s->p; }
static inline char *vc_string_end(struct vc_string *s) { s->g_iter = 1; return s->p + s->size; }

/* basic_string(const basic_string &): an equal string with its own exact-size storage */
static inline struct vc_string vc_string_copy(const struct vc_string *o)
{
    struct vc_string s;
    s.size = o->size;
    s.cap = o->size;
    s.p = NEW_OBJ(s.cap);
    if (s.size != 0)
        memcpy(s.p, o->p, s.size);
    s.g_iter = 0;
    return s;
}

#endif
