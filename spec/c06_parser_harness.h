/* C06: harness shared by units/C06/parser.c (quick, DLEN 7) and parser_long.c (thorough, DLEN 10): ONE symbolic
 * token of at most DLEN characters against the reference parser; the unit headers differ in the unwinding bounds. */
#include "vc.h"
#include "c06_env.h"
#include "c06_iso_printf.h"
#include "c06_ref_parser.h"
#include "c06_check_contracts.h"
#define atol vc_atol
#define atoi vc_atoi
#include "compat/libc/stdlib/atol.c"
#include "igris/util/printf_impl.c"
#include "c06_pform.h"

#define G_NSLOTS 3
#define G_OPS_OF(E)                                                                                   \
    ((((E).flags & ISO_F_MINUS) ? C06_OPS_LEFT : 0u) | (((E).flags & ISO_F_PLUS) ? C06_OPS_SIGN : 0u) |   \
     (((E).flags & ISO_F_SPACE) ? C06_OPS_SPACE : 0u) | (((E).flags & ISO_F_HASH) ? C06_OPS_SPEC : 0u) |  \
     (((E).flags & ISO_F_ZERO) ? C06_OPS_ZERO : 0u) | ((E).has_prec ? C06_OPS_PREC : 0u) | ((E).upper ? C06_OPS_UPPER : 0u))

static int g_cbdata;
static int call(const char *fmt, ...)
{
    va_list ap;
    va_start(ap, fmt);
    int r = __printf(c06_check_recorder, &g_cbdata, fmt, ap);
    va_end(ap);
    return r;
}

void harness(void)
{
    WIT(ullong, a0);
    WIT(ullong, a1);
    WIT(ullong, a2);
    WIT(size_t, len);
    __CPROVER_assume(len >= 1 && len <= DLEN);
    char *fmt = NEW_OBJ(len + 1); /* exact size: a read beyond the terminator fails */
    fmt[len] = 0;
    ullong slots[G_NSLOTS] = {a0, a1, a2};
    struct ref_result T = ref_token(fmt, DLEN, slots, G_NSLOTS);
    __CPROVER_assume(T.valid && T.nev == 1 && (size_t)T.consumed == len && !T.star_int_min);
    __CPROVER_assume(KF_C06_width_digits_loop == 0 ? 1 : KF_C06_width_digits_loop == 1 ? !T.literal_digits : T.literal_digits);
    __CPROVER_assume(KF_C06_neg_star_width == 0 ? 1 : KF_C06_neg_star_width == 1 ? !T.negative_star_width : T.negative_star_width);
    /* what the reference parser expects: the requires clauses of print_i / print_s and the recorder compare with it */
    g_ev = 0, g_sum = 0, g_nlit = 0, g_ai = 0, g_next = fmt + len;
    g_x_kind = T.ev.kind, g_x_c = T.ev.c, g_x_u = T.ev.u, g_x_signed = T.ev.is_signed, g_x_base = T.ev.base;
    g_x_width = T.ev.width, g_x_prec = T.ev.prec, g_x_conv = T.ev.conv, g_x_ops = G_OPS_OF(T.ev);
    g_x_h = c06_check_recorder, g_x_d = &g_cbdata;

    int r = call(fmt, a0, a1, a2);

    __CPROVER_assert(g_ev == 1, "exactly one output event for the token");
    __CPROVER_assert(g_nlit == (T.ev.kind == REF_EV_CHAR ? 1 : 0), "a literal character is emitted exactly for an ordinary character or %%");
    __CPROVER_assert((long long)r == g_nlit + g_sum, "return value == literal characters + what the conversion returned");
    CANARY("parser harness end reachable");
}
