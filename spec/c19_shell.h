/* C19: harness vocabulary of the shell dispatcher units (mshell.c / rshell.c).
 *
 * Command tables are fixed-size arrays with a symbolic used-count (cbmc cannot hold a symbolic-size array of structs with pointers):
 * C19_NT commands at most per table, each name its own exact-size string object, the sentinel {NULL, NULL, NULL} behind the last one.
 * Handlers are stubs that record the call: which of two functions ran, argc, argv, argv[g_sp_k], and return an arbitrary value.
 */
#ifndef C19_SHELL_H
#define C19_SHELL_H
#include "c19_shell_contracts.h"

#ifndef C19_NT
#define C19_NT 3
#endif

size_t g_h_k;       /* in: ghost index into the handler's argv */
int g_h_calls;      /* handler invocations */
int g_h_which;      /* 1 / 2: the stub that ran */
int g_h_argc;       /* its argc */
char **g_h_argv;    /* its argv */
char *g_h_argvk;    /* argv[g_h_k] as the handler saw it */
char *g_h_out;      /* rshell: output buffer handed over */
int g_h_maxsize;    /* rshell: its size */
int g_h_res;        /* value the handler returns */
int g_inv_idx;      /* ghost output: index of the table entry whose handler the dispatcher calls */
int g_inv_tab;      /* ghost output: index of the table (tables variants) */

#define C19_H_RECORD(which)                                                       \
    g_h_calls++;                                                                  \
    g_h_which = (which);                                                          \
    g_h_argc = argc;                                                              \
    g_h_argv = argv;                                                              \
    g_h_argvk = (argc > 0 && g_h_k < (size_t)argc) ? argv[g_h_k] : (char *)0

static int c19_mh_1(int argc, char **argv) { C19_H_RECORD(1); return g_h_res; }
static int c19_mh_2(int argc, char **argv) { C19_H_RECORD(2); return g_h_res; }
static int c19_rh_1(int argc, char **argv, char *out, int maxsize) { C19_H_RECORD(1); g_h_out = out; g_h_maxsize = maxsize; return g_h_res; }
static int c19_rh_2(int argc, char **argv, char *out, int maxsize) { C19_H_RECORD(2); g_h_out = out; g_h_maxsize = maxsize; return g_h_res; }

/* a command name: strcmp is abstract in these units, so the length of the names is immaterial: 2-byte string objects */
#define C19_NAME(p, content)                  \
    char *p = NEW_OBJ(2);                     \
    FILL(p, (size_t)2, content);              \
    __CPROVER_assume(p[1] == 0)

#define C19_GHOST_RESET()                                                                                     \
    g_h_calls = 0; g_h_which = 0; g_h_argc = 0; g_h_argv = 0; g_h_argvk = 0; g_h_out = 0; g_h_maxsize = 0;   \
    g_inv_idx = -1; g_inv_tab = -1; g_sp_ret = 0; g_sp_calls = 0; g_sp_vk = 0;                               \
    g_strcmp_calls = 0; g_strcmp_seen = 0; g_strcmp_res = 0; g_strcmp_watch = 0

/* known finding: a non-empty blank line makes the splitter return 0, the dispatcher then hands the uninitialised argv[0] to strcmp.
 * The region is "the splitter returned 0", stated where the result becomes known (injected behind the call). */
#define g_kf_blank(KF, argc) __CPROVER_assume((KF) == 0 ? 1 : (KF) == 1 ? !((argc) == 0) : ((argc) == 0))

#endif
