/* C03 — ring buffers: representation invariant, abstraction (reference queue view) and
 * index arithmetic of the reference, all written WITHOUT % and / (conditional subtraction),
 * so the specification itself never needs a symbolic divider.
 *
 * Reference queue of a ring (head, tail, size, buf):
 *     length      = number of single forward steps from tail to head   (spec_ring_len)
 *     element k   = buf[ slot(tail, k) ], k < length                   (spec_ring_slot)
 * A single forward step is  i -> (i + 1 == size ? 0 : i + 1).
 * Everything is done in machine arithmetic of the width the code uses (unsigned int indices);
 * the helper functions are total and overflow-free for base < size, k <= size.
 */
#ifndef C03_RING_H
#define C03_RING_H
#include "vc.h"

/* RING(r): 2 <= size, head < size, tail < size (the buffer is an exact-size object of `size`
 * bytes, allocated by the harness) */
#define C03_RING_INV(r) ((r).size >= 2 && (r).head < (r).size && (r).tail < (r).size)

/* index arithmetic of the reference as macros: loop invariants must be free of function calls */
#define SPEC_RING_STEP(i, size) ((i) + 1 == (size) ? 0 : (i) + 1)
#define SPEC_RING_LEN(head, tail, size) ((head) >= (tail) ? (head) - (tail) : (size) - ((tail) - (head)))
#define SPEC_RING_SLOT(base, k, size) ((k) < (size) - (base) ? (base) + (k) : (k) - ((size) - (base)))
#define SPEC_RING_DIST(base, j, size) ((j) >= (base) ? (j) - (base) : (size) - ((base) - (j)))

/* one forward step of an index */
static inline uint spec_ring_step(uint i, uint size) { return SPEC_RING_STEP(i, size); }

/* number of forward steps from tail to head (tail, head < size) */
static inline uint spec_ring_len(uint head, uint tail, uint size)
{
    return SPEC_RING_LEN(head, tail, size);
}

/* slot reached from `base` after k forward steps (base < size, k <= size) */
static inline uint spec_ring_slot(uint base, uint k, uint size)
{
    return SPEC_RING_SLOT(base, k, size);
}

/* forward distance from `base` to slot j (both < size): inverse of spec_ring_slot */
static inline uint spec_ring_dist(uint base, uint j, uint size)
{
    return SPEC_RING_DIST(base, j, size);
}

/* mathematical i mod m (result in [0,m)) for -m <= i < 2m, m >= 1; 64-bit, no divider */
static inline llong spec_mod_near(llong i, llong m)
{
    return i < 0 ? i + m : (i >= m ? i - m : i);
}

/* mathematical i mod m (floored, result in [0,m)) for any i, m >= 1: used only with a
 * CONSTANT m (case-split units), where the divider is by a constant */
static inline llong spec_mod_floor(llong i, llong m)
{
    llong r = i % m;
    return r < 0 ? r + m : r;
}

/* Lemma cut: the condition is first an obligation of the same run (so it is PROVED there, for
 * the state it is stated in) and only then available to the following clauses.  It restricts
 * nothing; it only spares the SAT back end from re-deriving the same index-arithmetic fact
 * inside every later clause (measured: 16 s -> 1 s per clause). */
#define C03_LEMMA(c, m) { __CPROVER_assert(c, "lemma: " m); __CPROVER_assume(c); }

/* Clause partitioning.  The SAT back end is an order of magnitude slower on the conjunction of
 * several index-arithmetic clauses than on the clauses one by one (measured: 62 s against 6 s),
 * and the driver runs all clauses of a translation unit in one solver call.  A unit may therefore
 * list 'params': {'PART': [1..n]}: clause  Pk(stmt)  is compiled only into run PART == k (and into
 * every run when PART is undefined).  Every clause is in exactly one part; nothing is dropped. */
#ifndef PART
#define PART 0
#endif
#define C03_ON(...) __VA_ARGS__
#define C03_OFF(...)
#if PART == 0 || PART == 1
#define P1 C03_ON
#else
#define P1 C03_OFF
#endif
#if PART == 0 || PART == 2
#define P2 C03_ON
#else
#define P2 C03_OFF
#endif
#if PART == 0 || PART == 3
#define P3 C03_ON
#else
#define P3 C03_OFF
#endif
#if PART == 0 || PART == 4
#define P4 C03_ON
#else
#define P4 C03_OFF
#endif
#if PART == 0 || PART == 5
#define P5 C03_ON
#else
#define P5 C03_OFF
#endif
#if PART == 0 || PART == 6
#define P6 C03_ON
#else
#define P6 C03_OFF
#endif

#endif
