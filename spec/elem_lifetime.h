/* ELEM: the abstract element type the C++ containers are instantiated at (cxx2c rule R4/R5).
 *
 * The properties quantify over element types "with and without non-trivial lifetime".  ELEM carries a
 * value and a GHOST lifetime state stored inside the object itself, so the state travels with the
 * storage slot (zero-filled or freshly allocated storage is RAW).  Every C++ lifetime operation the
 * containers perform is rewritten mechanically onto one of the functions below, whose assertions are
 * the protocol an element type that owns memory relies on:
 *   placement-new / construct      requires RAW                     -> LIVE
 *   copy-construct from src        requires RAW dst, LIVE src       -> LIVE, same value
 *   move-construct from src        requires RAW dst, LIVE src       -> LIVE, src becomes MOVED
 *   copy-assign                    requires dst LIVE|MOVED, LIVE src
 *   move-assign                    requires dst LIVE|MOVED, LIVE src, src becomes MOVED
 *   destroy (p->~T())              requires LIVE|MOVED              -> RAW
 *   read of the value              requires LIVE
 * "Constructed elements are destroyed exactly once" == no ELEM_destroy assertion fails and, where
 * storage is released or goes out of scope, every slot is RAW (checked through a ghost index).
 * A violation for ELEM is a violation for some real T (e.g. std::string), which is the property's
 * quantifier over element types. */
#ifndef ELEM_LIFETIME_H
#define ELEM_LIFETIME_H
/* Ghost-index form of the protocol (DESIGN 3.3): without `forall`, a loop invariant can state the lifetime state of
 * a block only at an arbitrary ghost index.  A unit may therefore define ELEM_TRACKED(q) as "q is one of the
 * arbitrarily chosen tracked slots"; the protocol is then asserted for those slots only (arbitrary slot => every slot),
 * while the state updates stay unconditional.  Default: every slot is tracked. */
#ifndef ELEM_TRACKED
#define ELEM_TRACKED(q) 1
#endif
enum { ELEM_RAW = 0, ELEM_LIVE = 1, ELEM_MOVED = 2 };
#ifdef ELEM_PACKED
/* opt-in 1-byte representation (bits 0-1 lifetime state, bits 2-7 value 0..63): one array access per element
 * operation and no index divider, which keeps cbmc's array theory within memory for symbolic-size blocks */
typedef struct ELEM { unsigned char g_bits; } ELEM;
#define ELEM_ST(p) ((unsigned char)((p)->g_bits & 3))
#define ELEM_V(p) ((int)((p)->g_bits >> 2))
#define ELEM_SET(p, st, val) ((p)->g_bits = (unsigned char)((((unsigned)(val)) << 2) | (st)))
#else
typedef struct ELEM { int v; unsigned char g_state; } ELEM;
#define ELEM_ST(p) ((p)->g_state)
#define ELEM_V(p) ((p)->v)
#define ELEM_SET(p, st, val) ((p)->g_state = (st), (p)->v = (val))
#endif

#ifdef REPLAY
static inline int ELEM_nondet_value(void) { return 63; }      /* native replay: some value other than the old one is enough */
#else
int nondet_int(void);
static inline int ELEM_nondet_value(void) { int v = nondet_int(); __CPROVER_assume(v >= 0 && v <= 63); return v; }
#endif
static inline void ELEM_construct_default(ELEM *p)
{
    __CPROVER_assert(!ELEM_TRACKED(p) || ELEM_ST(p) == ELEM_RAW, "lifetime: construct over an element that is still alive");
    ELEM_SET(p, ELEM_LIVE, 0);
}
static inline void ELEM_construct_value(ELEM *p, int v)
{
    __CPROVER_assert(!ELEM_TRACKED(p) || ELEM_ST(p) == ELEM_RAW, "lifetime: construct over an element that is still alive");
    ELEM_SET(p, ELEM_LIVE, v);
}
static inline void ELEM_copy_construct(ELEM *p, const ELEM *src)
{
    __CPROVER_assert(!ELEM_TRACKED(p) || ELEM_ST(p) == ELEM_RAW, "lifetime: copy-construct over an element that is still alive");
    __CPROVER_assert(!ELEM_TRACKED(src) || ELEM_ST(src) == ELEM_LIVE, "lifetime: copy-construct from an unconstructed / destroyed / moved-from element");
    ELEM_SET(p, ELEM_LIVE, ELEM_V(src));
}
static inline void ELEM_move_construct(ELEM *p, ELEM *src)
{
    __CPROVER_assert(!ELEM_TRACKED(p) || ELEM_ST(p) == ELEM_RAW, "lifetime: move-construct over an element that is still alive");
    __CPROVER_assert(!ELEM_TRACKED(src) || ELEM_ST(src) == ELEM_LIVE, "lifetime: move-construct from an unconstructed / destroyed / moved-from element");
    ELEM_SET(p, ELEM_LIVE, ELEM_V(src)); ELEM_SET(src, ELEM_MOVED, ELEM_V(src));
}
static inline void ELEM_copy_assign(ELEM *p, const ELEM *src)
{
    __CPROVER_assert(!ELEM_TRACKED(p) || ELEM_ST(p) == ELEM_LIVE || ELEM_ST(p) == ELEM_MOVED, "lifetime: assignment to an unconstructed or destroyed element");
    __CPROVER_assert(!ELEM_TRACKED(src) || ELEM_ST(src) == ELEM_LIVE, "lifetime: assignment from an unconstructed / destroyed / moved-from element");
    ELEM_SET(p, ELEM_LIVE, ELEM_V(src));
}
static inline void ELEM_move_assign(ELEM *p, ELEM *src)
{
    __CPROVER_assert(!ELEM_TRACKED(p) || ELEM_ST(p) == ELEM_LIVE || ELEM_ST(p) == ELEM_MOVED, "lifetime: move-assignment to an unconstructed or destroyed element");
    __CPROVER_assert(!ELEM_TRACKED(src) || ELEM_ST(src) == ELEM_LIVE, "lifetime: move-assignment from an unconstructed / destroyed / moved-from element");
    if (p != src) { ELEM_SET(p, ELEM_LIVE, ELEM_V(src)); ELEM_SET(src, ELEM_MOVED, ELEM_V(src)); }
    else {
        /* self-move-assignment: the object stays alive but its value is "valid but unspecified" ([lib.types.movedfrom];
         * std::vector<int>, long std::string ... come out empty), so a container that self-moves elements where the
         * reference container does nothing exposes a different element sequence */
        int g_unspec = ELEM_nondet_value();
        ELEM_SET(p, ELEM_LIVE, g_unspec);
    }
}
static inline void ELEM_destroy(ELEM *p)
{
    __CPROVER_assert(!ELEM_TRACKED(p) || ELEM_ST(p) == ELEM_LIVE || ELEM_ST(p) == ELEM_MOVED, "lifetime: destructor run on an unconstructed or already destroyed element");
    ELEM_SET(p, ELEM_RAW, ELEM_V(p));
}
static inline int ELEM_value(const ELEM *p)
{
    __CPROVER_assert(!ELEM_TRACKED(p) || ELEM_ST(p) == ELEM_LIVE, "lifetime: read of an unconstructed / destroyed / moved-from element");
    return ELEM_V(p);
}
#endif
