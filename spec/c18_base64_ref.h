/* C18 reference for base64 / base64url, written from RFC 4648 (sections 4, 5 and 3.2), not from the code.
 *
 * RFC 4648 section 4: the input is a bit string (bytes most significant bit first); it is cut into 6-bit groups from
 * the left, the last group is completed with zero bits; every group is written as the character of Table 1
 * (A-Z a-z 0-9 + /, Table 2 of section 5 replaces + / by - _); the text is completed with '=' to a multiple of
 * four characters.  Decoding maps the characters before the first '=' / non-alphabet character back to 6-bit
 * groups, concatenates them and cuts the bit string into bytes from the left; an incomplete last byte is dropped.
 *
 * Two formulations:
 *   - loop-free POSITIONAL macros (character k of the text / byte k of the data as a function of the input),
 *     usable inside loop invariants with a ghost index;
 *   - the textbook LOOP coder/decoder spec_b64_encode / spec_b64_decode (24-bit groups; bit accumulator).
 * The positional form comes in two notations: by bit position (SPEC_B64_*: 6-bit group k starts at bit 6k) and by 24-bit
 * group (SPEC_B64Q_*: sizes and positions given as quotient and remainder, the notation the loop invariants use).
 * Unit base64_ref_selfcheck ties them to the test vectors of RFC 4648 section 10, proves positional == loop on all strings
 * up to a bound, bit-position notation == group notation for every size, and, for every size, that the positional decoder
 * inverts the positional encoder.
 */
#ifndef C18_BASE64_REF_H
#define C18_BASE64_REF_H
#include <stddef.h>
#include <stdint.h>

/* RFC 4648 Table 1 / Table 2 */
static const char SPEC_B64_TABLE[2][65] = {
    "ABCDEFGHIJKLMNOPQRSTUVWXYZabcdefghijklmnopqrstuvwxyz0123456789+/",
    "ABCDEFGHIJKLMNOPQRSTUVWXYZabcdefghijklmnopqrstuvwxyz0123456789-_"};
#define SPEC_B64_PAD '='
#define SPEC_B64_C62(url) ((url) ? '-' : '+')
#define SPEC_B64_C63(url) ((url) ? '_' : '/')

/* c is one of the 64 alphabet characters (not the pad) */
#define SPEC_B64_IS(url, c)                                                                                     \
    (((c) >= 'A' && (c) <= 'Z') || ((c) >= 'a' && (c) <= 'z') || ((c) >= '0' && (c) <= '9') ||                 \
     (c) == SPEC_B64_C62(url) || (c) == SPEC_B64_C63(url))
/* value of an alphabet character (Table 1: A=0 .. Z=25, a=26 .. z=51, 0=52 .. 9=61, +=62, /=63) */
#define SPEC_B64_VAL(url, c)                                                                                    \
    ((unsigned)(((c) >= 'A' && (c) <= 'Z') ? (c) - 'A' : ((c) >= 'a' && (c) <= 'z') ? (c) - 'a' + 26 :         \
                ((c) >= '0' && (c) <= '9') ? (c) - '0' + 52 : (c) == SPEC_B64_C62(url) ? 62 : 63))

/* ---- positional encoder ---- */
/* length of the text: 4 characters per started group of 3 bytes */
#define SPEC_B64_ENC_LEN(n) (4 * (((size_t)(n) + 2) / 3))
/* number of characters that carry data = number of started 6-bit groups = ceil(8n/6) */
#define SPEC_B64_NCHARS(n) ((8 * (size_t)(n) + 5) / 6)
/* the k-th 6-bit group of the bit string x[0..n) (k < SPEC_B64_NCHARS(n)): it starts at bit 6k, i.e. in byte
 * 6k/8 at bit offset 6k%8; take a 16-bit window (next byte, or zero bits behind the end) and shift it down */
#define SPEC_B64_BYTE_OR_0(x, n, i) ((i) < (size_t)(n) ? (unsigned)((const uint8_t *)(x))[(i)] : 0u)
#define SPEC_B64_SEXTET(x, n, k)                                                                                \
    ((((unsigned)((const uint8_t *)(x))[6 * (size_t)(k) / 8] << 8 | SPEC_B64_BYTE_OR_0(x, n, 6 * (size_t)(k) / 8 + 1)) >> \
      (10 - 6 * (size_t)(k) % 8)) & 63u)
/* position k carries data iff its 6-bit group starts inside the bit string: 6k < 8n (equivalently k < SPEC_B64_NCHARS(n)) */
#define SPEC_B64_IS_DATA_POS(n, k) (3 * (size_t)(k) < 4 * (size_t)(n))
/* character k of the text, k < SPEC_B64_ENC_LEN(n) */
#define SPEC_B64_ENC_CHAR(url, x, n, k)                                                                         \
    (SPEC_B64_IS_DATA_POS(n, k) ? SPEC_B64_TABLE[(url) ? 1 : 0][SPEC_B64_SEXTET(x, n, k)] : (char)SPEC_B64_PAD)

/* ---- the same encoder, stated per 24-bit group (RFC 4648 section 4 wording) ----
 * The size is given as n == 3*q + r (q complete groups of three bytes, r in 0..2 left-over bytes) and a position as
 * k == 4*g + c (group g, character c in 0..3): all index arithmetic is then additions, shifts and a multiplication by 3,
 * which is what makes the loop invariants cheap for a SAT solver (no 64-bit division, no window that straddles bytes).
 * Group g is the 24-bit number b0 b1 b2 (bytes behind the end are zero), character c is bits [18-6c, 24-6c) of it.
 * base64_ref_selfcheck PART=3 proves this form equal to SPEC_B64_ENC_CHAR for every q, r, k. */
/* k / 4 and k % 4, written as shift and mask (cbmc builds a full divider circuit for / and %) */
#define SPEC_B64_GRP(k) ((size_t)(k) >> 2)
#define SPEC_B64_POS(k) ((size_t)(k) & 3)
#define SPEC_B64Q_ENC_LEN(q, r) (4 * ((size_t)(q) + ((r) != 0)))
#define SPEC_B64Q_NDATA(q, r) (4 * (size_t)(q) + ((r) != 0 ? (size_t)(r) + 1 : 0))
#define SPEC_B64Q_IS_DATA_POS(q, r, k)                                                                          \
    (SPEC_B64_GRP(k) < (size_t)(q) || (SPEC_B64_GRP(k) == (size_t)(q) && (r) != 0 && SPEC_B64_POS(k) <= (size_t)(r)))
#define SPEC_B64Q_BYTE(x, q, r, g, i)                                                                           \
    (((g) < (size_t)(q) || (size_t)(i) < (size_t)(r)) ? (uint32_t)((const uint8_t *)(x))[3 * (g) + (i)] : (uint32_t)0)
#define SPEC_B64Q_GROUP24(x, q, r, g)                                                                           \
    (SPEC_B64Q_BYTE(x, q, r, g, 0) << 16 | SPEC_B64Q_BYTE(x, q, r, g, 1) << 8 | SPEC_B64Q_BYTE(x, q, r, g, 2))
#define SPEC_B64Q_SEXTET(x, q, r, k) ((SPEC_B64Q_GROUP24(x, q, r, SPEC_B64_GRP(k)) >> (18 - 6 * SPEC_B64_POS(k))) & 63u)
/* character k of the text, k < SPEC_B64Q_ENC_LEN(q, r) */
#define SPEC_B64Q_ENC_CHAR(url, x, q, r, k)                                                                     \
    (SPEC_B64Q_IS_DATA_POS(q, r, k) ? SPEC_B64_TABLE[(url) ? 1 : 0][SPEC_B64Q_SEXTET(x, q, r, k)] : (char)SPEC_B64_PAD)

/* ---- positional decoder ---- */
/* m = number of alphabet characters before the first pad / foreign character / end: floor(6m/8) bytes */
#define SPEC_B64_DEC_LEN(m) (6 * (size_t)(m) / 8)
/* byte k (k < SPEC_B64_DEC_LEN(m)) starts at bit 8k, i.e. in group 8k/6 at bit offset 8k%6: 12-bit window of two groups */
#define SPEC_B64_DEC_IDX(k) (8 * (size_t)(k) / 6)
#define SPEC_B64_DEC_BYTE_OF(url, c0, c1, k)                                                                    \
    ((uint8_t)(((SPEC_B64_VAL(url, c0) << 6 | SPEC_B64_VAL(url, c1)) >> (4 - 8 * (size_t)(k) % 6)) & 0xFFu))
#define SPEC_B64_DEC_BYTE(url, t, k)                                                                            \
    SPEC_B64_DEC_BYTE_OF(url, (t)[SPEC_B64_DEC_IDX(k)], (t)[SPEC_B64_DEC_IDX(k) + 1], k)

/* ---- the same decoder, stated per 24-bit group ----
 * The number of data characters is given as m == 4*mq + mr (mr in 0..3) and a byte as number 3*g + c (group g, byte c in
 * 0..2).  Group g is the 24-bit number s0 s1 s2 s3 of the values of characters 4g..4g+3 (characters behind the data are
 * zero bits), byte c is bits [16-8c, 24-8c) of it; a last group of 2 / 3 characters yields 1 / 2 bytes, a single left-over
 * character yields none.  base64_ref_selfcheck PART=3 proves this form equal to SPEC_B64_DEC_BYTE / SPEC_B64_DEC_LEN. */
#define SPEC_B64Q_DEC_LEN(mq, mr) (3 * (size_t)(mq) + ((mr) >= 2 ? (size_t)(mr) - 1 : 0))
#define SPEC_B64Q_IS_DEC_BYTE(mq, mr, g, c) ((g) < (size_t)(mq) || ((g) == (size_t)(mq) && (size_t)(c) + 1 < (size_t)(mr)))
/* nch = number of data characters among c0..c3 */
#define SPEC_B64Q_DEC_GROUP24(url, c0, c1, c2, c3, nch)                                                         \
    ((uint32_t)SPEC_B64_VAL(url, c0) << 18 | (uint32_t)((nch) > 1 ? SPEC_B64_VAL(url, c1) : 0u) << 12 |         \
     (uint32_t)((nch) > 2 ? SPEC_B64_VAL(url, c2) : 0u) << 6 | (uint32_t)((nch) > 3 ? SPEC_B64_VAL(url, c3) : 0u))
#define SPEC_B64Q_DEC_BYTE_OF(url, c0, c1, c2, c3, nch, c)                                                      \
    ((uint8_t)((SPEC_B64Q_DEC_GROUP24(url, c0, c1, c2, c3, nch) >> (16 - 8 * (size_t)(c))) & 0xFFu))
#define SPEC_B64Q_NCH(mq, mr, g) ((g) < (size_t)(mq) ? (size_t)4 : (size_t)(mr))
/* byte 3g+c of the decoded data; characters behind the data are not read */
#define SPEC_B64Q_DEC_BYTE(url, t, mq, mr, g, c)                                                                \
    SPEC_B64Q_DEC_BYTE_OF(url, (t)[4 * (g)], (SPEC_B64Q_NCH(mq, mr, g) > 1 ? (t)[4 * (g) + 1] : (char)0),       \
                          (SPEC_B64Q_NCH(mq, mr, g) > 2 ? (t)[4 * (g) + 2] : (char)0),                          \
                          (SPEC_B64Q_NCH(mq, mr, g) > 3 ? (t)[4 * (g) + 3] : (char)0), SPEC_B64Q_NCH(mq, mr, g), c)

/* ---- textbook loop coder (RFC 4648 section 4: 24-bit groups) ---- */
static inline size_t spec_b64_encode(int url, const uint8_t *x, size_t n, char *out)
{
    const char *tab = SPEC_B64_TABLE[url ? 1 : 0];
    size_t o = 0, i = 0;
    while (n - i >= 3) {
        uint32_t v = (uint32_t)x[i] << 16 | (uint32_t)x[i + 1] << 8 | x[i + 2];
        out[o++] = tab[v >> 18];
        out[o++] = tab[(v >> 12) & 63];
        out[o++] = tab[(v >> 6) & 63];
        out[o++] = tab[v & 63];
        i += 3;
    }
    if (n - i == 1) { /* 8 bits: two characters, two pads */
        uint32_t v = (uint32_t)x[i] << 16;
        out[o++] = tab[v >> 18];
        out[o++] = tab[(v >> 12) & 63];
        out[o++] = SPEC_B64_PAD;
        out[o++] = SPEC_B64_PAD;
    } else if (n - i == 2) { /* 16 bits: three characters, one pad */
        uint32_t v = (uint32_t)x[i] << 16 | (uint32_t)x[i + 1] << 8;
        out[o++] = tab[v >> 18];
        out[o++] = tab[(v >> 12) & 63];
        out[o++] = tab[(v >> 6) & 63];
        out[o++] = SPEC_B64_PAD;
    }
    return o;
}

/* ---- textbook loop decoder (bit accumulator); stops at the first pad / foreign character ---- */
static inline size_t spec_b64_decode(int url, const char *t, size_t len, uint8_t *out)
{
    uint32_t acc = 0;
    unsigned nbits = 0;
    size_t o = 0;
    for (size_t i = 0; i < len && SPEC_B64_IS(url, t[i]); i++) {
        acc = (acc << 6 | SPEC_B64_VAL(url, t[i])) & 0xFFFFu;
        nbits += 6;
        if (nbits >= 8) {
            nbits -= 8;
            out[o++] = (uint8_t)(acc >> nbits);
        }
    }
    return o;
}

#endif
