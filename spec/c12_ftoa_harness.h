/* C12: shared checker of the float -> text units.  The unit defines before including this file
 *   FTOA_CALL(buf, prec)   the call of the real function under proof (its float/double argument is in scope
 *                          of the unit's harness(), which passes the bit pattern of the binary32 value that
 *                          is rendered to c12_ftoa_check)
 * and includes igris/util/numconvert.c (with the injected loop contract of the fraction loop) itself.
 * Ghosts referenced by the injected invariant: g_buf, g_k, g_neg, g_nint, g_P, g_w. */
#ifndef C12_FTOA_HARNESS_H
#define C12_FTOA_HARNESS_H
#include "c12_ftoa.h"

/* bits: bit pattern of the binary32 value that is rendered (for the double entry points: of (float)d, the
 * documented behaviour "delegates to the float renderer"); prec: requested precision;
 * big: the argument is finite and outside the supported range (region of C12_f32toa_range, to be assumed away
 * by the unit with C12_RANGE_REGION *before* it computes anything from the argument); k: ghost index; at_end: alignment of the exact-size window */
#define C12_FTOA_CHECK(bits, big, prec, k, at_end, NAME)                                                            \
    int is_nan = C12_ISNAN32(bits), is_inf = C12_ISINF32(bits);                                                   \
    __CPROVER_assume(KF_C12_f32toa_inf_return == 2 ? is_inf : 1);                                                 \
    unsigned neg = C12_NEG32(bits) && !is_nan && c12_f32(bits) != 0.0f; /* f < 0 */                               \
    float a = c12_f32((bits) & 0x7fffffffu);                             /* |f| */                                \
    unsigned P = (unsigned)c12_req_prec(prec, a);                                                                 \
    float g = P ? a + (float)c12_half_unit((int)P) : a; /* the value whose integer part is printed */             \
    unsigned nint = c12_int_digits(g);                                                                            \
    unsigned total = is_nan ? 3u : is_inf ? 4u : neg + nint + (P ? 1u + P : 0u);                                  \
    C12_EXACT_BUF(arr, buf, total + 1, (at_end) != 0);                                                            \
    __CPROVER_assume((k) <= total);                                                                               \
    g_buf = buf; g_k = (k); g_neg = neg; g_nint = nint; g_P = P; g_w = 0;                                         \
                                                                                                                  \
    char *r = FTOA_CALL(buf, prec);                                                                               \
                                                                                                                  \
    if (is_nan) {                                                                                                 \
        __CPROVER_assert(buf[0] == 'n' && buf[1] == 'a' && buf[2] == 'n' && buf[3] == 0,                          \
                         NAME ": NaN renders as the token nan");                                                  \
        __CPROVER_assert(r == buf, NAME "(NaN): returns the start of the text");                                  \
    } else if (is_inf) {                                                                                          \
        __CPROVER_assert(buf[0] == (C12_NEG32(bits) ? '-' : '+') && buf[1] == 'i' && buf[2] == 'n' &&             \
                             buf[3] == 'f' && buf[4] == 0,                                                        \
                         NAME ": infinity renders as the token inf with the sign of the argument");               \
        if (KF_C12_f32toa_inf_return != 1)                                                                        \
            __CPROVER_assert(r == buf, NAME "(+-inf): returns the start of the text like every other path");      \
    } else {                                                                                                      \
        __CPROVER_assert(c12_char_ok(buf[k], (k), neg, nint, P),                                                  \
                         NAME ": text is -?[0-9]+(.[0-9]{P})? with exactly the requested fraction digits, NUL terminated"); \
        __CPROVER_assert(r == buf, NAME ": returns the start of the text");                                       \
    }                                                                                                             \
    CANARY(NAME " harness end reachable")

/* known finding C12_f32toa_range: finite values beyond the int32 range */
#define C12_RANGE_REGION(big) \
    __CPROVER_assume(KF_C12_f32toa_range == 0 ? 1 : KF_C12_f32toa_range == 1 ? !(big) : (big))

unsigned g_k, g_neg, g_nint, g_P; /* ghost index; expected sign / integer digits / fraction digits (from the spec) */
char *g_buf;                      /* start of the text buffer */
unsigned g_w;                     /* characters written so far (stepped next to the real *ptr++) */
#endif
