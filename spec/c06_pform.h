/* C06: the convention of the %p call of print_i in __printf.  Include AFTER igris/util/printf_impl.c.
 *   unrepaired code:  print_i(value, 0, width, 2*sizeof(void*)+2, ops | '#' | '0', 16) -- the "precision" includes the
 *                     two characters of 0x because print_i subtracts the prefix length from it (finding
 *                     C06_prec_minus_prefix);
 *   after proposed_fixes/C06_prec_minus_prefix.patch the precision is the number of digits, named PRINT_P_DIGITS
 *   by that patch; the presence of the macro selects the form.
 * The contracts (c06_print_contracts.h, c06_check_contracts.h) read the value from g_c06_p_minlen. */
#ifndef C06_PFORM_H
#define C06_PFORM_H
#ifdef PRINT_P_DIGITS
#define C06_P_MINLEN ((int)(PRINT_P_DIGITS))
#else
#define C06_P_MINLEN ((int)(2 * sizeof(void *) + 2))
#endif
int g_c06_p_minlen = C06_P_MINLEN;
#endif
