/* C06: the convention of the %p call of print_i in __printf.  Include AFTER igris/util/printf_impl.c.
 *   unrepaired code:  print_i(value, 0, width, 2*sizeof(void*)+2, ops | '#' | '0', 16) -- the "precision" includes the
 *                     two characters of 0x because print_i subtracts the prefix length from it (finding
 *                     C06_prec_minus_prefix), and the forced '0' flag never acts because that precision always
 *                     exceeds the 16 digits a pointer can have;
 *   after proposed_fixes/C06_prec_minus_prefix.patch the precision is the number of digits, named PRINT_P_DIGITS
 *   by that patch, '#' is forced and '0' is cleared; the presence of the macro selects the form.
 * The contracts (c06_print_contracts.h, c06_check_contracts.h) read the form from the three globals below. */
#ifndef C06_PFORM_H
#define C06_PFORM_H
#ifdef PRINT_P_DIGITS
#define C06_P_MINLEN ((int)(PRINT_P_DIGITS))
#define C06_P_OPS_SET (OPS_FLAG_WITH_SPEC)
#define C06_P_OPS_CLR (OPS_FLAG_ZERO_PAD)
#else
#define C06_P_MINLEN ((int)(2 * sizeof(void *) + 2))
#define C06_P_OPS_SET (OPS_FLAG_WITH_SPEC | OPS_FLAG_ZERO_PAD)
#define C06_P_OPS_CLR 0u
#endif
/* the ops word print_i receives for %p when the directive carries the flags `ops` */
#define C06_P_OPS(ops) ((((ops) | C06_P_OPS_SET)) & ~C06_P_OPS_CLR)
int g_c06_p_minlen = C06_P_MINLEN;
unsigned g_c06_p_set = C06_P_OPS_SET, g_c06_p_clr = C06_P_OPS_CLR;
#endif
