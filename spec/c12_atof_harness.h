/* C12: shared checker of the text -> float units (igris_atof64, igris_strtod, strtod, atof; igris_atof32).
 * The unit defines before including this file
 *   ATOF_T              result type (double / float)
 *   ATOF_CALL(s, pend)  the call of the real function under proof
 *   ATOF_HAS_END        1 when the entry point has an end pointer parameter (atof: 0)
 * The injected ghost statements step the reference machine of c12_atof_ref.h over the text while the real loops
 * run; this checker compares what the machine found with what the function reported. */
#ifndef C12_ATOF_HARNESS_H
#define C12_ATOF_HARNESS_H
#include <math.h>

/* n: size of the text object, content: its bytes in the concretisation runs, want_end: pass &end or NULL,
 * k: ghost index for "the text is not modified" */
static void c12_atof_check(size_t n, uchar *content, uchar want_end, size_t k)
{
    __CPROVER_assume(n >= 1 && n <= VC_MAXOBJ && n <= C12_MAXTEXTOBJ);
    uchar *t = NEW_OBJ(n);
    FILL(t, n, content);
#if VC_FALLBACK
    /* ghost-free bounded fallback (units/README.md): the reference machine, which otherwise supplies the assumption that the
     * text object extends as far as the grammar has to look, may not be stepped: the text is a NUL-terminated string instead */
    __CPROVER_assume(t[n - 1] == 0);
#endif
    uchar at_k = k < n ? t[k] : 0;
    char sentinel;
    char *end = &sentinel;
    spec_atof_reset(t, n);
#if !ATOF_HAS_END
    want_end = 0;
#endif

    ATOF_T r = ATOF_CALL((const char *)t, want_end ? &end : (char **)0);

#if !VC_FALLBACK      /* clauses stated over the reference machine (ghost state) */
    int literal = (g_nd + g_nf) != 0;
    __CPROVER_assert(g_end <= g_i && g_i < g_n, "reference machine stayed inside the text");
    if (want_end)
        __CPROVER_assert(end == (char *)t + g_end,
                         "*endptr = end of the literal (longest prefix of the grammar), nptr when there is no literal");
    if (literal)
        __CPROVER_assert((signbit(r) != 0) == (g_neg != 0), "sign of the result == sign of the literal");
    else
        __CPROVER_assert(r == 0, "no literal: zero is returned (ISO 7.22.1.3p7)");
#else
    if (want_end)
        __CPROVER_assert(end >= (char *)t && end < (char *)t + n, "*endptr points into the text");
#endif
    if (!want_end)
        __CPROVER_assert(end == &sentinel, "endptr == NULL: nothing stored");
    __CPROVER_assert(!isnan(r), "the result is a number");
    __CPROVER_assert(!(k < n) || t[k] == at_k, "the text is not modified");
    CANARY("atof harness end reachable");
}
#endif
