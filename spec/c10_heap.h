/* C10 — the bare-metal heap of compat/mem/lin_malloc.cpp / lin_realloc.cpp: representation invariant
 * HEAP written out for a bounded number of free chunks, ghost live block, post-state readers
 * (DESIGN.md section C10).
 *
 * Layout the code maintains: [heap_start, __brkval) is tiled by chunks  | size_t sz | sz payload bytes |,
 * each chunk live or free; the free ones are linked through the first payload word (struct __freelist)
 * in address order starting at __flp.
 *
 * HEAP:
 *   H1  heap_start <= __brkval <= arena end, everything 8-aligned (offsets and sizes are multiples of
 *       sizeof(size_t): heap_start is aligned and every size the code stores is);
 *   H2  __flp is a NULL-terminated list of nf free chunks in strictly increasing address order, each
 *       with sz >= sizeof(void*) (a free chunk must hold the link), each inside [heap_start, __brkval);
 *   H3  no two free chunks are adjacent and the topmost chunk is not free (free() coalesces and lowers
 *       the break): between two free chunks, and between the last free chunk and __brkval, lies at least
 *       one live chunk, and a live chunk occupies >= 16 bytes (malloc's minimum payload is 8);
 *   H4  every live block lies inside [heap_start, __brkval), overlaps no free chunk and its header holds
 *       its size (>= 8): stated for ONE arbitrary ghost live block g_L (offset c10_Lo, size c10_Ls) - it
 *       is arbitrary, so this is the statement about every live block;
 *   H5  __allocation_counter == number of live blocks (ghost number c10_nlive, zero iff no byte is live).
 * The free list is an inductive structure: a pre-state is GENERATED for nf <= C10_NCHUNK (3) free chunks
 * at symbolic offsets with symbolic sizes inside an arena of C10_ARENA bytes; all remaining bytes of
 * the arena are arbitrary.  Every state satisfying HEAP with <= 3 free chunks inside such an arena is
 * generated, so "operation from a generated state ends in a state satisfying HEAP" is the inductive step
 * over histories; the bound is on the number of free chunks and the arena size, not on the history.
 * The post-state is read back from the real memory (c10_heap_walk, fails closed with -1). */
#ifndef C10_HEAP_H
#define C10_HEAP_H
#include "vc.h"

#ifndef C10_ARENA
#define C10_ARENA 1024
#endif
#ifndef C10_NCHUNK
#define C10_NCHUNK 3
#endif
#define C10_HDR sizeof(size_t)
#define C10_MINLIVE (C10_HDR + sizeof(void *)) /* smallest chunk: header + room for the free-list link */

/* the arena is an array of words (every access of the code is word-sized and word-aligned); the code sees
 * it as bytes through the glue macro c10_arena == (char *)c10_arena_w */
size_t c10_arena_w[C10_ARENA / sizeof(size_t)];

static uint c10_nf;                       /* pre-state: number of free chunks          */
static size_t c10_fo[C10_NCHUNK + 2];     /* offsets of their headers, ascending        */
static size_t c10_fs[C10_NCHUNK + 2];     /* their sz fields                            */
static size_t c10_brk;                    /* offset of __brkval                         */
static int c10_hasL;                      /* ghost live block present                   */
static size_t c10_Lo, c10_Ls;             /* its header offset and size                 */
static int c10_nlive;                     /* ghost: number of live blocks               */

#define C10_AL8(x) ((x) % 8 == 0)

/* bytes of [0, brk) not covered by free chunks = bytes held by live blocks (headers included) */
static inline size_t c10_live_bytes(size_t brk, uint nf, const size_t *fs)
{
    size_t l = brk;
    for (uint i = 0; i < C10_NCHUNK + 1; i++)
        if (i < nf) l -= C10_HDR + fs[i];
    return l;
}

/* H1-H3 on a (offsets, sizes, brk) description: used as the ASSUMED pre-state shape and as the ASSERTED
 * post-state shape */
static inline int c10_shape_ok(uint nf, const size_t *fo, const size_t *fs, size_t brk)
{
    int ok = brk <= C10_ARENA && C10_AL8(brk);
    for (uint i = 0; i < C10_NCHUNK + 1; i++)
        if (i < nf) {
            size_t lim = i + 1 < nf ? fo[i + 1] : brk;
            ok = ok && C10_AL8(fo[i]) && C10_AL8(fs[i]) && fs[i] >= sizeof(void *) && fo[i] <= C10_ARENA && fs[i] <= C10_ARENA &&
                 fo[i] + C10_HDR + fs[i] + C10_MINLIVE <= lim && lim <= C10_ARENA;
            if (i == 0) ok = ok && (fo[0] == 0 || fo[0] >= C10_MINLIVE);
        }
    return ok;
}
/* block [o, o+HDR+s) lies inside [0, brk) and overlaps no free chunk */
static inline int c10_block_ok(size_t o, size_t s, uint nf, const size_t *fo, const size_t *fs, size_t brk)
{
    int ok = C10_AL8(o) && C10_AL8(s) && o <= C10_ARENA && s <= C10_ARENA && o + C10_HDR + s <= brk;
    for (uint i = 0; i < C10_NCHUNK + 1; i++)
        if (i < nf) ok = ok && (o + C10_HDR + s <= fo[i] || fo[i] + C10_HDR + fs[i] <= o);
    return ok;
}

/* generate the pre-state: assumptions are exactly H1-H5 */
#define C10_HEAP_STATE(nf_, foarr, fsarr, brk_, fresh_, hasL_, Lo_, Ls_, nlive_)                                         \
    do {                                                                                                                 \
        __CPROVER_havoc_object(c10_arena_w);                                                                              \
        c10_nf = (nf_); c10_brk = (brk_); c10_hasL = (hasL_) != 0; c10_Lo = (Lo_); c10_Ls = (Ls_); c10_nlive = (nlive_);  \
        __CPROVER_assume(c10_nf <= C10_NCHUNK);                                                                          \
        for (uint c10_i = 0; c10_i < C10_NCHUNK; c10_i++) { c10_fo[c10_i] = (foarr)[c10_i]; c10_fs[c10_i] = (fsarr)[c10_i]; } \
        __CPROVER_assume(c10_shape_ok(c10_nf, c10_fo, c10_fs, c10_brk));                                                 \
        __CPROVER_assume(!c10_hasL || (c10_Ls >= sizeof(void *) && c10_block_ok(c10_Lo, c10_Ls, c10_nf, c10_fo, c10_fs, c10_brk))); \
        __CPROVER_assume(c10_nlive >= 0 && c10_nlive <= 1000 && c10_nlive >= c10_hasL &&                                 \
                         (c10_nlive == 0) == (c10_live_bytes(c10_brk, c10_nf, c10_fs) == 0));                            \
        __CPROVER_assume(!(fresh_) || (c10_brk == 0 && c10_nf == 0));                                                    \
        c10_build(fresh_);                                                                                               \
    } while (0)

static inline void c10_build(int fresh)
{
    struct __freelist **link = &__flp;
    for (uint i = 0; i < C10_NCHUNK; i++)
        if (i < c10_nf) {
            struct __freelist *c = (struct __freelist *)(c10_arena + c10_fo[i]);
            c->sz = c10_fs[i];
            *link = c;
            link = &c->nx;
        }
    *link = NULL;
    __brkval = fresh ? NULL : c10_arena + c10_brk;
    __malloc_heap_start = c10_arena;
    if (c10_hasL) *(size_t *)(c10_arena + c10_Lo) = c10_Ls;
    __allocation_counter = c10_nlive;
}

#ifdef REPLAY
#define C10_IN_ARENA(p) ((char *)(p) >= c10_arena && (char *)(p) <= c10_arena + C10_ARENA)
#define C10_OFF(p) ((size_t)((char *)(p) - c10_arena))
#else
#define C10_IN_ARENA(p) (__CPROVER_same_object((p), c10_arena) && (size_t)__CPROVER_POINTER_OFFSET(p) <= C10_ARENA)
#define C10_OFF(p) ((size_t)__CPROVER_POINTER_OFFSET(p))
#endif

/* post-state reader: __flp as (offset, size) arrays; -1 if a link leaves the arena, is misaligned or the
 * list is longer than C10_NCHUNK+1 (one more than the pre-state bound: free() may add a chunk) */
static inline int c10_heap_walk(size_t *po, size_t *ps)
{
    struct __freelist *it = __flp;
    int n = 0;
    for (uint s = 0; s <= C10_NCHUNK + 1; s++) {
        if (it == NULL)
            return n;
        if (s > C10_NCHUNK || !C10_IN_ARENA(it) || !C10_AL8(C10_OFF(it)) || C10_OFF(it) + sizeof(struct __freelist) > C10_ARENA)
            return -1;
        po[n] = C10_OFF(it);
        ps[n] = it->sz;
        n++;
        it = it->nx;
    }
    return -1;
}
/* offset of __brkval, or SIZE_MAX when it does not point into the arena */
static inline size_t c10_brk_now(void)
{
    if (__brkval == NULL) return 0;
    if (!C10_IN_ARENA(__brkval)) return (size_t)-1;
    return C10_OFF(__brkval);
}
/* the request size the allocator works with: rounded up to a multiple of __WORDSIZE (sic: the number of
 * BITS of a word used as a byte count), at least the size of the free-list link */
static inline size_t c10_rounded(size_t len)
{
    if (len % __WORDSIZE != 0) len += __WORDSIZE - len % __WORDSIZE;
    if (len < sizeof(void *)) len = sizeof(void *);
    return len;
}
static inline int c10_fits_free(size_t rl)
{
    int r = 0;
    for (uint i = 0; i < C10_NCHUNK; i++)
        if (i < c10_nf && c10_fs[i] >= rl) r = 1;
    return r;
}
#endif
