/* C10 — the bare-metal heap of compat/mem/lin_malloc.cpp / lin_realloc.cpp: representation invariant
 * HEAP written out for a bounded number of free chunks, abstract heap state, ghost live block
 * (DESIGN.md section C10).
 *
 * Layout the code maintains: [heap_start, __brkval) is tiled by chunks  | size_t sz | sz payload bytes |,
 * each chunk live or free; the free ones are linked through the first payload word (struct __freelist)
 * in address order starting at __flp.
 *
 * HEAP:
 *   H1  heap_start <= __brkval <= arena end; every offset and size is a multiple of sizeof(size_t)
 *       (heap_start is aligned and every size the code stores is), so the abstract state below counts
 *       in WORDS of 8 bytes;
 *   H2  __flp is a NULL-terminated list of n free chunks in strictly increasing address order, each
 *       with sz >= sizeof(void*) (a free chunk must hold the link), each inside [heap_start, __brkval);
 *   H3  no two free chunks are adjacent and the topmost chunk is not free (free() coalesces and lowers
 *       the break): between two free chunks, and between the last free chunk and __brkval, lies at least
 *       one live chunk, and a live chunk occupies >= 2 words (malloc's minimum payload is one word);
 *   H4  every live block lies inside [heap_start, __brkval), overlaps no free chunk and its header holds
 *       its size (>= 8): stated for ONE arbitrary ghost live block g_L (c10_Lo, c10_Ls) - it is arbitrary,
 *       so this is the statement about every live block;
 *   H5  __allocation_counter == number of live blocks (ghost number c10_nlive, zero iff no byte is live).
 * The free list is an inductive structure: a pre-state is GENERATED for n <= C10_NCHUNK (3) free chunks
 * at symbolic offsets with symbolic sizes inside an arena of C10_ARENA bytes whose remaining content is
 * arbitrary.  Every state satisfying HEAP with <= 3 free chunks inside such an arena is generated, so
 * "one operation from a generated state ends in a state satisfying HEAP" is the inductive step over
 * histories; the bound is on the number of free chunks and the arena size, not on the history.
 *
 * Post-states: the harness derives the abstract post-state from the abstract pre-state and the value the
 * code returned (for free(): from the pre-state alone - the coalesced representation is unique), checks
 * the property's clauses on it (pure integer reasoning) and checks that the real memory encodes exactly
 * that state (c10_mem_is: __flp, every sz and nx field, __brkval).  All spec reads of the arena are word
 * indexed (cbmc turns those into array indexing; byte-offset walks over loaded pointers cost 100x more). */
#ifndef C10_HEAP_H
#define C10_HEAP_H
#include "vc.h"

#ifndef C10_ARENA
#define C10_ARENA 256
#endif
#define C10_WORDS (C10_ARENA / sizeof(size_t))
#ifndef C10_NCHUNK
#define C10_NCHUNK 3
#endif
#define C10_MAXN (C10_NCHUNK + 2) /* array capacity of an abstract state: free() may add one chunk */

/* the arena is an array of words (every access of the code is word-sized and word-aligned); the code sees
 * it as bytes through the glue macro c10_arena == (char *)c10_arena_w */
size_t c10_arena_w[C10_WORDS];
#define C10_W(i) (c10_arena_w[(i)])                                              /* word i              */
#define C10_P(i) (*(struct __freelist **)(c10_arena + 8 * (size_t)(i)))           /* word i as a pointer */
#define C10_ADDR(i) ((struct __freelist *)(c10_arena + 8 * (size_t)(i)))          /* address of word i   */

/* abstract heap state, in words: free chunk i has its header at word fo[i] and fs[i] payload words */
struct c10_abs {
    uint n;
    size_t fo[C10_MAXN], fs[C10_MAXN];
    size_t brk;
};
static struct c10_abs c10_pre;
static int c10_hasL;          /* ghost live block present        */
static size_t c10_Lo, c10_Ls; /* its header word and size (words) */
static int c10_nlive;         /* ghost: number of live blocks     */

/* words of [0, brk) not covered by free chunks = words held by live blocks (headers included) */
static inline size_t c10_abs_live(const struct c10_abs *s)
{
    size_t l = s->brk;
    for (uint i = 0; i < C10_MAXN; i++)
        if (i < s->n) l -= 1 + s->fs[i];
    return l;
}
/* H1-H3 */
static inline int c10_abs_ok(const struct c10_abs *s)
{
    int ok = s->n <= C10_MAXN && s->brk <= C10_WORDS;
    for (uint i = 0; i < C10_MAXN; i++)
        if (i < s->n) {
            size_t lim = i + 1 < s->n ? s->fo[i + 1] : s->brk;
            ok = ok && s->fs[i] >= 1 && s->fo[i] <= C10_WORDS && s->fs[i] <= C10_WORDS && lim <= C10_WORDS &&
                 s->fo[i] + 1 + s->fs[i] + 2 <= lim;
            if (i == 0) ok = ok && (s->fo[0] == 0 || s->fo[0] >= 2);
        }
    return ok;
}
/* the block with header word o and s payload words lies inside [0, brk) and overlaps no free chunk */
static inline int c10_abs_block_ok(const struct c10_abs *st, size_t o, size_t s)
{
    int ok = o <= C10_WORDS && s <= C10_WORDS && o + 1 + s <= st->brk;
    for (uint i = 0; i < C10_MAXN; i++)
        if (i < st->n) ok = ok && (o + 1 + s <= st->fo[i] || st->fo[i] + 1 + st->fs[i] <= o);
    return ok;
}
/* a LIVE block: additionally, what separates it from the heap start, the break and every free chunk is a
 * whole number of live chunks, i.e. nothing or >= 2 words (H3: the heap is tiled by chunks of >= 2 words) */
#define C10_GAP_OK(g) ((g) == 0 || (g) >= 2)
static inline int c10_abs_live_ok(const struct c10_abs *st, size_t o, size_t s)
{
    int ok = s >= 1 && c10_abs_block_ok(st, o, s) && C10_GAP_OK(o) && C10_GAP_OK(st->brk - (o + 1 + s));
    for (uint i = 0; i < C10_MAXN; i++)
        if (i < st->n)
            ok = ok && (o + 1 + s <= st->fo[i] ? C10_GAP_OK(st->fo[i] - (o + 1 + s)) : C10_GAP_OK(o - (st->fo[i] + 1 + st->fs[i])));
    return ok;
}
/* index of the free chunk whose extent contains word o, or C10_MAXN */
static inline uint c10_abs_find(const struct c10_abs *st, size_t o)
{
    uint j = C10_MAXN;
    for (uint i = 0; i < C10_MAXN; i++)
        if (i < st->n && st->fo[i] <= o && o < st->fo[i] + 1 + st->fs[i]) j = i;
    return j;
}
static inline void c10_abs_remove(struct c10_abs *st, uint k)
{
    for (uint i = 0; i + 1 < C10_MAXN; i++)
        if (i >= k) { st->fo[i] = st->fo[i + 1]; st->fs[i] = st->fs[i + 1]; }
    st->n--;
}
/* the unique state satisfying H2/H3 in which the words of block (o, s) are free as well */
static inline void c10_abs_free(struct c10_abs *st, size_t o, size_t s)
{
    uint k = 0;
    for (uint i = 0; i < C10_MAXN; i++)
        if (i < st->n && st->fo[i] < o) k = i + 1;
    if (k < st->n && o + 1 + s == st->fo[k]) { /* upper neighbour free: one chunk */
        s += 1 + st->fs[k];
        c10_abs_remove(st, k);
    }
    if (k > 0 && st->fo[k - 1] + 1 + st->fs[k - 1] == o) { /* lower neighbour free: one chunk */
        st->fs[k - 1] += 1 + s;
    } else {
        for (uint i = C10_MAXN - 1; i > 0; i--)
            if (i > k) { st->fo[i] = st->fo[i - 1]; st->fs[i] = st->fs[i - 1]; }
        st->fo[k] = o; st->fs[k] = s;
        st->n++;
    }
    if (st->n > 0 && st->fo[st->n - 1] + 1 + st->fs[st->n - 1] == st->brk) { /* topmost chunk free: lower the break */
        st->brk = st->fo[st->n - 1];
        st->n--;
    }
}
/* a block of rs payload words with header word ro has been carved out: returns 0 if that is not one of
 * 1 a whole free chunk, 2 the upper part of a free chunk leaving >= 2 words, 3 new space at the break */
static inline int c10_abs_alloc(struct c10_abs *st, size_t ro, size_t rs)
{
    uint j = c10_abs_find(st, ro);
    if (j < C10_MAXN) {
        if (ro == st->fo[j]) { /* the whole chunk */
            if (rs != st->fs[j]) return 0;
            c10_abs_remove(st, j);
            return 1;
        }
        if (ro + 1 + rs != st->fo[j] + 1 + st->fs[j] || ro < st->fo[j] + 2) return 0;
        st->fs[j] = ro - st->fo[j] - 1; /* split: the lower part stays free */
        return 2;
    }
    if (ro != st->brk) return 0;
    st->brk = ro + 1 + rs;
    return 3;
}

/* the real memory encodes exactly the abstract state */
static inline int c10_mem_is(const struct c10_abs *st)
{
    int ok = __flp == (st->n ? C10_ADDR(st->fo[0]) : NULL);
    for (uint i = 0; i < C10_MAXN; i++)
        if (i < st->n && st->fo[i] + 1 < C10_WORDS)
            ok = ok && C10_W(st->fo[i]) == 8 * st->fs[i] && C10_P(st->fo[i] + 1) == (i + 1 < st->n ? C10_ADDR(st->fo[i + 1]) : NULL);
    ok = ok && (__brkval == c10_arena + 8 * st->brk || (st->brk == 0 && __brkval == NULL));
    return ok;
}

static inline void c10_build(int fresh)
{
    for (uint i = 0; i < C10_NCHUNK; i++)
        if (i < c10_pre.n) {
            C10_ADDR(c10_pre.fo[i])->sz = 8 * c10_pre.fs[i];
            C10_ADDR(c10_pre.fo[i])->nx = i + 1 < c10_pre.n ? C10_ADDR(c10_pre.fo[i + 1]) : NULL;
        }
    __flp = c10_pre.n ? C10_ADDR(c10_pre.fo[0]) : NULL;
    __brkval = fresh ? NULL : c10_arena + 8 * c10_pre.brk;
    __malloc_heap_start = c10_arena;
    if (c10_hasL) C10_W(c10_Lo) = 8 * c10_Ls;
    __allocation_counter = c10_nlive;
}

/* with -DNF=k the number of free chunks is a constant of the run (parameter sweep k = 0..3: same states,
 * smaller formulas) */
#ifdef NF
#define C10_FIX_NF(x) ((void)(x), (uint)(NF))
#else
#define C10_FIX_NF(x) (x)
#endif
/* generate the pre-state: the assumptions are exactly H1-H5 */
#define C10_HEAP_STATE(n_, foarr, fsarr, brk_, fresh_, hasL_, Lo_, Ls_, nlive_)                                          \
    do {                                                                                                                 \
        __CPROVER_havoc_object(c10_arena_w);                                                                             \
        c10_pre.n = C10_FIX_NF(n_); c10_pre.brk = (brk_); c10_hasL = (hasL_) != 0; c10_Lo = (Lo_); c10_Ls = (Ls_); c10_nlive = (nlive_); \
        __CPROVER_assume(c10_pre.n <= C10_NCHUNK);                                                                       \
        for (uint c10_i = 0; c10_i < C10_MAXN; c10_i++) {                                                                \
            c10_pre.fo[c10_i] = c10_i < C10_NCHUNK ? (foarr)[c10_i < C10_NCHUNK ? c10_i : 0] : 0;                        \
            c10_pre.fs[c10_i] = c10_i < C10_NCHUNK ? (fsarr)[c10_i < C10_NCHUNK ? c10_i : 0] : 0;                        \
        }                                                                                                                \
        __CPROVER_assume(c10_abs_ok(&c10_pre));                                                                          \
        __CPROVER_assume(!c10_hasL || c10_abs_live_ok(&c10_pre, c10_Lo, c10_Ls));                      \
        __CPROVER_assume(c10_nlive >= 0 && c10_nlive <= 1000 && c10_nlive >= c10_hasL &&                                 \
                         (c10_nlive == 0) == (c10_abs_live(&c10_pre) == 0));                                             \
        __CPROVER_assume(!(fresh_) || (c10_pre.brk == 0 && c10_pre.n == 0));                                             \
        c10_build(fresh_);                                                                                               \
    } while (0)

#ifdef REPLAY
#define C10_IN_ARENA(p) ((char *)(p) >= c10_arena && (char *)(p) <= c10_arena + C10_ARENA)
#define C10_OFF(p) ((size_t)((char *)(p) - c10_arena))
#else
#define C10_IN_ARENA(p) (__CPROVER_same_object((p), c10_arena_w) && (size_t)__CPROVER_POINTER_OFFSET(p) <= C10_ARENA)
#define C10_OFF(p) ((size_t)__CPROVER_POINTER_OFFSET(p))
#endif

/* the request size the allocator works with: rounded up to a multiple of __WORDSIZE (sic: the number of
 * BITS of a word used as a byte count), at least the size of the free-list link.  Used only to describe
 * the known-finding regions. */
static inline size_t c10_rounded(size_t len)
{
    if (len % __WORDSIZE != 0) len += __WORDSIZE - len % __WORDSIZE;
    if (len < sizeof(void *)) len = sizeof(void *);
    return len;
}
static inline int c10_fits_free(const struct c10_abs *st, size_t rl)
{
    int r = 0;
    for (uint i = 0; i < C10_MAXN; i++)
        if (i < st->n && 8 * st->fs[i] >= rl) r = 1;
    return r;
}
/* memcpy as its contract (contracts/libc_contracts.h, proved for the shim by units/C08/libc_memcpy_contract): source
 * readable, destination writable, no overlap; afterwards dst[0..n) == src[0..n).  The copy is modelled for ONE ghost
 * word index (arbitrary, fixed by the harness: the statement about that word is the statement about every word); the
 * call is recorded so that the harness can check that the destination range is the payload of the block realloc
 * returns - no other clause reads those words, which is why leaving the other destination words unmodelled is sound.
 * cbmc's built-in memcpy (array_replace of a symbolic-size slice of the word array) is too imprecise here. */
#if defined(C10_MEMCPY_CONTRACT) && !defined(REPLAY)
static size_t g_mc_calls, g_mc_n, g_mc_kw;
static const void *g_mc_s;
static void *g_mc_d;
void *memcpy(void *d, const void *s, size_t n)
{
    __CPROVER_assert(n == 0 || (__CPROVER_r_ok(s, n) && __CPROVER_w_ok(d, n)), "memcpy precondition: source readable, destination writable for n bytes");
    __CPROVER_assert(n == 0 || !__CPROVER_same_object(d, s) || __CPROVER_POINTER_OFFSET(d) + (__CPROVER_ssize_t)n <= __CPROVER_POINTER_OFFSET(s) ||
                     __CPROVER_POINTER_OFFSET(s) + (__CPROVER_ssize_t)n <= __CPROVER_POINTER_OFFSET(d), "memcpy precondition: the objects do not overlap");
    g_mc_calls++; g_mc_d = d; g_mc_s = s; g_mc_n = n;
    if (8 * g_mc_kw + 8 <= n) ((size_t *)d)[g_mc_kw] = ((const size_t *)s)[g_mc_kw];
    return d;
}
#endif
#define C10_ROUND_WRAPS(len) ((len) > (size_t)-1 - (__WORDSIZE - 1))
#endif
