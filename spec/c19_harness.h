/* C19 harness vocabulary: exact-size inputs.
 *   C19_BLOCK   a buffer the API takes with a length: exactly n bytes, NOT NUL-terminated (a one-byte
 *               over-read leaves the object: cbmc pointer check / ASan)
 *   C19_STRING  a C string: object of L+1 (+spare) bytes whose byte L is NUL; earlier NULs are allowed (the
 *               routines then see the string up to the first NUL, the specs speak about "the first NUL")
 * `spare` is 0 except where a known finding is carved out by making a one-byte over-read harmless
 * (KF == 1: one readable byte of arbitrary content behind the terminator; see units/C19/findings.json).
 */
#ifndef C19_HARNESS_H
#define C19_HARNESS_H
#include "vc.h"

#define C19_IMP(a, b) (!(a) || (b))

#define C19_BLOCK(p, n, content)                                        \
    __CPROVER_assume((n) <= VC_MAXOBJ);                                 \
    char *p = NEW_OBJ(n);                                               \
    FILL(p, (size_t)(n), content)

#define C19_STRING(p, L, content, spare)                                \
    __CPROVER_assume((L) < VC_MAXOBJ);                                  \
    char *p = NEW_OBJ((L) + 1 + (spare));                               \
    FILL(p, (size_t)(L) + 1 + (spare), content);                        \
    __CPROVER_assume(p[L] == 0)

/* offset of q inside the object p points to the start of */
#ifdef REPLAY
#define C19_OFF(q, p) ((size_t)((const char *)(q) - (const char *)(p)))
const char *__asan_default_options(void) { return "detect_leaks=0"; }
#else
#define C19_OFF(q, p) ((size_t)__CPROVER_POINTER_OFFSET(q))
#endif

#if defined(WITNESS_MODE) && !defined(REPLAY)
/* cbmc 6.11 has no library model of memchr ("no body for callee memchr": the result would be an arbitrary pointer).  A changed routine
 * that starts calling it must still be decided by the bounded concretisation / fallback run, so these runs (small concrete sizes,
 * loops unwound) get the obvious body; proof runs never see it (there memchr is used through its contract only). */
#include <string.h>
void *memchr(const void *s, int c, size_t n)
{
    for (size_t vc_i = 0; vc_i < n; vc_i++)
        if (((const unsigned char *)s)[vc_i] == (unsigned char)c)
            return (void *)((const unsigned char *)s + vc_i);
    return (void *)0;
}
#endif

/* white space of the argv splitter and the shells (argvc.h: " \r\n\t") */
#define C19_WS(c) ((c) == ' ' || (c) == '\r' || (c) == '\n' || (c) == '\t')

#endif
