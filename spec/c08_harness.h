/* C08 harness vocabulary: exact-size string / block objects with a symbolic amount of slack in front,
 * so that the pointer handed to the function is an interior pointer of arbitrary alignment and every
 * read or write beyond the last byte the definition allows leaves the object (cbmc pointer check / ASan). */
#ifndef C08_HARNESS_H
#define C08_HARNESS_H
#include "vc.h"

/* slack in front of the operand; units that cannot afford a fully symbolic offset define a smaller one
 * (16 still covers every alignment modulo the word size) and say so in their header */
#ifndef C08_MAXOFF
#define C08_MAXOFF VC_MAXOBJ
#endif
/* Functions that are not callees of other shim functions are byte-wise and never called with interior
 * pointers by the shim itself; a symbolic offset makes their proofs 5-10x slower for no additional insight,
 * so their units sweep a few concrete offsets instead ('params': {'C08_FIXOFF': [0, 3]}: object start =
 * under-reads leave the object; 3 = interior, misaligned pointer). */
#ifdef C08_FIXOFF
#define C08_OFF_OK(off) ((off) == C08_FIXOFF)
#else
#define C08_OFF_OK(off) ((off) <= C08_MAXOFF)
#endif

/* char *p: string operand, p[L] == 0 is the last byte of the object, earlier NULs allowed */
#define C08_STRING(p, off, L, content)                                  \
    __CPROVER_assume(C08_OFF_OK(off) && (L) < VC_MAXOBJ);           \
    char *p##_base = NEW_OBJ((off) + (L) + 1);                          \
    FILL(p##_base, (off) + (L) + 1, content);                           \
    char *p = p##_base + (off);                                         \
    __CPROVER_assume(p[L] == 0)

/* uchar *p: block operand of exactly n bytes */
#define C08_BLOCK(p, off, n, content)                                   \
    __CPROVER_assume(C08_OFF_OK(off) && (n) <= VC_MAXOBJ);          \
    uchar *p##_base = NEW_OBJ((off) + (n));                             \
    FILL(p##_base, (off) + (n), content);                               \
    uchar *p = p##_base + (off)

#ifdef REPLAY
/* the harness never frees its operands: leak reports are not findings */
const char *__asan_default_options(void) { return "detect_leaks=0"; }
#endif

#define SIGN(x) (((x) > 0) - ((x) < 0))
#endif
