/* Reference machine for strtol / strtoul / strtoll / strtoull / strtoimax / strtoumax / atol / atoi,
 * written from ISO/IEC 9899:2011 7.22.1.4 (and 7.22.1.2 for ato*), C locale (7.4.1.10 for white space).
 *
 * The machine walks over the text ITSELF (it reads g_t[g_i]; it never looks at what the code read).  Its
 * mathematical value lives in a 128-bit accumulator that never exceeds the cap of the result type; a flag
 * records that the true value went beyond the cap ("outside the range of representable values").
 *
 *   ISO 7.22.1.4p2  white space (isspace) is skipped, then the subject sequence
 *   ISO 7.22.1.4p3  optional sign; base 0: decimal / octal (leading 0) / hexadecimal (0x, 0X) constant;
 *                   base 2..36: digits and letters a(A)..z(Z) = 10..35, only values < base;
 *                   base 16: optional 0x / 0X before the digits
 *   ISO 7.22.1.4p4  subject sequence = LONGEST initial subsequence of the expected form: "0x" that is not
 *                   followed by a hexadecimal digit is not of the expected form, so only the "0" is taken
 *                   and the final string starts at the 'x'
 *   ISO 7.22.1.4p5  minus sign: the value is negated (in the return type)
 *   ISO 7.22.1.4p7  no conversion: value 0, *endptr = nptr
 *   ISO 7.22.1.4p8  out of range: LONG_MIN / LONG_MAX / ULONG_MAX ... by type and sign
 *
 * Precondition on the text (the only assumption the units make about it), called P below:
 *   every character the machine has to inspect lies inside the text object
 * i.e. the object reaches at least to the first character that cannot be consumed (one further when that
 * character is the x of "0x": the hexadecimal digit test needs the character behind it).  A NUL-terminated
 * string satisfies P; an object that ENDS exactly at that character satisfies P as well, and because the object
 * size g_n is arbitrary, that tight object is among the verified inputs: a read one byte further is a failed
 * pointer obligation.  P is a universally quantified hypothesis ("for every index the machine reaches ...");
 * it is used the only way such a hypothesis can be used without quantifiers: instantiated at the index the
 * machine stands on (SPEC_NEED), at the moment the machine decides to go on.  SPEC_NEED speaks about the text and
 * the machine's own cursor only, never about a variable of the code under proof.
 */
#ifndef C11_STRTO_REF_H
#define C11_STRTO_REF_H
#include <stddef.h>

typedef unsigned __int128 spec_wide;

static const unsigned char *g_t; /* the text */
static size_t g_n;               /* size of the text object */
static size_t g_i;               /* cursor: index of the character under inspection */
static int g_neg;                /* subject sequence begins with '-' */
static int g_base;               /* effective base (after base 0 / 0x resolution) */
static int g_any;                /* at least one digit consumed (subject sequence not empty) */
static int g_sat;                /* true value > g_cap */
static int g_kf0x;               /* "0x" / "0X" not followed by a hexadecimal digit was seen */
static spec_wide g_val;          /* magnitude, exact while !g_sat */
static spec_wide g_cap;          /* largest representable magnitude for this sign and result type */

#define SPEC_NEED(k) __CPROVER_assume((k) < g_n)

/* ISO 7.4.1.10: in the "C" locale isspace is true for space, \f, \n, \r, \t, \v only */
static inline int spec_isspace(unsigned char ch)
{
    return ch == ' ' || ch == '\f' || ch == '\n' || ch == '\r' || ch == '\t' || ch == '\v';
}

/* ISO 7.22.1.4p3: value of ch as a digit; 99 when it is neither a digit nor a letter */
static inline int spec_digit(unsigned char ch)
{
    if (ch >= '0' && ch <= '9')
        return ch - '0';
    if (ch >= 'a' && ch <= 'z')
        return ch - 'a' + 10;
    if (ch >= 'A' && ch <= 'Z')
        return ch - 'A' + 10;
    return 99;
}

static inline void spec_strto_reset(const void *t, size_t n)
{
    g_t = (const unsigned char *)t;
    g_n = n;
    g_i = 0;
    g_neg = 0;
    g_base = 0;
    g_any = 0;
    g_sat = 0;
    g_kf0x = 0;
    g_val = 0;
    g_cap = 0;
}

/* one step of the white-space phase; returns 1 when a character was skipped */
static inline int spec_strto_ws_step(void)
{
    if (spec_isspace(g_t[g_i])) {
        SPEC_NEED(g_i + 1);
        g_i++;
        return 1;
    }
    return 0;
}

/* sign and prefix; `bits`/`is_signed` describe the result type.  kf = value of the known-finding switch
 * C11_strto_0x_nohex (0: nothing carved, 1: the region is excluded, 2: only the region) */
static inline void spec_strto_head(int base, int bits, int is_signed, int kf)
{
    unsigned char ch = g_t[g_i];
    g_neg = 0;
    if (ch == '-' || ch == '+') {
        g_neg = (ch == '-');
        SPEC_NEED(g_i + 1);
        g_i++;
        ch = g_t[g_i];
    }
    g_base = base;
    g_kf0x = 0;
    if ((base == 0 || base == 16) && ch == '0') {
        SPEC_NEED(g_i + 1); /* '0' is a digit in every base: the machine goes on */
        if (g_t[g_i + 1] == 'x' || g_t[g_i + 1] == 'X') {
            SPEC_NEED(g_i + 2); /* whether the x belongs to the number depends on the character behind it */
            if (spec_digit(g_t[g_i + 2]) < 16) {
                g_i += 2;
                g_base = 16;
            } else {
                g_kf0x = 1; /* subject sequence is the "0" alone (7.22.1.4p4) */
            }
        }
    }
    if (g_base == 0)
        g_base = (ch == '0') ? 8 : 10;
    __CPROVER_assume(kf == 0 ? 1 : kf == 1 ? !g_kf0x : g_kf0x);
    g_cap = is_signed ? (((spec_wide)1 << (bits - 1)) - (g_neg ? 0 : 1)) : (((spec_wide)1 << bits) - 1);
    g_val = 0;
    g_any = 0;
    g_sat = 0;
}

/* one step of the digit phase; returns 1 when the character under the cursor was consumed */
static inline int spec_strto_digit_step(void)
{
    int d = spec_digit(g_t[g_i]);
    if (d < g_base) {
        g_any = 1;
        if (!g_sat) {
            spec_wide v = g_val * (spec_wide)(unsigned)g_base + (spec_wide)(unsigned)d;
            if (v > g_cap)
                g_sat = 1;
            else
                g_val = v;
        }
        SPEC_NEED(g_i + 1);
        g_i++;
        return 1;
    }
    return 0;
}

/* ---- ato* (ISO 7.22.1.2): atol(s) == strtol(s, NULL, 10) "except for the behavior on error"; when the value
 * cannot be represented the behaviour is undefined, so "the value is representable" is a precondition. ----
 *
 * atol's white-space loop `while (isspace(*p)) ++p;` has no block body into which a machine step could be
 * injected.  The text is therefore described by the harness as "g_ws white-space characters followed by a
 * character that is not white space" (g_ws arbitrary): the second half is a plain assumption about t[g_ws], the
 * first half is the hypothesis "t[k] is white space for every k < g_ws", which is instantiated once, at the index
 * where the code's loop stopped. */
static size_t g_ws;

static inline void spec_ato_ws_done(size_t stopped_at)
{
    __CPROVER_assume(!(stopped_at < g_ws) || spec_isspace(g_t[stopped_at]));
    g_i = g_ws;
}

/* digit step for ato*: as spec_strto_digit_step, plus the precondition "representable" and the known-finding
 * region C11_atol_min (kf as in spec_strto_head): the magnitude 2^(bits-1), legal only behind a minus sign */
static inline int spec_ato_digit_step(int bits, int kf)
{
    int r = spec_strto_digit_step();
    __CPROVER_assume(!g_sat);
    if (kf == 1)
        __CPROVER_assume(!(bits == 64 && g_val == ((spec_wide)1 << 63)));
    return r;
}

/* known finding C11_strtoumax_ulong_cast (unit strtoumax_ilp32): region = texts whose value exceeds 2^32 - 1 */
static inline void spec_strto_kf_above_u32(int kf)
{
    int in_region = g_sat || g_val > (spec_wide)0xFFFFFFFFu;
    if (kf == 1)
        __CPROVER_assume(!in_region);
}

/* the machine stands on the first character that is not part of the subject sequence */
static inline int spec_strto_stopped(void)
{
    return !(spec_digit(g_t[g_i]) < g_base);
}

/* the whole machine as a plain loop: used by the bounded concretisation / native replay runs, where no ghost
 * statements are injected into the code */
static inline void spec_strto_run(const void *t, size_t n, int base, int bits, int is_signed, int kf)
{
    spec_strto_reset(t, n);
    while (spec_strto_ws_step()) {
    }
    spec_strto_head(base, bits, is_signed, kf);
    while (spec_strto_digit_step()) {
    }
}

/* ISO 7.22.1.4p5/p8 results */
static inline unsigned long long spec_strto_unsigned_result(int bits)
{
    unsigned long long max = bits == 64 ? ~0ull : ((1ull << (bits & 63)) - 1);
    unsigned long long v = (unsigned long long)g_val;
    if (g_sat)
        return max;
    return (g_neg ? (0ull - v) : v) & max;
}

static inline long long spec_strto_signed_result(int bits)
{
    long long max = (long long)((1ull << (bits - 1)) - 1);
    long long min = -max - 1;
    if (g_sat)
        return g_neg ? min : max;
    if (g_neg)
        return g_val == ((spec_wide)1 << (bits - 1)) ? min : -(long long)g_val;
    return (long long)g_val;
}

/* expected *endptr as an index into the text: first unconsumed character, 0 (= nptr) when nothing was converted */
static inline size_t spec_strto_end(void)
{
    return g_any ? g_i : 0;
}

#endif
