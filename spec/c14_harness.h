/* C14: harness helpers; included by a unit AFTER the extracted file (cxx/sv.c or cxx/ss.c). */
#ifndef C14_HARNESS_H
#define C14_HARNESS_H
#include "c14_sv.h"

#define C14_WIT_SLOTS 3   /* == C14_MAXCAP in witness mode */

/* fix the capacity: an arbitrary N >= 1 */
#define C14_SET_CAP(cap) do { __CPROVER_assume((cap) >= 1 && (cap) <= C14_MAXCAP); CAP = (cap); } while (0)

#ifdef C14_HAVE_SV
/* a static_vector in an ARBITRARY state satisfying SV: storage = fresh object of exactly CAP slots with arbitrary
 * content, m_size = m <= CAP, slots below m LIVE and the others RAW.  The quantified half of SV is assumed for the
 * ghost slot g_k (arbitrary): that is all a proof by ghost index may use (DESIGN 3.3).
 * Witness mode builds the state concretely from `vals`. */
static inline void c14_sv_any(struct static_vector *v, size_t m, const int *vals)
{
    __CPROVER_assume(m <= CAP);
    v->_data = (ELEM *)C14_ANY_STORAGE(CAP);
    v->m_size = m;
#ifdef WITNESS_MODE
    for (size_t i = 0; i < CAP; i++) {
        ELEM_SET(&v->_data[i], i < m ? ELEM_LIVE : ELEM_RAW, vals[i]);
    }
#else
    (void)vals;
    __CPROVER_assume(SV_SLOT_OK(v, g_k));
#endif
}
/* the quantified half of SV instantiated at one more slot: the slot the state selects (e.g. slot m_size, which
 * push_back is about to construct), DESIGN 3.3.  Not a restriction of the inputs: SV holds for every slot. */
#ifdef WITNESS_MODE
#define C14_SV_AT(v, i) ((void)0)
#else
#define C14_SV_AT(v, i) __CPROVER_assume(SV_SLOT_OK(v, i))
#endif
/* an object under construction: NSDMI applied, storage of exactly CAP slots in which nothing is alive yet */
static inline void c14_sv_fresh(struct static_vector *v)
{
    v->_data = (ELEM *)C14_RAW_STORAGE(CAP);
    static_vector_nsdmi(v);
}
#endif

#ifdef C14_HAVE_SS
#ifndef SS_DATA
#define SS_DATA data     /* name of the storage member: `data` in static_string.h, `_data` in std_portable.h */
#endif
/* a static_string in an ARBITRARY state satisfying SS: storage = fresh object of exactly CAP+1 bytes with arbitrary
 * content, m_size = m <= CAP */
static inline void c14_ss_any(struct static_string *s, size_t m, const char *content)
{
    __CPROVER_assume(m <= CAP);
    s->SS_DATA = (char *)NEW_OBJ(CAP + 1);
    s->m_size = m;
#ifdef WITNESS_MODE
    for (size_t i = 0; i < CAP + 1; i++) s->SS_DATA[i] = content[i];
#else
    (void)content;
#endif
}
#endif

/* an input array of n LIVE elements (iterator range / initializer list / source of push_back): exact-size object.
 * "every element is LIVE" is assumed for the ghost slot g_k. */
static inline ELEM *c14_input(size_t n, const int *vals)
{
    ELEM *a = (ELEM *)NEW_OBJ(n * sizeof(ELEM));
#ifdef WITNESS_MODE
    for (size_t i = 0; i < n; i++) ELEM_SET(&a[i], ELEM_LIVE, vals[i]);
#else
    (void)vals;
    if (g_k < n) __CPROVER_assume(ELEM_ST(&a[g_k]) == ELEM_LIVE);
#endif
    return a;
}
#endif
