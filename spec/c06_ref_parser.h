/* C06: reference parser of printf formats, written from the grammar of ISO C 7.21.6.1p4:
 *
 *     format    := { ordinary-char | directive }
 *     directive := '%' flags* [ digits | '*' ] [ '.' [ digits | '*' ] ] [ hh|h|l|ll|j|z|t ] conv
 *                | "%%"                                    (p8: "the complete conversion specification shall be %%")
 *     flags     := '-' '+' ' ' '#' '0'                      conv := d i u o x X c s p
 *
 * restricted to what property C06 speaks about: no length modifier on c s p (%lc / %ls are wide-character
 * conversions, other combinations are undefined), no floating conversions, no %n.
 *
 * ref_parse() walks the format ONCE, one character per iteration (a flat state machine, so that a bounded
 * unit unwinds a single loop), consumes the variadic arguments from 64-bit slots exactly as the directives
 * prescribe (p5: `*` takes an int; p7: the length modifier names the argument type) and produces the sequence
 * of output EVENTS (literal character | integer conversion | string/char conversion); the event number `ksel`
 * is returned in *out.  It also reports whether the format is valid (every directive complete and of the
 * grammar) and two facts used for known-finding regions.
 */
#ifndef C06_REF_PARSER_H
#define C06_REF_PARSER_H
#include <limits.h>

enum { REF_EV_NONE = 0, REF_EV_CHAR, REF_EV_INT, REF_EV_STR }; /* same numbering as C06_EV_* */
enum { REF_MOD_NONE, REF_MOD_HH, REF_MOD_H, REF_MOD_L, REF_MOD_LL, REF_MOD_J, REF_MOD_Z, REF_MOD_T };

struct ref_event
{
    int kind;
    int c;                  /* CHAR */
    unsigned long long u;   /* INT: converted argument, extended to 64 bits; STR with conv s: the pointer slot; conv c: the int */
    int is_signed, base;
    int width, prec;        /* prec: 0 when none */
    unsigned flags;         /* ISO_F_* bits */
    int has_prec, upper;
    int conv;
};

struct ref_result
{
    int valid;              /* the format is of the grammar */
    long long nev;          /* number of events */
    long long nlit;         /* of which literal characters */
    int nargs;              /* argument slots consumed */
    int literal_digits;     /* some width or precision is written with digits */
    int negative_star_width;/* some `*` width argument is negative */
    int star_int_min;       /* some `*` width argument is INT_MIN (cannot be negated) */
    struct ref_event ev;    /* event number ksel */
};

static inline struct ref_result ref_parse(const char *f, int maxlen, const unsigned long long *slots, int nslots, long long ksel)
{
    enum { S_TEXT, S_FLAGS, S_WIDTH0, S_WIDTHN, S_DOT, S_PREC0, S_PRECN, S_MOD, S_MOD_H2, S_MOD_L2, S_CONV };
    struct ref_result R;
    struct ref_event D; /* directive being read */
    int state = S_TEXT, ai = 0, mod = REF_MOD_NONE, bare = 1, done = 0;
    R.valid = 1, R.nev = 0, R.nlit = 0, R.nargs = 0, R.literal_digits = 0, R.negative_star_width = 0, R.star_int_min = 0;
    R.ev.kind = REF_EV_NONE, R.ev.c = 0, R.ev.u = 0, R.ev.is_signed = 0, R.ev.base = 0, R.ev.width = 0, R.ev.prec = 0;
    R.ev.flags = 0, R.ev.has_prec = 0, R.ev.upper = 0, R.ev.conv = 0;
    D = R.ev;
    for (int i = 0; i <= maxlen && !done; i++)
    {
        char c = f[i];
        int isdig = c >= '0' && c <= '9';
        if (state == S_TEXT)
        {
            if (c == 0)
            {
                done = 1;
                continue;
            }
            if (c != '%')
            {
                if (R.nev == ksel)
                    R.ev.kind = REF_EV_CHAR, R.ev.c = c;
                R.nev++, R.nlit++;
                continue;
            }
            state = S_FLAGS, mod = REF_MOD_NONE, bare = 1;
            D.flags = 0, D.width = 0, D.prec = 0, D.has_prec = 0, D.upper = 0;
            continue;
        }
        if (state == S_FLAGS)
        {
            unsigned fl = c == '-' ? ISO_F_MINUS : c == '+' ? ISO_F_PLUS : c == ' ' ? ISO_F_SPACE : c == '#' ? ISO_F_HASH : c == '0' ? ISO_F_ZERO : 0;
            if (fl)
            {
                D.flags |= fl, bare = 0;
                continue;
            }
            state = S_WIDTH0;
        }
        if (state == S_WIDTH0)
        {
            if (c == '*')
            {
                int w = ai < nslots ? (int)slots[ai] : 0;
                ai++, bare = 0;
                if (w == INT_MIN)
                    R.star_int_min = 1;
                else if (w < 0) /* p5: a negative field width argument is taken as a - flag followed by a positive field width */
                    D.flags |= ISO_F_MINUS, w = -w, R.negative_star_width = 1;
                D.width = w;
                state = S_DOT;
                continue;
            }
            if (isdig)
            {
                D.width = c - '0', R.literal_digits = 1, bare = 0, state = S_WIDTHN;
                continue;
            }
            state = S_DOT;
        }
        if (state == S_WIDTHN)
        {
            if (isdig)
            {
                D.width = D.width * 10 + (c - '0'); /* at most maxlen digits: no overflow for maxlen <= 9 */
                continue;
            }
            state = S_DOT;
        }
        if (state == S_DOT)
        {
            if (c == '.')
            {
                D.has_prec = 1, D.prec = 0, bare = 0, state = S_PREC0; /* p4: if only the period is specified, the precision is taken as zero */
                continue;
            }
            state = S_MOD;
        }
        if (state == S_PREC0)
        {
            if (c == '*')
            {
                int p = ai < nslots ? (int)slots[ai] : 0;
                ai++;
                if (p < 0) /* p5: a negative precision argument is taken as if the precision were omitted */
                    D.has_prec = 0, D.prec = 0;
                else
                    D.prec = p;
                state = S_MOD;
                continue;
            }
            if (isdig)
            {
                D.prec = c - '0', R.literal_digits = 1, state = S_PRECN;
                continue;
            }
            state = S_MOD;
        }
        if (state == S_PRECN)
        {
            if (isdig)
            {
                D.prec = D.prec * 10 + (c - '0');
                continue;
            }
            state = S_MOD;
        }
        if (state == S_MOD)
        {
            state = S_CONV;
            if (c == 'h')
            {
                mod = REF_MOD_H, bare = 0, state = S_MOD_H2;
                continue;
            }
            if (c == 'l')
            {
                mod = REF_MOD_L, bare = 0, state = S_MOD_L2;
                continue;
            }
            if (c == 'j' || c == 'z' || c == 't')
            {
                mod = c == 'j' ? REF_MOD_J : c == 'z' ? REF_MOD_Z : REF_MOD_T, bare = 0;
                continue;
            }
        }
        else if (state == S_MOD_H2)
        {
            state = S_CONV;
            if (c == 'h')
            {
                mod = REF_MOD_HH;
                continue;
            }
        }
        else if (state == S_MOD_L2)
        {
            state = S_CONV;
            if (c == 'l')
            {
                mod = REF_MOD_LL;
                continue;
            }
        }
        /* state == S_CONV: c is the conversion specifier */
        {
            unsigned long long s = 0;
            int is_int = c == 'd' || c == 'i' || c == 'u' || c == 'o' || c == 'x' || c == 'X';
            int sg = c == 'd' || c == 'i';
            D.conv = c;
            if (is_int || c == 'c' || c == 's' || c == 'p')
            {
                s = ai < nslots ? slots[ai] : 0;
                ai++;
            }
            if (is_int)
            {
                /* p7: the argument type named by the length modifier; p8: d,i take a signed, o u x X an unsigned argument */
                unsigned long long v;
                if (sg)
                    v = mod == REF_MOD_NONE ? (unsigned long long)(long long)(int)s
                        : mod == REF_MOD_HH ? (unsigned long long)(long long)(signed char)(int)s
                        : mod == REF_MOD_H  ? (unsigned long long)(long long)(short)(int)s
                                            : s; /* long, long long, intmax_t, ssize_t, ptrdiff_t: 64 bits on LP64 */
                else
                    v = mod == REF_MOD_NONE ? (unsigned long long)(unsigned)s
                        : mod == REF_MOD_HH ? (unsigned long long)(unsigned char)(unsigned)s
                        : mod == REF_MOD_H  ? (unsigned long long)(unsigned short)(unsigned)s
                                            : s;
                D.kind = REF_EV_INT, D.u = v, D.is_signed = sg, D.base = c == 'o' ? 8 : (c == 'x' || c == 'X') ? 16 : 10;
                D.upper = c == 'X';
            }
            else if (c == 'c' || c == 's' || c == 'p')
            {
                if (mod != REF_MOD_NONE)
                    R.valid = 0;
                D.kind = c == 'p' ? REF_EV_INT : REF_EV_STR;
                D.u = c == 'c' ? (unsigned long long)(unsigned)(int)s : s;
                D.is_signed = 0, D.base = c == 'p' ? 16 : 0;
            }
            else if (c == '%' && bare)
            {
                D.kind = REF_EV_CHAR, D.c = '%';
            }
            else
                R.valid = 0; /* includes c == 0: the format ends inside a directive */
            if (R.valid)
            {
                if (R.nev == ksel)
                    R.ev = D;
                R.nev++;
                if (D.kind == REF_EV_CHAR)
                    R.nlit++;
            }
            if (c == 0)
                done = 1;
            state = S_TEXT;
        }
    }
    if (!done || state != S_TEXT)
        R.valid = 0; /* no terminator within maxlen + 1 characters */
    R.nargs = ai;
    if (ai > nslots)
        R.valid = 0;
    return R;
}
#endif
