/* C06: reference parser of printf formats, written from the grammar of ISO C 7.21.6.1p4:
 *
 *     format    := { ordinary-char | directive }
 *     directive := '%' flags* [ digits | '*' ] [ '.' [ digits | '*' ] ] [ hh|h|l|ll|j|z|t ] conv
 *                | "%%"                                    (p8: "the complete conversion specification shall be %%")
 *     flags     := '-' '+' ' ' '#' '0'                      conv := d i u o x X c s p
 *
 * restricted to what property C06 speaks about: no length modifier on c s p (%lc / %ls are wide-character
 * conversions, other combinations are undefined), no floating conversions, no %n.
 *
 * ref_parse() walks the format ONCE (ref_token(): one token of it), one character per iteration (a flat state machine, so that a bounded
 * unit unwinds a single loop), consumes the variadic arguments from 64-bit slots exactly as the directives
 * prescribe (p5: `*` takes an int; p7: the length modifier names the argument type) and produces the sequence
 * of output EVENTS (literal character | integer conversion | string/char conversion); the event number `ksel`
 * is returned in *out.  It also reports whether the format is valid (every directive complete and of the
 * grammar) and two facts used for known-finding regions.
 */
#ifndef C06_REF_PARSER_H
#define C06_REF_PARSER_H
#include <limits.h>

enum { REF_EV_NONE = 0, REF_EV_CHAR, REF_EV_INT, REF_EV_STR }; /* same numbering as C06_EV_* */
enum { REF_MOD_NONE, REF_MOD_HH, REF_MOD_H, REF_MOD_L, REF_MOD_LL, REF_MOD_J, REF_MOD_Z, REF_MOD_T };

struct ref_event
{
    int kind;
    int c;                  /* CHAR */
    unsigned long long u;   /* INT: converted argument, extended to 64 bits; STR with conv s: the pointer slot; conv c: the int */
    int is_signed, base;
    int width, prec;        /* prec: 0 when none */
    unsigned flags;         /* ISO_F_* bits */
    int has_prec, upper;
    int conv;
};

struct ref_result
{
    int valid;              /* the format is of the grammar */
    long long nev;          /* number of events */
    long long nlit;         /* of which literal characters */
    int nargs;              /* argument slots consumed */
    int literal_digits;     /* some width or precision is written with digits */
    int negative_star_width;/* some `*` width argument is negative */
    int star_int_min;       /* some `*` width argument is INT_MIN (cannot be negated) */
    int consumed;           /* one-token mode: characters of the token (literal character = 1, directive = '%' .. conv) */
    struct ref_event ev;    /* event number ksel */
};

static inline struct ref_result ref_parse_x(const char *f, int maxlen, const unsigned long long *slots, int nslots, long long ksel, int one_token)
{
    enum { S_TEXT, S_FLAGS, S_WIDTH0, S_WIDTHN, S_DOT, S_PREC0, S_PRECN, S_MOD, S_MOD_H2, S_MOD_L2, S_CONV };
    /* all state in scalars (cheap for the symbolic execution of a bounded unit); structs are assembled at the end */
    int state = S_TEXT, ai = 0, mod = REF_MOD_NONE, bare = 1, done = 0;
    int valid = 1, literal_digits = 0, negative_star_width = 0, star_int_min = 0;
    long long nev = 0, nlit = 0;
    int consumed = 0;
    /* directive being read */
    unsigned d_flags = 0;
    int d_width = 0, d_prec = 0, d_has_prec = 0;
    /* the selected event */
    int e_kind = REF_EV_NONE, e_c = 0, e_signed = 0, e_base = 0, e_width = 0, e_prec = 0, e_has_prec = 0, e_upper = 0, e_conv = 0;
    unsigned e_flags = 0;
    unsigned long long e_u = 0;
    for (int i = 0; i <= maxlen && !done; i++)
    {
        char c = f[i];
        int isdig = c >= '0' && c <= '9';
        if (state == S_TEXT)
        {
            if (c == 0)
            {
                done = 1;
                continue;
            }
            if (c != '%')
            {
                if (nev == ksel)
                    e_kind = REF_EV_CHAR, e_c = c;
                nev++, nlit++;
                if (one_token)
                    done = 1, consumed = i + 1;
                continue;
            }
            state = S_FLAGS, mod = REF_MOD_NONE, bare = 1;
            d_flags = 0, d_width = 0, d_prec = 0, d_has_prec = 0;
            continue;
        }
        if (state == S_FLAGS)
        {
            unsigned fl = c == '-' ? ISO_F_MINUS : c == '+' ? ISO_F_PLUS : c == ' ' ? ISO_F_SPACE : c == '#' ? ISO_F_HASH : c == '0' ? ISO_F_ZERO : 0;
            if (fl)
            {
                d_flags |= fl, bare = 0;
                continue;
            }
            state = S_WIDTH0;
        }
        if (state == S_WIDTH0)
        {
            if (c == '*')
            {
                int w = ai < nslots ? (int)slots[ai] : 0;
                ai++, bare = 0;
                if (w == INT_MIN)
                    star_int_min = 1, w = 0;
                else if (w < 0) /* p5: a negative field width argument is taken as a - flag followed by a positive field width */
                    d_flags |= ISO_F_MINUS, w = -w, negative_star_width = 1;
                d_width = w;
                state = S_DOT;
                continue;
            }
            if (isdig)
            {
                d_width = c - '0', literal_digits = 1, bare = 0, state = S_WIDTHN;
                continue;
            }
            state = S_DOT;
        }
        if (state == S_WIDTHN)
        {
            if (isdig)
            {
                d_width = d_width * 10 + (c - '0'); /* at most maxlen digits: no overflow for maxlen <= 9 */
                continue;
            }
            state = S_DOT;
        }
        if (state == S_DOT)
        {
            if (c == '.')
            {
                d_has_prec = 1, d_prec = 0, bare = 0, state = S_PREC0; /* p4: if only the period is specified, the precision is taken as zero */
                continue;
            }
            state = S_MOD;
        }
        if (state == S_PREC0)
        {
            if (c == '*')
            {
                int p = ai < nslots ? (int)slots[ai] : 0;
                ai++;
                if (p < 0) /* p5: a negative precision argument is taken as if the precision were omitted */
                    d_has_prec = 0, d_prec = 0;
                else
                    d_prec = p;
                state = S_MOD;
                continue;
            }
            if (isdig)
            {
                d_prec = c - '0', literal_digits = 1, state = S_PRECN;
                continue;
            }
            state = S_MOD;
        }
        if (state == S_PRECN)
        {
            if (isdig)
            {
                d_prec = d_prec * 10 + (c - '0');
                continue;
            }
            state = S_MOD;
        }
        if (state == S_MOD)
        {
            state = S_CONV;
            if (c == 'h')
            {
                mod = REF_MOD_H, bare = 0, state = S_MOD_H2;
                continue;
            }
            if (c == 'l')
            {
                mod = REF_MOD_L, bare = 0, state = S_MOD_L2;
                continue;
            }
            if (c == 'j' || c == 'z' || c == 't')
            {
                mod = c == 'j' ? REF_MOD_J : c == 'z' ? REF_MOD_Z : REF_MOD_T, bare = 0;
                continue;
            }
        }
        else if (state == S_MOD_H2)
        {
            state = S_CONV;
            if (c == 'h')
            {
                mod = REF_MOD_HH;
                continue;
            }
        }
        else if (state == S_MOD_L2)
        {
            state = S_CONV;
            if (c == 'l')
            {
                mod = REF_MOD_LL;
                continue;
            }
        }
        /* state == S_CONV: c is the conversion specifier */
        {
            unsigned long long s = 0, v = 0;
            int is_int = c == 'd' || c == 'i' || c == 'u' || c == 'o' || c == 'x' || c == 'X';
            int sg = c == 'd' || c == 'i';
            int kind = REF_EV_NONE, base = 0, ok = 1;
            if (is_int || c == 'c' || c == 's' || c == 'p')
            {
                s = ai < nslots ? slots[ai] : 0;
                ai++;
            }
            if (is_int)
            {
                /* p7: the argument type named by the length modifier; p8: d,i take a signed, o u x X an unsigned argument */
                if (sg)
                    v = mod == REF_MOD_NONE ? (unsigned long long)(long long)(int)s
                        : mod == REF_MOD_HH ? (unsigned long long)(long long)(signed char)(int)s
                        : mod == REF_MOD_H  ? (unsigned long long)(long long)(short)(int)s
                                            : s; /* long, long long, intmax_t, ssize_t, ptrdiff_t: 64 bits on LP64 */
                else
                    v = mod == REF_MOD_NONE ? (unsigned long long)(unsigned)s
                        : mod == REF_MOD_HH ? (unsigned long long)(unsigned char)(unsigned)s
                        : mod == REF_MOD_H  ? (unsigned long long)(unsigned short)(unsigned)s
                                            : s;
                kind = REF_EV_INT, base = c == 'o' ? 8 : (c == 'x' || c == 'X') ? 16 : 10;
            }
            else if (c == 'c' || c == 's' || c == 'p')
            {
                if (mod != REF_MOD_NONE)
                    ok = 0;
                kind = c == 'p' ? REF_EV_INT : REF_EV_STR;
                v = c == 'c' ? (unsigned long long)(unsigned)(int)s : s;
                base = c == 'p' ? 16 : 0;
            }
            else if (c == '%' && bare)
                kind = REF_EV_CHAR;
            else
                ok = 0; /* includes c == 0: the format ends inside a directive */
            if (!ok)
                valid = 0;
            else
            {
                if (nev == ksel)
                {
                    e_kind = kind, e_c = '%', e_u = v, e_signed = sg, e_base = base, e_width = d_width, e_prec = d_prec;
                    e_has_prec = d_has_prec, e_flags = d_flags, e_upper = c == 'X', e_conv = c;
                }
                nev++;
                if (kind == REF_EV_CHAR)
                    nlit++;
            }
            if (c == 0 || one_token)
                done = 1, consumed = i + 1;
            state = S_TEXT;
        }
    }
    if (!done || state != S_TEXT)
        valid = 0; /* no terminator within maxlen + 1 characters */
    if (ai > nslots)
        valid = 0;
    struct ref_result R;
    R.valid = valid, R.nev = nev, R.nlit = nlit, R.nargs = ai, R.literal_digits = literal_digits;
    R.negative_star_width = negative_star_width, R.star_int_min = star_int_min, R.consumed = consumed;
    R.ev.kind = e_kind, R.ev.c = e_c, R.ev.u = e_u, R.ev.is_signed = e_signed, R.ev.base = e_base, R.ev.width = e_width;
    R.ev.prec = e_prec, R.ev.flags = e_flags, R.ev.has_prec = e_has_prec, R.ev.upper = e_upper, R.ev.conv = e_conv;
    return R;
}

/* the whole format */
static inline struct ref_result ref_parse(const char *f, int maxlen, const unsigned long long *slots, int nslots, long long ksel)
{
    return ref_parse_x(f, maxlen, slots, nslots, ksel, 0);
}

/* ONE token (an ordinary character or one directive of at most maxlen characters) at f; its event is R.ev
 * (R.nev == 1 when valid), R.consumed its length, R.nargs the argument slots it takes from slots[0..] */
static inline struct ref_result ref_token(const char *f, int maxlen, const unsigned long long *slots, int nslots)
{
    return ref_parse_x(f, maxlen, slots, nslots, 0, 1);
}
#endif
