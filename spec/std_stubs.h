/* Minimal C stand-ins for the few libstdc++ operations extracted igris code uses (cxx2c rule R8).
 * libstdc++ itself is TRUSTED to behave like this (ISO C++ [vector]): the accessible range of a
 * vector is exactly [data(), data()+size()); anything beyond is undefined behaviour even when the
 * capacity is larger, so the backing object is modelled with exactly size() bytes. */
#ifndef VC_STD_STUBS_H
#define VC_STD_STUBS_H
#include <stdint.h>
#include <stddef.h>
struct vc_vec_u8 { uint8_t *p; size_t size; };
static inline void vc_vec_u8_init(struct vc_vec_u8 *v) { v->p = (uint8_t *)0; v->size = 0; }
static inline void vc_vec_u8_resize(struct vc_vec_u8 *v, size_t n)
{
    if (n > v->size) {
        /* growth: only growth of an empty vector is modelled (no element copy needed) */
        __CPROVER_assert(v->size == 0, "std::vector stub: growth of a non-empty vector is not modelled");
        v->p = (uint8_t *)__CPROVER_allocate(n, 1);      /* value-initialised elements */
    }
    v->size = n;            /* shrinking keeps the elements [0, n) in place */
}
static inline uint8_t *vc_vec_u8_data(struct vc_vec_u8 *v) { return v->p; }
/* igris::buffer is a (pointer, length) view */
struct vc_buffer { const char *ptr; size_t sz; };
#endif
