/* C02 — loop invariants (as macros, so that the `inject` entries of the units stay one-liners) and harness helpers
 * for the extracted igris::vector (overlay cxx/igris_vector.c includes this right after `struct vector`).
 * Everything is phrased for the two tracked slot indices g_k, g_j (see c02_vec.h): loops havoc whole blocks, the
 * invariants restate state and value of the tracked slots only.  Pre-loop states come from ghost snapshots taken
 * by injected ghost statements `g_snap_take(&g_xx, block);`. */
#ifndef C02_VEC_INV_H
#define C02_VEC_INV_H

struct c02_snap { unsigned char sk, sj; int vk, vj; };
struct c02_snap g_cb, g_ad, g_rs, g_cl, g_h0, g_h1, g_cc, g_er;
const ELEM *g_ad_first0;

/* snapshot of the tracked slots of the block that holds p (0 when the block has no such slot) */
static inline void g_snap_take(struct c02_snap *g, const ELEM *p)
{
    ELEM ek, ej;
    ek.g_bits = (p && g_k < C02_NSLOTS(p)) ? C02_BASE(p)[g_k].g_bits : 0;
#ifdef C02_NO_J
    ej.g_bits = 0;
#else
    ej.g_bits = (p && g_j < C02_NSLOTS(p)) ? C02_BASE(p)[g_j].g_bits : 0;
#endif
    g->sk = ELEM_ST(&ek); g->vk = ELEM_V(&ek); g->sj = ELEM_ST(&ej); g->vj = ELEM_V(&ej);
}
/* ---- vector::changeBuffer, loop 0: for (ip = begin(), op = newbuf; ip != ie; op++, ip++) move_constructor(op, *ip)
 * I = slots done, n = m_size; old block: moved-from below I, untouched from I on; new block: live copy below I, RAW (zero) above */
#define C02_INV_CB1(gi, s0, v0, old, nw, n, I, oldcap, newcap)                                                            \
    ((!((gi) < (oldcap)) || C02_IS(&(old)[gi], ((gi) < (n) && (gi) < (I)) ? ELEM_MOVED : (s0), v0)) &&                     \
     (!((gi) < (newcap)) || C02_IS(&(nw)[gi], ((gi) < (n) && (gi) < (I)) ? ELEM_LIVE : ELEM_RAW, ((gi) < (n) && (gi) < (I)) ? (v0) : 0)))
#define C02_INV_CB_PTR(self, ip, op, newbuf)                                                                               \
    (C02_IN(ip, (self)->m_data, (self)->m_size) && C02_IN(op, newbuf, (self)->m_size) &&                                  \
     __CPROVER_POINTER_OFFSET(op) == __CPROVER_POINTER_OFFSET(ip))
#define C02_INV_CB_K(self, ip, newbuf, oldcap, newcap)                                                                     \
    C02_INV_CB1(g_k, g_cb.sk, g_cb.vk, (self)->m_data, newbuf, (self)->m_size, C02_IDX(ip), oldcap, newcap)
#define C02_INV_CB_J(self, ip, newbuf, oldcap, newcap)                                                                     \
    C02_INV_CB1(g_j, g_cb.sj, g_cb.vj, (self)->m_data, newbuf, (self)->m_size, C02_IDX(ip), oldcap, newcap)
#define C02_DEC_CB(self, ip) ((self)->m_size - C02_IDX(ip))

/* ---- igris::array_destructor, loop 0: while (first != last) { destructor(&*first); ++first; } */
#define C02_INV_AD_PTR(first, last)                                                                                        \
    (__CPROVER_same_object(first, last) && __CPROVER_same_object(first, g_ad_first0) &&                                    \
     ((size_t)__CPROVER_POINTER_OFFSET(first) & (C02_SZ - 1)) == 0 &&                                                      \
     __CPROVER_POINTER_OFFSET(g_ad_first0) <= __CPROVER_POINTER_OFFSET(first) &&                                           \
     __CPROVER_POINTER_OFFSET(first) <= __CPROVER_POINTER_OFFSET(last))
#define C02_INV_AD1(gi, s0, v0, first, last)                                                                               \
    (!((gi) < C02_NSLOTS(last)) ||                                                                                         \
     C02_IS(&C02_BASE(last)[gi], ((gi) >= C02_IDX(g_ad_first0) && (gi) < C02_IDX(first)) ? ELEM_RAW : (s0), v0))
#define C02_INV_AD_K(first, last) C02_INV_AD1(g_k, g_ad.sk, g_ad.vk, first, last)
#define C02_INV_AD_J(first, last) C02_INV_AD1(g_j, g_ad.sj, g_ad.vj, first, last)
#define C02_DEC_AD(first, last) (__CPROVER_POINTER_OFFSET(last) - __CPROVER_POINTER_OFFSET(first))

/* ---- vector::clear, loop 0: for (unsigned int i = 0; i < m_size; ++i) destructor(m_data + i) */
#define C02_INV_CL1(gi, s0, v0, self, i)                                                                                   \
    (!((gi) < (self)->m_capacity) || C02_IS(&(self)->m_data[gi], (gi) < (i) ? ELEM_RAW : (s0), v0))
#define C02_INV_CL_K(self, i) C02_INV_CL1(g_k, g_cl.sk, g_cl.vk, self, i)
#define C02_INV_CL_J(self, i) C02_INV_CL1(g_j, g_cl.sj, g_cl.vj, self, i)

/* ---- vector::resize, loop 0 (grow): for (i = oldsize; i < n; ++i) constructor(m_data + i)
 *                       loop 1 (shrink): for (i = n; i < oldsize; ++i) destructor(m_data + i)
 * snapshot g_rs is taken after reserve(n) */
#define C02_INV_RSG1(gi, s0, v0, self, oldsize, i)                                                                         \
    (!((gi) < (self)->m_capacity) ||                                                                                       \
     C02_IS(&(self)->m_data[gi], ((gi) >= (oldsize) && (gi) < (i)) ? ELEM_LIVE : (s0), ((gi) >= (oldsize) && (gi) < (i)) ? 0 : (v0)))
#define C02_INV_RSG_K(self, oldsize, i) C02_INV_RSG1(g_k, g_rs.sk, g_rs.vk, self, oldsize, i)
#define C02_INV_RSG_J(self, oldsize, i) C02_INV_RSG1(g_j, g_rs.sj, g_rs.vj, self, oldsize, i)
#define C02_INV_RSS1(gi, s0, v0, self, n, i)                                                                               \
    (!((gi) < (self)->m_capacity) || C02_IS(&(self)->m_data[gi], ((gi) >= (n) && (gi) < (i)) ? ELEM_RAW : (s0), v0))
#define C02_INV_RSS_K(self, n, i) C02_INV_RSS1(g_k, g_rs.sk, g_rs.vk, self, n, i)
#define C02_INV_RSS_J(self, n, i) C02_INV_RSS1(g_j, g_rs.sj, g_rs.vj, self, n, i)

/* ---- vector::erase(first, last), loop 0: for (i = 0; i < sz; ++i) destructor(first + i) */
#define C02_INV_ER1(gi, s0, v0, self, first, i)                                                                            \
    (!((gi) < (self)->m_capacity) ||                                                                                       \
     C02_IS(&(self)->m_data[gi], ((gi) >= C02_IDX(first) && (gi) - C02_IDX(first) < (i)) ? ELEM_RAW : (s0), v0))
#define C02_INV_ER_K(self, first, i) C02_INV_ER1(g_k, g_er.sk, g_er.vk, self, first, i)
#define C02_INV_ER_J(self, first, i) C02_INV_ER1(g_j, g_er.sj, g_er.vj, self, first, i)

/* ---- copy constructor / copy assignment, loop 0:
 *      for (ip = other.m_data, op = m_data; ip != other.m_data + other.m_size; ip++, op++) constructor(op, *ip)
 * the new block: copy of other[gi] below the cursor, RAW (zero) from the cursor on; other's block is not written */
#define C02_INV_CC_PTR(self, other, ip, op)                                                                                \
    (C02_IN(ip, (other)->m_data, (other)->m_size) && C02_IN(op, (self)->m_data, (other)->m_size) &&                       \
     __CPROVER_POINTER_OFFSET(op) == __CPROVER_POINTER_OFFSET(ip))
#define C02_INV_CC1(gi, v0, self, ip)                                                                                      \
    (!((gi) < C02_NSLOTS((self)->m_data)) ||                                                                               \
     C02_IS(&(self)->m_data[gi], (gi) < C02_IDX(ip) ? ELEM_LIVE : ELEM_RAW, (gi) < C02_IDX(ip) ? (v0) : 0))
#define C02_INV_CC_K(self, ip) C02_INV_CC1(g_k, g_cc.vk, self, ip)
#define C02_INV_CC_J(self, ip) C02_INV_CC1(g_j, g_cc.vj, self, ip)
#define C02_DEC_CC(other, ip) ((other)->m_size - C02_IDX(ip))

/* ---- operator==, loop 0: for (; it != eit; ++it, ++bit) if (*it != *bit) return false;   (nothing is written) */
#define C02_INV_EQ(self, oth, it, bit)                                                                                     \
    (C02_IN(it, (self)->m_data, (self)->m_size) && C02_IN(bit, (oth)->m_data, (self)->m_size) &&                          \
     __CPROVER_POINTER_OFFSET(it) == __CPROVER_POINTER_OFFSET(bit) &&                                                      \
     (!(g_k < C02_IDX(it)) || C02_VEQ(ELEM_V(&(self)->m_data[g_k]), ELEM_V(&(oth)->m_data[g_k]))))

/* ---- template <class I, class O> vector(I first, O last), loop 0: for (; first != last; first++) push_back(*first)
 * after reserve(distance): no reallocation inside the loop; element gi of the vector is a copy of g_cr_first0[gi] */
const ELEM *g_cr_first0;
#define C02_INV_CR(self, first, last)                                                                                      \
    (__CPROVER_same_object(first, last) && __CPROVER_same_object(first, g_cr_first0) &&                                    \
     __CPROVER_POINTER_OFFSET(g_cr_first0) <= __CPROVER_POINTER_OFFSET(first) &&                                           \
     __CPROVER_POINTER_OFFSET(first) <= __CPROVER_POINTER_OFFSET(last) &&                                                  \
     (self)->m_size == C02_IDX(first) - C02_IDX(g_cr_first0) &&                                                            \
     (self)->m_capacity == C02_IDX(last) - C02_IDX(g_cr_first0))
#define C02_INV_CR1(gi, self)                                                                                              \
    (!((gi) < (self)->m_capacity) ||                                                                                       \
     C02_IS(&(self)->m_data[gi], (gi) < (self)->m_size ? ELEM_LIVE : ELEM_RAW, (gi) < (self)->m_size ? ELEM_V(&g_cr_first0[gi]) : 0))


/* units that need only one tracked index define C02_NO_J: the invariants about g_j become trivial (smaller formula) */
#ifdef C02_NO_J
#undef C02_INV_CB_J
#define C02_INV_CB_J(self, ip, newbuf, oldcap, newcap) 1
#undef C02_INV_AD_J
#define C02_INV_AD_J(first, last) 1
#undef C02_INV_CL_J
#define C02_INV_CL_J(self, i) 1
#undef C02_INV_RSG_J
#define C02_INV_RSG_J(self, oldsize, i) 1
#undef C02_INV_RSS_J
#define C02_INV_RSS_J(self, n, i) 1
#undef C02_INV_ER_J
#define C02_INV_ER_J(self, first, i) 1
#undef C02_INV_CC_J
#define C02_INV_CC_J(self, ip) 1
#endif

/* ================================================================== harness helpers
 * c02_vec_any: an ARBITRARY state satisfying VEC(v): m_data == NULL && cap == 0 && size == 0, or m_data is a block
 * of exactly cap slots obtained from the allocator, size <= cap, slot k < size LIVE, slot size <= k < cap RAW -
 * the slot facts are assumed at the tracked indices only (proof mode; the block content is otherwise arbitrary),
 * at every slot in witness / replay mode. */
static inline void c02_vec_any(struct vector *v, size_t cap, size_t size, int isnull, const int *content)
{
    __CPROVER_assume(size <= cap && cap <= C02_MAXN);
    vector_defaults(v);
    if (isnull) {
        __CPROVER_assume(cap == 0);
        return;
    }
#ifdef REPLAY
    ELEM *p = (ELEM *)(cap ? calloc(cap, C02_SZ) : malloc(0));
#else
    ELEM *p = (ELEM *)__CPROVER_allocate(cap * C02_SZ, 0);
#endif
    g_blk_register(p, cap);
    v->m_data = p; v->m_capacity = cap; v->m_size = size;
#ifdef WITNESS_MODE
    for (size_t i = 0; i < cap; i++) ELEM_SET(&p[i], i < size ? ELEM_LIVE : ELEM_RAW, content[i]);
#else
    (void)content;
    if (g_k < cap) __CPROVER_assume(ELEM_ST(&p[g_k]) == (g_k < size ? ELEM_LIVE : ELEM_RAW));
#ifndef C02_NO_J
    if (g_j < cap) __CPROVER_assume(ELEM_ST(&p[g_j]) == (g_j < size ? ELEM_LIVE : ELEM_RAW));
#endif
#endif
}

/* VEC(v) after the call, in two groups (lifetime_on == 0: only the bounds group, used by carved-out known-finding runs) */
static inline void c02_vec_check_ex(const struct vector *v, int lifetime_on)
{
    if (v->m_data == NULL) {
        __CPROVER_assert(v->m_capacity == 0 && v->m_size == 0, "bounds: VEC: a vector without a block has capacity == 0 and size == 0");
        return;
    }
    int b = g_blk_find(v->m_data);
    __CPROVER_assert(b >= 0 && !g_blk_freed[b] && g_blk_n[b] == v->m_capacity, "bounds: VEC: m_data is an unreleased allocator block of exactly capacity() slots");
    __CPROVER_assert(v->m_size <= v->m_capacity, "bounds: VEC: size() <= capacity()");
    if (!lifetime_on) return;
#ifdef REPLAY
    for (size_t i = 0; i < v->m_capacity; i++) {
        if (i < v->m_size) __CPROVER_assert(ELEM_ST(&v->m_data[i]) == ELEM_LIVE, "lifetime: VEC: every slot below size() holds a live element");
        else __CPROVER_assert(ELEM_ST(&v->m_data[i]) == ELEM_RAW, "lifetime: VEC: no slot at or above size() holds an element (constructed, never destroyed)");
    }
#else
    if (b >= 0 && !g_blk_freed[b] && g_k < v->m_capacity && g_blk_n[b] == v->m_capacity) {
        if (g_k < v->m_size) __CPROVER_assert(ELEM_ST(&v->m_data[g_k]) == ELEM_LIVE, "lifetime: VEC: every slot below size() holds a live element");
        else __CPROVER_assert(ELEM_ST(&v->m_data[g_k]) == ELEM_RAW, "lifetime: VEC: no slot at or above size() holds an element (constructed, never destroyed)");
    }
#endif
}
static inline void c02_vec_check(const struct vector *v) { c02_vec_check_ex(v, 1); }
/* every allocator block is either released or owned by one of the (at most two) vectors of the scenario */
static inline void c02_no_leak(const struct vector *a, const struct vector *b)
{
    for (int i = 0; i < C02_NBLK; i++)
        if (i < g_blk_cnt && !g_blk_freed[i])
            __CPROVER_assert(g_blk_p[i] == (const void *)a->m_data || (b && g_blk_p[i] == (const void *)b->m_data),
                             "lifetime: every block from allocate() is released or still owned by a vector (no leak)");
}
#define C02_KF(kf, region) __CPROVER_assume((kf) == 0 ? 1 : (kf) == 1 ? !(region) : (region))
#endif
