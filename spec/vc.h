/* Common harness vocabulary.  Three compilation modes of one and the same unit file:
 *   proof      (goto-cc, default)       inputs symbolic, loop contracts injected
 *   witness    (goto-cc -DWITNESS_MODE) small sizes, no loop contracts, --unwind, --trace
 *   replay     (clang  -DREPLAY -DWITNESS_MODE) native run on the witness, ASan/UBSan
 */
#ifndef VC_H
#define VC_H
#include <stddef.h>
#include <stdint.h>
#include <limits.h>

#ifdef REPLAY
/* native: values come from witness.h (WITVAL_<name>); a name the trace did not
 * assign falls back to 0 */
#define WIT(T, name) T name = (T)(WITVAL_##name)
#define WIT_ARR(T, name, N) T name[N] = WITVAL_##name
#else
#define WIT(T, name) T name = nondet_##T()
#define WIT_ARR(T, name, N) T name[N]
#endif

#ifndef VC_FALLBACK
#define VC_FALLBACK 0      /* 1 in the ghost-free bounded fallback run (units/README.md) */
#endif
#ifndef VC_THOROUGH
#define VC_THOROUGH 0      /* the driver passes -DVC_THOROUGH=1 in the thorough tier */
#endif
typedef unsigned char uchar;
typedef unsigned int uint;
typedef unsigned long ulong;
typedef long long llong;
typedef unsigned long long ullong;
typedef signed char schar;
#ifndef REPLAY
int nondet_int(void);
uint nondet_uint(void);
long nondet_long(void);
ulong nondet_ulong(void);
llong nondet_llong(void);
ullong nondet_ullong(void);
char nondet_char(void);
uchar nondet_uchar(void);
schar nondet_schar(void);
short nondet_short(void);
size_t nondet_size_t(void);
uint8_t nondet_uint8_t(void);
uint16_t nondet_uint16_t(void);
uint32_t nondet_uint32_t(void);
uint64_t nondet_uint64_t(void);
int8_t nondet_int8_t(void);
int16_t nondet_int16_t(void);
int32_t nondet_int32_t(void);
int64_t nondet_int64_t(void);
float nondet_float(void);
double nondet_double(void);
_Bool nondet__Bool(void);
#endif

/* exact-size object: any access outside [p, p+n) fails a pointer obligation (cbmc)
 * or is reported by ASan (replay) */
/* largest object size considered (cbmc addresses objects with 56 offset bits; sizes beyond 2^40
 * bytes are of no practical interest).  Proofs do not unwind up to it: loops are closed by invariants. */
#ifdef WITNESS_MODE
#ifndef VC_WIT_MAXOBJ
#define VC_WIT_MAXOBJ 6
#endif
#define VC_MAXOBJ VC_WIT_MAXOBJ
#else
#define VC_MAXOBJ ((size_t)1 << 40)
#endif
/* largest element count for int-typed lengths (so that 2n+4 still fits an int) */
#ifdef WITNESS_MODE
#ifndef VC_WIT_MAXN
#define VC_WIT_MAXN 6
#endif
#define VC_MAXN VC_WIT_MAXN
#else
#define VC_MAXN (INT_MAX / 2 - 8)
#endif
#define NEW_OBJ(n) __CPROVER_allocate((n), 0)
/* NEW_OBJ_FB(n): like NEW_OBJ(n), except in the cbmc run of the ghost-free bounded fallback (-DVC_FALLBACK=1, not the native replay),
 * where the object has the fixed size VC_MAXOBJ (n <= VC_MAXOBJ assumed by the harness): a symbolic-size object with hundreds of
 * unwound accesses exhausts the solver's memory there.  Value clauses are still decided for every n <= VC_MAXOBJ; an access beyond n
 * inside that object is then seen only by the native replay (exact-size malloc under ASan) of the input found. */
#if VC_FALLBACK && !defined(REPLAY)
#define NEW_OBJ_FB(n) __CPROVER_allocate(VC_MAXOBJ, 0)
#else
#define NEW_OBJ_FB(n) NEW_OBJ(n)
#endif

/* In witness/replay mode the content of a dynamic object comes from a WIT_ARR so that
 * it shows up in the trace; in proof mode the object is left fully symbolic. */
#ifdef WITNESS_MODE
#define FILL(p, n, arr)                                                                   \
    do {                                                                                  \
        __CPROVER_assume((n) <= sizeof(arr) / sizeof((arr)[0]));                          \
        for (size_t vc_i = 0; vc_i < (n); vc_i++)                                         \
            (p)[vc_i] = (arr)[vc_i];                                                      \
    } while (0)
#else
#define FILL(p, n, arr) do { } while (0)
#endif

/* Reachability canary (DESIGN 3.6): must FAIL under cbmc, i.e. be reachable. */
#ifdef REPLAY
#define CANARY(msg) vc_native_canary(msg)
#else
#define CANARY(msg) __CPROVER_assert(0, "canary: " msg)
#endif

/* Known-finding regions (DESIGN 6).  KF_REGION(name, cond):
 *   -DKF_<name>       carve the region out of the precondition (unit must verify fully)
 *   -DKFPROBE_<name>  restrict to the region (expected to fail while the finding is open)
 * The driver passes these defines for entries listed as open in known_findings.json. */
#define KF_CAT_(a, b) a##b
#define KF_CAT(a, b) KF_CAT_(a, b)
#define KF_IS_1 1
#define KF_ON(x) (KF_CAT(KF_IS_, x) == 1)

#endif
