/* C14: C stand-in for the one libstdc++ algorithm static_vector uses (cxx2c rule R8).
 * ISO C++ [alg.move] std::move(first, last, d_first): "Moves elements in the range [first,last) into the range
 * [d_first, d_first + (last-first)) starting from first and proceeding to last.  For each non-negative integer
 * n < (last-first), performs *(d_first + n) = std::move(*(first + n)).  Returns d_first + (last-first)."
 * The body below is that sentence; libstdc++ is TRUSTED to behave like it.  Element move-assignment is
 * ELEM_move_assign, so assigning into a destroyed slot or from a dead one is a lifetime obligation.
 * g_mv_i is the ISO text's n (elements moved so far); a unit that reaches the loop supplies its loop contract and the
 * invariant instances for the two slots the body touches through the two macros. */
#ifndef C14_STD_STUBS_H
#define C14_STD_STUBS_H
#include "c14_sv.h"
#ifndef C14_MOVE_LOOP_CONTRACT
#define C14_MOVE_LOOP_CONTRACT
#endif
#ifndef C14_MOVE_BODY_BEGIN
#define C14_MOVE_BODY_BEGIN
#endif
size_t g_mv_i;
static inline ELEM *std_move_range(ELEM *first, ELEM *last, ELEM *d_first)
{
    size_t n = (size_t)(last - first);
    for (g_mv_i = 0; g_mv_i < n; ++g_mv_i)
    C14_MOVE_LOOP_CONTRACT
    {
        C14_MOVE_BODY_BEGIN
        ELEM_move_assign(d_first + g_mv_i, first + g_mv_i);   /* *(d_first + n) = std::move(*(first + n)) */
    }
    return d_first + n;
}
#endif
