/* Header environment of the C06 units (igris/util/printf_impl.c and the stdio wrappers of the libc shim).
 *
 *  - <ctype.h>: the SHIM's header (compat/libc/include/ctype.h), i.e. isdigit / isupper / tolower are the
 *    static inline functions forwarding to igris_isdigit ... of igris/util/ctype.h -- the code __printf is
 *    built against inside the shim, real /repo code with C-locale semantics.  This keeps glibc's table macros
 *    ((*__ctype_b_loc())[c]) and cbmc's own ctype models out of the proof.  The host <ctype.h> is switched off
 *    through its include guard so that the later `#include <ctype.h>` of the source is a no-op (same decision
 *    as spec/c11_libc_env.h).
 *  - everything else (<stdarg.h> <stdint.h> <stdlib.h> <string.h> <math.h> <sys/types.h>): host headers; the
 *    proof platform is cbmc's x86_64 LP64 model and the native replay runs on the same ABI.
 */
#ifndef C06_ENV_H
#define C06_ENV_H
#include <stddef.h>
#include <stdint.h>
#include <limits.h>
#include <stdarg.h>
#include <stdlib.h>
#include <string.h>
#include <sys/types.h>

#ifdef _CTYPE_H
#error "host <ctype.h> already included: include c06_env.h first"
#endif
#define _CTYPE_H 1
#include "compat/libc/include/ctype.h"

/* the ops bits of printf_impl.c <-> ISO flags (the meaning is the one given by the comments next to the
 * OPS_* definitions and by the flag characters that set them in __printf) */
#define C06_ISO_FLAGS(ops)                                                                              \
    ((((ops) & OPS_FLAG_LEFT_ALIGN) ? ISO_F_MINUS : 0u) | (((ops) & OPS_FLAG_WITH_SIGN) ? ISO_F_PLUS : 0u) | \
     (((ops) & OPS_FLAG_EXTRA_SPACE) ? ISO_F_SPACE : 0u) | (((ops) & OPS_FLAG_WITH_SPEC) ? ISO_F_HASH : 0u) | \
     (((ops) & OPS_FLAG_ZERO_PAD) ? ISO_F_ZERO : 0u))
#endif
