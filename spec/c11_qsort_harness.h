/* Shared parts of the qsort units (C11): rand() stub, comparator by contract, memcpy range check.
 * The unit defines SIZE (1: unsigned char order, 4: int order) and NMEMB before including this file.
 *
 * Layout.  Known finding C11_qsort_j_before_base: the partition loop executes `j -= size` with j == base, i.e.
 * forms a pointer one element BEFORE the array and compares it (`i <= j`, `j > base`); it never dereferences it.
 * That is undefined behaviour (ISO 6.5.6p8) and cbmc's pointer model gives the comparison no meaning, so nothing
 * after it could be checked.  While the finding is open (KF = 1) the array is therefore placed one element into
 * its object (Q_PAD = SIZE): the pointer value base - size is then representable, and "every access inside the
 * array" is checked explicitly at every access qsort makes (all of them go through compar or memcpy):
 * q_arg_ok / q_range_ok.  With KF = 0 (finding fixed) and KF = 2 (probe) the array starts at offset 0 of an
 * exact-size object and cbmc's own pointer obligations apply as well. */
#ifndef C11_QSORT_HARNESS_H
#define C11_QSORT_HARNESS_H

#if KF_C11_qsort_j_before_base == 1
#define Q_PAD SIZE
#else
#define Q_PAD 0
#endif

#if SIZE == 1
typedef unsigned char elem_t;
#else
typedef int elem_t;
#endif

static const char *g_q_base; /* first element */
static size_t g_q_bytes;     /* nmemb * size */
static const int *g_rnd;     /* rand() results: arbitrary */
static unsigned g_rnd_pos;
int vc_rand(void) { return g_rnd[g_rnd_pos++ & 7]; }

/* [p, p+n) lies inside the array, at an element boundary */
static int q_inside(const void *p, size_t n)
{
    const char *q = (const char *)p;
    return q >= g_q_base && (size_t)(q - g_q_base) + n <= g_q_bytes && (size_t)(q - g_q_base) % SIZE == 0;
}

/* p belongs to the array's object (natively: lies within 64 bytes of the array) */
static int q_near(const void *p)
{
#ifdef REPLAY
    const char *q = (const char *)p;
    return q >= g_q_base - 64 && q < g_q_base + g_q_bytes + 64;
#else
    return __CPROVER_same_object(p, g_q_base);
#endif
}

/* comparator by contract (ISO 7.22.5.2p3): an argument that belongs to the array's object must point to an
 * element; anything else must be a private copy (qsort's pivot `key`) */
static int q_cmp(const void *a, const void *b)
{
    __CPROVER_assert(!q_near(a) || q_inside(a, SIZE), "qsort: first compar argument points to an element inside the array (or to a private copy)");
    __CPROVER_assert(!q_near(b) || q_inside(b, SIZE), "qsort: second compar argument points to an element inside the array (or to a private copy)");
    elem_t x = *(const elem_t *)a, y = *(const elem_t *)b;
    return (x > y) - (x < y);
}

/* memcpy as qsort.c sees it: range check, then the shim's real memcpy */
void *vc_memcpy(void *dst, const void *src, size_t n);
static void *q_memcpy(void *dst, const void *src, size_t n)
{
    __CPROVER_assert(!q_near(dst) || q_inside(dst, n), "qsort: memcpy destination block lies inside the array (or is a private buffer)");
    __CPROVER_assert(!q_near(src) || q_inside(src, n), "qsort: memcpy source block lies inside the array (or is a private buffer)");
    return vc_memcpy(dst, src, n);
}
#endif
