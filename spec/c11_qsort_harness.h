/* Shared parts of the qsort units (C11): rand() stub, comparator by contract, memcpy range check.
 * The unit defines SIZE (1: unsigned char order, 4: int order) and NMEMB before including this file.
 *
 * Layout.  Known finding C11_qsort_j_before_base: the partition loop executes `j -= size` with j == base, i.e.
 * forms a pointer one element BEFORE the array and compares it (`i <= j`, `j > base`); it never dereferences it.
 * That is undefined behaviour (ISO 6.5.6p8) and cbmc's pointer model gives the comparison no meaning, so nothing
 * after it could be checked.  While the finding is open (KF = 1) the array is therefore placed one element into
 * its object (Q_PAD = SIZE): the pointer value base - size is then representable, and "every access inside the
 * array" is checked explicitly at every access qsort makes (all of them go through compar or memcpy):
 * q_arg_ok / q_range_ok.  With KF = 0 (finding fixed) and KF = 2 (probe) the array starts at offset 0 of an
 * exact-size object and cbmc's own pointer obligations apply as well. */
#ifndef C11_QSORT_HARNESS_H
#define C11_QSORT_HARNESS_H

#if KF_C11_qsort_j_before_base == 1
#define Q_PAD SIZE
#else
#define Q_PAD 0
#endif

#if SIZE == 1
typedef unsigned char elem_t;
#define Q_NONDET() nondet_uchar()
#else
typedef int elem_t;
#define Q_NONDET() nondet_int()
#endif
#define Q_MAXN 6 /* largest NMEMB any case uses */

static const char *g_q_base; /* first element */
static size_t g_q_bytes;     /* nmemb * size */
static const int *g_rnd;     /* rand() results: arbitrary */
static unsigned g_rnd_pos;
int vc_rand(void) { return g_rnd[g_rnd_pos++ & 7]; }

/* [p, p+n) lies inside the array, at an element boundary */
static int q_inside(const void *p, size_t n)
{
    const char *q = (const char *)p;
    return q >= g_q_base && (size_t)(q - g_q_base) + n <= g_q_bytes && (size_t)(q - g_q_base) % SIZE == 0;
}

/* p belongs to the array's object (natively: lies within 64 bytes of the array) */
static int q_near(const void *p)
{
#ifdef REPLAY
    const char *q = (const char *)p;
    return q >= g_q_base - 64 && q < g_q_base + g_q_bytes + 64;
#else
    return __CPROVER_same_object(p, g_q_base);
#endif
}

/* comparator by contract (ISO 7.22.5.2p3): an argument that belongs to the array's object must point to an
 * element; anything else must be a private copy (qsort's pivot `key`) */
static int q_cmp(const void *a, const void *b)
{
    __CPROVER_assert(!q_near(a) || q_inside(a, SIZE), "qsort: first compar argument points to an element inside the array (or to a private copy)");
    __CPROVER_assert(!q_near(b) || q_inside(b, SIZE), "qsort: second compar argument points to an element inside the array (or to a private copy)");
    elem_t x = *(const elem_t *)a, y = *(const elem_t *)b;
    return (x > y) - (x < y);
}

/* memcpy as qsort.c sees it: range check, then the shim's real memcpy */
void *vc_memcpy(void *dst, const void *src, size_t n);
static void *q_memcpy(void *dst, const void *src, size_t n)
{
    __CPROVER_assert(!q_near(dst) || q_inside(dst, n), "qsort: memcpy destination block lies inside the array (or is a private buffer)");
    __CPROVER_assert(!q_near(src) || q_inside(src, n), "qsort: memcpy source block lies inside the array (or is a private buffer)");
    return vc_memcpy(dst, src, n);
}

/* ---- induction over nmemb ----
 * Unwinding qsort's recursion is out of reach beyond nmemb = 4 (> 15 min for 5), and the driver has no
 * --enforce-contract-rec.  The recursive calls are therefore redirected - purely syntactically, the file is
 * not edited - to vc_qsort_sub, a stub that IS qsort's contract for strictly smaller arrays:
 *     #define qsort(a, b, c, d) QS_SEL_##a, b, c, d)
 * pastes QS_SEL_ with the first token of the first argument: `void` in the definition
 * `void qsort(void *vbase, ...)`, `base` / `i` in the two recursive calls `qsort(base, ...)`, `qsort(i, ...)`.
 * (Any other spelling is a compile error, i.e. exit 2, never a verdict.)
 * Case NMEMB = n proves the contract for arrays of n elements using it for arrays of fewer than n elements
 * (asserted at the call), cases 0..3 need no recursion: induction over n, the one step that is a meta-argument.
 * The contract: the block is sorted afterwards and every value occurs as often as before (stated for each old
 * element value; the harness proves it for an arbitrary probe value, which is the same statement). */
#define QS_SEL_void vc_qsort(void
#define QS_SEL_base vc_qsort_sub(base
#define QS_SEL_i vc_qsort_sub(i
static void vc_qsort_sub(void *vb, size_t n, size_t size, int (*cmp)(const void *, const void *))
{
    __CPROVER_assert(size == SIZE && cmp == q_cmp, "qsort: recursive call passes size and compar on unchanged");
    __CPROVER_assert(n < NMEMB, "qsort: recursive call is on a strictly smaller array (termination, induction hypothesis applies)");
    __CPROVER_assert(q_inside(vb, n * SIZE), "qsort: recursive call is on a block of elements inside the array");
#ifdef REPLAY
    /* native replay: the stub sorts for real (insertion sort) */
    elem_t *p = (elem_t *)vb;
    for (size_t x = 1; x < n; x++)
        for (size_t y = x; y > 0 && p[y - 1] > p[y]; y--) {
            elem_t tmp = p[y];
            p[y] = p[y - 1];
            p[y - 1] = tmp;
        }
#else
    elem_t *p = (elem_t *)vb;
    elem_t old[Q_MAXN];
    for (size_t x = 0; x < Q_MAXN; x++)
        old[x] = x < n ? p[x] : 0;
    for (size_t x = 0; x < Q_MAXN; x++)
        if (x < n)
            p[x] = Q_NONDET();
    for (size_t x = 0; x + 1 < Q_MAXN; x++)
        if (x + 1 < n)
            __CPROVER_assume(p[x] <= p[x + 1]);
    for (size_t v = 0; v < Q_MAXN; v++)
        if (v < n) {
            size_t c_old = 0, c_new = 0;
            for (size_t x = 0; x < Q_MAXN; x++)
                if (x < n) {
                    c_old += (old[x] == old[v]);
                    c_new += (p[x] == old[v]);
                }
            __CPROVER_assume(c_old == c_new);
        }
#endif
}
#endif
