/* goto-cc front-end limitation: its _Generic does not apply array-to-pointer decay to the string
 * literal inside DPRINT / DPRINTPTR, so slist.h's debug_print_slist_head (debug output only, not under
 * contract) does not compile.  The two print macros are stubbed for goto-cc only; the native replay
 * compiles the unmodified header. */
#ifndef C01_DPRINT_STUB_H
#define C01_DPRINT_STUB_H
#ifdef VC_CBMC
#include <igris/dprint.h>
#undef DPRINT
#undef DPRINTPTR
#define DPRINT(X) ((void)(X))
#define DPRINTPTR(X) ((void)(X))
#endif
#endif
