/* C07: ghost recorder for the debug renderers.  debug_putchar / debug_write are the two platform
 * hooks igris/dprint leaves to the port ("implemented outside the library", dprint.h); the units
 * supply this recorder as the port.  It counts the characters emitted and keeps the g_out_k-th one:
 * g_out_k is arbitrary (ghost index), so a statement about the recorded character is a statement
 * about every character of the output stream. */
#ifndef C07_RECORDER_H
#define C07_RECORDER_H
unsigned g_out_n; /* characters emitted so far      */
unsigned g_out_k; /* ghost index into the output    */
char g_out_c;     /* the g_out_k-th character       */
void debug_putchar(char c)
{
    if (g_out_n == g_out_k)
        g_out_c = c;
    g_out_n++;
}
void debug_write(const char *c, int n)
{
    for (int i = 0; i < n; i++)
        debug_putchar(c[i]);
}
#endif
