/* C19: reference white-space tokeniser, as a recurrence (DESIGN 3.3: no forall/exists, no spec loops inside contracted loops).
 *
 *   s_0     = first non-blank position at or after 0
 *   e_k     = first blank-or-end position at or after s_k          (token k = [s_k, e_k): a maximal run of non-blanks)
 *   s_{k+1} = first non-blank position after e_k
 *   the tokenisation ends when no non-blank position is left before the end of the input, or after `argcmax` tokens.
 *
 * "first ... at or after" is stated through one arbitrary ghost position q: every position in between is of the other kind.
 * A unit records (s_k, e_k, s_{k+1}) of the real code for one arbitrary ghost token index k by injected ghost statements and
 * the harness checks every link of the recurrence for that k and q: by induction on k the recorded tokens are exactly the
 * maximal non-blank runs, in order.  g_vq is the content of position g_q before the call (the splitters write terminators).
 */
#ifndef C19_TOK_H
#define C19_TOK_H
#include "c19_harness.h"

/* ghost state (set by the harness: inputs; by injected ghost statements: outputs) */
size_t g_k;        /* in: ghost token index */
size_t g_q;        /* in: ghost byte position */
char g_vq;         /* in: content of position g_q before the call (0 if outside the input) */
size_t g_sk, g_ek; /* out: start / end offset of token g_k */
size_t g_sk1;      /* out: start offset of token g_k + 1 */
size_t g_stop;     /* out: offset at which the scan stopped */
size_t g_last_e;   /* out: end offset of the last token */
size_t g_cur_s;    /* out: start offset of the last token */
size_t g_base;     /* out: offset at which the current blank run started */

/* Links of the recurrence for token g_k, shared by the argv splitters.
 *   argc the result, argcmax the limit, cur_q the content of position g_q after the call,
 *   BLANK(c) the white-space predicate, ENDCH(c) "c ends the input" (NUL for a C string) */
#define C19_TOK_CHECKS(argc, argcmax, cur_q, BLANK, ENDCH)                                                               \
    do {                                                                                                                 \
        __CPROVER_assert((argc) >= 0 && ((argc) == 0 || (argc) <= (argcmax)), "tokeniser: 0 <= argc <= argcmax");       \
        if ((argc) > 0 && g_k < (size_t)(argc)) {                                                                        \
            __CPROVER_assert(g_sk < g_ek, "tokeniser: token k is not empty");                                            \
            if (g_k == 0)                                                                                                \
                __CPROVER_assert(!(g_q < g_sk) || (BLANK(g_vq) && (cur_q) == g_vq), "tokeniser: only blanks before token 0, left untouched"); \
            __CPROVER_assert(!(g_sk <= g_q && g_q < g_ek) || (!BLANK(g_vq) && !ENDCH(g_vq) && (cur_q) == g_vq),           \
                             "tokeniser: token k holds no blank and no end marker, left untouched");                     \
            __CPROVER_assert(!(g_q == g_ek) || BLANK(g_vq) || ENDCH(g_vq), "tokeniser: token k is maximal: it ends at a blank or at the end of the input"); \
            __CPROVER_assert(!(g_q == g_ek && BLANK(g_vq)) || (cur_q) == 0, "tokeniser: the blank that ends token k is overwritten by the terminator"); \
            if (g_k + 1 < (size_t)(argc)) {                                                                              \
                __CPROVER_assert(g_ek < g_sk1, "tokeniser: token k+1 starts behind the end of token k");                 \
                __CPROVER_assert(!(g_ek < g_q && g_q < g_sk1) || (BLANK(g_vq) && (cur_q) == g_vq), "tokeniser: only blanks between token k and token k+1, left untouched"); \
            }                                                                                                            \
        }                                                                                                                \
    } while (0)

#endif
