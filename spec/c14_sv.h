/* C14: harness vocabulary for the fixed-capacity containers (static_vector<T,N>, static_string<N>).
 *
 * Instantiation (cxx2c R4): T = ELEM (spec/elem_lifetime.h: value + in-object ghost lifetime state),
 * N = CAP, a capacity fixed by the harness to an ARBITRARY value >= 1.  The inline storage `_data[N]` of the
 * class is a separate object of EXACTLY CAP slots (CAP+1 bytes for static_string), so "never writes outside
 * its inline storage" is cbmc's pointer obligation on every access (ASan in the native replay), for all N.
 *
 * Obligation groups (DESIGN 6: a finding masks only itself).  A unit lists 'params': {'GROUP': [1, 2]}:
 *   GROUP 1  bounds + value : every access inside the storage (cbmc pointer checks, always on), m_size <= N,
 *                             contents == reference sequence.  The ELEM protocol assertions are switched off (ELEM_TRACKED == 0).
 *   GROUP 2  lifetime       : the ELEM protocol assertions (construct only over RAW, destroy/assign only LIVE|MOVED,
 *                             read only LIVE) + the lifetime half of SV (slots < m_size LIVE, others RAW) + bounds.
 *   GROUP 0  (default)      : everything.
 * V(stmt) is compiled into groups 0/1, L(stmt) into groups 0/2.  Pointer/bounds obligations are in every group. */
#ifndef C14_SV_H
#define C14_SV_H
#include "vc.h"
#include <string.h>

#ifndef GROUP
#define GROUP 0
#endif
#if GROUP == 1
/* value group: no slot is tracked, so the protocol assertions inside ELEM_* hold trivially (the state machine still runs) */
#define ELEM_TRACKED(q) 0
#endif
#include "elem_lifetime.h"
#define C14_ON(...) { __VA_ARGS__ }
#define C14_OFF(...) { }
#if GROUP == 0 || GROUP == 1
#define V C14_ON
#define C14_V 1
#else
#define V C14_OFF
#define C14_V 0
#endif
#if GROUP == 0 || GROUP == 2
#define L C14_ON
#define C14_L 1
#else
#define L C14_OFF
#define C14_L 0
#endif

/* the template parameter N */
static size_t CAP;

/* largest capacity considered: CAP * sizeof(ELEM) must be an object size cbmc can address */
#ifdef WITNESS_MODE
#define C14_MAXCAP 3
#else
#define C14_MAXCAP ((size_t)1 << 36)
#endif

/* storage of CAP slots in which no element is alive (ghost state RAW everywhere; RAW == 0) */
#ifdef REPLAY
#define C14_RAW_STORAGE(n) calloc((n), sizeof(ELEM))
#define C14_ZERO_BYTES(n) calloc((n), 1)
#else
#define C14_RAW_STORAGE(n) __CPROVER_allocate((n) * sizeof(ELEM), 1)
#define C14_ZERO_BYTES(n) __CPROVER_allocate((n), 1)
#endif
/* storage with arbitrary content (before the default constructor has run) */
#define C14_ANY_STORAGE(n) NEW_OBJ((n) * sizeof(ELEM))

/* ghost index g_k: the harness's arbitrary slot (a statement about slot g_k is a statement about every slot).
 * G_INST(INV(i)): a loop whose body needs the (universally quantified) loop invariant at the slot it is about to touch
 * - "other[pos] is LIVE", "slot i is still RAW" - gets that instance by assuming the SAME formula INV that the loop
 * contract proves for the arbitrary slot g_k, at the index the state selects (DESIGN 3.3: "assumed for the one slot
 * the state selects and proved for an arbitrary slot").  Sound by induction over the iterations: INV(g_k) is proved
 * preserved for every g_k from the instances INV(g_k) and INV(i) at the loop head, so forall j. INV(j) holds at every
 * loop head.  In the native replay the instance is evaluated (exit 77 if it were ever false). */
size_t g_k;
ELEM g_old_k;      /* content of slot g_k of the object under test before the call (set by the harness) */
#if VC_FALLBACK
/* ghost-free bounded fallback (units/README.md): the state is fully concrete there (c14_harness.h builds every slot), the
 * instances are not needed, and an instance placed in a loop whose shape has changed must not cut paths */
#define G_INST(c) ((void)0)
#else
#define G_INST(c) __CPROVER_assume(c)
#endif

/* SV(v), stated for one slot k (ghost index):  m_size <= N, slot k LIVE below m_size and RAW from m_size on */
#define SV_SIZE_OK(v) ((v)->m_size <= CAP)
#define SV_SLOT_OK(v, k) ((k) >= CAP || ((k) < (v)->m_size ? ELEM_ST(&(v)->_data[k]) == ELEM_LIVE : ELEM_ST(&(v)->_data[k]) == ELEM_RAW))
/* a slot of a possibly moved-from container: constructed objects (LIVE or MOVED-from) below m_size, RAW from m_size on */
#define SV_SLOT_VALID(v, k) ((k) >= CAP || ((k) < (v)->m_size ? (ELEM_ST(&(v)->_data[k]) == ELEM_LIVE || ELEM_ST(&(v)->_data[k]) == ELEM_MOVED) \
                                                            : ELEM_ST(&(v)->_data[k]) == ELEM_RAW))
/* loop invariant of a loop `for (pos = 0; pos < m_size; ++pos) destroy(_data[pos])` (the destructor; clear() once it destroys
 * its elements), for an arbitrary slot j: destroyed prefix RAW, the rest as in a valid (possibly moved-from) container */
#define SPEC_CLR(j) ((j) >= CAP || ((j) < pos ? ELEM_ST(&self->_data[j]) == ELEM_RAW : SV_SLOT_VALID(self, j)))
#define C14_IMP(a, b) (!(a) || (b))
#define C14_MIN(a, b) ((a) < (b) ? (a) : (b))

/* known-finding region (units/README.md): name == 0 no finding, 1 carve the region out, 2 probe only the region */
#define KF_REGION(name, cond) __CPROVER_assume((name) == 0 ? 1 : (name) == 1 ? !(cond) : (cond))

#endif
