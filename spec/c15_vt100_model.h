/* VT100 screen model for the screen clause of C15 (bounded stand-in): ONE row and a column.
 * Written from the VT100 control functions the terminal automaton emits (ECMA-48 / VT100 user guide), not from
 * vterm.c:
 *   printable byte (0x20..0x7E)  stored at the cursor column, column advances
 *   CR                           column 0
 *   LF                           next row (the model keeps only the current row: a fresh blank one), column unchanged
 *   ESC [ Pn D  (CUB)            column moves left by Pn (default 1, 0 counts as 1), stops at column 0
 *   ESC [ Pn C  (CUF)            column moves right by Pn
 *   ESC [ K     (EL 0)           erases from the cursor column to the end of the row
 * Anything else (other control bytes, other sequences) sets `bad`.
 * Scalar machine (DESIGN 3.3): the row is tracked at ONE arbitrary ghost column g (at_g), so the model has no width
 * and no loop; a statement about at_g is a statement about every cell of the row. */
#ifndef C15_VT100_MODEL_H
#define C15_VT100_MODEL_H
#include <stddef.h>
#define VT_BLANK ' '
struct vt_model {
    size_t g;           /* ghost column */
    char at_g;          /* what the row shows in column g */
    size_t col;         /* cursor column */
    unsigned rows_done; /* line feeds seen */
    unsigned char ph;   /* 0 text, 1 after ESC, 2 after ESC [ */
    unsigned arg;
    int has_arg;
    int bad;
};
static inline void spec_vt_init(struct vt_model *m, size_t g)
{
    m->g = g; m->at_g = VT_BLANK;
    m->col = 0; m->rows_done = 0; m->ph = 0; m->arg = 0; m->has_arg = 0; m->bad = 0;
}
static inline void spec_vt_feed(struct vt_model *m, char ch)
{
    if (m->ph == 0) {
        if (ch == 27) m->ph = 1;
        else if (ch == '\r') m->col = 0;
        else if (ch == '\n') { m->rows_done++; m->at_g = VT_BLANK; }
        else if (ch >= 0x20 && ch <= 0x7E) {
            if (m->col == m->g) m->at_g = ch;
            m->col++;
        } else m->bad = 1;
    } else if (m->ph == 1) {
        if (ch == '[') { m->ph = 2; m->arg = 0; m->has_arg = 0; }
        else { m->ph = 0; m->bad = 1; }
    } else {
        if (ch >= '0' && ch <= '9') {
            if (m->arg > 100000000u) m->bad = 1; else m->arg = m->arg * 10 + (unsigned)(ch - '0');
            m->has_arg = 1;
        } else {
            size_t n = m->has_arg ? m->arg : 1;
            if (n == 0) n = 1;
            if (ch == 'D') m->col = m->col >= n ? m->col - n : 0;
            else if (ch == 'C') m->col += n;
            else if (ch == 'K') { if (m->has_arg && m->arg != 0) m->bad = 1; else if (m->g >= m->col) m->at_g = VT_BLANK; }
            else m->bad = 1;
            m->ph = 0;
        }
    }
}
#endif
