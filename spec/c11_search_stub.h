/* Comparator "by contract" for the bsearch / qsort units (C11).
 *
 * ISO/IEC 9899 7.22.5p2-4 + 7.22.5.1p3: bsearch calls compar with two arguments that point to the KEY object and
 * to an ARRAY ELEMENT, in that order; 7.22.5.2p3: qsort calls it with pointers to two elements (or to copies of
 * them).  The stubs below assert exactly that as their precondition before they touch their arguments, so a
 * call that hands out a pointer outside the array (e.g. "element 0" of an empty array) is a failed obligation at
 * the call - and a read outside the object when the unit is replayed natively under ASan.
 *
 * Known finding C11_bsearch_argorder: bsearch's final call is compar(element, key).  g_sr_swapped_ok admits
 * that order too; it is set only when the finding is carved out, i.e. the proof is then a proof for comparators
 * whose two parameters are interchangeable (key object of the element type). */
#ifndef C11_SEARCH_STUB_H
#define C11_SEARCH_STUB_H
#include <stddef.h>

static const char *g_sr_base;  /* the array */
static size_t g_sr_nmemb, g_sr_size;
static const void *g_sr_key;   /* the key object (bsearch) */
static int g_sr_swapped_ok;

/* p points to an element of the array: p == base + i * size for some i < nmemb.  The index i is supplied by the
 * caller's ghost state in g_sr_idx (an existential is proved by exhibiting the witness); this avoids
 * `offset % size`, which the SAT back end cannot handle for 64-bit offsets and sizes that are not powers of two. */
static size_t g_sr_idx;
static int sr_is_element(const void *p)
{
    return g_sr_idx < g_sr_nmemb && (const char *)p == g_sr_base + g_sr_idx * g_sr_size;
}

/* a comparator reads its arguments: first and last byte of each */
static int sr_touch(const void *a, const void *b)
{
    const volatile unsigned char *x = (const volatile unsigned char *)a, *y = (const volatile unsigned char *)b;
    return x[0] + x[g_sr_size - 1] + y[0] + y[g_sr_size - 1];
}

#ifndef REPLAY
int nondet_int(void);
#endif

/* bsearch comparator with arbitrary results (memory-safety proof: holds for every comparator) */
static int vc_cmp_any(const void *a, const void *b)
{
    __CPROVER_assert((a == g_sr_key && sr_is_element(b)) || (g_sr_swapped_ok && sr_is_element(a) && b == g_sr_key),
                     "ISO 7.22.5.1p3: compar is called with (pointer to the key, pointer to an element inside the array), in that order");
    (void)sr_touch(a, b);
    return nondet_int();
}

/* bsearch comparator for int keys */
static int vc_cmp_int_key(const void *a, const void *b)
{
    __CPROVER_assert((a == g_sr_key && sr_is_element(b)) || (g_sr_swapped_ok && sr_is_element(a) && b == g_sr_key),
                     "ISO 7.22.5.1p3: compar is called with (pointer to the key, pointer to an element inside the array), in that order");
    int x = *(const int *)a, y = *(const int *)b;
    return (x > y) - (x < y);
}

#endif
