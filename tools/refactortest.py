#!/usr/bin/env python3
"""False-alarm test: behaviour-preserving refactorings (refactors/<k>/patch.diff + meta.json) must never produce a VIOLATION.
For each refactoring the checks of every property whose anchor files it touches are run on a scratch worktree.
Allowed outcomes: exit 0 (still proved) or exit 2 (undecided: an anchor moved); exit 1 is a false alarm."""
import fnmatch, json, os, shutil, subprocess, sys, tempfile, time
V = os.path.dirname(os.path.dirname(os.path.abspath(__file__)))
props = [json.loads(l) for l in open(os.path.join(V, 'properties.jsonl'))]
claimed = {c['property_id'] for c in json.load(open(os.path.join(V, 'MANIFEST.json')))['checks']}
ids = sys.argv[1:] or sorted(os.listdir(os.path.join(V, 'refactors')), key=lambda x: (len(x), x))
EVDIR = tempfile.mkdtemp(prefix='refactortest-evidence.', dir='/var/tmp')
bad = 0
for rid in ids:
    d = os.path.join(V, 'refactors', rid)
    if not os.path.isdir(d):
        continue
    meta = json.load(open(os.path.join(d, 'meta.json')))
    files = meta.get('files', [])
    pids = sorted({p['id'] for p in props for f in files for a in p['anchors']['files']
                   if p['id'] in claimed and (fnmatch.fnmatch(f, a) or f.endswith(a) or a.endswith(f))})
    wt = '/tmp/refactortest-%s' % rid
    subprocess.run(['git', '-C', '/repo', 'worktree', 'remove', '--force', wt], capture_output=True)
    shutil.rmtree(wt, ignore_errors=True)
    subprocess.run(['git', '-C', '/repo', 'worktree', 'add', '-q', '--detach', wt], check=True)
    res = {}
    try:
        r = subprocess.run(['git', '-C', wt, 'apply', os.path.join(d, 'patch.diff')], capture_output=True, text=True)
        if r.returncode != 0:
            res = {'error': 'patch does not apply: ' + r.stderr[-200:]}
        else:
            for pid in pids:
                t0 = time.time()
                r = subprocess.run([os.path.join(V, 'vc'), 'check', pid], cwd=V, capture_output=True, text=True,
                                   env=dict(os.environ, VERIF_REPO=wt, VERIF_EVIDENCE_DIR=EVDIR))
                res[pid] = {'exit': r.returncode, 'seconds': round(time.time() - t0),
                            'lines': [l for l in r.stdout.splitlines() if l.startswith(('VIOLATION', 'UNDECIDED'))][:6],
                            'failed': [l.strip() for l in r.stdout.splitlines() if l.startswith('    ') and '  ' in l.strip()][:6]}
                if r.returncode == 1:
                    bad += 1
    finally:
        subprocess.run(['git', '-C', '/repo', 'worktree', 'remove', '--force', wt], capture_output=True)
        shutil.rmtree(wt, ignore_errors=True)
    json.dump(res, open(os.path.join(d, 'result.json'), 'w'), indent=1)
    print('%-4s %-50s %s' % (rid, ','.join(files)[:50], {k: v.get('exit') if isinstance(v, dict) else v for k, v in res.items()}), flush=True)
shutil.rmtree(EVDIR, ignore_errors=True)
print('false alarms: %d' % bad)
