#!/usr/bin/env python3
"""Run the registered checks against the seeded breaking changes in /verif/seeded/<id>/.

  tools/seedtest.py [id ...] [--tier quick|thorough] [--all-props]
For each seeded change: make a scratch worktree of /repo (outside /repo and /verif), apply
patch.diff, run `./vc check <property>` with VERIF_REPO pointing at it, remove the worktree.
Writes seeded/<id>/result.json = {caught, exit, violation_lines, seconds}."""
import json, os, subprocess, sys, time, shutil
V = os.path.dirname(os.path.dirname(os.path.abspath(__file__)))
tier = 'quick'
args = [a for a in sys.argv[1:] if not a.startswith('--')]
if '--tier' in sys.argv:
    tier = sys.argv[sys.argv.index('--tier') + 1]
    args = [a for a in args if a != tier]
ids = args or sorted(d for d in os.listdir(os.path.join(V, 'seeded')) if os.path.isdir(os.path.join(V, 'seeded', d)))
summary = []
import tempfile
EVDIR = tempfile.mkdtemp(prefix='seedtest-evidence.', dir='/var/tmp')   # per invocation: concurrent runs must not share it
for sid in ids:
    d = os.path.join(V, 'seeded', sid)
    meta = json.load(open(os.path.join(d, 'meta.json')))
    pid = meta['property']
    wt = '/tmp/seedtest-%s' % sid
    subprocess.run(['git', '-C', '/repo', 'worktree', 'remove', '--force', wt], capture_output=True)
    shutil.rmtree(wt, ignore_errors=True)
    subprocess.run(['git', '-C', '/repo', 'worktree', 'add', '-q', '--detach', wt], check=True)
    try:
        r = subprocess.run(['git', '-C', wt, 'apply', os.path.join(d, 'patch.diff')], capture_output=True, text=True)
        if r.returncode != 0:
            res = {'caught': None, 'error': 'patch does not apply: ' + r.stderr[-300:]}
        else:
            t0 = time.time()
            env = dict(os.environ, VERIF_REPO=wt, VERIF_EVIDENCE_DIR=EVDIR)
            cmd = [os.path.join(V, 'vc'), 'check', pid] + (['--tier', 'thorough'] if tier == 'thorough' else [])
            r = subprocess.run(cmd, cwd=V, env=env, capture_output=True, text=True)
            viol = [l for l in r.stdout.splitlines() if l.startswith('VIOLATION')]
            fails = [l.strip() for l in r.stdout.splitlines() if l.startswith('    ') and '  ' in l.strip()][:12]
            res = {'caught': r.returncode == 1 and bool(viol), 'exit': r.returncode, 'violation_lines': viol,
                   'failed_obligations': fails, 'tier': tier, 'seconds': round(time.time() - t0, 1),
                   'undecided': [l for l in r.stdout.splitlines() if l.startswith('UNDECIDED')][:5]}
    finally:
        subprocess.run(['git', '-C', '/repo', 'worktree', 'remove', '--force', wt], capture_output=True)
        shutil.rmtree(wt, ignore_errors=True)
    json.dump(res, open(os.path.join(d, 'result_thorough.json' if tier == 'thorough' else 'result.json'), 'w'), indent=1)
    print('%-24s %s  caught=%s exit=%s %ss' % (sid, pid, res.get('caught'), res.get('exit'), res.get('seconds')))
    for l in res.get('violation_lines', []):
        print('     ', l)
    summary.append((sid, pid, res.get('caught')))
shutil.rmtree(EVDIR, ignore_errors=True)
print('caught %d of %d' % (sum(1 for s in summary if s[2]), len(summary)))
