#!/bin/sh
# Builds mirmik/igris with the verification guard OFF (IGRIS_VERIF appears nowhere in
# /repo, so this is the plain build) and runs the pinned test suite.
set -e
REPO=${VERIF_REPO:-/repo}
BUILD=${VERIF_BUILD:-$REPO/_build}
cmake -G Ninja -S "$REPO" -B "$BUILD" >/dev/null
cmake --build "$BUILD" -j16 >/dev/null
ctest --test-dir "$BUILD" -j8 --timeout 900 "$@"
