#!/usr/bin/env python3
"""Self-test of the native replay path: every unit that has a witness configuration must COMPILE natively (clang, ASan/UBSan,
replay/cprover_native.h) against the current /repo tree, and the all-zero input must not be reported as a failure.
A unit whose replay does not build can never turn a failed obligation into a replayed counterexample.
  tools/replay_selftest.py [PID ...]      exit 0 when every replay builds"""
import os, sys, re, shutil, tempfile, concurrent.futures as cf
V = os.path.dirname(os.path.dirname(os.path.abspath(__file__)))
sys.path.insert(0, V)
from vclib import core
pids = sys.argv[1:] or sorted(d for d in os.listdir(os.path.join(V, 'units')) if os.path.isdir(os.path.join(V, 'units', d)))
root = tempfile.mkdtemp(prefix='replay-selftest.', dir='/var/tmp')
jobs = []
for pid in pids:
    for u in core.find_units(pid):
        if u.meta.get('witness') is None:
            continue
        jobs.append((pid, u))

def one(j):
    pid, u = j
    vals = {}
    for m in re.finditer(r'\bWIT_ARR\(\s*[^,]+,\s*(\w+)\s*,', u.text):
        vals[m.group(1)] = '{0}'
    for m in re.finditer(r'\bWIT\(\s*[^,]+,\s*(\w+)\s*\)', u.text):
        vals[m.group(1)] = '0'
    case = u.cases('quick')[0]
    out = []
    for fb in ([], ['VC_FALLBACK=1']) if u.meta.get('fallback') == 'ghost-free' else ([],):
        w = os.path.join(root, '%s-%s-%d' % (pid, u.name, len(fb)))
        try:
            r = core.native_replay(u, case, vals, w, fb + ['KF_%s=0' % k for k in u.meta.get('kf', [])])
        except Exception as e:
            r = {'reproduced': False, 'output': 'native compile failed: exception %r' % e}
        shutil.rmtree(w, ignore_errors=True)
        bad = 'native compile failed' in (r.get('output') or '')
        out.append((pid, u.name, fb, 'BUILD-FAIL' if bad else ('FAILS-ON-ZERO' if r.get('reproduced') else 'ok'), (r.get('output') or '')[-600:] if (bad or r.get('reproduced')) else ''))
    return out

bad = 0
with cf.ThreadPoolExecutor(max_workers=int(os.environ.get('VERIF_JOBS', '12'))) as ex:
    for res in ex.map(one, jobs):
        for pid, name, fb, st, txt in res:
            if st == 'FAILS-ON-ZERO':
                continue      # informational only: an all-zero input need not satisfy the harness' assumptions (NULL pointers in contract harnesses)
            if st != 'ok':
                bad += 1
                print('%s %-40s %s %s\n    %s' % (pid, name, ' '.join(fb), st, txt.replace('\n', '\n    ')))
shutil.rmtree(root, ignore_errors=True)
print('replay self-test: %d units, %d problems' % (len(jobs), bad))
sys.exit(1 if bad else 0)
