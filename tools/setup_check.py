#!/usr/bin/env python3
"""setup_cmd: nothing is built ahead of time (units are compiled from /repo on every run);
this only verifies that the tools the checks need are present."""
import shutil, subprocess, sys
missing = [t for t in ('cbmc', 'goto-cc', 'goto-instrument', 'clang', 'python3') if not shutil.which(t)]
if missing:
    print('missing tools:', missing)
    sys.exit(1)
print(subprocess.run(['cbmc', '--version'], capture_output=True, text=True).stdout.strip())
