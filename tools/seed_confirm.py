#!/usr/bin/env python3
"""Confirm a seeded change produced by an independent sub-agent and file it under /verif/seeded/.
  tools/seed_confirm.py <worktree> <k> <seeded-id>
Confirms, in the sub-agent's own scratch worktree (paths in demo_cmd refer to it):
  patch applies; test suite passes with the patch; demo fails with the patch; demo passes without it.
Then copies patch.diff, the demo and meta.json (+ 'confirmed' record) to /verif/seeded/<seeded-id>/."""
import json, os, shutil, subprocess, sys
wt, k, sid = sys.argv[1], sys.argv[2], sys.argv[3]
d = os.path.join(wt, '_seed', k)
meta = json.load(open(os.path.join(d, 'meta.json')))
def sh(cmd, cwd=wt, timeout=1200):
    r = subprocess.run(cmd, shell=True, cwd=cwd, capture_output=True, text=True, errors="replace", timeout=timeout)
    return r.returncode, (r.stdout + r.stderr)[-1500:]
rec = {}
sh('git checkout -- . ')
demo = meta['demo_cmd']
rc0, out0 = sh(demo)
rec['demo_unchanged_exit'] = rc0
rc, out = sh('git apply %s' % os.path.join(d, 'patch.diff'))
rec['patch_applies'] = rc == 0
rc1, out1 = sh(demo)
rec['demo_changed_exit'] = rc1
rec['demo_changed_tail'] = out1[-400:]
rc, out = sh('cmake -G Ninja -S . -B _b >/dev/null && cmake --build _b -j8 >/dev/null && ctest --test-dir _b 2>&1 | tail -3')
rec['suite_with_change'] = out.strip()[-200:]
rec['suite_passes'] = '100% tests passed' in out
sh('git checkout -- . ; rm -rf _b')
ok = rec['patch_applies'] and rc0 == 0 and rc1 != 0 and rec['suite_passes']
rec['confirmed'] = ok
print(sid, json.dumps(rec)[:600])
if ok:
    dst = os.path.join('/verif/seeded', sid)
    os.makedirs(dst, exist_ok=True)
    for f in os.listdir(d):
        if os.path.isfile(os.path.join(d, f)) and os.path.getsize(os.path.join(d, f)) < 200000:
            shutil.copy(os.path.join(d, f), dst)
    meta['confirmed_by_owner'] = rec
    meta['origin'] = 'independent sub-agent given only the property text and a scratch worktree'
    json.dump(meta, open(os.path.join(dst, 'meta.json'), 'w'), indent=1)
sys.exit(0 if ok else 1)
