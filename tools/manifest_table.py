"""Per-property manifest texts (edited by hand; tools/gen_manifest.py turns them into MANIFEST.json)."""
PROOF = 'contract-based deductive verification with CBMC'
CHECKS = {
 'C08': {
  'text': 'Every mem*/str* function of the bundled libc is verified against its ISO C / POSIX definition for every '
          'content, every length and every overlap: inputs are symbolic exact-size objects, loops are closed by '
          'injected inductive loop invariants (no unwinding bound), the destination/result clauses are stated through '
          'an arbitrary ghost index. A discharged obligation set is a proof for all inputs, which sampling cannot give.',
  'ref': 'C08', 'technique': 'CBMC function + loop contracts on the real libc shim sources (ghost-index postconditions)',
  'note': 'Bounded stand-ins (labelled, not counted as proved): the word-copy path of memcpy (the inductive step of the 4x-unrolled word loop does not finish on any '
          'back end) and strncat. Trusted: cbmc 6.11 and its memory model (x86-64 LP64, flat byte-addressed objects), the injector, the ISO transcriptions in the '
          'harnesses / contracts/c08_string.h. Callees are used through their contracts, which are the clauses proved for them. memmove relies on the bundled memcpy '
          'copying forward (proved) and on address comparison across objects following the flat model.'},
}

CHECKS.update({
 'C04': {
  'text': 'decode(encode(p)) == p is proved by co-simulation inside the real encoder loops: injected ghost statements hand every byte the encoder has just '
          'written to a receiver, and loop invariants (CBMC loop contracts, no unwinding bound) carry "receiver in frame, its CRC equals the encoder\'s, '
          'its line equals the payload consumed so far" through every iteration, for every payload length and content, both shipped alphabets, any valid '
          'user alphabet and the legacy codec. Frame shape (START..STOP, no inner marker, <= 2n+4) and buffer safety are obligations on exact-size objects. '
          'The self-sizing encoders are checked against the callee contract at the call site.',
  'ref': 'C04', 'technique': 'CBMC loop contracts with ghost co-simulation of the receiver inside the real encoder loop; callee contracts; cxx2c-extracted C++',
  'note': 'Bounded stand-in on the REAL C++ code: units/C04/native/vector_encoders_probe.cpp runs the vector-returning encoders and the real receiver on 40280 payloads (both alphabets, lengths 0..140, one and two iovec pieces) under ASan/UBSan in every check. Quick tier: receiver = reference automaton (spec/gstuff_ref.h, gstuff_v1_ref.h) which the real receivers refine step by step (C05 units); the '
          'stream-level simulation induction is a meta-argument. Thorough tier: the real legacy receiver / its proved contract is co-simulated directly, and '
          'scatter-gather partitions into <= 3 pieces are covered (a symbolic-size iovec array exhausts cbmc). Trusted: cbmc, injector, cxx2c rules, std::vector stub.'},
 'C05': {
  'text': 'Each receiver step is proved, for every receiver state, every input byte, every capacity >= 2 and every valid alphabet, to refine a reference '
          'automaton written from the protocol definition: same status, same next phase, never more than cap-1 bytes stored (all accesses inside an exact-size '
          'buffer object), overflow reported instead of stored, delivered bytes == unescaped bytes since the start marker minus the CRC. Resynchronisation '
          'lemmas (any state + marker -> start state of the C04 induction; SYNC set for coinciding markers; overflow -> idle) are separate obligations.',
  'ref': 'C05', 'technique': 'one-step refinement contracts (CBMC, loop-free full-domain) against a reference automaton; function contract enforced with --dfcc',
  'note': 'Every-stream conclusions follow from the one-step lemmas by induction over the stream (not machine-checked). gstuff.cpp is verified through the '
          'mechanical cxx2c extraction (members -> self->, references -> pointers, default member initialisers -> generated ctor).'},
 'C16': {
  'text': 'The due rule and the no-drift arithmetic of stimer (C) and timer_head (C++, extracted) are proved loop-free for the full 64-bit domain; the scheduler clauses (pending list '
          'sorted by deadline and equal to the planned set after every plan(); callbacks never early, in deadline order, re-armed at previous deadline + interval, unplanned never fires, no due '
          'timer left after exec, empty()/minimal_interval() agree with the reference) are BOUNDED stand-ins on the real extracted timer_manager, inductive in the history (one operation from '
          'every sorted pending list of <= 2 timers; whole exec calls in the thorough tier). The loop of exec(now) is covered by its INDUCTIVE STEP (unit manager_exec_step, quick tier): from every '
          'sorted, well-linked pending list of <= 2 (3 thorough) timers with arbitrary starts, intervals and now, one iteration fires exactly the head timer, which is due and has the smallest deadline, '
          're-arms it at deadline + interval (or drops it when its callback unplans it), restores the invariant and leaves every pending deadline >= the fired one - so ordering, never-early and '
          'catch-up hold for ANY number of firings in one exec (the bound is the list length only). Arithmetic part: '
          '(within the no-overflow range): due exactly from start+interval on, never before; shift/swift re-arms at exactly previous deadline + interval; an '
          'unplanned stimer never fires. For unbounded timer counts the ordering clauses are not decided (sortedness of an unbounded intrusive list is not expressible in CBMC '
          'contracts); std::find_if + lambda is mapped by an extraction rule onto the first-match loop over the intrusive iterator, virtual execute() onto a recording callback.',
  'ref': 'C16', 'technique': 'CBMC full-domain assertions on the real (cxx2c-extracted) arithmetic; no loops',
  'note': 'Bounded stand-in on the REAL class: units/C16/native/manager_sched_probe.cpp runs igris::timer_manager against a reference scheduler over 480000 histories (3 timers, 4 operations) under ASan/UBSan in every check. Assumes times/intervals within +-2^61 (signed overflow is undefined in C and flagged outside that range). See units/C16/PROPERTY.json for the clauses not under contract.'},
 'C17': {
  'text': 'Every CRC routine is proved equal to an independent bit-serial reference for every seed, content and length: the length loop is co-simulated with '
          'the reference fold through injected loop invariants, the per-byte (per-word) step is discharged for all (state, data) pairs, the 8-round bit loops '
          'are unwound completely. Data is an exact-size object, so any read outside [data, data+length) fails. Table-driven == bit-serial, piecewise == one-shot '
          'and the CRC-8 residue lemma are separate obligations.',
  'ref': 'C17', 'technique': 'CBMC loop contracts with ghost co-simulation against a bit-serial CRC reference',
  'note': 'Alignment: cbmc has no alignment check; igris_crc32 (the only routine with word accesses) is proved for messages at every offset 0..3 inside their object and, as a BOUNDED stand-in, '
          'run natively under UBSan on 4 misaligned sample messages in every check (native probes). Known finding kept open: igris_crc32 in pieces that are not multiples of 4 differs from '
          'one shot (inherent in its word-wise definition; a repair would change existing checksums). Little-endian model.'},
})

CHECKS.update({
 'C03': {
  'text': 'Every operation of the C ring (ring.h, ring_counter.h) is proved, for a symbolic 32-bit size (every size >= 2, not only powers of two), every reachable '
          '(head, tail) and every buffer content, to preserve the representation invariant and to transform the whole reference-queue view exactly as the reference '
          'operation does (ghost index over the view and over the buffer): putc/getc/read/write are FIFO, lossless and byte-transparent for all 256 values, full/empty '
          'reject without change, avail + room == size - 1, indices stay in [0,size). ring_read/ring_write/ring_for_each loops are closed by injected invariants. The typed '
          'igris::ring<T> and cyclic_buffer<T> (extracted to C at T = char) are proved consistent with their backing array and their relative accessors (last, fixup_index, '
          'distance, set_last_index, i-th previous sample, get_last for every offset/count/order with the window inside one lap) address the reference elements for every head position.',
  'ref': 'C03', 'technique': 'CBMC full-domain contracts + loop contracts on ring.h / ring_counter.h; cxx2c-extracted igris::ring and cyclic_buffer',
  'note': 'Induction over operation histories is the usual meta-argument. Assumptions (call-site preconditions): bias <= size, size <= 2^31 for the int-returning bulk '
          'operations, near-range arguments for the fix-up loops. emplace / non-trivial element lifetimes of the typed ring are not under contract (PROPERTY.json).'},
})
CHECKS.update({
 'C01': {
  'text': 'Every list operation (C dlist/slist/hlist, C++ dlist_node/dlist_base extracted to C) is proved as a LOCAL contract that holds inside rings of any length: a pool of '
          'exact-size node objects whose link fields are chosen by symbolic indices (any pool node or a pointer that must not be followed) stands for the neighbourhood; LINKED is '
          'assumed only at the argument nodes, every aliasing pattern (single-element ring, node next to its target, node moved next to itself, self-linked source) is admitted; '
          'ensures = the local shape of the reference (std::list-like) result, an exact frame over all link fields, LINKED at every touched node and at an arbitrary third-party '
          'node, self-link / poison of removed nodes and "removing it again is harmless". Additional function contracts are enforced with --dfcc (cbmc-checked assigns clauses).',
  'ref': 'C01', 'technique': 'CBMC local contracts over a symbolic node pool (frame + third-party preservation), dfcc-enforced function contracts; cxx2c-extracted C++ nodes',
  'note': 'Sequence-level clauses (traversal yields the reference sequence, size/membership agree; ~dlist_base leaves every node of the list unlinked) are bounded stand-ins on rings of <= 5 nodes (6 thorough), labelled bounded: the '
          'traversal functions walk an unbounded inductive structure that CBMC contracts cannot describe. The lifting from local splice + frame to the sequence and the induction over '
          'histories are meta-arguments. The dlist<T,member> template wrappers and iterators are thin forwards and not extracted.'},
 'C14': {
  'text': 'Every member of static_vector<T,N>, static_string<N> and their std_portable twins (extracted mechanically to C, T = the abstract element ELEM with an in-object ghost '
          'lifetime state) is proved for an ARBITRARY capacity N in [1, 2^36]: the inline storage is an exact-size object, so a write outside it fails a pointer obligation; '
          'size <= N, contents == reference sequence truncated to N keeping the prefix (ghost index), and the ELEM protocol (construct only raw slots, assign/read only live ones, '
          'destroy exactly once, every slot raw at destruction). Loops are closed by injected invariants.',
  'ref': 'C14', 'technique': 'cxx2c extraction + CBMC loop contracts; ghost element-lifetime protocol; symbolic capacity',
  'note': 'Bounded stand-in on the REAL class: units/C14/native/static_vector_model_probe.cpp runs igris::static_vector<T,4> against a truncated std::vector model with a lifetime-tracking T (199 state x operation pairs) under ASan/UBSan in every check. Trusted: the cxx2c rewrite rules (placement new / destructor calls / std::move onto the ELEM_* functions), the std::move algorithm stub. Induction over operation histories '
          'is a meta-argument. emplace_back with other than one argument and iterator types other than const T* are not covered.'},
 'C18': {
  'text': 'hex helpers are proved loop-free over their full domains (alphabet 0-9A-F, both directions of every uintN pair); hexascii_encode/decode and the std::string overload by loop '
          'contracts (length, alphabet, exact-size objects) with the round trip as a lemma over the two contracts; base64_encode / base64url_encode are co-simulated with an RFC 4648 '
          'reference (every 6-bit group via a ghost index, padding, length 4*ceil(n/3), no read outside the input); base64_decode equals the reference decoder on the longest alphabet '
          'prefix; the reference pair is proved inverse for every length.',
  'ref': 'C18', 'technique': 'CBMC full-domain assertions and loop contracts; cxx2c extraction with a std::string stub; RFC 4648 reference co-simulation',
  'note': 'Bounded stand-in on the REAL C++ code: units/C18/native/string_codecs_probe.cpp runs the std::string base64 / url-safe base64 / hexascii codecs against RFC 4648 reference encoders on 2801 inputs under ASan/UBSan in every check. The base64 round trip for every length rests on four proved pieces plus a first-order composition step; the real encoder∘decoder composition and the url-safe decoder are '
          'bounded stand-ins (<= 7 bytes / <= 8 characters), labelled bounded. Trusted: std::string stub (libstdc++), cxx2c rules.'},
})
CHECKS.update({
 'C07': {
  'text': 'Every renderer (igris_i64toa/u64toa and the six width wrappers, itoa/utoa/ltoa/ultoa, debug_printdec/hex/bin, vt100_left) is proved against a positional-notation oracle '
          'written from the property text for the full 64-bit (resp. 8..32-bit) value domain, case-split over the base so that division is by a constant (quick: bases 2, 7, 8, 10, 16, 36; '
          'thorough: all 35): canonical digits, optional minus, no leading zeros, NUL, returned pointer, and an exact-size output window (one extra write fails a bounds obligation). The '
          'parsers igris_ato* are proved for a symbolic base and unbounded text by a loop invariant with a ghost Horner fold: value modulo 2^w, both letter cases, *end at the first '
          'character that cannot continue the number, no read past it. Round trips are proved end to end for power-of-two bases.',
  'ref': 'C07', 'technique': 'CBMC full-domain proofs per base with a lock-step ghost reference inside the (width-bounded, fully unwound) digit loops; loop-invariant co-simulation for the parsers',
  'note': 'Digit loops are bounded by the operand width (<= 64 iterations) and unwound completely with unwinding assertions. The round trip for bases that are not powers of two follows '
          'from the separately proved renderer and parser plus an arithmetic fact about the oracle (not one run). Cuts (assert c; assume c) are obligations of the same run.'},
 'C12': {
  'text': 'Partial claim. Proved for every binary32/binary64 bit pattern in the supported range and every precision: igris_f32toa/f64toa/ftoa write only inside an exact-size buffer, produce '
          '-?digits[.digits] with exactly the requested number of fraction digits, NUL terminated, inf/nan tokens, only characters of the allowed alphabet. Proved for texts of any length: '
          'the lexical behaviour of igris_atof64/atof32/strtod/atof against the grammar [+-]d*[.d*][(e|E)[+-]d+] (end pointer, no over-read, integer exponent bookkeeping, sign). The ACCURACY '
          'clauses (within one unit of the last digit / a few ulps of strtod) relate floats to real decimal values and are NOT decidable with CBMC: not claimed.',
  'ref': 'C12', 'technique': 'CBMC bit-precise IEEE-754 reasoning with loop invariants (0 <= f < 1 for the fraction loop); lexical co-simulation of the parsers',
  'note': 'Open known findings (not small repairs): values with |f| >= 2^31 render as garbage (int32 cast), igris_atof32 has no exponent support and overflows with >= 19 fraction digits, '
          'debug_printdec_double_prec prints wrong fraction digit counts / overflows for large values and precisions. Decimal exponents beyond the range of double are covered by 4 native probes '
          '(bounded stand-in), not by the proof. See units/C12/PROPERTY.json.'},
})
CHECKS.update({
 'C06': {
  'text': 'The printf engine is verified in layers, each against an ISO C 7.21.6.1 oracle (spec/c06_iso_printf.h, cross-checked natively against glibc on 10^6 cases): print_i for every 64-bit value, '
          'flag set, width and precision per conversion (d/u/o/x/p) - return == ISO length == number of callback calls, every output segment has the ISO length and characters, all five output loops '
          'closed by invariants; print_s on an exact-size string (no read past the terminator or the precision); the argument fetch of __printf per conversion and length modifier (value handed to '
          'print_i equals the ISO conversion of the va_arg) with print_* replaced by contracts; the sprintf/fdprintf wrappers. The directive parser is a BOUNDED stand-in (one symbolic directive '
          'token of <= 7 characters, 10 in the thorough tier, plus concrete multi-directive formats).',
  'ref': 'C06', 'technique': 'CBMC function contracts (dfcc) + loop contracts against an ISO printf oracle; modular replacement of print_i/print_s inside __printf',
  'note': 'Whole __printf with the real print_* does not finish in cbmc: the layers are composed by hand. Unbounded format length / directive count is not covered. Open known findings: '
          '%#x / %#o of 0 and %c of a NUL byte (repairs are not local edits).'},
 'C10': {
  'text': 'pool_engage is proved for any cell count (loop contract: every cell pushed exactly once, writes inside the zone). All other pool and heap operations are proved INDUCTIVELY IN THE '
          'HISTORY but BOUNDED IN SIZE (labelled bounded): from every state satisfying the representation invariant - free list a simple path of distinct aligned cells inside the zone, disjoint '
          'from the live set (pools, capacity <= 6, every free-list order and live subset); address-ordered free list of <= 3 chunks in a 128-byte arena with an arbitrary live block (heap) - one '
          'operation re-establishes the invariant, returns a block inside the arena that overlaps no live block and no free chunk, leaves live contents untouched, keeps free count == capacity - '
          'live, and freeing everything returns the break to its start; realloc keeps the common prefix.',
  'ref': 'C10', 'technique': 'CBMC inductive-step proofs over symbolic free-list states (bounded capacity), loop contract for pool_engage; cxx2c-extracted igris::pool / static_object_pool / lin_malloc',
  'note': 'Layout of static_object_pool cells (size/alignment for T and for the free-list link) is a compile-time probe over the real header at five sample element types (bounded stand-in). The free list is an inductive structure and CBMC has no inductive predicates: capacity / chunk count are bounded (stated in each unit). Open known finding: malloc never fails (no heap '
          'end in this port): "inside the arena" holds only for requests that fit. Locks dropped (single-threaded semantics).'},
})
CHECKS.update({
 'C02': {
  'text': 'Every member of igris::vector named by the property (push/emplace/insert/erase/pop/resize/reserve/clear, copy and move construction and assignment, ==, <, indexing, at) is extracted '
          'mechanically to C at the abstract element type ELEM (in-object ghost lifetime state) and proved for a symbolic size and capacity: representation invariant VEC (slots below size live, '
          'slots up to capacity raw), size and element sequence == std::vector\'s (reference semantics through ghost indices over the whole view), every construct/assign/destroy obeys the ELEM '
          'protocol (nothing is assigned to, moved from or read while unconstructed or destroyed; every element destroyed exactly once: a released block holds no live element and no block is '
          'leaked), all accesses inside exact-size blocks. Loops are closed by injected invariants; obligations are grouped bounds / lifetime / value / frame.',
  'ref': 'C02', 'technique': 'cxx2c extraction + CBMC loop contracts; ghost element-lifetime protocol checked at an arbitrary tracked slot per block; allocator and std algorithm stubs with ISO contracts',
  'note': 'Bounded stand-in on the REAL class (not the extraction): units/C02/native/vector_model_probe.cpp runs igris::vector<T> against std::vector with a lifetime-tracking T under ASan/UBSan in every check (1200 state x operation pairs) - it decides changes that leave the extractor dialect. NOT claimed: flat_map / flat_set / compat std map/set (std::find_if/upper_bound with capturing lambdas over std::vector<std::pair>: outside the extractor) and the second igris::vector '
          'copy in std_portable.h. insert(pos,first,last) is a bounded stand-in (<= 1 element quick, 2 thorough) on top of the proved insert(pos,value); rbegin/rend are std::reverse_iterator '
          '(trusted). Trusted: libstdc++ algorithm / allocator stubs (spec/c02_std_algo.h), cxx2c rules. Exceptions are outside the model (throw -> ghost flag).'},
})
CHECKS.update({
 'C11': {
  'text': 'strtol/strtoul/strtoll/strtoull/strtoimax/strtoumax are proved per base (quick: 0, 2, 8, 10, 16, 36; thorough: all of 0, 2..36) for texts of unbounded length: both loops carry injected '
          'invariants and the digit loop is co-simulated with an ISO 7.22.1.4 reference automaton that reads the text itself and keeps the mathematical value in 128 bits with a saturation flag - '
          'value incl. sign, 0x/0 prefixes and clamping, *endptr at the first unconsumed character (the start when no digits), no read past it (exact-size text object). atoi/atol likewise under '
          '"value representable". bsearch: memory safety for every nmemb (incl. 0) and the element sizes of the case split with an arbitrary comparator (loop invariant + decreases); qsort\'s swap '
          'for any size. Result correctness of bsearch (nmemb <= 8) and of qsort (nmemb <= 4, 6 thorough; every pivot choice) are BOUNDED stand-ins.',
  'ref': 'C11', 'technique': 'CBMC loop contracts with ghost co-simulation of an ISO strto* automaton (case split per base); loop-invariant memory-safety proof of bsearch; bounded runs for qsort',
  'note': 'qsort recursion is cut by an induction stub on strictly smaller arrays (meta-argument). Sortedness + permutation for unbounded nmemb needs multiset reasoning over a function-pointer '
          'comparator and is outside CBMC contracts: bounded. errno of strtol/strtoimax is not checked. Host limits/stdlib headers, shim ctype.'},
})
CHECKS.update({
 'C15': {
  'text': 'Every sline_* function is proved against a reference editor (spec/c15_editor_ref.h: line tracked at one arbitrary ghost index) for every capacity >= 2, length and cursor: content, '
          '0 <= cursor <= length < capacity, frame = buf[0..cap) and the three counters, including the bulk insert for every int length and the terminating accessor. readline_putchar is proved as '
          'a one-call refinement (RL invariant and REL before => same return code, RL and REL after) per key class; history push/recall lemma harnesses (enter A, B; up, up, down, down) and index '
          'arithmetic; vterm_automate_newdata: the line handed to execute equals the reference line at the reference NEWLINE, every (ptr,len) handed to write lies inside the line buffer / a literal / '
          'the local buf[16]; vt100_left fits buf[16] for every 32-bit argument; igris::sline wrappers via extraction. The VT100 screen clause is a BOUNDED stand-in (cap <= 8, one key step).',
  'ref': 'C15', 'technique': 'CBMC contracts against a reference editor (ghost-index content), dfcc replacement of memmove/memcpy/readline_putchar by contract; one-step refinement per key class',
  'note': 'Composition of the one-call lemmas over a key stream is by induction (not machine-checked). History geometry: capacity symbolic with depth in {0,1,2,3}, or depth symbolic 1..255 with '
          'capacity in {2,3} (a product of two symbolic factors does not finish on any back end). igris::readline / igris::vterm (C++ re-implementations) are not under contract.'},
})
CHECKS.update({
 'C19': {
  'text': 'igris_memmem (first occurrence or NULL, ghost index for "no earlier match"), replace_substrings (confinement to buffer[0..maxsize), termination; match structure in the thorough '
          'tier), the argv splitters (co-simulated with a reference whitespace tokeniser: argc <= argcmax, argv[k] = start of the k-th maximal non-blank run, nothing read or written at or beyond '
          'data+maxlen), the mshell/rshell dispatchers (handler of the first token invoked iff it names a command, with the reference argc/argv; blank lines), the path helpers against a '
          'component-wise reference and creader (cursor inside [strt, fini], nothing read at fini) are proved on exact-size, non-terminated buffers of symbolic length with injected loop '
          'invariants. The C++ split / split_cmdargs / trim / replace scanning loops are extracted mechanically and co-simulated with a reference tokeniser through a ghost token recorder.',
  'ref': 'C19', 'technique': 'CBMC loop contracts on exact-size non-terminated buffers; reference tokeniser / path automata co-simulation; cxx2c extraction with ghost token recorder',
  'note': 'Bounded stand-in on the REAL C++ code: units/C19/native/string_utils_probe.cpp runs igris::replace / igris::split against byte-wise references (54602 calls, NUL bytes included, exact-size buffers) under ASan/UBSan in every check. NOT claimed: join (std::vector<std::string> loop is outside the extractor) and "join is split\'s inverse". Bounds: shell command tables <= 3 entries, argcmax in {0,1,2,3}, '
          'path_is_simple converse up to length 7 (labelled). Recorded native-only observation (no unit): creader_readline line semantics (one-character lines, unterminated last line).'},
})
WIP = 'no proof unit built yet in this session (work in progress; see DESIGN.md for the planned contracts)'
NOT_APPLICABLE = {
 
 
 'C09': 'quantifies over a family of C++ types assembled by template metaprogramming (partial specialisations, SFINAE, '
        'concepts, std::tuple/map/string, virtual archives); CBMC has no usable C++ front end and the mechanical C '
        'extraction deliberately excludes templates-over-types, so no contract on the real code can state it',
 'C13': 'print_f extracts digits from an 80-bit long double through modfl/fmodl/powl/log10l/roundl in data-dependent '
        'loops; CBMC has no model of these libm functions, and with them abstracted by contracts neither the buffer '
        'bound nor the digit values are constrained - no contract within reach decides the property',
 'C20': 'quantifies over thread schedules and data races; CBMC function contracts are sequential, the code is built on '
        'std::recursive_mutex / condition_variable / thread_local (C++ library types, no front end) and lost-wake-up '
        'freedom is a whole-history property',
}
NOTES = ('All checks are proof units run by ./vc (see DESIGN.md 2). No hook was added to /repo; the only commits in '
         '/repo are "fix:" commits listed in known_findings.json.')
