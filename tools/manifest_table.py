"""Per-property manifest texts (edited by hand; tools/gen_manifest.py turns them into MANIFEST.json)."""
PROOF = 'contract-based deductive verification with CBMC'
CHECKS = {
 'C08': {
  'text': 'Every mem*/str* function of the bundled libc is verified against its ISO C / POSIX definition for every '
          'content, every length and every overlap: inputs are symbolic exact-size objects, loops are closed by '
          'injected inductive loop invariants (no unwinding bound), the destination/result clauses are stated through '
          'an arbitrary ghost index. A discharged obligation set is a proof for all inputs, which sampling cannot give.',
  'ref': 'C08', 'technique': 'CBMC function + loop contracts on the real libc shim sources (ghost-index postconditions)',
  'note': 'Trusted: cbmc 6.11 and its memory model (x86-64 LP64, flat byte-addressed objects up to 2^40 bytes), the '
          'injector, the ISO transcriptions in the harnesses. Callees are used through their contracts.'},
}
WIP = 'no proof unit built yet in this session (work in progress; see DESIGN.md for the planned contracts)'
NOT_APPLICABLE = {
 'C01': WIP, 'C02': WIP, 'C03': WIP, 'C04': WIP, 'C05': WIP, 'C06': WIP, 'C07': WIP, 'C10': WIP, 'C11': WIP,
 'C12': WIP, 'C14': WIP, 'C15': WIP, 'C16': WIP, 'C17': WIP, 'C18': WIP, 'C19': WIP,
 'C09': 'quantifies over a family of C++ types assembled by template metaprogramming (partial specialisations, SFINAE, '
        'concepts, std::tuple/map/string, virtual archives); CBMC has no usable C++ front end and the mechanical C '
        'extraction deliberately excludes templates-over-types, so no contract on the real code can state it',
 'C13': 'print_f extracts digits from an 80-bit long double through modfl/fmodl/powl/log10l/roundl in data-dependent '
        'loops; CBMC has no model of these libm functions, and with them abstracted by contracts neither the buffer '
        'bound nor the digit values are constrained - no contract within reach decides the property',
 'C20': 'quantifies over thread schedules and data races; CBMC function contracts are sequential, the code is built on '
        'std::recursive_mutex / condition_variable / thread_local (C++ library types, no front end) and lost-wake-up '
        'freedom is a whole-history property',
}
NOTES = ('All checks are proof units run by ./vc (see DESIGN.md 2). No hook was added to /repo; the only commits in '
         '/repo are "fix:" commits listed in known_findings.json.')
