#!/usr/bin/env python3
"""Writes seeded/REPORT.md: which check caught which seeded change (from seeded/<id>/meta.json + result.json)."""
import json, os
V = os.path.dirname(os.path.dirname(os.path.abspath(__file__)))
rows = []
for sid in sorted(os.listdir(os.path.join(V, 'seeded'))):
    d = os.path.join(V, 'seeded', sid)
    if not os.path.isdir(d):
        continue
    meta = json.load(open(os.path.join(d, 'meta.json')))
    res = json.load(open(os.path.join(d, 'result.json'))) if os.path.exists(os.path.join(d, 'result.json')) else {}
    rt = os.path.join(d, 'result_thorough.json')
    if not res.get('caught') and os.path.exists(rt) and json.load(open(rt)).get('caught'):
        quick_exit = res.get('exit')
        res = json.load(open(rt))
        res['tier'] = 'thorough; quick tier: exit %s' % quick_exit
    units = sorted({l.split('replay/')[-1].split('.json')[0].split('-', 1)[-1] for l in res.get('violation_lines', [])})
    fo = res.get('failed_obligations', [])
    first = fo[0].split('  ', 1)[-1][:110] if fo else ''
    rows.append((sid, meta['property'], meta.get('summary', '')[:150].replace('|', '/').replace('\n', ' '),
                 meta.get('needs', '')[:120].replace('|', '/').replace('\n', ' '),
                 'caught (%s tier)' % res.get('tier', '?') if res.get('caught') else ('exit %s' % res.get('exit') if res else 'not run'),
                 ', '.join(units)[:120], first.replace('|', '/')))
out = ['# Seeded breaking changes and the checks that catch them', '',
       'Each change was written by an independent sub-agent that saw only the property text and a scratch worktree; it compiles, passes the',
       'test suite, and fails its own demonstration (all three confirmed by `tools/seed_confirm.py`). `tools/seedtest.py` applies it to a scratch',
       'worktree and runs the property\'s registered check.', '',
       '| id | property | change | needs | result | unit(s) reporting the violation | first failed obligation |', '|---|---|---|---|---|---|---|']
for r in rows:
    out.append('| ' + ' | '.join(r) + ' |')
n = len(rows); c = sum(1 for r in rows if r[4].startswith('caught'))
out += ['', '%d of %d seeded changes are reported as VIOLATION by the registered checks.' % (c, n), '']
waves = {'s': 'wave 1 (`-sN`)', 't': 'wave 2 (`-tN`)', 'u': 'wave 3 (`-uN`, asked for restructuring changes)', 'v': 'wave 4 (`-vN`, hold-out: written after the machinery was final)'}
for k, name in waves.items():
    rs = [r for r in rows if r[0].split('-')[1][0] == k]
    if rs:
        q = sum(1 for r in rs if r[4].startswith('caught (quick'))
        t = sum(1 for r in rs if r[4].startswith('caught (thorough'))
        e2 = [r[0] for r in rs if r[4] == 'exit 2']
        e0 = [r[0] for r in rs if r[4] == 'exit 0']
        out.append('* %s: %d changes, %d caught in the quick tier, %d only in the thorough tier, undecided (exit 2): %s, missed (exit 0): %s' % (
            name, len(rs), q, t, ', '.join(e2) or 'none', ', '.join(e0) or 'none'))
fp = []
for sid in sorted(os.listdir(os.path.join(V, 'seeded'))):
    f = os.path.join(V, 'seeded', sid, 'result_firstpass.json')
    if os.path.exists(f):
        r = json.load(open(f))
        fp.append((sid, 'caught' if r.get('caught') else 'exit %s' % r.get('exit')))
if fp:
    out += ['', 'First-pass results of the hold-out wave (before any strengthening prompted by it): %d of %d caught; not caught: %s' % (
        sum(1 for x in fp if x[1] == 'caught'), len(fp), ', '.join('%s (%s)' % x for x in fp if x[1] != 'caught') or 'none')]
open(os.path.join(V, 'seeded', 'REPORT.md'), 'w').write('\n'.join(out) + '\n')
print('%d/%d caught' % (c, n))
