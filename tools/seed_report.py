#!/usr/bin/env python3
"""Writes seeded/REPORT.md: which check caught which seeded change (from seeded/<id>/meta.json + result.json)."""
import json, os
V = os.path.dirname(os.path.dirname(os.path.abspath(__file__)))
rows = []
for sid in sorted(os.listdir(os.path.join(V, 'seeded'))):
    d = os.path.join(V, 'seeded', sid)
    if not os.path.isdir(d):
        continue
    meta = json.load(open(os.path.join(d, 'meta.json')))
    res = json.load(open(os.path.join(d, 'result.json'))) if os.path.exists(os.path.join(d, 'result.json')) else {}
    units = sorted({l.split('replay/')[-1].split('.json')[0].split('-', 1)[-1] for l in res.get('violation_lines', [])})
    fo = res.get('failed_obligations', [])
    first = fo[0].split('  ', 1)[-1][:110] if fo else ''
    rows.append((sid, meta['property'], meta.get('summary', '')[:150].replace('|', '/').replace('\n', ' '),
                 meta.get('needs', '')[:120].replace('|', '/').replace('\n', ' '),
                 'caught (%s tier)' % res.get('tier', '?') if res.get('caught') else ('exit %s' % res.get('exit') if res else 'not run'),
                 ', '.join(units)[:120], first.replace('|', '/')))
out = ['# Seeded breaking changes and the checks that catch them', '',
       'Each change was written by an independent sub-agent that saw only the property text and a scratch worktree; it compiles, passes the',
       'test suite, and fails its own demonstration (all three confirmed by `tools/seed_confirm.py`). `tools/seedtest.py` applies it to a scratch',
       'worktree and runs the property\'s registered check.', '',
       '| id | property | change | needs | result | unit(s) reporting the violation | first failed obligation |', '|---|---|---|---|---|---|---|']
for r in rows:
    out.append('| ' + ' | '.join(r) + ' |')
n = len(rows); c = sum(1 for r in rows if r[4].startswith('caught'))
out += ['', '%d of %d seeded changes are reported as VIOLATION by the registered checks.' % (c, n)]
open(os.path.join(V, 'seeded', 'REPORT.md'), 'w').write('\n'.join(out) + '\n')
print('%d/%d caught' % (c, n))
