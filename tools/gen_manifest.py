#!/usr/bin/env python3
"""Regenerates /verif/MANIFEST.json from the table below and validates it."""
import json, os, sys
V = os.path.dirname(os.path.dirname(os.path.abspath(__file__)))
sys.path.insert(0, V)
from tools.manifest_table import CHECKS, NOT_APPLICABLE, NOTES  # noqa

props = [json.loads(l) for l in open(os.path.join(V, 'properties.jsonl'))]
ids = [p['id'] for p in props]
checks = []
for pid in ids:
    if pid in CHECKS:
        c = CHECKS[pid]
        checks.append({
            'property_id': pid,
            'quick_cmd': './vc check %s' % pid,
            'thorough_cmd': './vc check %s --tier thorough' % pid,
            'evidence_file': 'evidence/%s.json' % pid,
            'replay_cmd_template': './vc replay {path}',
            'engine': 'vc',
            'level_claimed': {'category': 'proof', 'text': c['text'], 'design_ref': 'DESIGN.md ' + c['ref']},
            'level_note': c['note'],
            'technique': c['technique'],
        })
na = [{'property_id': pid, 'reason': NOT_APPLICABLE[pid]} for pid in ids if pid not in CHECKS]
assert all(pid in NOT_APPLICABLE for pid in ids if pid not in CHECKS), 'unclaimed property without reason'
man = {
    'version': 1,
    'setup_cmd': 'python3 tools/setup_check.py',
    'hooks': {
        'guard': 'IGRIS_VERIF',
        'enable': 'no source hook exists in /repo: -DIGRIS_VERIF is defined only when goto-cc/clang compile the '
                  'unit files in /verif/units, which #include the real sources from /repo (loop contracts and ghost '
                  'statements are injected into scratch copies on every run)',
        'baseline_off_cmd': 'tools/baseline.sh',
        'source_commits': [],
        'add_only': True,
    },
    'engines': [{'name': 'vc', 'path': 'vc', 'serves_properties': sorted(CHECKS),
                 'kind_free_text': 'contract-based deductive verification of the real C code with cbmc 6.11 / '
                                   'goto-instrument (function contracts, loop contracts, ghost co-simulation); '
                                   'native ASan/UBSan replay of counterexamples'}],
    'checks': checks,
    'not_applicable': na,
    'notes': NOTES,
}
json.dump(man, open(os.path.join(V, 'MANIFEST.json'), 'w'), indent=1)
try:
    import jsonschema
    jsonschema.validate(man, json.load(open('/root/.vp/MANIFEST.schema.json')))
    print('MANIFEST.json valid;', len(checks), 'checks,', len(na), 'not applicable')
except ImportError:
    print('MANIFEST.json written (jsonschema not available)')
