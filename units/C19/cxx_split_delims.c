/*@unit {
 'kind': 'proof', 'mode': 'legacy',
 'functions': ['igris::split(const igris::buffer &, const char *)'],
 'replace': ['strchr'],
 'extract': 'units/C19/string_extract.py',
 'clauses': 'igris::split(buffer, delims) (scanning code extracted mechanically, outvec.emplace_back(p, n) -> ghost token recorder) against the reference '
            'tokeniser, delimiter = character for which strchr(delims, c) != NULL (contracts/c19_cxx_contracts.h): the recorded tokens are exactly the '
            'maximal runs of non-delimiter bytes, in order (token 0 preceded by delimiters only, tokens non-empty, delimiter-free and maximal, '
            'consecutive tokens separated by delimiters only, delimiters only behind the last token); empty buffer: no token; only bytes of the '
            'exact-size, non-terminated buffer are read (known finding C19_split_delims_overread: a trailing delimiter makes it read the byte at the '
            'end); a NUL byte in the buffer is not a delimiter unless delims says so (known finding C19_split_delims_nul: strchr finds the terminator '
            'of delims, so NUL always splits)',
 'kf': ['C19_split_delims_overread', 'C19_split_delims_nul'],
 'inject': [
   {'file': 'overlay:cxx/igris_string_cxx.c', 'func': 'cxx_split_delims', 'at': 'body-begin', 'loop': 0, 'ghost': 'g_base = (size_t)(ptr - g_data0);'},
   {'file': 'overlay:cxx/igris_string_cxx.c', 'func': 'cxx_split_delims', 'at': 'after', 'anchor': 'strt = ptr;', 'ghost': 'g_cur = (size_t)(ptr - g_data0);'},
   {'file': 'overlay:cxx/igris_string_cxx.c', 'func': 'cxx_split_delims', 'loop': 0, 'expect': 'while (true)',
    'assigns': 'ptr, strt, g_base, g_cur, g_ntok, g_ts, g_tl, g_ts1, g_last_s, g_last_end, g_tq, g_tq1, g_last_q',
    'invariants': [
      '__CPROVER_same_object(ptr, g_data0) && __CPROVER_POINTER_OFFSET(g_data0) == 0 && (size_t)__CPROVER_POINTER_OFFSET(ptr) < g_n && end == g_data0 + g_n',
      'g_ntok <= (size_t)__CPROVER_POINTER_OFFSET(ptr)',
      'g_ntok == 0 ? __CPROVER_POINTER_OFFSET(ptr) == 0 : (g_last_end == (size_t)__CPROVER_POINTER_OFFSET(ptr) && g_last_s < g_last_end)',
      'g_ntok > g_t ==> (g_tl >= 1 && g_ts <= g_n && g_tl <= g_n - g_ts && g_ts + g_tl <= (size_t)__CPROVER_POINTER_OFFSET(ptr))',
      '(g_ntok > g_t && g_ts <= g_q && g_q < g_n && g_q - g_ts < g_tl) ==> !C19_CODEDELIM(g_data0[g_q])',
      '(g_ntok > g_t && g_q < g_n && g_q == g_ts + g_tl) ==> C19_CODEDELIM(g_data0[g_q])',
      '(g_ntok > g_t && g_t == 0 && g_q < g_ts && g_q < g_n) ==> C19_CODEDELIM(g_data0[g_q])',
      '(g_ntok > 0 && (size_t)__CPROVER_POINTER_OFFSET(ptr) < g_n) ==> C19_CODEDELIM(*ptr)',
      '(g_ntok > g_t && g_ntok == g_t + 1) ==> (g_last_end == g_ts + g_tl && g_last_s == g_ts)',
      '(g_ntok > g_t && g_ntok > g_t + 1) ==> (g_ts + g_tl < g_ts1 && g_ts1 <= g_last_s)',
      '(g_ntok > g_t && g_ntok > g_t + 1 && g_ts + g_tl <= g_q && g_q < g_ts1 && g_q < g_n) ==> C19_CODEDELIM(g_data0[g_q])',
    ],
    'decreases': 'g_n - (size_t)__CPROVER_POINTER_OFFSET(ptr)'},
   {'file': 'overlay:cxx/igris_string_cxx.c', 'func': 'cxx_split_delims', 'loop': 1, 'expect': 'while (',
    'assigns': 'ptr',
    'invariants': ['__CPROVER_same_object(ptr, g_data0) && g_base <= (size_t)__CPROVER_POINTER_OFFSET(ptr) && (size_t)__CPROVER_POINTER_OFFSET(ptr) <= g_n',
                   '(size_t)__CPROVER_POINTER_OFFSET(ptr) < g_n || g_lastdelim',
                   '(g_base <= g_q && g_q < (size_t)__CPROVER_POINTER_OFFSET(ptr)) ==> C19_CODEDELIM(g_data0[g_q])'],
    'decreases': 'g_n - (size_t)__CPROVER_POINTER_OFFSET(ptr)'},
   {'file': 'overlay:cxx/igris_string_cxx.c', 'func': 'cxx_split_delims', 'loop': 2, 'expect': 'while (ptr != end &&',
    'assigns': 'ptr',
    'invariants': ['__CPROVER_same_object(ptr, g_data0) && g_cur <= (size_t)__CPROVER_POINTER_OFFSET(ptr) && (size_t)__CPROVER_POINTER_OFFSET(ptr) <= g_n',
                   '(g_cur <= g_q && g_q < (size_t)__CPROVER_POINTER_OFFSET(ptr)) ==> !C19_CODEDELIM(g_data0[g_q])'],
    'decreases': 'g_n - (size_t)__CPROVER_POINTER_OFFSET(ptr)'},
 ],
 'fallback': 'ghost-free',
 'witness': {'unwind': 260},
 'trusted': ['strchr: contracts/c19_cxx_contracts.h (ISO C 7.24.5.2, membership in an abstract table)'],
} @*/
#include "c19_harness.h"
#include "c19_cxx_contracts.h"
size_t g_n, g_q, g_base, g_cur;
int g_lastdelim; /* the last byte of the buffer is a delimiter (the region of finding C19_split_delims_overread) */
/* the delimiter predicate of the code: what strchr(delims, .) says; the repaired code (KF == 0) does not count the NUL */
#define C19_CODEDELIM(c) (C19_ISDELIM(c) && ((c) != 0 || KF_C19_split_delims_nul != 0))
#include "cxx/igris_string_cxx.c"

/* the reference delimiter set: what delims says; the NUL only when the finding C19_split_delims_nul is carved out (KF == 1: what the code does) */
#define REFDELIM(c) (C19_ISDELIM(c) && ((c) != 0 || g_nul_in_delims || KF_C19_split_delims_nul == 1))
int g_nul_in_delims; /* never: a C string cannot hold its own terminator as a delimiter character */

void harness(void)
{
    WIT(size_t, n);
    WIT(size_t, t);
    WIT(size_t, q);
    WIT(size_t, DL);
    WIT_ARR(char, content, 7);
    WIT_ARR(char, dc, 4);
    WIT_ARR(uchar, table, 256);
    C19_BLOCK(data, n, content);
    C19_STRING(delims, DL, dc, 0);
#ifdef WITNESS_MODE
    /* small concrete run (natively strchr is the real one): the table is what delims says */
    for (int i = 0; i < 256; i++) g_isdelim[i] = 0;
    g_isdelim[0] = 1;
    for (size_t i = 0; i < DL && delims[i] != 0; i++) g_isdelim[(unsigned char)delims[i]] = 1;
    g_all_n = 0;
#else
    for (int i = 0; i < 256; i++) g_isdelim[i] = table[i];
    __CPROVER_assume(g_isdelim[0] != 0);
#endif
    /* known finding: `strchr(delims, *ptr) != NULL && ptr != end` reads *ptr first: a buffer that ends in a delimiter is over-read by one byte */
    __CPROVER_assume(KF_C19_split_delims_overread == 0 ? 1 : KF_C19_split_delims_overread == 1 ? !(n >= 1 && C19_ISDELIM(data[n - 1])) : (n >= 1 && C19_ISDELIM(data[n - 1])));
    /* known finding (probe only): a NUL at the ghost position */
    if (KF_C19_split_delims_nul == 2) __CPROVER_assume(q < n && data[q] == 0);
    g_data0 = data; g_n = n; g_t = t; g_q = q; g_nul_in_delims = 0;
    g_lastdelim = (n >= 1 && C19_ISDELIM(data[n - 1]));
    g_ntok = 0; g_ts = g_tl = g_ts1 = g_last_s = g_last_end = g_base = g_cur = 0; g_empty = 0;

    cxx_split_delims(data, n, delims);

    __CPROVER_assert(g_ntok <= n, "split(delims): at most one token per byte");
    if (g_ntok == 0) {
        __CPROVER_assert(!(q < n) || REFDELIM(data[q]), "split(delims): no token: the buffer holds delimiters only");
    } else {
        __CPROVER_assert(g_last_end <= n && (!(g_last_end <= q && q < n) || REFDELIM(data[q])), "split(delims): only delimiters behind the last token");
    }
    if (t < g_ntok) {
        __CPROVER_assert(g_tl >= 1 && g_ts <= n && g_tl <= n - g_ts, "split(delims): token t is not empty and lies inside the buffer");
        __CPROVER_assert(!(g_ts <= q && q < g_ts + g_tl) || !REFDELIM(data[q]), "split(delims): token t holds no delimiter");
        __CPROVER_assert(!(q == g_ts + g_tl && q < n) || REFDELIM(data[q]), "split(delims): token t is maximal: it ends at a delimiter or at the end of the buffer");
        if (t == 0)
            __CPROVER_assert(!(q < g_ts) || REFDELIM(data[q]), "split(delims): only delimiters before token 0");
        if (t + 1 < g_ntok) {
            __CPROVER_assert(g_ts + g_tl < g_ts1, "split(delims): token t+1 starts behind token t");
            __CPROVER_assert(!(g_ts + g_tl <= q && q < g_ts1) || REFDELIM(data[q]), "split(delims): only delimiters between token t and token t+1");
        } else {
            __CPROVER_assert(g_last_end == g_ts + g_tl, "split(delims): the last token recorded is token ntok-1");
        }
    }
#if KF_C19_split_delims_overread == 0 && KF_C19_split_delims_nul == 0
#ifdef WITNESS_MODE
    /* direct reference over the (small, concrete) buffer: maximal runs of non-delimiters, in order, compared with the WHOLE recorded
       sequence.  Depends on the recorder calls of the extracted code only, not on injected ghost statements: decides the bounded fallback run */
    {
        size_t rs[C19_REC_MAX], rl[C19_REC_MAX], rn = 0, pos = 0;
        while (pos < n) {
            while (pos < n && REFDELIM(data[pos])) pos++;
            if (pos == n) break;
            size_t s0 = pos;
            while (pos < n && !REFDELIM(data[pos])) pos++;
            if (rn < C19_REC_MAX) { rs[rn] = s0; rl[rn] = pos - s0; }
            rn++;
        }
        __CPROVER_assert(g_all_n == rn, "split(delims): number of tokens of the reference tokeniser (direct reference)");
        for (size_t i = 0; i < rn && i < g_all_n && i < C19_REC_MAX; i++)
            __CPROVER_assert(g_all_s[i] == rs[i] && g_all_l[i] == rl[i], "split(delims): token i is the i-th maximal run of non-delimiters (direct reference)");
    }
#endif
#endif
    CANARY("split(delims) end reachable");
}
