/*@unit {
 'kind': 'proof', 'mode': 'legacy',
 'functions': ['path_iterate', 'path_skip_slashes_and_single_dots', 'path_is_single_dot'],
 'include': ['/verif/units/C19/cxxshim'],
 'clauses': 'path_iterate(p): NULL for a NULL or empty path; a path that starts with a slash: that "slash node" is left by skipping separators and '
            'single-dot components; otherwise the current component is passed (its bytes hold no slash / NUL, it ends at one) and then separators and '
            'single-dot components are skipped; the result lies strictly behind p, at the start of the next real component or at the terminator; p may '
            'point anywhere into its string (symbolic start offset); reads only bytes of the string.  The asserted clause is C19_IT_POST of '
            'contracts/c19_path_contracts.h, the contract path_remove_prefix uses.',
 'kf': ['C19_path_single_dot_overread'],
 'inject': [{'file': 'igris/util/pathops.h', 'func': 'path_skip_slashes_and_single_dots', 'loop': 0, 'expect': 'while (*path ==',
             'assigns': 'path',
             'invariants': ['__CPROVER_same_object(path, g_p0)',
                            'C19_POFF(g_p0) <= C19_POFF(path) && C19_POFF(path) <= g_T',
                            '(C19_POFF(g_p0) <= g_it_k && g_it_k < C19_POFF(path)) ==> C19_PSKIP(g_base, g_it_k)'],
             'decreases': 'g_T - C19_POFF(path)'},
            {'file': 'igris/util/pathops.h', 'func': 'path_iterate', 'at': 'func-begin', 'ghost': 'g_it_mid = g_off0;'},
            {'file': 'igris/util/pathops.h', 'func': 'path_iterate', 'at': 'before', 'anchor': 'while (*path == \'/\' || path_is_single_dot(path))',
             'ghost': 'g_it_mid = (size_t)(path - g_base);'},
            {'file': 'igris/util/pathops.h', 'func': 'path_iterate', 'loop': 0, 'expect': 'while (*path && *path !=',
             'assigns': 'path',
             'invariants': ['__CPROVER_same_object(path, g_p0)',
                            'C19_POFF(g_p0) <= C19_POFF(path) && C19_POFF(path) <= g_T',
                            '(C19_POFF(g_p0) <= g_it_k && g_it_k < C19_POFF(path)) ==> !C19_PEND(g_base[g_it_k])'],
             'decreases': 'g_T - C19_POFF(path)'},
            {'file': 'igris/util/pathops.h', 'func': 'path_iterate', 'loop': 1, 'expect': 'while (*path ==',
             'assigns': 'path',
             'invariants': ['__CPROVER_same_object(path, g_p0)',
                            'g_it_mid <= C19_POFF(path) && C19_POFF(path) <= g_T',
                            '(g_it_mid <= g_it_k && g_it_k < C19_POFF(path)) ==> C19_PSKIP(g_base, g_it_k)'],
             'decreases': 'g_T - C19_POFF(path)'}],
 'fallback': 'ghost-free',
 'witness': {'unwind': 9},
} @*/
#include "c19_path_contracts.h"
#include "c19_path_ref.h"
size_t g_T, g_off0;          /* absolute offset of the terminator / of p */
const char *g_p0, *g_base;   /* p / start of its object */
#include <igris/util/pathops.h>

void harness(void)
{
    WIT(size_t, off);
    WIT(size_t, L);
    WIT(size_t, k);
    WIT_ARR(char, content, 9);
    g_path_spare = (KF_C19_path_single_dot_overread == 1);
    C19_PSTRING(p, off, L, content, (KF_C19_path_single_dot_overread == 1));
    g_T = off + L;
    g_off0 = off;
    g_p0 = p;
    g_base = p_base;
    g_it_k = k;

    __CPROVER_assert(path_iterate(NULL) == NULL, "path_iterate: NULL path gives NULL");

    const char *r = path_iterate(p);

#if !VC_FALLBACK
    __CPROVER_assert(C19_IT_POST(r, p), "path_iterate: contract clause C19_IT_POST (leave the current node, skip separators and single dots)");
    __CPROVER_assert(C19_IT_POST_LIGHT(r, p), "path_iterate: contract clause C19_IT_POST_LIGHT (NULL iff empty, strict progress inside the string, never stops on a slash)");
#endif
#if defined(WITNESS_MODE) && KF_C19_path_single_dot_overread == 0
    {
        size_t ri = c19_ref_iterate(p);
        __CPROVER_assert(ri == (size_t)-1 ? r == NULL : r == p + ri, "path_iterate: next node of the component-wise reference (direct reference)");
    }
#endif
    CANARY("path_iterate end reachable");
}
