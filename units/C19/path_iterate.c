/*@unit {
 'kind': 'proof', 'mode': 'legacy',
 'functions': ['path_iterate', 'path_skip_slashes_and_single_dots', 'path_is_single_dot'],
 'include': ['/verif/units/C19/cxxshim'],
 'clauses': 'path_iterate(p): NULL for a NULL or empty path; a path that starts with a slash: that "slash node" is left by skipping separators and '
            'single-dot components; otherwise the current component is passed (its bytes hold no slash / NUL, it ends at one) and then separators and '
            'single-dot components are skipped; the result is the start of the next real component or the terminator; reads only bytes of the string',
 'kf': ['C19_path_single_dot_overread'],
 'inject': [{'file': 'igris/util/pathops.h', 'func': 'path_skip_slashes_and_single_dots', 'at': 'func-begin', 'ghost': 'g_p1 = path;'},
            {'file': 'igris/util/pathops.h', 'func': 'path_skip_slashes_and_single_dots', 'loop': 0, 'expect': 'while (*path ==',
             'assigns': 'path',
             'invariants': ['__CPROVER_same_object(path, g_p0) && __CPROVER_POINTER_OFFSET(g_p0) == 0 && g_p1 == g_p0',
                            '0 <= __CPROVER_POINTER_OFFSET(path) && (size_t)__CPROVER_POINTER_OFFSET(path) <= g_L',
                            'g_k < (size_t)__CPROVER_POINTER_OFFSET(path) ==> C19_PSKIP(g_p0, g_k)'],
             'decreases': 'g_L - (size_t)__CPROVER_POINTER_OFFSET(path)'},
            {'file': 'igris/util/pathops.h', 'func': 'path_iterate', 'at': 'before', 'anchor': 'while (*path == \'/\' || path_is_single_dot(path))',
             'ghost': 'g_mid = C19_OFF(path, g_p0);'},
            {'file': 'igris/util/pathops.h', 'func': 'path_iterate', 'loop': 0, 'expect': 'while (*path && *path !=',
             'assigns': 'path',
             'invariants': ['__CPROVER_same_object(path, g_p0) && __CPROVER_POINTER_OFFSET(g_p0) == 0',
                            '0 <= __CPROVER_POINTER_OFFSET(path) && (size_t)__CPROVER_POINTER_OFFSET(path) <= g_L',
                            'g_k < (size_t)__CPROVER_POINTER_OFFSET(path) ==> !C19_PEND(g_p0[g_k])'],
             'decreases': 'g_L - (size_t)__CPROVER_POINTER_OFFSET(path)'},
            {'file': 'igris/util/pathops.h', 'func': 'path_iterate', 'loop': 1, 'expect': 'while (*path ==',
             'assigns': 'path',
             'invariants': ['__CPROVER_same_object(path, g_p0) && __CPROVER_POINTER_OFFSET(g_p0) == 0',
                            'g_mid <= (size_t)__CPROVER_POINTER_OFFSET(path) && (size_t)__CPROVER_POINTER_OFFSET(path) <= g_L',
                            '(g_mid <= g_k && g_k < (size_t)__CPROVER_POINTER_OFFSET(path)) ==> C19_PSKIP(g_p0, g_k)'],
             'decreases': 'g_L - (size_t)__CPROVER_POINTER_OFFSET(path)'}],
 'ghost_calls': ['C19_OFF'],
 'witness': {'unwind': 9},
} @*/
#include "c19_path.h"
size_t g_L, g_k, g_mid;
const char *g_p0, *g_p1;
#include <igris/util/pathops.h>

void harness(void)
{
    WIT(size_t, L);
    WIT(size_t, k);
    WIT_ARR(char, content, 8);
    C19_STRING(p, L, content, (KF_C19_path_single_dot_overread == 1));
    g_L = L;
    g_k = k;
    g_p0 = p;

    __CPROVER_assert(path_iterate(NULL) == NULL, "path_iterate: NULL path gives NULL");

    const char *r = path_iterate(p);

    if (p[0] == 0) {
        __CPROVER_assert(r == NULL, "path_iterate: empty path gives NULL");
    } else {
        __CPROVER_assert(r != NULL && __CPROVER_same_object(r, p) && r >= p && (size_t)(r - p) <= L, "path_iterate: result inside the string");
        size_t ro = (size_t)(r - p);
        /* end of the node that is left: the leading slash is a node of length 0 */
        size_t mid = p[0] == '/' ? 0 : g_mid;
        __CPROVER_assert(mid <= ro, "path_iterate: the node that is left ends before the result");
        __CPROVER_assert(!(k < mid) || !C19_PEND(p[k]), "path_iterate: the node that is left holds no slash and no NUL");
        __CPROVER_assert(C19_PEND(p[mid]), "path_iterate: the node that is left ends at a slash or at the terminator");
        __CPROVER_assert(!(mid <= k && k < ro) || C19_PSKIP(p, k), "path_iterate: everything between the node and the result is a slash or a single-dot component");
        __CPROVER_assert(p[ro] != '/' && !(p[ro] == '.' && C19_PEND(p[ro + 1])), "path_iterate: the result is the start of a real component or the terminator");
    }
    CANARY("path_iterate end reachable");
}
