/*@unit {
 'kind': 'proof', 'mode': 'legacy',
 'functions': ['path_skip_slashes_and_single_dots', 'path_is_single_dot'],
 'include': ['/verif/units/C19/cxxshim'],
 'clauses': 'path_skip_slashes_and_single_dots(p) returns the first position of the string that is neither a slash nor a component that is exactly "."; '
            'every byte before it is a slash or such a dot (each skipped dot is a whole component: it follows a slash or starts the string); '
            'the result is the start of a real component or the terminator; reads only bytes of the string, writes nothing',
 'kf': ['C19_path_single_dot_overread'],
 'inject': [{'file': 'igris/util/pathops.h', 'func': 'path_skip_slashes_and_single_dots', 'at': 'func-begin', 'ghost': 'g_p0 = path;'},
            {'file': 'igris/util/pathops.h', 'func': 'path_skip_slashes_and_single_dots', 'loop': 0, 'expect': 'while (*path ==',
             'assigns': 'path',
             'invariants': ['__CPROVER_same_object(path, g_p0) && __CPROVER_POINTER_OFFSET(g_p0) == 0',
                            '0 <= __CPROVER_POINTER_OFFSET(path) && (size_t)__CPROVER_POINTER_OFFSET(path) <= g_L',
                            'g_k < (size_t)__CPROVER_POINTER_OFFSET(path) ==> C19_PSKIP(g_p0, g_k)',
                            '(g_k >= 1 && g_k - 1 < (size_t)__CPROVER_POINTER_OFFSET(path)) ==> C19_PSKIP(g_p0, g_k - 1)'],
             'decreases': 'g_L - (size_t)__CPROVER_POINTER_OFFSET(path)'}],
 'witness': {'unwind': 9},
} @*/
#include "c19_path.h"
size_t g_L, g_k;
const char *g_p0;
#include <igris/util/pathops.h>

void harness(void)
{
    WIT(size_t, L);
    WIT(size_t, k);
    WIT_ARR(char, content, 8);
    /* known finding: the terminator is handed to path_is_single_dot, which reads the byte behind it;
       carved out by one readable spare byte (KF == 1), probed on the exact-size object (KF == 2) */
    C19_STRING(p, L, content, (KF_C19_path_single_dot_overread == 1));
    g_L = L;
    g_k = k;

    const char *r = path_skip_slashes_and_single_dots(p);

    __CPROVER_assert(__CPROVER_same_object(r, p) && r >= p && (size_t)(r - p) <= L, "path_skip: result inside the string");
    size_t ro = (size_t)(r - p);
    __CPROVER_assert(!(k < ro) || C19_PSKIP(p, k), "path_skip: every skipped byte is a slash or a single-dot component");
    __CPROVER_assert(!(k >= 1 && k < ro && p[k] == '.') || p[k - 1] == '/', "path_skip: a skipped dot is a whole component (follows a slash or starts the string)");
    __CPROVER_assert(p[ro] != '/' && !(p[ro] == '.' && C19_PEND(p[ro + 1])), "path_skip: stops at the start of a real component or at the terminator");
    CANARY("path_skip end reachable");
}
