/*@unit {
 'kind': 'proof', 'mode': 'legacy',
 'functions': ['replace_substrings'],
 'replace': ['igris_memmem', 'memcpy'],
 'include': ['/verif/units/C19/cxxshim'],
 'clauses': 'LENGTH part of the replace_substrings contract (the memory part alone is unit replace_substrings), for EVERY maxsize, sublen, replen (no carve-out): every memcpy and the final '
            'terminator store stay inside buffer[0..maxsize) (exact-size object; maxsize == 0: nothing is written) and inside input[0..inlen), sub, rep '
            '(exact-size, non-terminated); the scan stays inside the input and terminates; the result is truncated, never overflowed: the terminator '
            'is stored at min(L, maxsize - 1), where L is the length of the full substitution result (sum over the matches of gap + replen, plus the '
            'tail; counted in 128 bits); sublen == 0: no match, plain copy. '
            'The match structure (left-to-right, non-overlapping, first occurrence) is proved by the units replace_substrings_matches / '
            'replace_substrings_first, the copied CONTENT on igris::replace (same loop, units cxx_replace_*) and, for small sizes, natively by the '
            'reference comparison of the replay / bounded fallback run of this unit: legacy contract replacement havocs the whole buffer at each '
            'memcpy, dfcc does not finish on this loop.',
 'kf': ['C19_replace_substrings_maxsize'],
 'inject': [
   {'file': 'igris/string/replace_substrings.c', 'func': 'replace_substrings', 'at': 'func-begin', 'ghost': 'g_in0 = input; g_buf0 = buffer;'},
   {'file': 'igris/string/replace_substrings.c', 'func': 'replace_substrings', 'at': 'body-begin', 'loop': 0,
    'ghost': 'g_true += (c19_u128)(size_t)((const char *)finded - strit) + replen; g_nm++;'},
   {'file': 'igris/string/replace_substrings.c', 'func': 'replace_substrings', 'at': 'before', 'anchor': 'memcpy(bufit, strit, lastlen',
    'ghost': 'g_last = (size_t)(strit - g_in0); g_true += (c19_u128)(size_t)(streit - strit); g_outlen = (size_t)(bufit - g_buf0) + lastlen; g_done = 1;'},
   {'file': 'igris/string/replace_substrings.c', 'func': 'replace_substrings', 'loop': 0, 'expect': 'while (',
    'assigns': 'strit, bufit, finded, g_nm, g_true, g_mm_d, __CPROVER_object_whole(buffer)',
    'invariants': [
      '__CPROVER_same_object(strit, g_in0) && __CPROVER_POINTER_OFFSET(g_in0) == 0 && (size_t)__CPROVER_POINTER_OFFSET(strit) <= inlen && streit == g_in0 + inlen && input == g_in0',
      'maxsize >= 1 && __CPROVER_same_object(bufit, g_buf0) && __CPROVER_POINTER_OFFSET(g_buf0) == 0 && buffer == g_buf0 && bufend == g_buf0 + (maxsize - 1)',
      '(size_t)__CPROVER_POINTER_OFFSET(bufit) <= maxsize - 1',
      'g_nm <= (size_t)__CPROVER_POINTER_OFFSET(strit) && (g_nm == 0 ==> ((size_t)__CPROVER_POINTER_OFFSET(strit) == 0 && g_true == 0))',
      'g_true <= ((c19_u128)(size_t)__CPROVER_POINTER_OFFSET(strit) << 41)',
      '(c19_u128)(size_t)__CPROVER_POINTER_OFFSET(bufit) == C19_MIN128(g_true, (c19_u128)(maxsize - 1))',
    ],
    'decreases': 'inlen - (size_t)__CPROVER_POINTER_OFFSET(strit)'},
 ],
 'trusted': ['memcpy: contracts/libc_contracts.h (ISO C 7.24.2.1)'],
 'fallback': 'ghost-free',
 'witness': {'unwind': 12},
} @*/
#include "c19_harness.h"
#include "c19_libc.h"
#include "libc_contracts.h"
typedef unsigned __int128 c19_u128;
#define C19_MIN128(a, b) ((a) < (b) ? (a) : (b))
size_t g_nm;          /* out: number of matches */
c19_u128 g_true;      /* out: length of the full (untruncated) substitution result, so far */
size_t g_last;        /* out: search start of the final (failing) search */
size_t g_outlen;      /* out: offset at which the terminator is stored */
int g_done;           /* out: the tail copy was reached */
const char *g_in0;
char *g_buf0;
#ifdef REPLAY
#include "igris/string/memmem.c"      /* native runs call the real routine (under cbmc it is used through its contract) */
#endif
#include "igris/string/replace_substrings.c"

/* proof mode: inlen <= 2^38 (headroom for the 128-bit length sum); witness / fallback runs: the small-size bound itself */
#ifdef WITNESS_MODE
#define C19_RS_MAXIN VC_MAXOBJ
#else
#define C19_RS_MAXIN (VC_MAXOBJ / 4)
#endif
void harness(void)
{
    WIT(size_t, maxsize);
    WIT(size_t, inlen);
    WIT(size_t, sublen);
    WIT(size_t, replen);
    WIT_ARR(char, ci, 6);
    WIT_ARR(char, cs, 6);
    WIT_ARR(char, cr, 6);
    __CPROVER_assume(inlen <= C19_RS_MAXIN && maxsize <= VC_MAXOBJ && sublen <= VC_MAXOBJ && replen <= VC_MAXOBJ);
    /* finding C19_replace_substrings_maxsize (fixed): no restriction on maxsize any more; while the entry is open the carve-out of the
       before-fix unit applies (this file is the after-fix version: KF is 0) */
    C19_BLOCK(input, inlen, ci);
    C19_BLOCK(sub, sublen, cs);
    C19_BLOCK(rep, replen, cr);
    char *buffer = NEW_OBJ(maxsize);
    g_nm = 0; g_true = 0; g_last = g_outlen = 0; g_done = 0;
    g_mm_j = 0; g_mm_watch = NULL;
    g_memcpy_k = (size_t)-1; g_memcpy_v = 0;

    replace_substrings(buffer, maxsize, input, inlen, sub, sublen, rep, replen);

#if !VC_FALLBACK
    if (maxsize == 0) {
        __CPROVER_assert(!g_done && g_nm == 0, "replace_substrings: maxsize == 0: returns at once (nothing can be written: the buffer object is empty)");
    } else {
        __CPROVER_assert(g_done && g_last <= inlen && g_nm <= inlen, "replace_substrings: the scan ends inside the input");
        __CPROVER_assert(g_outlen <= maxsize - 1 && buffer[g_outlen] == 0, "replace_substrings: the terminator is stored inside the buffer");
        __CPROVER_assert((c19_u128)g_outlen == C19_MIN128(g_true, (c19_u128)(maxsize - 1)), "replace_substrings: truncated, not overflowed: the terminator is at min(full result length, maxsize - 1)");
        if (sublen == 0)
            __CPROVER_assert(g_nm == 0 && g_true == inlen, "replace_substrings: empty pattern: no match, plain copy");
    }
#endif
#ifdef WITNESS_MODE
    /* direct reference over the (small, concrete) operands: left-to-right non-overlapping substitution, truncated to maxsize - 1 bytes.
       It does not depend on the injected ghost statements, so it also decides the bounded fallback run.  The byte comparison runs natively
       only: under cbmc the memcpy calls are contracts that havoc the buffer */
    {
        char ref[64];
        size_t rl = 0, pos = 0;
        while (pos < inlen) {
            int hit = sublen >= 1 && sublen <= inlen - pos;
            for (size_t d = 0; hit && d < sublen; d++) hit = input[pos + d] == sub[d];
            if (hit) { for (size_t d = 0; d < replen && rl < 64; d++) ref[rl++] = rep[d]; pos += sublen; }
            else if (rl < 64) ref[rl++] = input[pos++];
            else pos++;
        }
        if (maxsize >= 1) {
            size_t el = rl < maxsize - 1 ? rl : maxsize - 1;
            __CPROVER_assert(buffer[el] == 0, "replace_substrings: terminator at min(reference length, maxsize - 1) (direct reference)");
#ifdef REPLAY
            int same = 1;
            for (size_t d = 0; d < el; d++) same = same && buffer[d] == ref[d];
            __CPROVER_assert(same, "replace_substrings: the output is the (truncated) reference substitution (direct reference, native)");
#endif
        }
    }
#endif
    CANARY("replace_substrings end reachable");
}
