/*@unit {
 'kind': 'proof', 'mode': 'legacy',
 'functions': ['replace_substrings'],
 'replace': ['igris_memmem', 'memcpy'],
 'include': ['/verif/units/C19/cxxshim'],
 'tier': 'thorough',
 'clauses': 'FIRST-OCCURRENCE part of the replace_substrings contract : sub does not occur at any position between the end of the previous match and match m, nor behind the last match (a differing byte is exhibited). The whole contract: replace_substrings(buffer, maxsize, input, inlen, sub, sublen, rep, replen) against the reference left-to-right non-overlapping substitution '
            '(match m = FIRST occurrence of sub in input at or behind the end of match m-1; the search for match 0 starts at 0): for every m: sub occurs at '
            'the recorded position p_m (byte for byte), it does not occur at any position between the end of the previous match and p_m (a differing byte '
            'is exhibited), the next search starts at p_m + sublen; behind the last match sub does not occur any more; sublen == 0: no match (plain copy); '
            'every memcpy and the final terminator store stay inside buffer[0..maxsize) (exact-size object), inside input[0..inlen), sub, rep (exact-size, '
            'non-terminated); the terminator is stored at the output length (sum of the copied gaps and replacements); terminates. '
            'After the fix of C19_replace_substrings_maxsize: every maxsize, sublen, replen. '
            'The copied CONTENT is checked on igris::replace (same loop, unit cxx_replace): legacy contract replacement havocs the whole buffer at each memcpy.',
 'kf': ['C19_replace_substrings_maxsize'],
 'inject': [
   {'file': 'igris/string/replace_substrings.c', 'func': 'replace_substrings', 'at': 'func-begin', 'ghost': 'g_in0 = input; g_buf0 = buffer;'},
   {'file': 'igris/string/replace_substrings.c', 'func': 'replace_substrings', 'at': 'body-begin', 'loop': 0,
    'ghost': 'if (g_nm == g_m) { g_prev = (size_t)(strit - g_in0); g_pm = (size_t)((const char *)finded - g_in0); if (g_prev <= g_w && g_w < g_pm) g_wd = g_mm_d; } if (g_nm == g_m + 1) g_prev1 = (size_t)(strit - g_in0); g_nm++;'},
   {'file': 'igris/string/replace_substrings.c', 'func': 'replace_substrings', 'at': 'before', 'anchor': 'memcpy(bufit, strit, lastlen',
    'ghost': 'g_last = (size_t)(strit - g_in0); if (g_last <= g_w) g_wd_last = g_mm_d; g_outlen = (size_t)(bufit - g_buf0) + lastlen; g_done = 1;'},
   {'file': 'igris/string/replace_substrings.c', 'func': 'replace_substrings', 'loop': 0, 'expect': 'while (',
    'assigns': 'strit, bufit, finded, g_nm, g_prev, g_pm, g_wd, g_prev1, g_mm_d, __CPROVER_object_whole(buffer)',
    'invariants': [
      '__CPROVER_same_object(strit, g_in0) && __CPROVER_POINTER_OFFSET(g_in0) == 0 && (size_t)__CPROVER_POINTER_OFFSET(strit) <= inlen && streit == g_in0 + inlen && input == g_in0',
      'maxsize >= 1 && __CPROVER_same_object(bufit, g_buf0) && __CPROVER_POINTER_OFFSET(g_buf0) == 0 && buffer == g_buf0 && bufend == g_buf0 + (maxsize - 1)',
      '(size_t)__CPROVER_POINTER_OFFSET(bufit) <= maxsize - 1',
      'g_nm <= (size_t)__CPROVER_POINTER_OFFSET(strit) && (g_nm == 0 ==> (size_t)__CPROVER_POINTER_OFFSET(strit) == 0)',
      'g_nm > g_m ==> (g_prev <= g_pm && C19_INSIDE(g_pm, sublen, (size_t)__CPROVER_POINTER_OFFSET(strit)) && sublen >= 1)',
      '(g_nm > g_m && g_prev <= g_w && g_w < g_pm && C19_INSIDE(g_pm, sublen, inlen)) ==> (g_wd < sublen && g_in0[g_w + g_wd] != sub[g_wd])',
    ],
    'decreases': 'inlen - (size_t)__CPROVER_POINTER_OFFSET(strit)'},
 ],
 'trusted': ['memcpy: contracts/libc_contracts.h (ISO C 7.24.2.1)'],
 'witness': {'unwind': 9},
} @*/
#include "c19_harness.h"
#include "c19_libc.h"
#include "libc_contracts.h"
/* [p, p + len) lies inside [0, n), without wrap-around */
#define C19_INSIDE(p, len, n) ((p) <= (n) && (len) <= (n) - (p))
size_t g_m, g_j, g_w;                 /* in: ghost match index, needle index, input position */
size_t g_nm;                          /* out: number of matches */
size_t g_prev, g_pm, g_prev1;         /* out: search start and position of match g_m; search start of match g_m + 1 */
size_t g_wd, g_wd_last;               /* out: differing index at position g_w (in front of match g_m / behind the last match) */
size_t g_last, g_outlen;              /* out: search start of the final (failing) search; output length */
int g_done;                           /* out: the tail copy was reached */
const char *g_in0;
char *g_buf0;
#ifdef REPLAY
#include "igris/string/memmem.c"      /* native runs call the real routine (under cbmc it is used through its contract) */
#endif
#include "igris/string/replace_substrings.c"

/* proof mode: inlen <= 2^38 (headroom for the 128-bit length sum); witness / fallback runs: the small-size bound itself */
#ifdef WITNESS_MODE
#define C19_RS_MAXIN VC_MAXOBJ
#else
#define C19_RS_MAXIN (VC_MAXOBJ / 4)
#endif
void harness(void)
{
    WIT(size_t, maxsize);
    WIT(size_t, inlen);
    WIT(size_t, sublen);
    WIT(size_t, replen);
    WIT(size_t, m);
    WIT(size_t, j);
    WIT(size_t, w);
    WIT_ARR(char, ci, 6);
    WIT_ARR(char, cs, 6);
    WIT_ARR(char, cr, 6);
    __CPROVER_assume(inlen <= C19_RS_MAXIN && maxsize <= VC_MAXOBJ);
    __CPROVER_assume(sublen <= VC_MAXOBJ && replen <= VC_MAXOBJ);
    /* finding C19_replace_substrings_maxsize is fixed: every maxsize (0 included), every sublen / replen */
    C19_BLOCK(input, inlen, ci);
    C19_BLOCK(sub, sublen, cs);
    C19_BLOCK(rep, replen, cr);
    char *buffer = NEW_OBJ(maxsize);
    g_m = m; g_j = j; g_w = w;
    g_nm = 0; g_prev = g_pm = g_prev1 = g_wd = g_wd_last = g_last = g_outlen = 0; g_done = 0;
    g_mm_j = j;
    g_mm_watch = (w <= inlen) ? input + w : NULL;
    g_memcpy_k = (size_t)-1; g_memcpy_v = 0;

    replace_substrings(buffer, maxsize, input, inlen, sub, sublen, rep, replen);

    if (maxsize == 0) { CANARY("replace_substrings maxsize == 0 reachable"); return; }
    __CPROVER_assert(g_done && g_last <= inlen && g_nm <= inlen, "replace_substrings: the scan ends inside the input");
    if (sublen == 0)
        __CPROVER_assert(g_nm == 0, "replace_substrings: empty pattern: no match");
    if (m < g_nm) {
        __CPROVER_assert(g_prev <= g_pm && C19_INSIDE(g_pm, sublen, inlen), "replace_substrings: match m lies at or behind its search start, inside the input");
        __CPROVER_assert(!(g_prev <= w && w < g_pm && C19_INSIDE(g_pm, sublen, inlen)) || (g_wd < sublen && input[w + g_wd] != sub[g_wd]), "replace_substrings: match m is the FIRST occurrence behind the previous match");
    }
    if (sublen >= 1 && sublen <= inlen)
        __CPROVER_assert(!(g_last <= w && w <= inlen - sublen) || (g_wd_last < sublen && input[w + g_wd_last] != sub[g_wd_last]), "replace_substrings: no occurrence behind the last match");
    CANARY("replace_substrings end reachable");
}
