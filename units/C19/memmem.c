/*@unit {
 'kind': 'proof', 'mode': 'legacy',
 'functions': ['igris_memmem'],
 'replace': ['memchr', 'memcmp'],
 'clauses': 'igris_memmem(l, l_len, s, s_len), s_len >= 1: the result is the FIRST position p <= l_len - s_len with l[p..p+s_len) == s[0..s_len), '
            'or NULL when there is none (for every earlier / every position a differing byte is exhibited); s_len == 0 or l_len < s_len: NULL '
            '(the routine documents "we need something to compare": the empty needle is reported as not found); reads only l[0..l_len) and '
            's[0..s_len) (exact-size, non-terminated objects), writes nothing. memchr and memcmp are used through their ISO contracts (contracts/c19_libc.h).',
 'inject': [{'file': 'igris/string/memmem.c', 'func': 'igris_memmem', 'loop': 0, 'expect': 'for (cur = (char *)cl;',
             'assigns': 'cur, g_memcmp_d',
             'invariants': ['__CPROVER_same_object(cur, cl) && __CPROVER_same_object(last, cl)',
                            '__CPROVER_POINTER_OFFSET(cl) == 0 && (size_t)__CPROVER_POINTER_OFFSET(last) == l_len - s_len && s_len >= 2 && s_len <= l_len',
                            '0 <= __CPROVER_POINTER_OFFSET(cur) && (size_t)__CPROVER_POINTER_OFFSET(cur) <= l_len - s_len + 1',
                            'g_p < (size_t)__CPROVER_POINTER_OFFSET(cur) ==> (cl[g_p] != cs[0] || (g_memcmp_d < s_len && cl[g_p + g_memcmp_d] != cs[g_memcmp_d]))'],
             'decreases': 'l_len - (size_t)__CPROVER_POINTER_OFFSET(cur)'}],
 'trusted': ['memchr, memcmp: ISO C 7.24 contracts in contracts/c19_libc.h (host libc on a hosted build; the bundled shim versions are proved by C08)'],
 'fallback': 'ghost-free',
 'witness': {'unwind': 8},
} @*/
#include "vc.h"
#include "c19_libc.h"
size_t g_p; /* ghost position: arbitrary, so a statement about position g_p is a statement about every position */
#include "igris/string/memmem.c"

#ifdef REPLAY
const char *__asan_default_options(void) { return "detect_leaks=0"; }
#endif

void harness(void)
{
    WIT(size_t, ln);
    WIT(size_t, sn);
    WIT(size_t, p);
    WIT(size_t, j);
    WIT_ARR(char, lc, 6);
    WIT_ARR(char, sc, 6);
    __CPROVER_assume(ln <= VC_MAXOBJ && sn <= VC_MAXOBJ);
    char *l = NEW_OBJ(ln);
    char *s = NEW_OBJ(sn);
    FILL(l, ln, lc);
    FILL(s, sn, sc);
    g_p = p;
    g_memchr_k = p;
    g_memcmp_k = j;
    g_memcmp_watch = (sn >= 1 && sn <= ln && p <= ln - sn) ? l + p : NULL;
    char l_p = p < ln ? l[p] : 0;

    char *r = igris_memmem(l, ln, s, sn);

    if (sn == 0 || ln < sn) {
        __CPROVER_assert(r == NULL, "memmem: empty needle / needle longer than haystack: NULL");
    } else {
        size_t lim; /* positions [0, lim) hold no occurrence */
        if (r) {
            __CPROVER_assert(__CPROVER_same_object(r, l) && r >= l && (size_t)(r - l) <= ln - sn, "memmem: result lies in l[0 .. l_len - s_len]");
            lim = (size_t)(r - l);
            __CPROVER_assert(!(j < sn) || r[j] == s[j], "memmem: the needle occurs at the result");
        } else {
            lim = ln - sn + 1;
        }
        if (p < lim) {
            size_t d = g_memcmp_d;
#ifdef WITNESS_MODE /* concretisation / native run: recompute the witness instead of trusting the ghost */
            for (d = 0; d < sn && l[p + d] == s[d]; d++) ;
#endif
            if (sn == 1)
                __CPROVER_assert(l_p != s[0], "memmem: no earlier occurrence (one-byte needle)");
            else
                __CPROVER_assert(l_p != s[0] || (d < sn && l[p + d] != s[d]), "memmem: no earlier occurrence: some byte differs at every earlier position");
        }
    }
#ifndef REPLAY
    /* the contract clause callers use (contracts/c19_libc.h): same facts, witness handed over in g_mm_d */
    g_mm_j = j;
    g_mm_watch = g_memcmp_watch;
    g_mm_d = (sn == 0 || sn == 1 || l_p != s[0]) ? 0 : g_memcmp_d;
    __CPROVER_assert(C19_MEMMEM_POST(r, l, ln, s, sn), "memmem: contract clause C19_MEMMEM_POST (first occurrence or NULL)");
#endif
#ifdef WITNESS_MODE
    /* direct reference: naive first-occurrence search (no ghost state) */
    {
        char *ref = NULL;
        if (sn >= 1 && sn <= ln)
            for (size_t pos = 0; pos + sn <= ln && ref == NULL; pos++) {
                int eq = 1;
                for (size_t d = 0; d < sn; d++) eq = eq && l[pos + d] == s[d];
                if (eq) ref = l + pos;
            }
        __CPROVER_assert(r == ref, "memmem: first occurrence or NULL (direct reference)");
    }
#endif
    CANARY("memmem harness end reachable");
}
