/*@unit {
 'kind': 'proof', 'mode': 'legacy',
 'functions': ['igris::split(const igris::buffer &, char)'],
 'extract': 'units/C19/string_extract.py',
 'clauses': 'igris::split(buffer, delim) (scanning code extracted mechanically, outvec.emplace_back(p, n) -> ghost token recorder) against the reference '
            'tokeniser: the recorded tokens are exactly the maximal runs of non-delimiter bytes, in order: token 0 is preceded by delimiters only, every '
            'token is non-empty, holds no delimiter and ends at a delimiter or at the end of the buffer, token t+1 is separated from token t by '
            'delimiters only, behind the last token there are delimiters only (no token at all: the buffer holds delimiters only); only bytes of the '
            'exact-size, non-terminated buffer are read (known finding C19_split_char_overread: the byte AT the end is read on every call)',
 'kf': ['C19_split_char_overread'],
 'inject': [
   {'file': 'overlay:cxx/igris_string_cxx.c', 'func': 'cxx_split_char', 'at': 'body-begin', 'loop': 0, 'ghost': 'g_base = (size_t)(ptr - g_data0);'},
   {'file': 'overlay:cxx/igris_string_cxx.c', 'func': 'cxx_split_char', 'at': 'before', 'anchor': 'if (ptr == end)', 'ghost': 'g_stop = (size_t)(ptr - g_data0);'},
   {'file': 'overlay:cxx/igris_string_cxx.c', 'func': 'cxx_split_char', 'at': 'after', 'anchor': 'strt = ptr;', 'ghost': 'g_cur = (size_t)(ptr - g_data0);'},
   {'file': 'overlay:cxx/igris_string_cxx.c', 'func': 'cxx_split_char', 'loop': 0, 'expect': 'while (true)',
    'assigns': 'ptr, strt, g_base, g_stop, g_cur, g_ntok, g_ts, g_tl, g_ts1, g_last_s, g_last_end, g_tq, g_tq1, g_last_q',
    'invariants': [
      '__CPROVER_same_object(ptr, g_data0) && __CPROVER_POINTER_OFFSET(g_data0) == 0 && (size_t)__CPROVER_POINTER_OFFSET(ptr) <= g_n && end == g_data0 + g_n',
      'g_ntok <= (size_t)__CPROVER_POINTER_OFFSET(ptr)',
      'g_ntok == 0 ? __CPROVER_POINTER_OFFSET(ptr) == 0 : (g_last_end == (size_t)__CPROVER_POINTER_OFFSET(ptr) && g_last_s < g_last_end)',
      'g_ntok > g_t ==> (g_tl >= 1 && g_ts <= g_n && g_tl <= g_n - g_ts && g_ts + g_tl <= (size_t)__CPROVER_POINTER_OFFSET(ptr))',
      '(g_ntok > g_t && g_ts <= g_q && g_q < g_n && g_q - g_ts < g_tl) ==> g_data0[g_q] != delim',
      '(g_ntok > g_t && g_q < g_n && g_q == g_ts + g_tl) ==> g_data0[g_q] == delim',
      '(g_ntok > g_t && g_t == 0 && g_q < g_ts && g_q < g_n) ==> g_data0[g_q] == delim',
      '(g_ntok > 0 && (size_t)__CPROVER_POINTER_OFFSET(ptr) < g_n) ==> *ptr == delim',
      '(g_ntok > g_t && g_ntok == g_t + 1) ==> (g_last_end == g_ts + g_tl && g_last_s == g_ts)',
      '(g_ntok > g_t && g_ntok > g_t + 1) ==> (g_ts + g_tl < g_ts1 && g_ts1 <= g_last_s)',
      '(g_ntok > g_t && g_ntok > g_t + 1 && g_ts + g_tl <= g_q && g_q < g_ts1 && g_q < g_n) ==> g_data0[g_q] == delim',
    ],
    'decreases': 'g_n - (size_t)__CPROVER_POINTER_OFFSET(ptr)'},
   {'file': 'overlay:cxx/igris_string_cxx.c', 'func': 'cxx_split_char', 'loop': 1, 'expect': 'while (',
    'assigns': 'ptr',
    'invariants': ['__CPROVER_same_object(ptr, g_data0) && g_base <= (size_t)__CPROVER_POINTER_OFFSET(ptr) && (size_t)__CPROVER_POINTER_OFFSET(ptr) <= g_n',
                   '(g_base <= g_q && g_q < (size_t)__CPROVER_POINTER_OFFSET(ptr)) ==> g_data0[g_q] == delim'],
    'decreases': 'g_n - (size_t)__CPROVER_POINTER_OFFSET(ptr)'},
   {'file': 'overlay:cxx/igris_string_cxx.c', 'func': 'cxx_split_char', 'loop': 2, 'expect': 'while (ptr != end && *ptr != delim',
    'assigns': 'ptr',
    'invariants': ['__CPROVER_same_object(ptr, g_data0) && g_cur <= (size_t)__CPROVER_POINTER_OFFSET(ptr) && (size_t)__CPROVER_POINTER_OFFSET(ptr) <= g_n',
                   '(g_cur <= g_q && g_q < (size_t)__CPROVER_POINTER_OFFSET(ptr)) ==> g_data0[g_q] != delim'],
    'decreases': 'g_n - (size_t)__CPROVER_POINTER_OFFSET(ptr)'},
 ],
 'fallback': 'ghost-free',
 'witness': {'unwind': 6},
} @*/
#include "c19_harness.h"
size_t g_n, g_q, g_base, g_stop, g_cur;
#include "cxx/igris_string_cxx.c"

#define C19_ISD_CHAR(c) ((c) == delim)
void harness(void)
{
    WIT(size_t, n);
    WIT(size_t, t);
    WIT(size_t, q);
    WIT(char, delim);
    WIT_ARR(char, content, 7);
    __CPROVER_assume(n <= VC_MAXOBJ);
#ifdef WITNESS_MODE
    __CPROVER_assume(n <= 4); /* concretisation / fallback runs: three nested scans, keep the unwinding small */
#endif
    /* known finding: `while (*ptr == delim)` has no end test: the byte AT the end of the buffer is read on every call (and the scan runs on
       when that byte is the delimiter).  Carved out by one readable spare byte that is not the delimiter (what a std::string's terminator
       is for delim != 0), probed on the exact-size buffer */
    size_t spare = (KF_C19_split_char_overread == 1);
    char *data = NEW_OBJ(n + spare);
    FILL(data, n + spare, content);
    if (spare) __CPROVER_assume(data[n] != delim);
    g_data0 = data; g_n = n; g_t = t; g_q = q;
#ifdef WITNESS_MODE
    g_all_n = 0;
#endif
    g_ntok = 0; g_ts = g_tl = g_ts1 = g_last_s = g_last_end = g_base = g_stop = g_cur = 0; g_empty = 0;

    cxx_split_char(data, n, delim);

#if !VC_FALLBACK
    __CPROVER_assert(g_stop == n && g_ntok <= n, "split(char): the scan ends at the end of the buffer");
#endif
    if (g_ntok == 0) {
        __CPROVER_assert(!(q < n) || data[q] == delim, "split(char): no token: the buffer holds delimiters only");
    } else {
        __CPROVER_assert(g_last_end <= n && (!(g_last_end <= q && q < n) || data[q] == delim), "split(char): only delimiters behind the last token");
    }
    if (t < g_ntok) {
        __CPROVER_assert(g_tl >= 1 && g_ts <= n && g_tl <= n - g_ts, "split(char): token t is not empty and lies inside the buffer");
        __CPROVER_assert(!(g_ts <= q && q < g_ts + g_tl) || data[q] != delim, "split(char): token t holds no delimiter");
        __CPROVER_assert(!(q == g_ts + g_tl && q < n) || data[q] == delim, "split(char): token t is maximal: it ends at a delimiter or at the end of the buffer");
        if (t == 0)
            __CPROVER_assert(!(q < g_ts) || data[q] == delim, "split(char): only delimiters before token 0");
        if (t + 1 < g_ntok) {
            __CPROVER_assert(g_ts + g_tl < g_ts1, "split(char): token t+1 starts behind token t");
            __CPROVER_assert(!(g_ts + g_tl <= q && q < g_ts1) || data[q] == delim, "split(char): only delimiters between token t and token t+1");
        } else {
            __CPROVER_assert(g_last_end == g_ts + g_tl, "split(char): the last token recorded is token ntok-1");
        }
    }
#ifdef WITNESS_MODE
    /* direct reference over the (small, concrete) buffer: maximal runs of non-delimiters, in order, compared with the WHOLE recorded
       sequence.  Depends on the recorder calls of the extracted code only, not on injected ghost statements: decides the bounded fallback run */
    {
        size_t rs[C19_REC_MAX], rl[C19_REC_MAX], rn = 0, pos = 0;
        while (pos < n) {
            while (pos < n && C19_ISD_CHAR(data[pos])) pos++;
            if (pos == n) break;
            size_t s0 = pos;
            while (pos < n && !C19_ISD_CHAR(data[pos])) pos++;
            if (rn < C19_REC_MAX) { rs[rn] = s0; rl[rn] = pos - s0; }
            rn++;
        }
        __CPROVER_assert(g_all_n == rn, "split(char): number of tokens of the reference tokeniser (direct reference)");
        for (size_t i = 0; i < rn && i < g_all_n && i < C19_REC_MAX; i++)
            __CPROVER_assert(g_all_s[i] == rs[i] && g_all_l[i] == rl[i], "split(char): token i is the i-th maximal run of non-delimiters (direct reference)");
    }
#endif
    CANARY("split(char) end reachable");
}
