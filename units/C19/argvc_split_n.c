/*@unit {
 'kind': 'proof', 'mode': 'legacy',
 'bound': 'argcmax in {0, 1, 2, 3} (case split; the argument loop is a backward goto, which cannot carry a loop contract: it is unwound argcmax + 1 times); the buffer length maxlen and the content are unbounded',
 'functions': ['argvc_internal_split_n'],
 'params': {'ARGCMAX': [0, 1, 3]},
 'params_thorough': {'ARGCMAX': [0, 1, 2, 3]},
 'unwindset': ['argvc_internal_split_n.2:5'],
 'complete_unwinding': 'the goto loop newarg_search is taken at most argcmax times (every round stores one argv slot and the round with argc == argcmax returns): unwound 5 times for argcmax <= 3, with unwinding assertion',
 'clauses': 'argvc_internal_split_n(data, maxlen, argv, argcmax) against the reference white-space tokeniser (spec/c19_tok.h) on data[0..maxlen), NOT '
            'NUL-terminated, exact size: 0 <= argc <= argcmax; argv[k] = start of the k-th maximal non-blank run (token 0 preceded by blanks only, '
            'tokens maximal, consecutive tokens separated by blanks only, argc < argcmax: only blanks behind the last token); a terminator is written '
            'exactly over the blank that ends a token and only inside data[0..maxlen); nothing is read or written at or beyond data + maxlen (known '
            'finding C19_argvc_split_n_overread); a NUL ends the scan (known finding C19_argvc_split_n_nul: it is skipped like a blank)',
 'kf': ['C19_argvc_split_n_overread', 'C19_argvc_split_n_nul'],
 'kf_probe_case': {'C19_argvc_split_n_overread': {'ARGCMAX': 1}, 'C19_argvc_split_n_nul': {'ARGCMAX': 3}},
 'inject': [
   {'file': 'igris/datastruct/argvc.h', 'func': 'argvc_internal_split_n', 'at': 'func-begin', 'ghost': 'g_d0 = data;'},
   {'file': 'igris/datastruct/argvc.h', 'func': 'argvc_internal_split_n', 'at': 'after', 'anchor': 'newarg_search:',
    'ghost': 'g_base = C19_OFF(data, g_d0);'},
   {'file': 'igris/datastruct/argvc.h', 'func': 'argvc_internal_split_n', 'at': 'before', 'anchor': 'if (data == eptr',
    'ghost': 'g_stop = C19_OFF(data, g_d0);'},
   {'file': 'igris/datastruct/argvc.h', 'func': 'argvc_internal_split_n', 'at': 'after', 'anchor': 'argv[argc++] = data;',
    'ghost': 'if ((size_t)(argc - 1) == g_k) g_sk = C19_OFF(data, g_d0); if (g_k != (size_t)-1 && (size_t)(argc - 1) == g_k + 1) g_sk1 = C19_OFF(data, g_d0); g_cur_s = C19_OFF(data, g_d0);'},
   {'file': 'igris/datastruct/argvc.h', 'func': 'argvc_internal_split_n', 'at': 'before', 'anchor': 'if (data != eptr',
    'ghost': 'if ((size_t)(argc - 1) == g_k) g_ek = C19_OFF(data, g_d0); g_last_e = C19_OFF(data, g_d0); g_stop = C19_OFF(data, g_d0);'},
   {'file': 'igris/datastruct/argvc.h', 'func': 'argvc_internal_split_n', 'loop': 0, 'expect': 'while (',
    'assigns': 'data',
    'invariants': ['__CPROVER_same_object(data, g_d0) && __CPROVER_POINTER_OFFSET(g_d0) == 0 && g_base <= (size_t)__CPROVER_POINTER_OFFSET(data) && (size_t)__CPROVER_POINTER_OFFSET(data) <= g_n && eptr == g_d0 + g_n',
                   '(g_base <= g_q && g_q < (size_t)__CPROVER_POINTER_OFFSET(data)) ==> C19_BLANKN(g_d0[g_q])'],
    'decreases': 'g_n - (size_t)__CPROVER_POINTER_OFFSET(data)'},
   {'file': 'igris/datastruct/argvc.h', 'func': 'argvc_internal_split_n', 'loop': 1, 'expect': 'while (',
    'assigns': 'data',
    'invariants': ['__CPROVER_same_object(data, g_d0) && g_cur_s <= (size_t)__CPROVER_POINTER_OFFSET(data) && (size_t)__CPROVER_POINTER_OFFSET(data) <= g_n && eptr == g_d0 + g_n',
                   '(g_cur_s <= g_q && g_q < (size_t)__CPROVER_POINTER_OFFSET(data)) ==> (!C19_BLANKN(g_d0[g_q]) && !C19_ENDN(g_d0[g_q]))'],
    'decreases': 'g_n - (size_t)__CPROVER_POINTER_OFFSET(data)'},
 ],
 'ghost_calls': ['C19_OFF'],
 'trusted': ['strchr on the constant string " \\r\\n\\t": cbmc library model (the loop over the 5-byte literal is unwound by constant propagation)'],
 'fallback': 'ghost-free',
 'witness': {'unwind': 12},
} @*/
#include "c19_tok.h"
size_t g_n;            /* maxlen */
char *g_d0;
/* what the scanner treats as blank: white space, and the NUL while finding C19_argvc_split_n_nul is open (KF == 1: what the code does) */
#define C19_BLANKN(c) (C19_WS(c) || ((c) == 0 && KF_C19_argvc_split_n_nul == 1))
/* what ends the input besides maxlen: the NUL, unless it is (wrongly) a blank */
#define C19_ENDN(c) ((c) == 0 && KF_C19_argvc_split_n_nul != 1)
#include <igris/datastruct/argvc.h>

void harness(void)
{
    WIT(int, maxlen);
    WIT(size_t, k);
    WIT(size_t, q);
    WIT_ARR(char, content, 8);
    __CPROVER_assume(0 <= maxlen && maxlen <= VC_MAXN);
    size_t n = (size_t)maxlen;
    /* known finding: *data is tested before data != eptr: the byte AT data + maxlen is read whenever the scan reaches the end, a blank / NUL
       there is overwritten and the scan then runs on.  Carved out by one readable spare byte that is neither blank nor NUL behind the
       buffer (KF == 1), probed on the exact-size buffer (KF == 2) */
    size_t spare = (KF_C19_argvc_split_n_overread == 1);
    char *data = NEW_OBJ(n + spare);
    FILL(data, n + spare, content);
    if (spare) __CPROVER_assume(!C19_WS(data[n]) && data[n] != 0);
    /* known finding (probe only): a NUL at the ghost position */
    if (KF_C19_argvc_split_n_nul == 2) __CPROVER_assume(q < n && data[q] == 0);
    char *argv[ARGCMAX + 1];
    char *guard = (char *)&argv; /* arbitrary distinct value */
    argv[ARGCMAX] = guard;
    g_n = n; g_k = k; g_q = q;
    g_vq = q < n ? data[q] : 0;
    g_sk = g_ek = g_sk1 = g_stop = g_last_e = g_cur_s = g_base = 0;

#ifdef WITNESS_MODE
    char orig[8];
    for (size_t i = 0; i < n && i < 8; i++) orig[i] = data[i];
#endif

    int argc = argvc_internal_split_n(data, maxlen, argv, ARGCMAX);

#if defined(WITNESS_MODE) && KF_C19_argvc_split_n_overread == 0 && KF_C19_argvc_split_n_nul == 0
    /* direct reference tokeniser over the (small, concrete) buffer: does not depend on the injected ghost statements, so it also decides
       the bounded fallback run when the statements they are anchored to have been rewritten */
    {
        char expect[8];
        size_t start[ARGCMAX + 1];
        int rc = 0;
        size_t pos = 0;
        for (size_t i = 0; i < n && i < 8; i++) expect[i] = orig[i];
        while (1) {
            while (pos < n && orig[pos] != 0 && C19_WS(orig[pos])) pos++;
            if (pos == n || orig[pos] == 0 || rc >= ARGCMAX) break;
            start[rc++] = pos;
            while (pos < n && orig[pos] != 0 && !C19_WS(orig[pos])) pos++;
            if (pos == n || orig[pos] == 0) break;
            expect[pos++] = 0;
        }
        __CPROVER_assert(argc == rc, "split_n: argc of the reference tokeniser (direct reference)");
        for (int i = 0; i < rc && i < argc; i++)
            __CPROVER_assert(argv[i] == data + start[i], "split_n: argv[i] = start of the i-th maximal non-blank run (direct reference)");
        for (size_t i = 0; i < n && i < 8; i++)
            __CPROVER_assert(data[i] == expect[i], "split_n: terminators exactly over the blanks that end a token (direct reference)");
    }
#endif
#if !VC_FALLBACK

    char cur_q = q < n ? data[q] : 0;
    C19_TOK_CHECKS(argc, ARGCMAX, cur_q, C19_BLANKN, C19_ENDN);
    __CPROVER_assert(argv[ARGCMAX] == guard, "split_n: no argv slot beyond argcmax is written");
    if (argc > 0 && k < (size_t)argc)
        __CPROVER_assert(argv[k] == data + g_sk && g_ek <= n, "split_n: argv[k] points at the start of token k, the token ends inside the buffer");
    __CPROVER_assert(g_stop <= n && (!(q < g_stop) || !C19_ENDN(g_vq)), "split_n: the scan stays inside data[0..maxlen) and passes no end marker");
    if (argc < ARGCMAX) {
        __CPROVER_assert(g_stop == n || (q != g_stop) || C19_ENDN(g_vq), "split_n: fewer than argcmax tokens: the scan reached the end of the buffer or an end marker");
        if (argc == 0)
            __CPROVER_assert(!(q < g_stop) || (C19_BLANKN(g_vq) && cur_q == g_vq), "split_n: argc == 0: blanks only, left untouched");
        else if (k + 1 == (size_t)argc)
            __CPROVER_assert(!(g_ek < q && q < g_stop) || (C19_BLANKN(g_vq) && cur_q == g_vq), "split_n: only blanks behind the last token, left untouched");
    }
    __CPROVER_assert(!(q < n && q >= g_stop) || cur_q == g_vq, "split_n: nothing is written at or behind the stop position");
    __CPROVER_assert(!(q < n) || cur_q == g_vq || (cur_q == 0 && C19_BLANKN(g_vq)), "split_n: terminators are written only over blanks, inside the buffer");
    if (spare) __CPROVER_assert(!C19_WS(data[n]) && data[n] != 0, "split_n: the byte behind the buffer is not written");
#endif /* !VC_FALLBACK */
    CANARY("argvc_internal_split_n end reachable");
}
