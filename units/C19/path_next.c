/*@unit {
 'kind': 'proof', 'mode': 'legacy',
 'functions': ['path_next', 'path_is_single_dot'],
 'include': ['/verif/units/C19/cxxshim'],
 'clauses': 'path_next(p, &len): NULL for a NULL path; otherwise separators and single-dot components are skipped (every skipped byte is one); '
            'NULL iff the terminator is reached; else the result is the start of the next real component and, when p_len is given, *p_len is its length '
            '(bytes up to the next slash / terminator, none of them a slash or NUL; as unsigned int); reads only bytes of the string, writes only *p_len',
 'kf': ['C19_path_single_dot_overread'],
 'inject': [{'file': 'igris/util/pathops.h', 'func': 'path_next', 'at': 'func-begin', 'ghost': 'g_p0 = path;'},
            {'file': 'igris/util/pathops.h', 'func': 'path_next', 'at': 'before', 'anchor': 'if (!*path)', 'ghost': 'g_s = C19_OFF(path, g_p0);'},
            {'file': 'igris/util/pathops.h', 'func': 'path_next', 'loop': 0, 'expect': 'while (*path ==',
             'assigns': 'path',
             'invariants': ['__CPROVER_same_object(path, g_p0) && __CPROVER_POINTER_OFFSET(g_p0) == 0',
                            '0 <= __CPROVER_POINTER_OFFSET(path) && (size_t)__CPROVER_POINTER_OFFSET(path) <= g_L',
                            'g_k < (size_t)__CPROVER_POINTER_OFFSET(path) ==> C19_PSKIP(g_p0, g_k)'],
             'decreases': 'g_L - (size_t)__CPROVER_POINTER_OFFSET(path)'},
            {'file': 'igris/util/pathops.h', 'func': 'path_next', 'loop': 1, 'expect': 'while (*end',
             'assigns': 'end',
             'invariants': ['__CPROVER_same_object(end, g_p0)',
                            '(size_t)__CPROVER_POINTER_OFFSET(path) <= (size_t)__CPROVER_POINTER_OFFSET(end) && (size_t)__CPROVER_POINTER_OFFSET(end) <= g_L',
                            '((size_t)__CPROVER_POINTER_OFFSET(path) <= g_k && g_k < (size_t)__CPROVER_POINTER_OFFSET(end)) ==> !C19_PEND(g_p0[g_k])'],
             'decreases': 'g_L - (size_t)__CPROVER_POINTER_OFFSET(end)'}],
 'ghost_calls': ['C19_OFF'],
 'fallback': 'ghost-free',
 'witness': {'unwind': 9},
} @*/
#include "c19_path.h"
#include "c19_path_ref.h"
size_t g_L, g_k, g_s;
const char *g_p0;
#include <igris/util/pathops.h>

void harness(void)
{
    WIT(size_t, L);
    WIT(size_t, k);
    WIT(int, with_len);
    WIT_ARR(char, content, 8);
    C19_STRING(p, L, content, (KF_C19_path_single_dot_overread == 1));
    g_L = L;
    g_k = k;
    unsigned int len = 0xDEAD;

    __CPROVER_assert(path_next(NULL, &len) == NULL && len == 0xDEAD, "path_next: NULL path gives NULL, *p_len untouched");

    const char *r = path_next(p, with_len ? &len : NULL);

#if !VC_FALLBACK
    /* g_s: position where the skipping stopped (ghost output) */
    __CPROVER_assert(g_s <= L, "path_next: skipping stops inside the string");
    __CPROVER_assert(!(k < g_s) || C19_PSKIP(p, k), "path_next: every skipped byte is a slash or a single-dot component");
    __CPROVER_assert(p[g_s] != '/' && !(p[g_s] == '.' && C19_PEND(p[g_s + 1])), "path_next: skipping stops at a real component or the terminator");
    if (p[g_s] == 0) {
        __CPROVER_assert(r == NULL && len == 0xDEAD, "path_next: no further component: NULL, *p_len untouched");
    } else {
        __CPROVER_assert(r == p + g_s, "path_next: result is the start of the next component");
        if (with_len) {
            /* the component is p[g_s .. e): e is determined by len modulo 2^32 (p_len is an unsigned int) */
            size_t e = g_s + len;
            __CPROVER_assert(L - g_s > 0xFFFFFFFFu || (e <= L && C19_PEND(p[e])), "path_next: *p_len reaches a slash or the terminator");
            __CPROVER_assert(L - g_s > 0xFFFFFFFFu || !(g_s <= k && k < e) || !C19_PEND(p[k]), "path_next: no slash or NUL inside the component");
        } else {
            __CPROVER_assert(len == 0xDEAD, "path_next: nothing written without p_len");
        }
    }
#endif
#if defined(WITNESS_MODE) && KF_C19_path_single_dot_overread == 0
    /* direct reference (no ghost state): skip slashes / single dots, then the component up to the next slash / NUL */
    {
        size_t s = c19_ref_skip(p, 0);
        if (p[s] == 0)
            __CPROVER_assert(r == NULL && len == 0xDEAD, "path_next: NULL when only separators / single dots are left (direct reference)");
        else
            __CPROVER_assert(r == p + s && (with_len ? len == (unsigned int)c19_ref_complen(p, s) : len == 0xDEAD), "path_next: start and length of the next component (direct reference)");
    }
#endif
    CANARY("path_next end reachable");
}
