/*@unit {
 'kind': 'bounded', 'mode': 'plain',
 'bound': 'strings of length <= 7 (all contents): exhaustive for these lengths',
 'functions': ['path_is_simple'],
 'include': ['/verif/units/C19/cxxshim'],
 'unwind': 10,
 'clauses': 'bounded stand-in for the clause the proof unit path_is_simple cannot state (no witness for "a slash exists" can be recorded): '
            'path_is_simple(p) == (no slash before the first NUL), both directions, for every string of length <= 7',
 'witness': {'unwind': 10},
} @*/
#include "c19_harness.h"
#include <igris/util/pathops.h>

void harness(void)
{
    WIT(size_t, L);
    WIT_ARR(char, content, 8);
    __CPROVER_assume(L <= 7);
    char *p = NEW_OBJ(L + 1);
    for (size_t i = 0; i <= L; i++) p[i] = content[i];
    __CPROVER_assume(p[L] == 0);

    int ref = 1;
    for (size_t i = 0; i <= L && p[i] != 0; i++)
        if (p[i] == '/') ref = 0;

    __CPROVER_assert((path_is_simple(p) != 0) == ref, "path_is_simple (bounded): true iff no slash before the first NUL");
    CANARY("path_bounded end reachable");
}
