/*@unit {
 'kind': 'proof', 'mode': 'legacy',
 'functions': ['argvc_length_of_first'],
 'clauses': 'argvc_length_of_first(str) = length of the first word: the index of the first space or NUL of the string; every byte before it is '
            'neither; reads only up to and including that byte (the string object ends at its terminator), writes nothing',
 'inject': [{'file': 'igris/datastruct/argvc.h', 'func': 'argvc_length_of_first', 'loop': 0, 'expect': 'while (*str',
             'assigns': 'str',
             'invariants': ['__CPROVER_same_object(str, strt) && __CPROVER_POINTER_OFFSET(strt) == 0',
                            '0 <= __CPROVER_POINTER_OFFSET(str) && (size_t)__CPROVER_POINTER_OFFSET(str) <= g_L',
                            'g_k < (size_t)__CPROVER_POINTER_OFFSET(str) ==> (strt[g_k] != 0 && strt[g_k] != 32)'],
             'decreases': 'g_L - (size_t)__CPROVER_POINTER_OFFSET(str)'}],
 'witness': {'unwind': 9},
} @*/
#include "c19_harness.h"
size_t g_L, g_k;
#include <igris/datastruct/argvc.h>

void harness(void)
{
    WIT(size_t, L);
    WIT(size_t, k);
    WIT_ARR(char, content, 7);
    C19_STRING(s, L, content, 0);
    g_L = L;
    g_k = k;
    char s_k = k <= L ? s[k] : 0;

    ptrdiff_t r = argvc_length_of_first(s);

    __CPROVER_assert(r >= 0 && (size_t)r <= L, "length_of_first: result inside the string");
    __CPROVER_assert(s[r] == ' ' || s[r] == 0, "length_of_first: the word ends at a space or at the terminator");
    __CPROVER_assert(!(k < (size_t)r) || (s_k != ' ' && s_k != 0), "length_of_first: no space or NUL inside the word");
    __CPROVER_assert(!(k <= L) || s[k] == s_k, "length_of_first: string not modified");
    CANARY("length_of_first end reachable");
}
