/*@unit {
 'kind': 'proof', 'mode': 'dfcc',
 'bound': 'at most 2 command tables (+ NULL) of NA resp. NB <= 2 commands (+ sentinel), table sizes swept over constants (quick: (1,1); thorough: all 9); the command line is unbounded (the splitter is used through its contract)',
 'functions': ['mshell_tables_execute'],
 'replace': ['argvc_internal_split', 'strcmp'],
 'unwindset': ['mshell_tables_execute.0:4', 'mshell_tables_execute.1:4'],
 'complete_unwinding': 'table-list loop: at most 3 rounds for 2 tables; command loop: at most 3 rounds for 2 commands; unwound 4 times each with unwinding assertions',
 'clauses': 'mshell_tables_execute(str, tables, retptr): as mshell_execute over the concatenation of the tables, in order: empty line: ENOENT, nothing '
            'called; the handler invoked is the func of the FIRST entry (table order, then entry order) whose name strcmp-equals argv[0], once, with the '
            'argc / argv of the tokeniser; SSHELL_OK and *retptr = handler value; no match: ENOENT; blank line: must not touch argv[0] (known finding)',
 'kf': ['C19_shell_blank_line'],
 'inject': [
   {'file': 'igris/shell/mshell.c', 'func': 'mshell_tables_execute', 'at': 'after', 'anchor': 'argc = argvc_internal_split(str, argv, SSHELL_ARGCMAX);',
    'ghost': 'g_kf_blank(KF_C19_shell_blank_line, argc);'},
   {'file': 'igris/shell/mshell.c', 'func': 'mshell_tables_execute', 'at': 'before', 'anchor': 'res = it->func(argc, argv);',
    'ghost': 'g_inv_idx = (int)(it - *tit); g_inv_tab = (int)(tit - tables);'},
 ],
 'defines': ['C19_NT=2'],
 'params': {'NA': [1], 'NB': [1]},
 'kf_probe_case': {'C19_shell_blank_line': {'NA': 1, 'NB': 1}},
 'params_thorough': {'NA': [0, 1, 2], 'NB': [0, 1, 2]},
 'trusted': ['strcmp: contracts/c19_libc.h (result observed, string equality abstract)', 'handler stubs of spec/c19_shell.h stand for arbitrary command handlers that do not touch the dispatcher state'],
 'witness': {'unwind': 12},
} @*/
#include "c19_shell.h"
#include "igris/shell/mshell.c"

void harness(void)
{
    WIT(size_t, L);
    WIT(int, ntab);
    int na = NA, nb = NB; /* table sizes: swept over constants (params), the formula with symbolic sizes is too large for the back end */
    WIT(int, tt);
    WIT(int, t);
    WIT(size_t, k);
    WIT(int, with_ret);
    WIT(int, hres);
    WIT_ARR(char, content, 8);
    C19_STRING(str, L, content, 0);
    WIT_ARR(char, c00, 2); WIT_ARR(char, c01, 2); WIT_ARR(char, c10, 2); WIT_ARR(char, c11, 2);
    C19_NAME(n00, c00);
    C19_NAME(n01, c01);
    C19_NAME(n10, c10);
    C19_NAME(n11, c11);
    __CPROVER_assume(0 <= ntab && ntab <= 2 && 0 <= na && na <= 2 && 0 <= nb && nb <= 2);
    /* exact-size tables (NA / NB commands + sentinel): stepping over the sentinel leaves the object */
    struct mshell_command ta[NA + 1], tb[NB + 1];
    if (NA >= 1) ta[0] = (struct mshell_command){n00, c19_mh_1, NULL};
    if (NA >= 2) ta[1] = (struct mshell_command){n01, c19_mh_1, NULL};
    ta[NA] = (struct mshell_command){NULL, NULL, NULL};
    if (NB >= 1) tb[0] = (struct mshell_command){n10, c19_mh_2, NULL};
    if (NB >= 2) tb[1] = (struct mshell_command){n11, c19_mh_2, NULL};
    tb[NB] = (struct mshell_command){NULL, NULL, NULL};
    const struct mshell_command *tables[3] = {ta, tb, NULL};
    tables[ntab] = NULL;
    C19_GHOST_RESET();
    g_sp_k = k;
    g_h_k = k;
    g_h_res = hres;
    /* ghost entry (tt, t) */
    int t_valid = 0 <= tt && tt < ntab && 0 <= t && t < (tt == 0 ? na : nb);
    g_strcmp_watch = t_valid ? (tt == 0 ? ta[t].name : tb[t].name) : NULL;
    int ret = 0x5A5A;
    int line_empty = str[0] == 0;

    int r = mshell_tables_execute(str, tables, with_ret ? &ret : NULL);

    __CPROVER_assert(g_h_calls <= 1, "mshell_tables_execute: at most one handler runs");
    if (line_empty) {
        __CPROVER_assert(r == ENOENT && g_sp_calls == 0 && g_strcmp_calls == 0 && g_h_calls == 0 && ret == 0x5A5A, "mshell_tables_execute: empty line: ENOENT, nothing else happens");
    } else {
        __CPROVER_assert(g_sp_calls == 1, "mshell_tables_execute: the line is tokenised exactly once");
        if (g_sp_ret == 0) {
            __CPROVER_assert(g_strcmp_calls == 0 && g_h_calls == 0 && r == ENOENT && ret == 0x5A5A, "mshell_tables_execute: blank line: ENOENT without looking at argv[0]");
        } else if (g_h_calls == 1) {
            __CPROVER_assert(0 <= g_inv_tab && g_inv_tab < ntab && 0 <= g_inv_idx && g_inv_idx < (g_inv_tab == 0 ? na : nb), "mshell_tables_execute: the handler belongs to an entry in front of the sentinels");
            __CPROVER_assert(g_h_which == (g_inv_tab == 0 ? 1 : 2), "mshell_tables_execute: the func of that entry is what runs (first table: stub 1, second table: stub 2)");
            int earlier = t_valid && (tt < g_inv_tab || (tt == g_inv_tab && t < g_inv_idx));
            __CPROVER_assert(!earlier || (g_strcmp_seen && g_strcmp_res != 0), "mshell_tables_execute: no earlier entry names the first token");
            __CPROVER_assert(!(t_valid && tt == g_inv_tab && t == g_inv_idx) || (g_strcmp_seen && g_strcmp_res == 0), "mshell_tables_execute: the entry names the first token (strcmp == 0)");
            __CPROVER_assert(g_h_argc == g_sp_ret, "mshell_tables_execute: the handler gets the argc of the tokeniser");
            __CPROVER_assert(!(k < (size_t)g_sp_ret) || g_h_argvk == g_sp_vk, "mshell_tables_execute: the handler gets the argv of the tokeniser");
            __CPROVER_assert(r == SSHELL_OK && (with_ret ? ret == hres : ret == 0x5A5A), "mshell_tables_execute: SSHELL_OK, handler value stored through retptr when given");
        } else {
            __CPROVER_assert(!t_valid || (g_strcmp_seen && g_strcmp_res != 0), "mshell_tables_execute: no handler ran: no entry names the first token");
            __CPROVER_assert(r == ENOENT && ret == 0x5A5A, "mshell_tables_execute: unknown command: ENOENT, *retptr untouched");
        }
    }
    CANARY("mshell_tables_execute end reachable");
}
