/*@unit {
 'kind': 'proof', 'mode': 'legacy',
 'functions': ['igris::trim'],
 'extract': 'units/C19/string_extract.py',
 'clauses': 'igris::trim(buffer) (scanning code extracted mechanically, `return std::string(p, n)` / `return ""` -> ghost recorder): exactly the leading and '
            'trailing white space (space, LF, CR, TAB) is removed: the result is the empty string iff the buffer is empty or all white space; otherwise it '
            'is the slice [s, s + l) with l >= 1, every byte before s and every byte from s + l on is white space, the bytes at s and at s + l - 1 are '
            'not; only bytes of the exact-size, non-terminated buffer are read',
 'inject': [
   {'file': 'overlay:cxx/igris_string_cxx.c', 'func': 'cxx_trim', 'loop': 0, 'expect': 'while (left != end &&',
    'assigns': 'left',
    'invariants': ['__CPROVER_same_object(left, g_data0) && __CPROVER_POINTER_OFFSET(g_data0) == 0 && (size_t)__CPROVER_POINTER_OFFSET(left) <= g_n',
                   'g_q < (size_t)__CPROVER_POINTER_OFFSET(left) ==> C19_WS(g_data0[g_q])'],
    'decreases': 'g_n - (size_t)__CPROVER_POINTER_OFFSET(left)'},
   {'file': 'overlay:cxx/igris_string_cxx.c', 'func': 'cxx_trim', 'loop': 1, 'expect': 'while (left != right &&',
    'assigns': 'right',
    'invariants': ['__CPROVER_same_object(right, g_data0) && (size_t)__CPROVER_POINTER_OFFSET(left) <= (size_t)__CPROVER_POINTER_OFFSET(right) && (size_t)__CPROVER_POINTER_OFFSET(right) < g_n',
                   '((size_t)__CPROVER_POINTER_OFFSET(right) < g_q && g_q < g_n) ==> C19_WS(g_data0[g_q])'],
    'decreases': '(size_t)__CPROVER_POINTER_OFFSET(right)'},
 ],
 'fallback': 'ghost-free',
 'witness': {'unwind': 9},
} @*/
#include "c19_harness.h"
size_t g_n, g_q;
#include "cxx/igris_string_cxx.c"

void harness(void)
{
    WIT(size_t, n);
    WIT(size_t, q);
    WIT_ARR(char, content, 7);
    C19_BLOCK(data, n, content);
    g_data0 = data; g_n = n; g_t = 0; g_q = q;
    g_ntok = 0; g_ts = g_tl = g_ts1 = g_last_s = g_last_end = 0; g_empty = 0; g_isq = 0;

    cxx_trim(data, n);

    __CPROVER_assert(g_empty + (int)g_ntok == 1, "trim: exactly one result");
    if (g_empty) {
        __CPROVER_assert(!(q < n) || C19_WS(data[q]), "trim: empty result: the buffer is empty or all white space");
    } else {
        __CPROVER_assert(g_tl >= 1 && g_ts < n && g_tl <= n - g_ts, "trim: the result is a non-empty slice of the buffer");
        __CPROVER_assert(!(q < g_ts) || C19_WS(data[q]), "trim: everything in front of the result is white space");
        __CPROVER_assert(!(g_ts + g_tl <= q && q < n) || C19_WS(data[q]), "trim: everything behind the result is white space");
        __CPROVER_assert(!C19_WS(data[g_ts]) && !C19_WS(data[g_ts + g_tl - 1]), "trim: the result starts and ends with a non-white-space byte");
    }
#ifdef WITNESS_MODE
    /* direct reference: first / last non-white-space byte */
    {
        size_t lo = 0, hi = n;
        while (lo < n && C19_WS(data[lo])) lo++;
        while (hi > lo && C19_WS(data[hi - 1])) hi--;
        if (lo == n)
            __CPROVER_assert(g_empty == 1 && g_ntok == 0, "trim: empty / all white space gives the empty string (direct reference)");
        else
            __CPROVER_assert(g_empty == 0 && g_ntok == 1 && g_ts == lo && g_tl == hi - lo, "trim: the slice from the first to the last non-white-space byte (direct reference)");
    }
#endif
    CANARY("trim end reachable");
}
