/*@unit {
 'kind': 'proof', 'mode': 'plain',
 'functions': ['path_is_single_dot', 'path_is_double_dot', 'path_is_abs'],
 'include': ['/verif/units/C19/cxxshim'],
 'clauses': 'path_is_single_dot(p) <=> the component at p is exactly "." (p[0] == "." and p[1] is "/" or the terminator); '
            'path_is_double_dot(p) <=> it is exactly ".."; path_is_abs(p) <=> p[0] == "/"; each reads only bytes of the string '
            '(object ends at its terminator), writes nothing',
 'kf': ['C19_path_single_dot_overread'],
 'witness': {'unwind': 9},
} @*/
#include "c19_harness.h"
#include <igris/util/pathops.h>

void harness(void)
{
    WIT(size_t, L);
    WIT_ARR(char, content, 7);
    C19_STRING(p, L, content, 0);
    /* known finding: path[1] is read before path[0] is looked at, so the empty string is over-read */
    __CPROVER_assume(KF_C19_path_single_dot_overread == 0 ? 1 : KF_C19_path_single_dot_overread == 1 ? !(p[0] == 0) : (p[0] == 0));

    int sd = path_is_single_dot(p);
    int ref_sd = p[0] == '.' && (p[1] == '/' || p[1] == 0);
    __CPROVER_assert((sd != 0) == ref_sd, "path_is_single_dot: true exactly for a component that is \".\"");

    int dd = path_is_double_dot(p);
    int ref_dd = p[0] == '.' && p[1] == '.' && (p[2] == '/' || p[2] == 0);
    __CPROVER_assert((dd != 0) == ref_dd, "path_is_double_dot: true exactly for a component that is \"..\"");

    __CPROVER_assert((path_is_abs(p) != 0) == (p[0] == '/'), "path_is_abs: true exactly when the path starts with a slash");
    CANARY("path_is_single_dot end reachable");
}
