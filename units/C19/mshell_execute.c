/*@unit {
 'kind': 'proof', 'mode': 'dfcc',
 'bound': 'command table of at most 3 commands (+ sentinel); the command line is unbounded (the splitter is used through its contract)',
 'functions': ['mshell_execute'],
 'replace': ['argvc_internal_split', 'strcmp'],
 'unwindset': ['mshell_execute.0:5'],
 'complete_unwinding': 'the command-table loop runs at most C19_NT + 1 = 4 times for a table of at most 3 commands; unwound 5 times with unwinding assertion',
 'clauses': 'mshell_execute(str, table, retptr): empty line: ENOENT, splitter / strcmp / handlers not called; otherwise the line is tokenised once '
            '(argvc_internal_split, 10 slots, by contract); the handler that is invoked is the func of the FIRST table entry whose name strcmp-equals '
            'argv[0], it is invoked exactly once with the argc / argv the tokeniser produced, the result is SSHELL_OK and *retptr (when given) receives '
            'the handler value; no entry matches: ENOENT, no handler runs, *retptr untouched; a blank line (argc == 0) must return without touching '
            'argv[0] (known finding C19_shell_blank_line: it does not)',
 'kf': ['C19_shell_blank_line'],
 'inject': [
   {'file': 'igris/shell/mshell.c', 'func': 'mshell_execute', 'at': 'after', 'anchor': 'argc = argvc_internal_split(str, argv, SSHELL_ARGCMAX);',
    'ghost': 'g_kf_blank(KF_C19_shell_blank_line, argc);'},
   {'file': 'igris/shell/mshell.c', 'func': 'mshell_execute', 'at': 'before', 'anchor': 'res = it->func(argc, argv);',
    'ghost': 'g_inv_idx = (int)(it - cmdtable);'},
 ],
 'trusted': ['strcmp: contracts/c19_libc.h (result observed, string equality abstract)', 'handler stubs of spec/c19_shell.h stand for arbitrary command handlers that do not touch the dispatcher state'],
 'witness': {'unwind': 12},
} @*/
#include "c19_shell.h"
#include "igris/shell/mshell.c"

void harness(void)
{
    WIT(size_t, L);
    WIT(int, n);
    WIT(int, t);
    WIT(size_t, k);
    WIT(int, with_ret);
    WIT(int, hres);
    WIT(int, f0); WIT(int, f1); WIT(int, f2);
    WIT_ARR(char, content, 8);
    WIT_ARR(char, c0, 2); WIT_ARR(char, c1, 2); WIT_ARR(char, c2, 2);
    C19_STRING(str, L, content, 0);
    C19_NAME(n0, c0);
    C19_NAME(n1, c1);
    C19_NAME(n2, c2);
    __CPROVER_assume(0 <= n && n <= C19_NT);
    struct mshell_command table[C19_NT + 1];
    table[0] = (struct mshell_command){n0, f0 ? c19_mh_1 : c19_mh_2, NULL};
    table[1] = (struct mshell_command){n1, f1 ? c19_mh_1 : c19_mh_2, NULL};
    table[2] = (struct mshell_command){n2, f2 ? c19_mh_1 : c19_mh_2, NULL};
    table[3] = (struct mshell_command){NULL, NULL, NULL};
    table[n] = (struct mshell_command){NULL, NULL, NULL};
    C19_GHOST_RESET();
    g_sp_k = k;
    g_h_k = k;
    g_h_res = hres;
    g_strcmp_watch = (0 <= t && t < n) ? table[t].name : NULL;
    int ret = 0x5A5A;
    int line_empty = str[0] == 0;

    int r = mshell_execute(str, table, with_ret ? &ret : NULL);

    __CPROVER_assert(g_h_calls <= 1, "mshell_execute: at most one handler runs");
    if (line_empty) {
        __CPROVER_assert(r == ENOENT && g_sp_calls == 0 && g_strcmp_calls == 0 && g_h_calls == 0 && ret == 0x5A5A, "mshell_execute: empty line: ENOENT, nothing else happens");
    } else {
        __CPROVER_assert(g_sp_calls == 1, "mshell_execute: the line is tokenised exactly once");
        if (g_sp_ret == 0) {
            __CPROVER_assert(g_strcmp_calls == 0 && g_h_calls == 0 && r == ENOENT && ret == 0x5A5A, "mshell_execute: blank line: ENOENT without looking at argv[0]");
        } else if (g_h_calls == 1) {
            __CPROVER_assert(0 <= g_inv_idx && g_inv_idx < n, "mshell_execute: the handler belongs to a table entry in front of the sentinel");
            __CPROVER_assert(g_h_which == ((g_inv_idx == 0 ? f0 : g_inv_idx == 1 ? f1 : f2) ? 1 : 2), "mshell_execute: the func of that entry is what runs");
            __CPROVER_assert(!(0 <= t && t < g_inv_idx) || (g_strcmp_seen && g_strcmp_res != 0), "mshell_execute: no earlier entry names the first token");
            __CPROVER_assert(!(t == g_inv_idx) || (g_strcmp_seen && g_strcmp_res == 0), "mshell_execute: the entry names the first token (strcmp == 0)");
            __CPROVER_assert(g_h_argc == g_sp_ret, "mshell_execute: the handler gets the argc of the tokeniser");
            __CPROVER_assert(!(k < (size_t)g_sp_ret) || g_h_argvk == g_sp_vk, "mshell_execute: the handler gets the argv of the tokeniser");
            __CPROVER_assert(r == SSHELL_OK && (with_ret ? ret == hres : ret == 0x5A5A), "mshell_execute: SSHELL_OK, handler value stored through retptr when given");
        } else {
            __CPROVER_assert(!(0 <= t && t < n) || (g_strcmp_seen && g_strcmp_res != 0), "mshell_execute: no handler ran: no entry names the first token");
            __CPROVER_assert(r == ENOENT && ret == 0x5A5A, "mshell_execute: unknown command: ENOENT, *retptr untouched");
        }
    }
    CANARY("mshell_execute end reachable");
}
