/*@unit {
 'kind': 'proof', 'mode': 'legacy',
 'functions': ['path_remove_prefix'],
 'replace': ['path_compare_node', 'path_iterate'],
 'include': ['/verif/units/C19/cxxshim'],
 'extract': [{'out': 'cxx/path_remove_prefix.c',
              'pieces': [{'op': 'glue', 'text': '// path_remove_prefix alone, copied by position from igris/util/pathops.h: its helpers are declared with their contracts only\n'
                                                 '// (contracts/c19_path_contracts.h), so that the loop-contract pass does not inline their loops\n'
                                                 '#include "c19_path_contracts.h"'},
                         {'op': 'func', 'file': 'igris/util/pathops.h', 'name': 'path_remove_prefix', 'std': []}]}],
 'clauses': 'path_remove_prefix(path, prefix) is the node-by-node walk of the component-wise reference: starting at the beginning of both strings, '
            'while not both are exhausted the current nodes are compared (path_compare_node); equal: both cursors leave their node (path_iterate); '
            'different: stop.  Proved: every cursor handed to the helpers is a valid position of its string and never NULL; the walk terminates; '
            'it ends with both strings exhausted or at the first pair that differs; all earlier pairs compared equal; the result is the path cursor, '
            'inside the string.  What "compare equal" and "leave the node" mean byte for byte is proved for the real helpers by the units '
            'path_compare_node and path_iterate (clauses C19_CMP_POST / C19_IT_POST); this unit uses their consequences C19_*_POST_LIGHT as contracts. '
            'The function text is cut out of pathops.h mechanically on every run (extract).',
 'kf': ['C19_path_single_dot_overread', 'C19_path_remove_prefix_null'],
 # the over-read happens inside the helpers, which are contracts here: the helper units probe it, this unit only inherits the carve-out
 'kf_probe_case': {'C19_path_single_dot_overread': {'PROBED_BY_HELPER_UNITS': 1}},
 'inject': [
   {'file': 'overlay:cxx/path_remove_prefix.c', 'func': 'path_remove_prefix', 'at': 'func-begin', 'ghost': 'g_P = path; g_Q = prefix;'},
   {'file': 'overlay:cxx/path_remove_prefix.c', 'func': 'path_remove_prefix', 'at': 'body-begin', 'loop': 0, 'ghost': 'g_cnt++;'},
   {'file': 'overlay:cxx/path_remove_prefix.c', 'func': 'path_remove_prefix', 'at': 'before', 'anchor': 'path = path_iterate(path);', 'ghost': 'g_done++;'},
   {'file': 'overlay:cxx/path_remove_prefix.c', 'func': 'path_remove_prefix', 'at': 'before', 'anchor': 'break;', 'ghost': 'g_differ = 1;'},
   {'file': 'overlay:cxx/path_remove_prefix.c', 'func': 'path_remove_prefix', 'at': 'before', 'anchor': 'return path;', 'ghost': 'g_endq = (size_t)(prefix - g_Q);'},
   {'file': 'overlay:cxx/path_remove_prefix.c', 'func': 'path_remove_prefix', 'loop': 0, 'expect': 'while (*prefix != 0',
    'assigns': 'path, prefix, g_cnt, g_done, g_differ',
    'invariants': [
      'path != NULL && prefix != NULL && __CPROVER_same_object(path, g_P) && __CPROVER_same_object(prefix, g_Q)',
      'C19_POFF(g_P) == 0 && C19_POFF(g_Q) == 0 && C19_POFF(path) <= g_LP && C19_POFF(prefix) <= g_LQ',
      'g_differ == 0 && g_done == g_cnt && g_cnt <= C19_POFF(path)',
      'g_cnt == 0 ? (path == g_P && prefix == g_Q) : (path[0] != 47 && prefix[0] != 47)',
    ],
    'decreases': '(g_LP - C19_POFF(path)) + (g_LQ - C19_POFF(prefix))'},
 ],
 'solver': 'cadical',
 'fallback': 'ghost-free',
 'witness': {'unwind': 9},
} @*/
#include "c19_path_contracts.h"
#include "c19_path_ref.h"
#ifdef REPLAY
/* native run: the helpers are the real ones (under cbmc they are contracts); the header's own path_remove_prefix is renamed away */
#define path_remove_prefix path_remove_prefix_of_header
#include <igris/util/pathops.h>
#undef path_remove_prefix
#endif
size_t g_LP, g_LQ;            /* index of the terminator of path / prefix */
size_t g_cnt, g_done;         /* node pairs compared / consumed (compared equal and left) */
size_t g_endq;                /* final prefix cursor */
int g_differ;                 /* the walk ended at a differing pair */
const char *g_P, *g_Q;
#include "cxx/path_remove_prefix.c"

void harness(void)
{
    WIT(size_t, LP);
    WIT(size_t, LQ);
    WIT_ARR(char, cp, 8);
    WIT_ARR(char, cq, 8);
    g_path_spare = (KF_C19_path_single_dot_overread == 1);
    C19_PSTRING(P, 0, LP, cp, (KF_C19_path_single_dot_overread == 1));
    C19_PSTRING(Q, 0, LQ, cq, (KF_C19_path_single_dot_overread == 1));
    /* known finding: one string empty, the other starting with a slash: the nodes compare equal (both empty), path_iterate("") returns
       NULL and the next round dereferences it */
    __CPROVER_assume(KF_C19_path_remove_prefix_null == 0 ? 1 : KF_C19_path_remove_prefix_null == 1
                         ? !((P[0] == 0 && Q[0] == '/') || (Q[0] == 0 && P[0] == '/'))
                         : ((P[0] == 0 && Q[0] == '/') || (Q[0] == 0 && P[0] == '/')));
    g_LP = LP; g_LQ = LQ;
    g_cnt = 0; g_done = 0; g_differ = 0; g_endq = 0;

    const char *r = path_remove_prefix(P, Q);

    __CPROVER_assert(r != NULL && __CPROVER_same_object(r, P) && r >= P && (size_t)(r - P) <= LP, "remove_prefix: result inside path");
    size_t ro = (size_t)(r - P);
#if !VC_FALLBACK
    __CPROVER_assert(g_endq <= LQ, "remove_prefix: prefix cursor inside prefix");
    if (g_differ)
        __CPROVER_assert(g_done + 1 == g_cnt, "remove_prefix: stopped at the first node pair that differs, all earlier pairs compared equal");
    else
        /* the unrepaired loop runs while EITHER string has bytes left (that is the finding: it then walks on with a NULL cursor); the repaired one while BOTH have */
        __CPROVER_assert(g_done == g_cnt && (KF_C19_path_remove_prefix_null == 0 ? (P[ro] == 0 || Q[g_endq] == 0) : (P[ro] == 0 && Q[g_endq] == 0)), "remove_prefix: otherwise every pair compared equal and the strings are exhausted");
#endif
#if defined(REPLAY) && KF_C19_path_remove_prefix_null == 0 && KF_C19_path_single_dot_overread == 0
    /* native only (under cbmc the helpers are abstract contracts): the position reached by the reference walk */
    __CPROVER_assert(ro == c19_ref_remove_prefix(P, Q), "remove_prefix: position of the component-wise reference walk (direct reference, native)");
#endif
    CANARY("remove_prefix end reachable");
}
