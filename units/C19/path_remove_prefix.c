/*@unit {
 'kind': 'proof', 'mode': 'legacy',
 'functions': ['path_remove_prefix', 'path_compare_node', 'path_iterate', 'path_skip_slashes_and_single_dots', 'path_is_single_dot'],
 'include': ['/verif/units/C19/cxxshim'],
 'clauses': 'path_remove_prefix(path, prefix) walks both strings node by node (component-wise reference): the c-th node pair starts at (0,0) for c = 0; '
            'the two nodes of every consumed pair are equal byte for byte and end together; the next pair starts behind the node after nothing but '
            'slashes and single-dot components, at the start of a real component or the terminator; the walk ends when both strings are exhausted or '
            'the current nodes differ; the result is the position reached in path (inside the string); reads only bytes of the two strings',
 'kf': ['C19_path_single_dot_overread', 'C19_path_remove_prefix_null'],
 'inject': [
   {'file': 'igris/util/pathops.h', 'func': 'path_skip_slashes_and_single_dots', 'loop': 0, 'expect': 'while (*path ==',
    'assigns': 'path',
    'invariants': ['__CPROVER_same_object(path, g_it0) && C19_OFF(g_it0, 0) <= C19_OFF(path, 0) && C19_OFF(path, 0) <= g_itL',
                   '(C19_OFF(g_it0, 0) <= g_kx && g_kx < C19_OFF(path, 0)) ==> C19_PSKIP(path - C19_OFF(path, 0), g_kx)'],
    'decreases': 'g_itL - C19_OFF(path, 0)'},
   {'file': 'igris/util/pathops.h', 'func': 'path_iterate', 'at': 'func-begin', 'ghost': 'g_it0 = path; g_mid = C19_OFF(path, 0);'},
   {'file': 'igris/util/pathops.h', 'func': 'path_iterate', 'at': 'before', 'anchor': 'while (*path == \'/\' || path_is_single_dot(path))',
    'ghost': 'g_mid = C19_OFF(path, 0);'},
   {'file': 'igris/util/pathops.h', 'func': 'path_iterate', 'loop': 0, 'expect': 'while (*path && *path !=',
    'assigns': 'path',
    'invariants': ['__CPROVER_same_object(path, g_it0) && C19_OFF(g_it0, 0) <= C19_OFF(path, 0) && C19_OFF(path, 0) <= g_itL',
                   '(C19_OFF(g_it0, 0) <= g_kx && g_kx < C19_OFF(path, 0)) ==> !C19_PEND((path - C19_OFF(path, 0))[g_kx])',
                   'C19_OFF(path, 0) - C19_OFF(g_it0, 0) <= g_ci',
                   ],
    'decreases': 'g_itL - C19_OFF(path, 0)'},
   {'file': 'igris/util/pathops.h', 'func': 'path_iterate', 'loop': 1, 'expect': 'while (*path ==',
    'assigns': 'path',
    'invariants': ['__CPROVER_same_object(path, g_it0) && g_mid <= C19_OFF(path, 0) && C19_OFF(path, 0) <= g_itL',
                   '(g_mid <= g_kx && g_kx < C19_OFF(path, 0)) ==> C19_PSKIP(path - C19_OFF(path, 0), g_kx)'],
    'decreases': 'g_itL - C19_OFF(path, 0)'},
   {'file': 'igris/util/pathops.h', 'func': 'path_compare_node', 'at': 'func-begin', 'ghost': 'g_a0 = a; g_b0 = b;'},
   {'file': 'igris/util/pathops.h', 'func': 'path_compare_node', 'at': 'before', 'anchor': 'return *a < *b ? -1 : 1;', 'ghost': 'g_i = (size_t)(a - g_a0);'},
   {'file': 'igris/util/pathops.h', 'func': 'path_compare_node', 'at': 'before', 'anchor': 'if (*a == \'\\0\' || *a == \'/\')', 'ghost': 'g_i = (size_t)(a - g_a0);'},
   {'file': 'igris/util/pathops.h', 'func': 'path_compare_node', 'loop': 0, 'expect': 'while (*a !=',
    'assigns': 'a, b, g_i',
    'invariants': ['__CPROVER_same_object(a, g_a0) && __CPROVER_same_object(b, g_b0)',
                   'C19_OFF(g_a0, 0) <= C19_OFF(a, 0) && C19_OFF(a, 0) <= g_LP && C19_OFF(g_b0, 0) <= C19_OFF(b, 0) && C19_OFF(b, 0) <= g_LQ',
                   'C19_OFF(a, 0) - C19_OFF(g_a0, 0) == C19_OFF(b, 0) - C19_OFF(g_b0, 0)',
                   'g_k < C19_OFF(a, 0) - C19_OFF(g_a0, 0) ==> (g_a0[g_k] == g_b0[g_k] && !C19_PEND(g_a0[g_k]))',
                   'C19_OFF(a, 0) > C19_OFF(g_a0, 0) ==> (!C19_PEND(g_a0[0]) && !C19_PEND(g_b0[0]))'],
    'decreases': 'g_LP - C19_OFF(a, 0)'},
   {'file': 'igris/util/pathops.h', 'func': 'path_remove_prefix', 'at': 'func-begin', 'ghost': 'g_P = path; g_Q = prefix;'},
   {'file': 'igris/util/pathops.h', 'func': 'path_remove_prefix', 'at': 'body-begin', 'loop': 0,
    'ghost': 'if (g_cnt == g_c) { g_sa = (size_t)(path - g_P); g_sb = (size_t)(prefix - g_Q); } if (g_cnt == g_c + 1) { g_sa1 = (size_t)(path - g_P); g_sb1 = (size_t)(prefix - g_Q); } g_cnt++;'},
   {'file': 'igris/util/pathops.h', 'func': 'path_remove_prefix', 'at': 'after', 'anchor': 'int cmp = path_compare_node(path, prefix);',
    'ghost': 'g_cur = g_i; if (g_cnt == g_c + 1) g_ci = g_i;'},
   {'file': 'igris/util/pathops.h', 'func': 'path_remove_prefix', 'at': 'before', 'anchor': 'path = path_iterate(path);', 'ghost': 'g_kx = g_kp; g_itL = g_LP; g_done++;'},
   {'file': 'igris/util/pathops.h', 'func': 'path_remove_prefix', 'at': 'before', 'anchor': 'prefix = path_iterate(prefix);', 'ghost': 'g_kx = g_kq; g_itL = g_LQ;'},
   {'file': 'igris/util/pathops.h', 'func': 'path_remove_prefix', 'at': 'before', 'anchor': 'break;', 'ghost': 'g_differ = 1;'},
   {'file': 'igris/util/pathops.h', 'func': 'path_remove_prefix', 'at': 'before', 'anchor': 'return path;', 'ghost': 'g_endq = (size_t)(prefix - g_Q);'},
   {'file': 'igris/util/pathops.h', 'func': 'path_remove_prefix', 'loop': 0, 'expect': 'while (*prefix != 0 || *path != 0)',
    'assigns': 'path, prefix, g_a0, g_b0, g_i, g_it0, g_mid, g_kx, g_itL, g_cnt, g_done, g_sa, g_sb, g_sa1, g_sb1, g_ci, g_cur, g_differ',
    'invariants': [
      'path != NULL && prefix != NULL && __CPROVER_same_object(path, g_P) && __CPROVER_same_object(prefix, g_Q)',
      'C19_OFF(g_P, 0) == 0 && C19_OFF(g_Q, 0) == 0 && C19_OFF(path, 0) <= g_LP && C19_OFF(prefix, 0) <= g_LQ',
      'g_differ == 0 && g_done == g_cnt',
      'g_cnt == 0 ? (path == g_P && prefix == g_Q) : (!C19_PSKIPX(path) && !C19_PSKIPX(prefix))',
      'g_cnt > g_c ==> (g_sa + g_ci <= g_LP && g_sb + g_ci <= g_LQ && C19_PEND(g_P[g_sa + g_ci]) && C19_PEND(g_Q[g_sb + g_ci]))',
      '(g_cnt > g_c && g_k < g_ci) ==> (g_P[g_sa + g_k] == g_Q[g_sb + g_k] && !C19_PEND(g_P[g_sa + g_k]))',
      'g_cnt > g_c ==> (g_c == 0 ? (g_sa == 0 && g_sb == 0) : 1)',
      'g_cnt == g_c + 1 ==> (g_sa + g_ci <= C19_OFF(path, 0) && g_sb + g_ci <= C19_OFF(prefix, 0))',
      '(g_cnt == g_c + 1 && g_sa + g_ci <= g_kp && g_kp < C19_OFF(path, 0)) ==> C19_PSKIP(g_P, g_kp)',
      '(g_cnt == g_c + 1 && g_sb + g_ci <= g_kq && g_kq < C19_OFF(prefix, 0)) ==> C19_PSKIP(g_Q, g_kq)',
      'g_cnt > g_c + 1 ==> (g_sa + g_ci <= g_sa1 && g_sa1 <= g_LP && g_sb + g_ci <= g_sb1 && g_sb1 <= g_LQ && !C19_PSKIPX(g_P + g_sa1) && !C19_PSKIPX(g_Q + g_sb1))',
      '(g_cnt > g_c + 1 && g_sa + g_ci <= g_kp && g_kp < g_sa1) ==> C19_PSKIP(g_P, g_kp)',
      '(g_cnt > g_c + 1 && g_sb + g_ci <= g_kq && g_kq < g_sb1) ==> C19_PSKIP(g_Q, g_kq)',
    ],
    'decreases': '(g_LP - C19_OFF(path, 0)) + (g_LQ - C19_OFF(prefix, 0))'},
 ],
 'ghost_calls': ['C19_OFF'],
 'witness': {'unwind': 9},
} @*/
#include "c19_path.h"
/* the byte at p is a slash or starts a single-dot component */
#define C19_PSKIPX(p) C19_PSKIP(p, 0)
size_t g_LP, g_LQ;            /* index of the terminator of path / prefix */
size_t g_k, g_kp, g_kq;       /* ghost indices: node-relative, absolute in path, absolute in prefix */
size_t g_c;                   /* ghost: number of the node pair looked at */
size_t g_cnt, g_done;         /* node pairs started / consumed */
size_t g_sa, g_sb, g_ci;      /* pair c: start in path, start in prefix, common length */
size_t g_sa1, g_sb1;          /* pair c+1: starts */
size_t g_cur, g_i, g_mid, g_kx, g_itL, g_endq;
int g_differ;
const char *g_P, *g_Q, *g_a0, *g_b0, *g_it0;
#include <igris/util/pathops.h>

void harness(void)
{
    WIT(size_t, LP);
    WIT(size_t, LQ);
    WIT(size_t, k);
    WIT(size_t, kp);
    WIT(size_t, kq);
    WIT(size_t, c);
    WIT_ARR(char, cp, 8);
    WIT_ARR(char, cq, 8);
    C19_STRING(P, LP, cp, (KF_C19_path_single_dot_overread == 1));
    C19_STRING(Q, LQ, cq, (KF_C19_path_single_dot_overread == 1));
    /* known finding: one string empty, the other starting with a slash: the nodes compare equal (both empty), path_iterate("") returns
       NULL and the next round dereferences it */
    __CPROVER_assume(KF_C19_path_remove_prefix_null == 0 ? 1 : KF_C19_path_remove_prefix_null == 1
                         ? !((P[0] == 0 && Q[0] == '/') || (Q[0] == 0 && P[0] == '/'))
                         : ((P[0] == 0 && Q[0] == '/') || (Q[0] == 0 && P[0] == '/')));
    g_LP = LP; g_LQ = LQ; g_k = k; g_kp = kp; g_kq = kq; g_c = c;

    const char *r = path_remove_prefix(P, Q);

    __CPROVER_assert(r != NULL && __CPROVER_same_object(r, P) && r >= P && (size_t)(r - P) <= LP, "remove_prefix: result inside path");
    size_t ro = (size_t)(r - P);
    __CPROVER_assert(g_endq <= LQ, "remove_prefix: prefix cursor inside prefix");
    /* how the walk ended */
    if (g_differ)
        __CPROVER_assert(g_done + 1 == g_cnt, "remove_prefix: stopped at the first node pair that differs");
    else
        __CPROVER_assert(g_done == g_cnt && P[ro] == 0 && Q[g_endq] == 0, "remove_prefix: otherwise both strings are exhausted");
    /* the consumed pair number c */
    if (c < g_done) {
        __CPROVER_assert(c != 0 || (g_sa == 0 && g_sb == 0), "remove_prefix: the first pair starts at the beginning of both strings");
        __CPROVER_assert(g_sa + g_ci <= LP && g_sb + g_ci <= LQ && C19_PEND(P[g_sa + g_ci]) && C19_PEND(Q[g_sb + g_ci]), "remove_prefix: consumed nodes end together");
        __CPROVER_assert(!(k < g_ci) || (P[g_sa + k] == Q[g_sb + k] && !C19_PEND(P[g_sa + k])), "remove_prefix: consumed nodes are equal byte for byte");
        /* where the next pair starts: (g_sa1, g_sb1), or the final cursors when c is the last consumed pair and the walk ended by exhaustion */
        size_t na = (c + 1 < g_cnt) ? g_sa1 : ro, nb = (c + 1 < g_cnt) ? g_sb1 : g_endq;
        __CPROVER_assert(g_sa + g_ci <= na && na <= LP && g_sb + g_ci <= nb && nb <= LQ, "remove_prefix: the next pair starts behind the node");
        __CPROVER_assert(!(g_sa + g_ci <= kp && kp < na) || C19_PSKIP(P, kp), "remove_prefix: only slashes / single dots between node and next node (path)");
        __CPROVER_assert(!(g_sb + g_ci <= kq && kq < nb) || C19_PSKIP(Q, kq), "remove_prefix: only slashes / single dots between node and next node (prefix)");
        __CPROVER_assert(!C19_PSKIPX(P + na) && !C19_PSKIPX(Q + nb), "remove_prefix: the next pair starts at a real component or at the terminator");
    }
    CANARY("remove_prefix end reachable");
}
