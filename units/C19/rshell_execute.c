/*@unit {
 'kind': 'proof', 'mode': 'dfcc',
 'bound': 'command table of at most 3 commands (+ sentinel); the command line is unbounded (the splitter is used through its contract)',
 'functions': ['rshell_execute', 'rshell_execute_v'],
 'replace': ['argvc_internal_split', 'strcmp'],
 'unwindset': ['rshell_execute_v.0:5'],
 'complete_unwinding': 'the command-table loop (in rshell_execute_v) runs at most 4 times for a table of at most 3 commands; unwound 5 times with unwinding assertion',
 'clauses': 'rshell_execute(str, table, retptr, dropargs, output, maxsize): empty line: 0, splitter / strcmp / handlers not called; otherwise the line '
            'is tokenised once (10 slots) and dispatched by rshell_execute_v: the handler of the FIRST entry whose name strcmp-equals argv[0] runs once '
            'with (argc - dropargs, argv + dropargs, output, maxsize) of the tokeniser result; SSHELL_OK / *retptr; no match: ENOENT; a blank line '
            '(argc == 0) must return without touching argv[0] (known finding C19_shell_blank_line: it does not)',
 'kf': ['C19_shell_blank_line'],
 'inject': [
   {'file': 'igris/shell/rshell.c', 'func': 'rshell_execute', 'at': 'after', 'anchor': 'argc = argvc_internal_split(str, argv, SSHELL_ARGCMAX);',
    'ghost': 'g_kf_blank(KF_C19_shell_blank_line, argc);'},
   {'file': 'igris/shell/rshell.c', 'func': 'rshell_execute_v', 'at': 'before', 'anchor': 'res = it->func(argc - dropargs, argv + dropargs, output, maxsize);',
    'ghost': 'g_inv_idx = (int)(it - cmdtable);'},
 ],
 'assumptions': ['rshell_execute: 0 <= dropargs <= 1 (the values the command tables hold)'],
 'trusted': ['strcmp: contracts/c19_libc.h (result observed, string equality abstract)', 'handler stubs of spec/c19_shell.h stand for arbitrary command handlers that do not touch the dispatcher state'],
 'witness': {'unwind': 12},
} @*/
#include "c19_shell.h"
#include "igris/shell/rshell.c"

void harness(void)
{
    WIT(size_t, L);
    WIT(int, n);
    WIT(int, t);
    WIT(int, dropargs);
    WIT(int, maxsize);
    WIT(size_t, k);
    WIT(int, with_ret);
    WIT(int, hres);
    WIT(int, f0); WIT(int, f1); WIT(int, f2);
    WIT_ARR(char, content, 8);
    WIT_ARR(char, c0, 2); WIT_ARR(char, c1, 2); WIT_ARR(char, c2, 2);
    C19_STRING(str, L, content, 0);
    C19_NAME(n0, c0);
    C19_NAME(n1, c1);
    C19_NAME(n2, c2);
    __CPROVER_assume(0 <= n && n <= C19_NT);
    __CPROVER_assume(0 <= dropargs && dropargs <= 1);
    char out[4];
    struct rshell_command table[C19_NT + 1];
    table[0] = (struct rshell_command){n0, f0 ? c19_rh_1 : c19_rh_2, NULL};
    table[1] = (struct rshell_command){n1, f1 ? c19_rh_1 : c19_rh_2, NULL};
    table[2] = (struct rshell_command){n2, f2 ? c19_rh_1 : c19_rh_2, NULL};
    table[3] = (struct rshell_command){NULL, NULL, NULL};
    table[n] = (struct rshell_command){NULL, NULL, NULL};
    C19_GHOST_RESET();
    g_h_k = k;
    g_sp_k = k + (size_t)dropargs; /* the handler's argv[k] is slot k + dropargs of the tokeniser */
    g_h_res = hres;
    g_strcmp_watch = (0 <= t && t < n) ? table[t].name : NULL;
    int ret = 0x5A5A;
    int line_empty = str[0] == 0;

    int r = rshell_execute(str, table, with_ret ? &ret : NULL, dropargs, out, maxsize);

    __CPROVER_assert(g_h_calls <= 1, "rshell_execute: at most one handler runs");
    if (line_empty) {
        __CPROVER_assert(r == 0 && g_sp_calls == 0 && g_strcmp_calls == 0 && g_h_calls == 0 && ret == 0x5A5A, "rshell_execute: empty line: 0, nothing else happens");
    } else {
        __CPROVER_assert(g_sp_calls == 1, "rshell_execute: the line is tokenised exactly once");
        if (g_sp_ret == 0) {
            __CPROVER_assert(g_strcmp_calls == 0 && g_h_calls == 0 && ret == 0x5A5A, "rshell_execute: blank line: returns without looking at argv[0]");
        } else if (g_h_calls == 1) {
            __CPROVER_assert(0 <= g_inv_idx && g_inv_idx < n, "rshell_execute: the handler belongs to a table entry in front of the sentinel");
            __CPROVER_assert(g_h_which == ((g_inv_idx == 0 ? f0 : g_inv_idx == 1 ? f1 : f2) ? 1 : 2), "rshell_execute: the func of that entry is what runs");
            __CPROVER_assert(!(0 <= t && t < g_inv_idx) || (g_strcmp_seen && g_strcmp_res != 0), "rshell_execute: no earlier entry names the first token");
            __CPROVER_assert(!(t == g_inv_idx) || (g_strcmp_seen && g_strcmp_res == 0), "rshell_execute: the entry names the first token (strcmp == 0)");
            __CPROVER_assert(g_h_argc == g_sp_ret - dropargs && g_h_out == out && g_h_maxsize == maxsize, "rshell_execute: the handler gets argc - dropargs, output, maxsize");
            __CPROVER_assert(!(k < 10 && g_sp_k < (size_t)g_sp_ret) || g_h_argvk == g_sp_vk, "rshell_execute: the handler gets the argv of the tokeniser shifted by dropargs (k ranges over the 10 slots)");
            __CPROVER_assert(r == SSHELL_OK && (with_ret ? ret == hres : ret == 0x5A5A), "rshell_execute: SSHELL_OK, handler value stored through retptr when given");
        } else {
            __CPROVER_assert(!(0 <= t && t < n) || (g_strcmp_seen && g_strcmp_res != 0), "rshell_execute: no handler ran: no entry names the first token");
            __CPROVER_assert(r == ENOENT && ret == 0x5A5A, "rshell_execute: unknown command: ENOENT, *retptr untouched");
        }
    }
    CANARY("rshell_execute end reachable");
}
