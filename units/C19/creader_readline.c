/*@unit {
 'kind': 'proof', 'mode': 'legacy',
 'functions': ['creader_readline'],
 'include': ['/verif/units/C19/cxxshim'],
 'clauses': 'creader_readline(r, &token), any cursor in [strt, fini]: *token = the old cursor; -1 iff the cursor is at fini (nothing read then); otherwise '
            '0 <= len and token + len <= fini (the line lies inside the buffer); the new cursor stays in [old cursor, fini]: behind the first LF / NUL when '
            'there is one (every byte in front of it is neither), unchanged when there is none (see NOTES: the reader then never reaches its end); only '
            'bytes of [old cursor, fini) are read (exact-size, non-terminated buffer); only r->cursor and *token are written',
 'kf': ['C19_creader_readline_overread'],
 'inject': [{'file': 'igris/creader.h', 'func': 'creader_readline', 'at': 'func-begin', 'ghost': 'g_c0 = reader->cursor;'},
            {'file': 'igris/creader.h', 'func': 'creader_readline', 'loop': 0, 'expect': 'while (',
             'assigns': 'it',
             'invariants': ['__CPROVER_same_object(it, g_c0)',
                            '(size_t)__CPROVER_POINTER_OFFSET(g_c0) <= (size_t)__CPROVER_POINTER_OFFSET(it) && (size_t)__CPROVER_POINTER_OFFSET(it) <= g_n',
                            '((size_t)__CPROVER_POINTER_OFFSET(g_c0) <= g_k && g_k < (size_t)__CPROVER_POINTER_OFFSET(it)) ==> (g_buf[g_k] != 10 && g_buf[g_k] != 0)'],
             'decreases': 'g_n - (size_t)__CPROVER_POINTER_OFFSET(it)'},
            {'file': 'igris/creader.h', 'func': 'creader_readline', 'loop': 1, 'expect': 'while ((it != *token)',
             'assigns': 'it',
             'invariants': ['__CPROVER_same_object(it, g_c0)',
                            '(size_t)__CPROVER_POINTER_OFFSET(g_c0) <= (size_t)__CPROVER_POINTER_OFFSET(it) && (size_t)__CPROVER_POINTER_OFFSET(it) < g_n',
                            '(size_t)__CPROVER_POINTER_OFFSET(it) < (size_t)__CPROVER_POINTER_OFFSET(reader->cursor)'],
             'decreases': '(size_t)__CPROVER_POINTER_OFFSET(it)'}],
 'fallback': 'ghost-free',
 'witness': {'unwind': 9},
} @*/
#include "c19_harness.h"
size_t g_n, g_k;
const char *g_c0, *g_buf;
#include <igris/creader.h>

void harness(void)
{
    WIT(size_t, n);
    WIT(size_t, c);
    WIT(size_t, k);
    WIT_ARR(char, content, 7);
    /* known finding: *it is read before it is compared with fini, so a last line without LF / NUL is over-read by one byte;
       carved out by one readable spare byte behind the buffer (KF == 1), probed on the exact-size buffer (KF == 2) */
    __CPROVER_assume(n <= VC_MAXOBJ);
    char *buf = NEW_OBJ(n + (KF_C19_creader_readline_overread == 1));
    FILL(buf, n + (KF_C19_creader_readline_overread == 1), content);
    __CPROVER_assume(c <= n);
    struct creader rd;
    creader_init(&rd, buf, n);
    rd.cursor = buf + c;
    g_n = n; g_k = k; g_buf = buf;
    const char *token = 0;

    ptrdiff_t len = creader_readline(&rd, &token);

    __CPROVER_assert(rd.strt == buf && rd.fini == buf + n, "readline: strt / fini not modified");
    __CPROVER_assert(token == buf + c, "readline: *token is the old cursor");
    __CPROVER_assert(__CPROVER_same_object(rd.cursor, buf) && rd.cursor >= buf + c && rd.cursor <= buf + n, "readline: the cursor stays in [old cursor, fini]");
    if (c == n) {
        __CPROVER_assert(len == -1 && rd.cursor == buf + c, "readline: at the end: -1, cursor unchanged");
    } else {
        __CPROVER_assert(len >= 0 && c + (size_t)len <= n, "readline: the line [token, token + len) lies inside the buffer");
        size_t nc = (size_t)(rd.cursor - buf);
        if (nc != c) {
            __CPROVER_assert(buf[nc - 1] == '\n' || buf[nc - 1] == 0, "readline: the cursor moved behind a LF / NUL");
            __CPROVER_assert(!(c <= k && k < nc && k + 1 < nc) || (buf[k] != '\n' && buf[k] != 0), "readline: that LF / NUL is the first one");
            __CPROVER_assert((size_t)len <= nc - 1 - c + 1, "readline: the line ends at (or, for a NUL, on) that delimiter");
        } else {
            __CPROVER_assert(!(c <= k && k < n) || (buf[k] != '\n' && buf[k] != 0), "readline: cursor unchanged: no LF / NUL in the rest of the buffer");
            __CPROVER_assert((size_t)len == n - c, "readline: ... and the rest of the buffer is the line");
        }
    }
    CANARY("creader_readline end reachable");
}
