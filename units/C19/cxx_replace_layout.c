/*@unit {
 'kind': 'proof', 'mode': 'legacy',
 'functions': ['igris::replace'],
 'replace': ['igris_memmem'],
 'extract': 'units/C19/string_extract.py',
 'clauses': 'OUTPUT LAYOUT part (the pieces of the output are adjacent: every output byte is mapped to its source byte: gaps and replacements in order, adjacent, starting at output offset 0, then the tail; empty pattern: the output is the input) of the igris::replace contract; the three parts together are: igris::replace(input, sub, rep) (scanning code extracted mechanically, output.append(..) -> ghost append recorder) against the reference '
            'left-to-right non-overlapping substitution: match m is the FIRST occurrence of sub at or behind the end of match m-1 (search for match 0 '
            'starts at 0): sub occurs there byte for byte, it occurs at no position in between (a differing byte is exhibited), the next search starts '
            'at p_m + |sub|, and behind the last match sub does not occur; the OUTPUT is, in order, for every match the input bytes between the previous '
            'match and this one followed by rep, then the input bytes behind the last match: every output byte is mapped to its source byte (ghost '
            'output index), the pieces are adjacent and start at output offset 0, the output length is the end of the tail; empty sub: the output is '
            'the input; only bytes of the exact-size, non-terminated input / sub / rep are read.  igris_memmem is used through its contract '
            '(contracts/c19_libc.h, proved by unit memmem).',
 'inject': [
   {'file': 'overlay:cxx/igris_string_cxx.c', 'func': 'cxx_replace', 'at': 'func-begin', 'ghost': 'g_in0 = input_data;'},
   {'file': 'overlay:cxx/igris_string_cxx.c', 'func': 'cxx_replace', 'at': 'body-begin', 'loop': 0,
    'ghost': 'if (g_nm == g_m) { g_prev = (size_t)(strit - g_in0); g_pm = (size_t)((const char *)finded - g_in0); g_om = g_out_len; if (g_prev <= g_w && g_w < g_pm) g_wd = g_mm_d; } if (g_m != (size_t)-1 && g_nm == g_m + 1) { g_prev1 = (size_t)(strit - g_in0); g_om1 = g_out_len; } g_nm++;'},
   {'file': 'overlay:cxx/igris_string_cxx.c', 'func': 'cxx_replace', 'at': 'before', 'anchor': 'g_app(strit, streit - strit, 2);',
    'ghost': 'g_last = (size_t)(strit - g_in0); if (g_last <= g_w) g_wd_last = g_mm_d; g_otail = g_out_len;'},
   {'file': 'overlay:cxx/igris_string_cxx.c', 'func': 'cxx_replace', 'loop': 0, 'expect': 'while ((finded = (char *)igris_memmem(',
    'assigns': 'strit, finded, g_nm, g_prev, g_pm, g_om, g_wd, g_prev1, g_om1, g_mm_d, g_out_len, g_okind, g_osrc, g_napp',
    'invariants': [
      '__CPROVER_same_object(strit, g_in0) && __CPROVER_POINTER_OFFSET(g_in0) == 0 && (size_t)__CPROVER_POINTER_OFFSET(strit) <= input_size && streit == g_in0 + input_size && input_data == g_in0',
      'g_nm <= (size_t)__CPROVER_POINTER_OFFSET(strit) && (g_nm == 0 ==> (size_t)__CPROVER_POINTER_OFFSET(strit) == 0) && g_napp == 2 * g_nm',
      'g_nm == 0 ==> g_out_len == 0',
      'sub_size >= 1',
      'g_out_len <= ((c19_u128)(size_t)__CPROVER_POINTER_OFFSET(strit) << 41)',
      'g_nm > g_m ==> (g_prev <= g_pm && C19_INSIDE(g_pm, sub_size, (size_t)__CPROVER_POINTER_OFFSET(strit)))',
      'g_nm > g_m ==> g_om + (g_pm - g_prev) + rep_size <= g_out_len',
      '(g_nm > g_m && g_nm == g_m + 1) ==> g_out_len == g_om + (g_pm - g_prev) + rep_size',
      '(g_nm > g_m && g_nm > g_m + 1) ==> g_om1 == g_om + (g_pm - g_prev) + rep_size',
      '(g_m == 0 && g_nm > 0) ==> g_om == 0',
    ],
    'decreases': 'input_size - (size_t)__CPROVER_POINTER_OFFSET(strit)'},
 ],
 'native_cxx_probes': [{'file': 'units/C19/native/string_utils_probe.cpp', 'run': True, 'sources': ['igris/string/replace.cpp', 'igris/util/string.cpp', 'igris/string/memmem.c'],
                        'what': 'real igris::replace / igris::split (not the extraction) against byte-wise references on exact-size buffers',
                        'bound': 'replace: inputs of length 0..5 x patterns of length 0..3 over {a,b,NUL} x 3 replacements; split: inputs of length 0..6 over {a,space,comma,NUL}: 54602 calls'}],
 'witness': {'unwind': 9},
} @*/
#include "c19_harness.h"
#include "c19_libc.h"
/* [p, p + len) lies inside [0, n), without wrap-around */
#define C19_INSIDE(p, len, n) ((p) <= (n) && (len) <= (n) - (p))
size_t g_m, g_j, g_w;                 /* in: ghost match index, needle index, input position */
size_t g_nm;                          /* out: number of matches */
size_t g_prev, g_pm, g_prev1;         /* out: search start and position of match g_m; search start of match g_m + 1 */
size_t g_wd, g_wd_last;               /* out: differing index at position g_w (in front of match g_m / behind the last match) */
size_t g_last;                        /* out: search start of the final (failing) search */
const char *g_in0;
#include "c19_cxx.h"
c19_u128 g_om, g_om1, g_otail;        /* out: output offset at which the piece of match g_m / g_m + 1 / the tail starts */
#include "cxx/igris_string_cxx.c"

void harness(void)
{
    WIT(size_t, inlen);
    WIT(size_t, sublen);
    WIT(size_t, replen);
    WIT(size_t, m);
    WIT(size_t, j);
    WIT(size_t, w);
    WIT(size_t, o_hi);
    WIT(size_t, o_lo);
    WIT_ARR(char, ci, 6);
    WIT_ARR(char, cs, 6);
    WIT_ARR(char, cr, 6);
    C19_BLOCK(input, inlen, ci);
    C19_BLOCK(sub, sublen, cs);
    C19_BLOCK(rep, replen, cr);
    g_m = m; g_j = j; g_w = w;
    g_o = ((c19_u128)o_hi << 64) | o_lo;
    g_nm = 0; g_prev = g_pm = g_prev1 = g_wd = g_wd_last = g_last = 0; g_om = g_om1 = g_otail = 0;
    g_out_len = 0; g_okind = -1; g_osrc = 0; g_napp = 0;
    g_mm_j = j;
    g_mm_watch = (w <= inlen) ? input + w : NULL;
    g_data0 = input;

    cxx_replace(input, inlen, sub, sublen, rep, replen);

    c19_u128 o = g_o;
    if (sublen == 0) {
        __CPROVER_assert(g_nm == 0 && g_napp == 1 && g_out_len == inlen, "replace: empty pattern: the output is the input (one append)");
    } else {
        __CPROVER_assert(g_last <= inlen && g_nm <= inlen && g_napp == 2 * g_nm + 1, "replace: the scan ends inside the input; two appends per match and the tail");
        /* the tail */
        __CPROVER_assert(g_out_len == g_otail + (inlen - g_last), "replace: the output ends with the input bytes behind the last match");
        __CPROVER_assert(g_nm != 0 || (g_otail == 0 && g_last == 0), "replace: no match: the output is the input");
        if (m < g_nm) {
            size_t gap = g_pm - g_prev;
            __CPROVER_assert(g_prev <= g_pm && C19_INSIDE(g_pm, sublen, inlen), "replace: match m lies at or behind its search start, inside the input");
            __CPROVER_assert(m != 0 || g_om == 0, "replace: the piece of match 0 starts at output offset 0");
            __CPROVER_assert((m + 1 < g_nm ? g_om1 : g_otail) == g_om + gap + replen, "replace: the next piece of the output starts right behind gap m and its replacement");
        }
    }
    CANARY("replace end reachable");
}
