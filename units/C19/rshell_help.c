/*@unit {
 'kind': 'proof', 'mode': 'dfcc',
 'bound': 'command table of at most 2 commands (+ sentinel); names, help texts and the answer buffer of symbolic length',
 'functions': ['rshell_help'],
 'replace': ['memcpy', 'strlen'],
 'unwindset': ['rshell_help.0:4'],
 'object_bits': 10,
 'complete_unwinding': 'the command-table loop runs at most 3 times for a table of at most 2 commands; unwound 4 times with unwinding assertion',
 'clauses': 'rshell_help(table, ans, ansmax), ansmax >= 1: every memcpy stays inside ans[0..ansmax) (exact-size object) and inside the name / help '
            'string it copies from; the result len satisfies 0 <= len <= ansmax - 1 and ans[len] == 0 (the answer is a terminated string that fits)',
 'assumptions': ['rshell_help: ansmax >= 1 (ansmax == 0 makes the first length __MIN__(strlen, -1) negative and memcpy is called with (size_t)-1: see NOTES.md); name / help strings shorter than INT_MAX / 2 (strlen is cast to int)'],
 'trusted': ['memcpy: contracts/libc_contracts.h; strlen: contracts/c19_libc.h (ISO C 7.24)'],
 'witness': {'unwind': 12},
} @*/
#include "c19_shell.h"
#include "libc_contracts.h"
#include "igris/shell/rshell.c"

void harness(void)
{
    WIT(int, n);
    WIT(int, ansmax);
    WIT(size_t, L0); WIT(size_t, L1); WIT(size_t, H0); WIT(size_t, H1);
    WIT(int, wh0); WIT(int, wh1);
    WIT_ARR(char, c0, 8); WIT_ARR(char, c1, 8); WIT_ARR(char, d0, 8); WIT_ARR(char, d1, 8);
    __CPROVER_assume(L0 <= VC_MAXN && L1 <= VC_MAXN && H0 <= VC_MAXN && H1 <= VC_MAXN);
    C19_STRING(n0, L0, c0, 0);
    C19_STRING(n1, L1, c1, 0);
    C19_STRING(h0, H0, d0, 0);
    C19_STRING(h1, H1, d1, 0);
    __CPROVER_assume(0 <= n && n <= 2);
    __CPROVER_assume(1 <= ansmax && ansmax <= VC_MAXN);
    char *ans = NEW_OBJ((size_t)ansmax);
    struct rshell_command table[3];
    table[0] = (struct rshell_command){n0, c19_rh_1, wh0 ? h0 : NULL};
    table[1] = (struct rshell_command){n1, c19_rh_2, wh1 ? h1 : NULL};
    table[2] = (struct rshell_command){NULL, NULL, NULL};
    table[n] = (struct rshell_command){NULL, NULL, NULL};
    g_strlen_k = 0; g_strlen_ps = 0; g_strlen_pr = 0; g_memcpy_k = (size_t)-1; g_memcpy_v = 0;

    int len = rshell_help(table, ans, ansmax);

    __CPROVER_assert(0 <= len && len <= ansmax - 1, "rshell_help: the answer fits: 0 <= len <= ansmax - 1");
    __CPROVER_assert(ans[len] == 0, "rshell_help: the answer is terminated at len");
    CANARY("rshell_help end reachable");
}
