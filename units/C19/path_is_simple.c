/*@unit {
 'kind': 'proof', 'mode': 'legacy',
 'functions': ['path_is_simple'],
 'include': ['/verif/units/C19/cxxshim'],
 'clauses': 'path_is_simple(p) != 0 => the string holds no slash before its first NUL (position of that NUL exhibited by a ghost output); '
            'reads only bytes of the string up to its first slash / first NUL, terminates, writes nothing. The converse (0 => a slash exists) needs the '
            'position of the slash as a witness, which cannot be recorded: `return false` is the unbraced body of an unbraced if, no ghost statement can '
            'be placed there; it is covered up to length 7 by the bounded unit path_bounded',
 'inject': [{'file': 'igris/util/pathops.h', 'func': 'path_is_simple', 'loop': 0, 'expect': 'while ((c = *path++))',
             'assigns': 'path, c',
             'invariants': ['__CPROVER_same_object(path, g_p0) && __CPROVER_POINTER_OFFSET(g_p0) == 0',
                            '0 <= __CPROVER_POINTER_OFFSET(path) && (size_t)__CPROVER_POINTER_OFFSET(path) <= g_L',
                            'g_k < (size_t)__CPROVER_POINTER_OFFSET(path) ==> (g_p0[g_k] != 0 && g_p0[g_k] != 47)'],
             'decreases': 'g_L - (size_t)__CPROVER_POINTER_OFFSET(path)'},
            {'file': 'igris/util/pathops.h', 'func': 'path_is_simple', 'at': 'func-begin', 'ghost': 'g_p0 = path;'},
            {'file': 'igris/util/pathops.h', 'func': 'path_is_simple', 'at': 'before', 'anchor': 'return true;', 'ghost': 'g_stop = C19_OFF(path, g_p0) - 1;'}],
 'ghost_calls': ['C19_OFF'],
 'witness': {'unwind': 9},
} @*/
#include "c19_harness.h"
size_t g_L, g_k, g_stop;
const char *g_p0;
#include <igris/util/pathops.h>

void harness(void)
{
    WIT(size_t, L);
    WIT(size_t, k);
    WIT_ARR(char, content, 7);
    C19_STRING(p, L, content, 0);
    g_L = L;
    g_k = k;

    int r = path_is_simple(p);

    if (r) {
        /* g_stop: index of the NUL at which the scan stopped (ghost output: the witness of "first NUL") */
        __CPROVER_assert(g_stop <= L && p[g_stop] == 0, "path_is_simple: true: the scan stopped at a NUL inside the string");
        __CPROVER_assert(!(k < g_stop) || (p[k] != 0 && p[k] != '/'), "path_is_simple: true: no slash and no NUL before that NUL");
    }
    CANARY("path_is_simple end reachable");
}
