/*@unit {
 'kind': 'proof', 'mode': 'legacy',
 'functions': ['igris::split_cmdargs'],
 'extract': 'units/C19/string_extract.py',
 'clauses': 'igris::split_cmdargs(buffer) (scanning code extracted mechanically, outvec.emplace_back(p, n) -> ghost token recorder) against the reference '
            'command-line tokeniser: tokens are separated by spaces; a token that starts with a double or single quote is the (possibly empty) run of bytes '
            'up to the next occurrence of the same quote character (quotes not included) or up to the end of the buffer when the quote is never closed, '
            'and scanning resumes behind the closing quote; any other token is the maximal run of non-space bytes; token 0 is preceded by spaces only, '
            'consecutive tokens are separated by spaces only, behind the last token there are spaces only; only bytes of the exact-size, non-terminated '
            'buffer are read (known finding C19_split_cmdargs_overread)',
 'kf': ['C19_split_cmdargs_overread'],
 'inject': [
   {'file': 'overlay:cxx/igris_string_cxx.c', 'func': 'cxx_split_cmdargs', 'at': 'body-begin', 'loop': 0, 'ghost': 'g_base = (size_t)(ptr - g_data0);'},
   {'file': 'overlay:cxx/igris_string_cxx.c', 'func': 'cxx_split_cmdargs', 'at': 'after', 'anchor': 'char delim = *ptr;', 'ghost': 'g_cur = (size_t)(ptr - g_data0) + 1; g_isq = 1;'},
   {'file': 'overlay:cxx/igris_string_cxx.c', 'func': 'cxx_split_cmdargs', 'at': 'before', 'anchor': 'while (ptr != end && *ptr != \' \')', 'ghost': 'g_cur = (size_t)(ptr - g_data0); g_isq = 0;'},
   {'file': 'overlay:cxx/igris_string_cxx.c', 'func': 'cxx_split_cmdargs', 'loop': 0, 'expect': 'while (true)',
    'assigns': 'ptr, strt, g_base, g_cur, g_isq, g_ntok, g_ts, g_tl, g_tq, g_ts1, g_tq1, g_last_s, g_last_end, g_last_q',
    'invariants': [
      '__CPROVER_same_object(ptr, g_data0) && __CPROVER_POINTER_OFFSET(g_data0) == 0 && (size_t)__CPROVER_POINTER_OFFSET(ptr) <= g_n && end == g_data0 + g_n',
      'g_ntok <= (size_t)__CPROVER_POINTER_OFFSET(ptr) && (g_last_q == 0 || g_last_q == 1) && (g_tq == 0 || g_tq == 1) && (g_tq1 == 0 || g_tq1 == 1)',
      'g_ntok == 0 ? __CPROVER_POINTER_OFFSET(ptr) == 0 : (g_last_end <= g_n && g_last_end + (size_t)g_last_q == (size_t)__CPROVER_POINTER_OFFSET(ptr) && g_last_s <= g_last_end)',
      'g_ntok > g_t ==> (g_ts <= g_n && g_tl <= g_n - g_ts && g_ts + g_tl + (size_t)g_tq <= (size_t)__CPROVER_POINTER_OFFSET(ptr) && g_ts >= (size_t)g_tq)',
      '(g_ntok > g_t && g_tq) ==> (C19_QUOTE(g_data0[g_ts - 1]) && g_data0[g_ts + g_tl] == g_data0[g_ts - 1])',
      '(g_ntok > g_t && g_tq && g_ts <= g_q && g_q < g_n && g_q - g_ts < g_tl) ==> g_data0[g_q] != g_data0[g_ts - 1]',
      '(g_ntok > g_t && !g_tq) ==> (g_tl >= 1 && !C19_QUOTE(g_data0[g_ts]) && g_data0[g_ts] != 32 && (g_ts + g_tl == g_n || g_data0[g_ts + g_tl] == 32))',
      '(g_ntok > g_t && !g_tq && g_ts <= g_q && g_q < g_n && g_q - g_ts < g_tl) ==> g_data0[g_q] != 32',
      '(g_ntok > g_t && g_t == 0 && g_q < g_ts - (size_t)g_tq && g_q < g_n) ==> g_data0[g_q] == 32',
      '(g_ntok > g_t && g_ntok == g_t + 1) ==> (g_last_end == g_ts + g_tl && g_last_s == g_ts && g_last_q == g_tq)',
      '(g_ntok > g_t && g_ntok > g_t + 1) ==> (g_ts1 >= (size_t)g_tq1 && g_ts + g_tl + (size_t)g_tq <= g_ts1 - (size_t)g_tq1 && g_ts1 <= g_last_s)',
      '(g_ntok > g_t && g_ntok > g_t + 1 && g_ts + g_tl + (size_t)g_tq <= g_q && g_q < g_ts1 - (size_t)g_tq1 && g_q < g_n) ==> g_data0[g_q] == 32',
    ],
    'decreases': 'g_n + 1 - (size_t)__CPROVER_POINTER_OFFSET(ptr)'},
   {'file': 'overlay:cxx/igris_string_cxx.c', 'func': 'cxx_split_cmdargs', 'loop': 1, 'expect': 'while (',
    'assigns': 'ptr',
    'invariants': ['__CPROVER_same_object(ptr, g_data0) && g_base <= (size_t)__CPROVER_POINTER_OFFSET(ptr) && (size_t)__CPROVER_POINTER_OFFSET(ptr) <= g_n',
                   '(g_base <= g_q && g_q < (size_t)__CPROVER_POINTER_OFFSET(ptr)) ==> g_data0[g_q] == 32'],
    'decreases': 'g_n - (size_t)__CPROVER_POINTER_OFFSET(ptr)'},
   {'file': 'overlay:cxx/igris_string_cxx.c', 'func': 'cxx_split_cmdargs', 'loop': 2, 'expect': 'while (ptr != end && *ptr != delim)',
    'assigns': 'ptr',
    'invariants': ['__CPROVER_same_object(ptr, g_data0) && g_cur <= (size_t)__CPROVER_POINTER_OFFSET(ptr) && (size_t)__CPROVER_POINTER_OFFSET(ptr) <= g_n',
                   '(g_cur <= g_q && g_q < (size_t)__CPROVER_POINTER_OFFSET(ptr)) ==> g_data0[g_q] != delim'],
    'decreases': 'g_n - (size_t)__CPROVER_POINTER_OFFSET(ptr)'},
   {'file': 'overlay:cxx/igris_string_cxx.c', 'func': 'cxx_split_cmdargs', 'loop': 3, 'expect': 'while (ptr != end && *ptr != \' \')',
    'assigns': 'ptr',
    'invariants': ['__CPROVER_same_object(ptr, g_data0) && g_cur <= (size_t)__CPROVER_POINTER_OFFSET(ptr) && (size_t)__CPROVER_POINTER_OFFSET(ptr) <= g_n',
                   '(g_cur <= g_q && g_q < (size_t)__CPROVER_POINTER_OFFSET(ptr)) ==> g_data0[g_q] != 32'],
    'decreases': 'g_n - (size_t)__CPROVER_POINTER_OFFSET(ptr)'},
 ],
 'solver': 'cadical',
 'fallback': 'ghost-free',
 'witness': {'unwind': 7},
} @*/
#include "c19_harness.h"
#define C19_QUOTE(c) ((c) == '"' || (c) == '\'')
size_t g_n, g_q, g_base, g_cur;
#include "cxx/igris_string_cxx.c"

void harness(void)
{
    WIT(size_t, n);
    WIT(size_t, t);
    WIT(size_t, q);
    WIT_ARR(char, content, 8);
    __CPROVER_assume(n <= VC_MAXOBJ);
#ifdef WITNESS_MODE
    __CPROVER_assume(n <= 5); /* concretisation / fallback runs: three nested scans, keep the unwinding small */
#endif
    /* known finding: `while (*ptr == ' ' && ptr != end)` reads *ptr first, and the scan comes back to this loop standing at the end after an
       unquoted last token, after a closing quote at the end and after trailing spaces: nearly every call reads the byte at the end.
       Carved out by one readable spare byte (any content) behind the buffer, probed on the exact-size buffer */
    size_t spare = (KF_C19_split_cmdargs_overread == 1);
    char *data = NEW_OBJ(n + spare);
    FILL(data, n + spare, content);
    g_data0 = data; g_n = n; g_t = t; g_q = q;
#ifdef WITNESS_MODE
    g_all_n = 0;
#endif
    g_ntok = 0; g_ts = g_tl = g_ts1 = g_last_s = g_last_end = g_base = g_cur = 0; g_empty = 0; g_isq = g_tq = g_tq1 = g_last_q = 0;

    cxx_split_cmdargs(data, n);

    __CPROVER_assert(g_ntok <= n, "split_cmdargs: at most one token per byte");
    if (g_ntok == 0) {
        __CPROVER_assert(!(q < n) || data[q] == ' ', "split_cmdargs: no token: the buffer holds spaces only");
    } else if (!(g_last_q && g_last_end == n)) {
        __CPROVER_assert(g_last_end + (size_t)g_last_q <= n && (!(g_last_end + (size_t)g_last_q <= q && q < n) || data[q] == ' '), "split_cmdargs: only spaces behind the last token");
    }
    if (t < g_ntok) {
        __CPROVER_assert(g_ts <= n && g_tl <= n - g_ts, "split_cmdargs: token t lies inside the buffer");
        size_t e = g_ts + g_tl;
        if (g_tq) {
            __CPROVER_assert(g_ts >= 1 && C19_QUOTE(data[g_ts - 1]), "split_cmdargs: a quoted token follows an opening quote");
            __CPROVER_assert(!(g_ts <= q && q < e) || data[q] != data[g_ts - 1], "split_cmdargs: a quoted token does not hold its quote character");
            __CPROVER_assert(e == n || data[e] == data[g_ts - 1], "split_cmdargs: a quoted token ends at the matching quote or at the end of the buffer");
        } else {
            __CPROVER_assert(g_tl >= 1 && data[g_ts] != ' ' && !C19_QUOTE(data[g_ts]), "split_cmdargs: a plain token is not empty and starts with neither a space nor a quote");
            __CPROVER_assert(!(g_ts <= q && q < e) || data[q] != ' ', "split_cmdargs: a plain token holds no space");
            __CPROVER_assert(e == n || data[e] == ' ', "split_cmdargs: a plain token is maximal: it ends at a space or at the end of the buffer");
        }
        size_t b = g_ts - (size_t)g_tq; /* where the token begins in the buffer, opening quote included */
        if (t == 0)
            __CPROVER_assert(!(q < b) || data[q] == ' ', "split_cmdargs: only spaces before token 0");
        if (t + 1 < g_ntok) {
            size_t nx = e + (size_t)g_tq, b1 = g_ts1 - (size_t)g_tq1; /* scanning resumes behind the closing quote */
            __CPROVER_assert(g_ts1 >= (size_t)g_tq1 && nx <= b1, "split_cmdargs: token t+1 begins at or behind the point where scanning resumes");
            __CPROVER_assert(!(nx <= q && q < b1) || data[q] == ' ', "split_cmdargs: only spaces between token t and token t+1");
        } else {
            __CPROVER_assert(g_last_end == e && g_last_q == g_tq, "split_cmdargs: the last token recorded is token ntok-1");
        }
    }
#if defined(WITNESS_MODE) && KF_C19_split_cmdargs_overread == 0
    /* direct reference command-line tokeniser over the (small, concrete) buffer, compared with the WHOLE recorded sequence: depends on the
       recorder calls only, not on injected ghost statements */
    {
        size_t rs[C19_REC_MAX], rl[C19_REC_MAX], rn = 0, pos = 0;
        while (pos < n) {
            while (pos < n && data[pos] == ' ') pos++;
            if (pos == n) break;
            size_t s0, e0;
            if (C19_QUOTE(data[pos])) {
                char qc = data[pos];
                s0 = ++pos;
                while (pos < n && data[pos] != qc) pos++;
                e0 = pos;
                if (pos < n) pos++; /* closing quote */
            } else {
                s0 = pos;
                while (pos < n && data[pos] != ' ') pos++;
                e0 = pos;
            }
            if (rn < C19_REC_MAX) { rs[rn] = s0; rl[rn] = e0 - s0; }
            rn++;
        }
        __CPROVER_assert(g_all_n == rn, "split_cmdargs: number of tokens of the reference tokeniser (direct reference)");
        for (size_t i = 0; i < rn && i < g_all_n && i < C19_REC_MAX; i++)
            __CPROVER_assert(g_all_s[i] == rs[i] && g_all_l[i] == rl[i], "split_cmdargs: token i of the reference tokeniser (direct reference)");
    }
#endif
    CANARY("split_cmdargs end reachable");
}
