/*@unit {
 'kind': 'proof', 'mode': 'plain',
 'functions': ['creader_init', 'creader_end', 'creader_curpos', 'creader_itpos'],
 'include': ['/verif/units/C19/cxxshim'],
 'clauses': 'creader_init(r, strt, size): strt == cursor, fini == strt + size (the cursor range [strt, fini] is the buffer); nothing of the buffer is read; '
            'creader_end <=> cursor == fini; creader_curpos / creader_itpos = offset from strt',
 'witness': {'unwind': 9},
} @*/
#include "c19_harness.h"
#include <igris/creader.h>

void harness(void)
{
    WIT(size_t, n);
    WIT(size_t, c);
    WIT_ARR(char, content, 6);
    C19_BLOCK(buf, n, content);
    struct creader rd;
    creader_init(&rd, buf, n);
    __CPROVER_assert(rd.strt == buf && rd.cursor == buf && rd.fini == buf + n, "creader_init: cursor at the start, fini one past the last byte");
    __CPROVER_assert((creader_end(&rd) != 0) == (n == 0) && creader_curpos(&rd) == 0, "creader_end / creader_curpos on a fresh reader");
    __CPROVER_assume(c <= n);
    rd.cursor = buf + c;
    __CPROVER_assert((creader_end(&rd) != 0) == (c == n) && creader_curpos(&rd) == c && creader_itpos(&rd, buf + c) == c, "creader_end / creader_curpos / creader_itpos at an arbitrary cursor");
    CANARY("creader_init end reachable");
}
