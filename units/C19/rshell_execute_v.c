/*@unit {
 'kind': 'proof', 'mode': 'dfcc',
 'bound': 'command table of at most 3 commands (+ sentinel); argv of 1..4 slots',
 'functions': ['rshell_execute_v'],
 'replace': ['strcmp'],
 'unwindset': ['rshell_execute_v.0:5'],
 'complete_unwinding': 'the command-table loop runs at most 4 times for a table of at most 3 commands; unwound 5 times with unwinding assertion',
 'clauses': 'rshell_execute_v(argc, argv, table, retptr, dropargs, output, maxsize), argc >= 1: the handler invoked is the func of the FIRST table entry '
            'whose name strcmp-equals argv[0]; it runs exactly once with (argc - dropargs, argv + dropargs, output, maxsize); SSHELL_OK and *retptr '
            '(when given) = handler value; no entry matches: ENOENT, no handler runs, *retptr untouched; argv and the strings are not written',
 'inject': [
   {'file': 'igris/shell/rshell.c', 'func': 'rshell_execute_v', 'at': 'before', 'anchor': 'res = it->func(argc - dropargs, argv + dropargs, output, maxsize);',
    'ghost': 'g_inv_idx = (int)(it - cmdtable);'},
 ],
 'assumptions': ['rshell_execute_v: argc >= 1 and argv[0] is a string (its callers tokenise first; the blank-line case of rshell_execute is finding C19_shell_blank_line); 0 <= dropargs <= argc (the tables hold 0 or 1)'],
 'trusted': ['strcmp: contracts/c19_libc.h (result observed, string equality abstract)', 'handler stubs of spec/c19_shell.h stand for arbitrary command handlers that do not touch the dispatcher state'],
 'witness': {'unwind': 12},
} @*/
#include "c19_shell.h"
#include "igris/shell/rshell.c"

void harness(void)
{
    WIT(size_t, L);
    WIT(int, n);
    WIT(int, t);
    WIT(int, argc);
    WIT(int, dropargs);
    WIT(int, maxsize);
    WIT(size_t, k);
    WIT(int, with_ret);
    WIT(int, hres);
    WIT(int, f0); WIT(int, f1); WIT(int, f2);
    WIT_ARR(char, content, 8);
    WIT_ARR(char, c0, 2); WIT_ARR(char, c1, 2); WIT_ARR(char, c2, 2);
    C19_STRING(str, L, content, 0);
    C19_NAME(n0, c0);
    C19_NAME(n1, c1);
    C19_NAME(n2, c2);
    __CPROVER_assume(0 <= n && n <= C19_NT);
    __CPROVER_assume(1 <= argc && argc <= 4 && 0 <= dropargs && dropargs <= argc);
    char *argv[4];
    argv[0] = str;
    char *argv_k_old = k < (size_t)argc ? argv[k] : 0;
    char out[4];
    struct rshell_command table[C19_NT + 1];
    table[0] = (struct rshell_command){n0, f0 ? c19_rh_1 : c19_rh_2, NULL};
    table[1] = (struct rshell_command){n1, f1 ? c19_rh_1 : c19_rh_2, NULL};
    table[2] = (struct rshell_command){n2, f2 ? c19_rh_1 : c19_rh_2, NULL};
    table[3] = (struct rshell_command){NULL, NULL, NULL};
    table[n] = (struct rshell_command){NULL, NULL, NULL};
    C19_GHOST_RESET();
    g_sp_k = k;
    g_h_k = k;
    g_h_res = hres;
    g_strcmp_watch = (0 <= t && t < n) ? table[t].name : NULL;
    int ret = 0x5A5A;

    int r = rshell_execute_v(argc, argv, table, with_ret ? &ret : NULL, dropargs, out, maxsize);

    __CPROVER_assert(g_h_calls <= 1, "rshell_execute_v: at most one handler runs");
    if (g_h_calls == 1) {
        __CPROVER_assert(0 <= g_inv_idx && g_inv_idx < n, "rshell_execute_v: the handler belongs to a table entry in front of the sentinel");
        __CPROVER_assert(g_h_which == ((g_inv_idx == 0 ? f0 : g_inv_idx == 1 ? f1 : f2) ? 1 : 2), "rshell_execute_v: the func of that entry is what runs");
        __CPROVER_assert(!(0 <= t && t < g_inv_idx) || (g_strcmp_seen && g_strcmp_res != 0), "rshell_execute_v: no earlier entry names argv[0]");
        __CPROVER_assert(!(t == g_inv_idx) || (g_strcmp_seen && g_strcmp_res == 0), "rshell_execute_v: the entry names argv[0] (strcmp == 0)");
        __CPROVER_assert(g_h_argc == argc - dropargs && g_h_argv == argv + dropargs && g_h_out == out && g_h_maxsize == maxsize,
                         "rshell_execute_v: the handler gets (argc - dropargs, argv + dropargs, output, maxsize)");
        __CPROVER_assert(r == SSHELL_OK && (with_ret ? ret == hres : ret == 0x5A5A), "rshell_execute_v: SSHELL_OK, handler value stored through retptr when given");
    } else {
        __CPROVER_assert(!(0 <= t && t < n) || (g_strcmp_seen && g_strcmp_res != 0), "rshell_execute_v: no handler ran: no entry names argv[0]");
        __CPROVER_assert(r == ENOENT && ret == 0x5A5A, "rshell_execute_v: unknown command: ENOENT, *retptr untouched");
    }
    __CPROVER_assert(!(k < (size_t)argc) || argv[k] == argv_k_old, "rshell_execute_v: argv not modified");
    CANARY("rshell_execute_v end reachable");
}
