/*@unit {
 'kind': 'proof', 'mode': 'legacy',
 'functions': ['argvc_internal_split'],
 'clauses': 'argvc_internal_split(data, argv, argcmax) against the reference white-space tokeniser (spec/c19_tok.h; white space = space, CR, LF, TAB; the '
            'input ends at its first NUL): 0 <= argc <= argcmax; argv[k] = start of the k-th maximal non-blank run, for every k < argc (token 0 is '
            'preceded by blanks only, token k+1 is separated from token k by blanks only, every token is a maximal run); argc < argcmax: no non-blank '
            'byte is left behind the last token; a terminator is written exactly over the blank that ends a token, every other byte of data keeps its '
            'value; argv[argc..argcmax) untouched; argcmax <= 0: nothing written; nothing is read or written outside the string object (it ends '
            'at its NUL) and the argcmax-element argv object',
 'inject': [
   {'file': 'igris/datastruct/argvc.h', 'func': 'argvc_internal_split', 'at': 'func-begin', 'ghost': 'g_d0 = data;'},
   {'file': 'igris/datastruct/argvc.h', 'func': 'argvc_internal_split', 'at': 'body-begin', 'loop': 0, 'ghost': 'g_base = C19_OFF(data, g_d0);'},
   {'file': 'igris/datastruct/argvc.h', 'func': 'argvc_internal_split', 'at': 'before', 'anchor': 'if (*data == \'\\0\' || argc >= argcmax)',
    'ghost': 'g_stop = C19_OFF(data, g_d0);'},
   {'file': 'igris/datastruct/argvc.h', 'func': 'argvc_internal_split', 'at': 'after', 'anchor': 'argv[argc++] = data;',
    'ghost': 'if ((size_t)(argc - 1) == g_k) g_sk = C19_OFF(data, g_d0); if ((size_t)(argc - 1) == g_k + 1) g_sk1 = C19_OFF(data, g_d0); g_cur_s = C19_OFF(data, g_d0);'},
   {'file': 'igris/datastruct/argvc.h', 'func': 'argvc_internal_split', 'at': 'before', 'anchor': 'if (*data == \'\\0\')',
    'ghost': 'if ((size_t)(argc - 1) == g_k) g_ek = C19_OFF(data, g_d0); g_last_e = C19_OFF(data, g_d0); g_stop = C19_OFF(data, g_d0);'},
   {'file': 'igris/datastruct/argvc.h', 'func': 'argvc_internal_split', 'loop': 0, 'expect': 'while (1)',
    'assigns': 'data, argc, g_base, g_stop, g_sk, g_sk1, g_ek, g_last_e, g_cur_s, __CPROVER_object_whole(g_d0), __CPROVER_object_whole(argv)',
    'invariants': [
      '__CPROVER_same_object(data, g_d0) && __CPROVER_POINTER_OFFSET(g_d0) == 0 && (size_t)__CPROVER_POINTER_OFFSET(data) <= g_L && g_d0[g_L] == 0',
      '0 <= argc && (argc == 0 || argc <= argcmax)',
      'argc == 0 ? __CPROVER_POINTER_OFFSET(data) == 0 : (g_last_e + 1 == (size_t)__CPROVER_POINTER_OFFSET(data))',
      '(g_q <= g_L && g_q >= (size_t)__CPROVER_POINTER_OFFSET(data)) ==> g_d0[g_q] == g_vq',
      'g_q < (size_t)__CPROVER_POINTER_OFFSET(data) ==> (g_vq != 0 && (g_d0[g_q] == g_vq || (g_d0[g_q] == 0 && C19_WS(g_vq))))',
      '(argc > 0 && g_k < (size_t)argc) ==> (g_sk < g_ek && g_ek < (size_t)__CPROVER_POINTER_OFFSET(data) && argv[g_k] == g_d0 + g_sk)',
      'argc > 0 ==> (__CPROVER_same_object(argv[0], g_d0) && (size_t)__CPROVER_POINTER_OFFSET(argv[0]) < (size_t)__CPROVER_POINTER_OFFSET(data))',
      '(argc > 0 && g_k < (size_t)argc && g_q == g_ek) ==> (C19_WS(g_vq) && g_d0[g_q] == 0)',
      '(argc > 0 && g_k < (size_t)argc && g_sk <= g_q && g_q < g_ek) ==> (!C19_WS(g_vq) && g_d0[g_q] == g_vq)',
      '(argc > 0 && g_k < (size_t)argc && g_k == 0 && g_q < g_sk) ==> (C19_WS(g_vq) && g_d0[g_q] == g_vq)',
      '(argc > 0 && g_k < (size_t)argc && g_k + 1 < (size_t)argc) ==> (g_ek < g_sk1 && g_sk1 < (size_t)__CPROVER_POINTER_OFFSET(data))',
      '(argc > 0 && g_k < (size_t)argc && g_k + 1 < (size_t)argc && g_ek < g_q && g_q < g_sk1) ==> (C19_WS(g_vq) && g_d0[g_q] == g_vq)',
      '(argc > 0 && g_k + 1 == (size_t)argc) ==> g_last_e == g_ek',
      '(g_j < g_argvn && (argc == 0 || g_j >= (size_t)argc)) ==> argv[g_j] == g_aj',
    ],
    'decreases': 'g_L - (size_t)__CPROVER_POINTER_OFFSET(data)'},
   {'file': 'igris/datastruct/argvc.h', 'func': 'argvc_internal_split', 'loop': 1, 'expect': 'while (*data !=',
    'assigns': 'data',
    'invariants': [
      '__CPROVER_same_object(data, g_d0) && g_base <= (size_t)__CPROVER_POINTER_OFFSET(data) && (size_t)__CPROVER_POINTER_OFFSET(data) <= g_L',
      '(g_base <= g_q && g_q < (size_t)__CPROVER_POINTER_OFFSET(data)) ==> C19_WS(g_d0[g_q])',
    ],
    'decreases': 'g_L - (size_t)__CPROVER_POINTER_OFFSET(data)'},
   {'file': 'igris/datastruct/argvc.h', 'func': 'argvc_internal_split', 'loop': 2, 'expect': 'while (!strchr(ws, *data)',
    'assigns': 'data',
    'invariants': [
      '__CPROVER_same_object(data, g_d0) && g_cur_s <= (size_t)__CPROVER_POINTER_OFFSET(data) && (size_t)__CPROVER_POINTER_OFFSET(data) <= g_L',
      '(g_cur_s <= g_q && g_q < (size_t)__CPROVER_POINTER_OFFSET(data)) ==> (!C19_WS(g_d0[g_q]) && g_d0[g_q] != 0)',
    ],
    'decreases': 'g_L - (size_t)__CPROVER_POINTER_OFFSET(data)'},
 ],
 'ghost_calls': ['C19_OFF'],
 'trusted': ['strchr on the constant string " \\r\\n\\t": cbmc library model (the loop over the 5-byte literal is unwound by constant propagation)'],
 'fallback': 'ghost-free',
 'witness': {'unwind': 12},
} @*/
#define C19_SPLIT_PROVER
#include "c19_tok.h"
#include "c19_shell_contracts.h"
size_t g_L;            /* index of the terminator (last byte of the object) */
size_t g_j, g_argvn;   /* ghost argv index; number of argv slots */
char *g_aj;            /* old argv[g_j] */
char *g_d0;
#include <igris/datastruct/argvc.h>
#define C19_NUL(c) ((c) == 0)

void harness(void)
{
    WIT(size_t, L);
    WIT(int, argcmax);
    WIT(size_t, k);
    WIT(size_t, q);
    WIT(size_t, j);
    WIT_ARR(char, content, 8);
    C19_STRING(data, L, content, 0);
    __CPROVER_assume(argcmax <= 1000000);
    size_t nslots = argcmax > 0 ? (size_t)argcmax : 0;
    char **argv = NEW_OBJ(nslots * sizeof(char *));
    g_L = L; g_k = k; g_q = q; g_j = j; g_argvn = nslots;
    g_vq = q <= L ? data[q] : 0;
    g_aj = j < nslots ? argv[j] : 0;
    g_sk = g_ek = g_sk1 = g_stop = g_last_e = g_cur_s = g_base = 0;

#ifdef WITNESS_MODE
    char orig[8];
    for (size_t i = 0; i <= L && i < 8; i++) orig[i] = data[i];
#endif

    int argc = argvc_internal_split(data, argv, argcmax);

#ifdef WITNESS_MODE
    /* direct reference tokeniser over the (small, concrete) string: no ghost state */
    {
        char expect[8];
        size_t start[8];
        int rc = 0;
        size_t pos = 0;
        for (size_t i = 0; i <= L && i < 8; i++) expect[i] = orig[i];
        while (1) {
            while (orig[pos] != 0 && C19_WS(orig[pos])) pos++;
            if (orig[pos] == 0 || rc >= argcmax) break;
            if (rc < 8) start[rc] = pos;
            rc++;
            while (orig[pos] != 0 && !C19_WS(orig[pos])) pos++;
            if (orig[pos] == 0) break;
            expect[pos++] = 0;
        }
        __CPROVER_assert(argc == rc, "split: argc of the reference tokeniser (direct reference)");
        for (int i = 0; i < rc && i < argc && i < 8; i++)
            __CPROVER_assert(argv[i] == data + start[i], "split: argv[i] = start of the i-th maximal non-blank run (direct reference)");
        for (size_t i = 0; i <= L && i < 8; i++)
            __CPROVER_assert(data[i] == expect[i], "split: terminators exactly over the blanks that end a token (direct reference)");
    }
#endif
#if !VC_FALLBACK

    char cur_q = q <= L ? data[q] : 0;
    C19_TOK_CHECKS(argc, argcmax, cur_q, C19_WS, C19_NUL);
    if (argc > 0 && k < (size_t)argc)
        __CPROVER_assert(argv[k] == data + g_sk && g_ek <= L, "split: argv[k] points at the start of token k");
    __CPROVER_assert(!(j < nslots && (argc == 0 || j >= (size_t)argc)) || argv[j] == g_aj, "split: argv slots from argc on are untouched");
    /* where the scan stopped */
    __CPROVER_assert(g_stop <= L && (!(q < g_stop) || g_vq != 0), "split: the scan stays inside the string and passes no NUL");
    if (argc < argcmax) {
        __CPROVER_assert(!(q == g_stop) || g_vq == 0, "split: fewer than argcmax tokens: the scan reached the terminator");
        if (argc == 0)
            __CPROVER_assert(!(q < g_stop) || (C19_WS(g_vq) && cur_q == g_vq), "split: argc == 0: the line is blank, left untouched");
        else if (k + 1 == (size_t)argc)
            __CPROVER_assert(!(g_ek < q && q < g_stop) || (C19_WS(g_vq) && cur_q == g_vq), "split: only blanks behind the last token, left untouched");
    }
    __CPROVER_assert(!(q <= L && q >= g_stop) || cur_q == g_vq, "split: nothing is written at or behind the stop position");
    __CPROVER_assert(!(q <= L) || cur_q == g_vq || (cur_q == 0 && C19_WS(g_vq)), "split: terminators are written only over blanks");
#endif /* !VC_FALLBACK */
    /* the contract the shell dispatcher units use instead of the splitter (contracts/c19_shell_contracts.h) */
    g_sp_k = k;
    g_sp_vk = (argc > 0 && k < (size_t)argc) ? argv[k] : 0;
#ifndef REPLAY /* object sizes are not available natively */
    __CPROVER_assert(C19_SPLIT_POST(argc, data, argv, argcmax), "split: contract clause C19_SPLIT_POST (argc in range, data still a string, argv[k] point into data)");
#endif
    CANARY("argvc_internal_split end reachable");
}
