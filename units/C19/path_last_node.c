/*@unit {
 'kind': 'proof', 'mode': 'dfcc',
 'functions': ['path_last_node'],
 'include': ['/verif/units/C19/cxxshim'],
 'replace': ['strlen'],
 'clauses': 'path_last_node(p), non-empty p: the result is the start of the last node: no separator in [result, end of string), and the result is the '
            'start of the string or follows a separator; reads only bytes of the string, writes nothing.  The separator the routine looks for is the '
            'BACKSLASH (every other helper of pathops.h uses the slash): finding C19_path_last_node_backslash; the empty string makes it step in front '
            'of the buffer: finding C19_path_last_node_empty',
 'kf': ['C19_path_last_node_empty', 'C19_path_last_node_backslash'],
 'inject': [{'file': 'igris/util/pathops.h', 'func': 'path_last_node', 'at': 'func-begin', 'ghost': 'g_p0 = path;'},
            {'file': 'igris/util/pathops.h', 'func': 'path_last_node', 'at': 'before', 'anchor': 'do', 'ghost': 'g_n = C19_OFF(it, g_p0);'},
            {'file': 'igris/util/pathops.h', 'func': 'path_last_node', 'loop': 0, 'expect': 'do',
             'assigns': 'it',
             'invariants': ['__CPROVER_same_object(it, g_p0) && __CPROVER_POINTER_OFFSET(g_p0) == 0 && path == g_p0',
                            '0 < __CPROVER_POINTER_OFFSET(it) && (size_t)__CPROVER_POINTER_OFFSET(it) <= g_n && g_n <= g_L',
                            '((size_t)__CPROVER_POINTER_OFFSET(it) <= g_k && g_k < g_n) ==> g_p0[g_k] != C19_LAST_SEP'],
             'decreases': '__CPROVER_POINTER_OFFSET(it)'}],
 'ghost_calls': ['C19_OFF'],
 'trusted': ['strlen: ISO C 7.24.6.3 contract in contracts/c19_libc.h'],
 'witness': {'unwind': 9},
} @*/
#include "c19_path.h"
#include "c19_libc.h"
size_t g_L, g_k, g_n;
const char *g_p0;
/* the separator: what the code implements while the finding is open (KF == 1), the slash every other helper uses otherwise */
#define C19_LAST_SEP ((KF_C19_path_last_node_backslash == 1) ? '\\' : '/')
#include <igris/util/pathops.h>

void harness(void)
{
    WIT(size_t, L);
    WIT(size_t, k);
    WIT(size_t, z);
    WIT_ARR(char, content, 8);
    C19_STRING(p, L, content, 0);
    /* known finding: "" -> `--it` steps in front of the buffer and *it is read there */
    __CPROVER_assume(KF_C19_path_last_node_empty == 0 ? 1 : KF_C19_path_last_node_empty == 1 ? !(p[0] == 0) : (p[0] == 0));
    /* known finding (probe only): a path holding a slash and no backslash; z is the position of a slash */
    if (KF_C19_path_last_node_backslash == 2) __CPROVER_assume(z < L && p[z] == '/' && k == z);
    g_L = L;
    g_k = k;
    g_n = 0;
    g_strlen_k = k; g_strlen_ps = 0; g_strlen_pr = 0;

    const char *r = path_last_node(p);

    /* g_n: strlen(p) as the routine computed it (ghost output) */
    __CPROVER_assert(g_n <= L && p[g_n] == 0 && (!(k < g_n) || p[k] != 0), "path_last_node: scans the string up to its first NUL");
    __CPROVER_assert(__CPROVER_same_object(r, p) && r >= p && (size_t)(r - p) <= g_n, "path_last_node: result inside the string");
    size_t ro = (size_t)(r - p);
    __CPROVER_assert(!(ro <= k && k < g_n) || p[k] != C19_LAST_SEP, "path_last_node: no separator in the last node");
    __CPROVER_assert(ro == 0 || p[ro - 1] == C19_LAST_SEP, "path_last_node: the last node starts the string or follows a separator");
    CANARY("path_last_node end reachable");
}
