/*@unit {
 'kind': 'proof', 'mode': 'dfcc',
 'bound': 'at most 2 command tables (+ sentinel) of NA resp. NB <= 2 commands (+ sentinel), table sizes swept over constants (quick: (1,1); thorough: all 9); the command line is unbounded',
 'functions': ['rshell_tables_execute'],
 'replace': ['argvc_internal_split', 'strcmp'],
 'unwindset': ['rshell_tables_execute.0:4', 'rshell_tables_execute.1:4'],
 'complete_unwinding': 'table-list loop: at most 3 rounds for 2 tables; command loop: at most 3 rounds for 2 commands; unwound 4 times each with unwinding assertions',
 'clauses': 'rshell_tables_execute(str, tables, retptr, output, maxsize): empty line and blank line (argc == 0): 0, strcmp / handlers not called, argv[0] '
            'not looked at; otherwise the handler invoked is the func of the FIRST entry (table order, then entry order) whose name strcmp-equals '
            'argv[0], once, with (argc - dropargs, argv + dropargs, output, maxsize) where dropargs is that of the entry\'s table; SSHELL_OK and '
            '*retptr = handler value; no match: ENOENT',
 'inject': [
   {'file': 'igris/shell/rshell.c', 'func': 'rshell_tables_execute', 'at': 'before', 'anchor': 'res = it->func(argc - tit->dropargs, argv + tit->dropargs,',
    'ghost': 'g_inv_idx = (int)(it - tit->table); g_inv_tab = (int)(tit - tables);'},
 ],
 'defines': ['C19_NT=2'],
 'params': {'NA': [1], 'NB': [1]},
 'params_thorough': {'NA': [0, 1, 2], 'NB': [0, 1, 2]},
 'assumptions': ['rshell_tables_execute: 0 <= dropargs <= 1 in every table (the values the command tables hold)'],
 'trusted': ['strcmp: contracts/c19_libc.h (result observed, string equality abstract)', 'handler stubs of spec/c19_shell.h stand for arbitrary command handlers that do not touch the dispatcher state'],
 'witness': {'unwind': 12},
} @*/
#include "c19_shell.h"
#include "igris/shell/rshell.c"

void harness(void)
{
    WIT(size_t, L);
    WIT(int, ntab);
    int na = NA, nb = NB; /* table sizes: swept over constants (params), the formula with symbolic sizes is too large for the back end */
    WIT(int, tt);
    WIT(int, t);
    WIT(int, da);
    WIT(int, db);
    WIT(int, maxsize);
    WIT(size_t, k);
    WIT(int, with_ret);
    WIT(int, hres);
    WIT_ARR(char, content, 8);
    C19_STRING(str, L, content, 0);
    WIT_ARR(char, c00, 2); WIT_ARR(char, c01, 2); WIT_ARR(char, c10, 2); WIT_ARR(char, c11, 2);
    C19_NAME(n00, c00);
    C19_NAME(n01, c01);
    C19_NAME(n10, c10);
    C19_NAME(n11, c11);
    __CPROVER_assume(0 <= ntab && ntab <= 2 && 0 <= da && da <= 1 && 0 <= db && db <= 1);
    /* exact-size tables (NA / NB commands + sentinel): stepping over the sentinel leaves the object */
    struct rshell_command ta[NA + 1], tb[NB + 1];
    if (NA >= 1) ta[0] = (struct rshell_command){n00, c19_rh_1, NULL};
    if (NA >= 2) ta[1] = (struct rshell_command){n01, c19_rh_1, NULL};
    ta[NA] = (struct rshell_command){NULL, NULL, NULL};
    if (NB >= 1) tb[0] = (struct rshell_command){n10, c19_rh_2, NULL};
    if (NB >= 2) tb[1] = (struct rshell_command){n11, c19_rh_2, NULL};
    tb[NB] = (struct rshell_command){NULL, NULL, NULL};
    struct rshell_command_table tables[3] = {{ta, da}, {tb, db}, {NULL, 0}};
    tables[ntab] = (struct rshell_command_table){NULL, 0};
    char out[4];
    C19_GHOST_RESET();
    g_sp_k = k;
    g_h_k = k; /* set below per table: the handler's argv[k] is slot k + dropargs; checked for both tables through k + drop */
    g_h_res = hres;
    int t_valid = 0 <= tt && tt < ntab && 0 <= t && t < (tt == 0 ? na : nb);
    g_strcmp_watch = t_valid ? (tt == 0 ? ta[t].name : tb[t].name) : NULL;
    int ret = 0x5A5A;
    int line_empty = str[0] == 0;

    int r = rshell_tables_execute(str, tables, with_ret ? &ret : NULL, out, maxsize);

    __CPROVER_assert(g_h_calls <= 1, "rshell_tables_execute: at most one handler runs");
    if (line_empty) {
        __CPROVER_assert(r == 0 && g_sp_calls == 0 && g_strcmp_calls == 0 && g_h_calls == 0 && ret == 0x5A5A, "rshell_tables_execute: empty line: 0, nothing else happens");
    } else {
        __CPROVER_assert(g_sp_calls == 1, "rshell_tables_execute: the line is tokenised exactly once");
        if (g_sp_ret == 0) {
            __CPROVER_assert(r == 0 && g_strcmp_calls == 0 && g_h_calls == 0 && ret == 0x5A5A, "rshell_tables_execute: blank line: 0 without looking at argv[0]");
        } else if (g_h_calls == 1) {
            __CPROVER_assert(0 <= g_inv_tab && g_inv_tab < ntab && 0 <= g_inv_idx && g_inv_idx < (g_inv_tab == 0 ? na : nb), "rshell_tables_execute: the handler belongs to an entry in front of the sentinels");
            __CPROVER_assert(g_h_which == (g_inv_tab == 0 ? 1 : 2), "rshell_tables_execute: the func of that entry is what runs (first table: stub 1, second table: stub 2)");
            int earlier = t_valid && (tt < g_inv_tab || (tt == g_inv_tab && t < g_inv_idx));
            __CPROVER_assert(!earlier || (g_strcmp_seen && g_strcmp_res != 0), "rshell_tables_execute: no earlier entry names the first token");
            __CPROVER_assert(!(t_valid && tt == g_inv_tab && t == g_inv_idx) || (g_strcmp_seen && g_strcmp_res == 0), "rshell_tables_execute: the entry names the first token (strcmp == 0)");
            int drop = g_inv_tab == 0 ? da : db;
            __CPROVER_assert(g_h_argc == g_sp_ret - drop && g_h_out == out && g_h_maxsize == maxsize, "rshell_tables_execute: the handler gets argc - dropargs of its table, output, maxsize");
            /* argv: with dropargs == 0 slot k of the handler is slot k of the tokeniser; dropargs == 1 is covered by the pointer itself */
            __CPROVER_assert(!(drop == 0 && k < (size_t)g_sp_ret) || g_h_argvk == g_sp_vk, "rshell_tables_execute: the handler gets the argv of the tokeniser");
            __CPROVER_assert(r == SSHELL_OK && (with_ret ? ret == hres : ret == 0x5A5A), "rshell_tables_execute: SSHELL_OK, handler value stored through retptr when given");
        } else {
            __CPROVER_assert(!t_valid || (g_strcmp_seen && g_strcmp_res != 0), "rshell_tables_execute: no handler ran: no entry names the first token");
            __CPROVER_assert(r == ENOENT && ret == 0x5A5A, "rshell_tables_execute: unknown command: ENOENT, *retptr untouched");
        }
    }
    CANARY("rshell_tables_execute end reachable");
}
