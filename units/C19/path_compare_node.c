/*@unit {
 'kind': 'proof', 'mode': 'legacy',
 'functions': ['path_compare_node'],
 'include': ['/verif/units/C19/cxxshim'],
 'clauses': 'path_compare_node(a, b) compares the components at a and b (bytes up to the next slash / NUL) lexicographically: the components '
            'agree on [0, i); 0 iff both end at i; -1 iff a ends first or a[i] < b[i]; 1 iff b ends first or a[i] > b[i] (bytes compared as plain char, '
            'as the source does); reads only the two components and their end bytes, writes nothing',
 'inject': [{'file': 'igris/util/pathops.h', 'func': 'path_compare_node', 'at': 'func-begin', 'ghost': 'g_a0 = a; g_b0 = b;'},
            {'file': 'igris/util/pathops.h', 'func': 'path_compare_node', 'at': 'before', 'anchor': 'return *a < *b ? -1 : 1;', 'ghost': 'g_i = C19_OFF(a, g_a0);'},
            {'file': 'igris/util/pathops.h', 'func': 'path_compare_node', 'at': 'before', 'anchor': 'if (*a == \'\\0\' || *a == \'/\')', 'ghost': 'g_i = C19_OFF(a, g_a0);'},
            {'file': 'igris/util/pathops.h', 'func': 'path_compare_node', 'loop': 0, 'expect': 'while (*a !=',
             'assigns': 'a, b, g_i',
             'invariants': ['__CPROVER_same_object(a, g_a0) && __CPROVER_POINTER_OFFSET(g_a0) == 0 && __CPROVER_same_object(b, g_b0) && __CPROVER_POINTER_OFFSET(g_b0) == 0',
                            '__CPROVER_POINTER_OFFSET(a) == __CPROVER_POINTER_OFFSET(b)',
                            '0 <= __CPROVER_POINTER_OFFSET(a) && (size_t)__CPROVER_POINTER_OFFSET(a) <= g_La && (size_t)__CPROVER_POINTER_OFFSET(a) <= g_Lb',
                            'g_k < (size_t)__CPROVER_POINTER_OFFSET(a) ==> (g_a0[g_k] == g_b0[g_k] && !C19_PEND(g_a0[g_k]))'],
             'decreases': 'g_La - (size_t)__CPROVER_POINTER_OFFSET(a)'}],
 'ghost_calls': ['C19_OFF'],
 'witness': {'unwind': 9},
} @*/
#include "c19_path.h"
size_t g_La, g_Lb, g_k, g_i;
const char *g_a0, *g_b0;
#include <igris/util/pathops.h>

void harness(void)
{
    WIT(size_t, La);
    WIT(size_t, Lb);
    WIT(size_t, k);
    WIT_ARR(char, ca, 8);
    WIT_ARR(char, cb, 8);
    C19_STRING(a, La, ca, 0);
    C19_STRING(b, Lb, cb, 0);
    g_La = La;
    g_Lb = Lb;
    g_k = k;

    int r = path_compare_node(a, b);

    /* g_i: index at which the comparison stopped (ghost output) */
    size_t i = g_i;
    __CPROVER_assert(i <= La && i <= Lb, "compare_node: stop position inside both strings");
    __CPROVER_assert(!(k < i) || (a[k] == b[k] && !C19_PEND(a[k])), "compare_node: the components agree before the stop position and do not end there");
    if (C19_PEND(a[i]))
        __CPROVER_assert(r == (C19_PEND(b[i]) ? 0 : -1), "compare_node: a ends: 0 when b ends too, else -1 (a is a proper prefix)");
    else if (C19_PEND(b[i]))
        __CPROVER_assert(r == 1, "compare_node: b ends first: 1");
    else
        __CPROVER_assert(a[i] != b[i] && r == (a[i] < b[i] ? -1 : 1), "compare_node: first differing byte decides");
    CANARY("compare_node end reachable");
}
