/*@unit {
 'kind': 'proof', 'mode': 'legacy',
 'functions': ['path_compare_node'],
 'include': ['/verif/units/C19/cxxshim'],
 'clauses': 'path_compare_node(a, b) compares the components at a and b (bytes up to the next slash / NUL) lexicographically: the components '
            'agree on [0, i); 0 iff both end at i; -1 iff a ends first or a[i] < b[i]; 1 iff b ends first or a[i] > b[i] (bytes compared as plain char, '
            'as the source does); a and b may point anywhere into their strings (symbolic start offset); reads only the two components and their '
            'end bytes, writes nothing.  The asserted clause is C19_CMP_POST of contracts/c19_path_contracts.h, the contract path_remove_prefix uses.',
 'inject': [{'file': 'igris/util/pathops.h', 'func': 'path_compare_node', 'at': 'func-begin', 'ghost': 'g_a0 = a; g_b0 = b;'},
            {'file': 'igris/util/pathops.h', 'func': 'path_compare_node', 'at': 'before', 'anchor': 'return *a < *b ? -1 : 1;', 'ghost': 'g_cmp_i = (size_t)(a - g_a0);'},
            {'file': 'igris/util/pathops.h', 'func': 'path_compare_node', 'at': 'before', 'anchor': 'if (*a == \'\\0\' || *a == \'/\')', 'ghost': 'g_cmp_i = (size_t)(a - g_a0);'},
            {'file': 'igris/util/pathops.h', 'func': 'path_compare_node', 'loop': 0, 'expect': 'while (*a !=',
             'assigns': 'a, b, g_cmp_i',
             'invariants': ['__CPROVER_same_object(a, g_a0) && __CPROVER_same_object(b, g_b0)',
                            'C19_POFF(g_a0) <= C19_POFF(a) && C19_POFF(a) <= g_Ta && C19_POFF(g_b0) <= C19_POFF(b) && C19_POFF(b) <= g_Tb',
                            'C19_POFF(a) - C19_POFF(g_a0) == C19_POFF(b) - C19_POFF(g_b0)',
                            'g_cmp_k < C19_POFF(a) - C19_POFF(g_a0) ==> (g_a0[g_cmp_k] == g_b0[g_cmp_k] && !C19_PEND(g_a0[g_cmp_k]))',
                            'C19_POFF(a) > C19_POFF(g_a0) ==> (!C19_PEND(g_a0[0]) && !C19_PEND(g_b0[0]))'],
             'decreases': 'g_Ta - C19_POFF(a)'}],
 'solver': 'cadical',
 'fallback': 'ghost-free',
 'witness': {'unwind': 9},
} @*/
#include "c19_path_contracts.h"
#include "c19_path_ref.h"
size_t g_Ta, g_Tb; /* absolute offsets of the terminators */
const char *g_a0, *g_b0;
#include <igris/util/pathops.h>

void harness(void)
{
    WIT(size_t, offa);
    WIT(size_t, offb);
    WIT(size_t, La);
    WIT(size_t, Lb);
    WIT(size_t, k);
    WIT_ARR(char, ca, 8);
    WIT_ARR(char, cb, 8);
    C19_PSTRING(a, offa, La, ca, 0);
    C19_PSTRING(b, offb, Lb, cb, 0);
    g_Ta = offa + La;
    g_Tb = offb + Lb;
    g_cmp_k = k;
    g_path_spare = 0; /* ghost globals are set explicitly: the instrumented program does not zero-initialise them */

    int r = path_compare_node(a, b);

#if !VC_FALLBACK
    __CPROVER_assert(C19_CMP_POST(r, a, b), "compare_node: contract clause C19_CMP_POST (lexicographic comparison of the two components)");
    __CPROVER_assert(C19_CMP_POST_LIGHT(r, a, b), "compare_node: contract clause C19_CMP_POST_LIGHT (result in {-1,0,1}; equal nodes are both empty or both non-empty)");
#endif
#ifdef WITNESS_MODE
    /* direct reference: lexicographic comparison of the two components, computed bytewise (no ghost state) */
    {
        __CPROVER_assert(r == c19_ref_cmp(a, b), "compare_node: -1 / 0 / 1 as the component-wise reference says (direct reference)");
    }
#endif
    CANARY("compare_node end reachable");
}
