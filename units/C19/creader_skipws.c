/*@unit {
 'kind': 'proof', 'mode': 'legacy',
 'functions': ['creader_skipws', 'creader_skip'],
 'include': ['/verif/units/C19/cxxshim'],
 'clauses': 'creader_skipws(r) = creader_skip(r, TAB LF CR SPACE): the cursor advances over the maximal run of white space: every skipped byte is one of the four, '
            'the byte at the new cursor is none of them, or the cursor is fini; result = number of skipped bytes; the cursor stays in [old cursor, fini]; '
            'nothing is read at fini; only r->cursor is written',
 'inject': [{'file': 'igris/creader.h', 'func': 'creader_skip', 'at': 'func-begin', 'ghost': 'g_c0 = reader->cursor; g_sym0 = symbols;'},
            {'file': 'igris/creader.h', 'func': 'creader_skip', 'at': 'body-begin', 'loop': 0, 'ghost': 'g_sj = 0;'},
            {'file': 'igris/creader.h', 'func': 'creader_skip', 'at': 'body-begin', 'loop': 1, 'ghost': 'g_sj = (size_t)(s - g_sym0) + 1;'},
            {'file': 'igris/creader.h', 'func': 'creader_skip', 'at': 'before', 'anchor': 'found = 1;',
             'ghost': 'if ((size_t)(reader->cursor - g_buf) == g_k) g_wj = (size_t)(s - g_sym0);'},
            {'file': 'igris/creader.h', 'func': 'creader_skip', 'loop': 0, 'expect': 'while (reader->cursor != reader->fini)',
             'assigns': 'reader->cursor, count, g_wj, g_sj',
             'invariants': ['reader == g_rd && reader->fini == g_buf + g_n && __CPROVER_same_object(reader->cursor, g_buf) && __CPROVER_POINTER_OFFSET(g_buf) == 0',
                            'symbols == g_sym0 && __CPROVER_POINTER_OFFSET(g_sym0) == 0',
                            '(size_t)__CPROVER_POINTER_OFFSET(g_c0) <= (size_t)__CPROVER_POINTER_OFFSET(reader->cursor) && (size_t)__CPROVER_POINTER_OFFSET(reader->cursor) <= g_n',
                            'count >= 0 && (size_t)count == (size_t)__CPROVER_POINTER_OFFSET(reader->cursor) - (size_t)__CPROVER_POINTER_OFFSET(g_c0)',
                            '((size_t)__CPROVER_POINTER_OFFSET(g_c0) <= g_k && g_k < (size_t)__CPROVER_POINTER_OFFSET(reader->cursor)) ==> (g_wj < g_symL && g_sym0[g_wj] == g_buf[g_k] && g_sym0[g_wj] != 0)'],
             'decreases': 'g_n - (size_t)__CPROVER_POINTER_OFFSET(reader->cursor)'},
            {'file': 'igris/creader.h', 'func': 'creader_skip', 'loop': 1, 'expect': 'for (const char *s = symbols;',
             'assigns': 's, found, g_wj, g_sj',
             'invariants': ['__CPROVER_same_object(s, g_sym0) && (size_t)__CPROVER_POINTER_OFFSET(s) <= g_symL && found == 0 && g_sj == (size_t)__CPROVER_POINTER_OFFSET(s)',
                            'g_j < (size_t)__CPROVER_POINTER_OFFSET(s) ==> (g_sym0[g_j] != *reader->cursor && g_sym0[g_j] != 0)',
                            '((size_t)__CPROVER_POINTER_OFFSET(g_c0) <= g_k && g_k < (size_t)__CPROVER_POINTER_OFFSET(reader->cursor)) ==> (g_wj < g_symL && g_sym0[g_wj] == g_buf[g_k] && g_sym0[g_wj] != 0)'],
             'decreases': 'g_symL - (size_t)__CPROVER_POINTER_OFFSET(s)'}],
 'assumptions': ['creader_skip: buffers of at most INT_MAX / 2 bytes (the routine counts in an int; beyond INT_MAX matching bytes count++ overflows)'],
 'witness': {'unwind': 9},
} @*/
#include "c19_harness.h"
size_t g_n, g_k, g_j, g_wj, g_sj, g_symL;
const char *g_c0, *g_buf, *g_sym0;
struct creader *g_rd;
#include <igris/creader.h>

void harness(void)
{
    WIT(size_t, n);
    WIT(size_t, c);
    WIT(size_t, k);
    WIT(size_t, j);
    WIT_ARR(char, content, 7);
    __CPROVER_assume(n <= VC_MAXN);
    C19_BLOCK(buf, n, content);
    const char *sym = "\t\n\r ";
    size_t SL = 4;
    __CPROVER_assume(c <= n);
    struct creader rd;
    creader_init(&rd, buf, n);
    rd.cursor = buf + c;
    g_n = n; g_k = k; g_j = j; g_buf = buf; g_symL = SL; g_rd = &rd; g_wj = 0; g_sj = 0;

    int r = creader_skipws(&rd);

    __CPROVER_assert(rd.strt == buf && rd.fini == buf + n, "skipws: strt / fini not modified");
    __CPROVER_assert(__CPROVER_same_object(rd.cursor, buf) && rd.cursor >= buf + c && rd.cursor <= buf + n, "skipws: the cursor stays in [old cursor, fini]");
    size_t nc = (size_t)(rd.cursor - buf);
    __CPROVER_assert(r >= 0 && (size_t)r == nc - c, "skipws: the result is the number of bytes skipped");
    /* every skipped byte occurs in the symbols (g_wj: where; ghost output for position k) */
    __CPROVER_assert(!(c <= k && k < nc) || (g_wj < SL && sym[g_wj] == buf[k] && sym[g_wj] != 0), "skipws: every skipped byte is one of the symbols");
    /* the byte at the new cursor, if any, is none of the symbols before the first NUL of the symbol string (g_sj: that NUL; ghost output) */
    if (nc != n) {
        __CPROVER_assert(g_sj <= SL && sym[g_sj] == 0, "skipws: the symbol string was scanned up to its first NUL");
        __CPROVER_assert(!(j < g_sj) || (sym[j] != buf[nc] && sym[j] != 0), "skipws: stops at a byte that is none of the symbols");
    }
    CANARY("creader_skipws end reachable");
}
