// Bounded native run of the REAL C++ text utilities (igris/string/replace.cpp, igris/util/string.cpp - not the extraction) against byte-wise
// reference implementations, under ASan/UBSan, on exact-size heap copies of the inputs.  Stands in when a changed function is outside the
// extractor's dialect (bounded stand-in, never counted as proved).
// Bound: alphabet {'a', 'b', NUL}: igris::replace for every input of length 0..5, every pattern of length 0..3, replacements "", "b", "ab\0";
//        alphabet {'a', ' ', ',', NUL}: igris::split(buffer, char) and split(buffer, delims) for every input of length 0..6 (delimiters ' ' resp. " ,").
// C19 clauses: replace == left-to-right, non-overlapping, first-occurrence substitution (empty pattern: plain copy), byte-transparent for NUL;
// split yields exactly the maximal delimiter-free runs, in order, without reading outside the (non-terminated) buffer.
#include <igris/util/string.h>
#include <igris/buffer.h>
#include <cstdio>
#include <cstdlib>
#include <cstring>
#include <string>
#include <vector>

static int fails;
static void show(const std::string &s) { std::printf("\""); for (unsigned char c : s) { if (c >= 32 && c < 127) std::printf("%c", c); else std::printf("\\x%02X", c); } std::printf("\""); }
static void fail(const char *what, const std::string &a, const std::string &b)
{
    if (fails++ < 5) { std::printf("FAIL: %s, input ", what); show(a); std::printf(" argument "); show(b); std::printf("\n"); }
}
static std::string ref_replace(const std::string &in, const std::string &sub, const std::string &rep)
{
    if (sub.empty()) return in;
    std::string out; size_t pos = 0;
    while (pos < in.size()) {
        if (in.size() - pos >= sub.size() && std::memcmp(in.data() + pos, sub.data(), sub.size()) == 0) { out += rep; pos += sub.size(); }
        else out += in[pos++];
    }
    return out;
}
static std::vector<std::string> ref_split(const std::string &in, const std::string &delims)
{
    std::vector<std::string> out; std::string cur; bool have = false;
    for (char c : in) {
        bool d = c != '\0' && delims.find(c) != std::string::npos;
        if (d) { if (have) out.push_back(cur); cur.clear(); have = false; }
        else { cur += c; have = true; }
    }
    if (have) out.push_back(cur);
    return out;
}
template <class F> static void all_strings(const char *al, int nal, int maxlen, F f)
{
    for (int len = 0; len <= maxlen; len++) {
        long total = 1; for (int k = 0; k < len; k++) total *= nal;
        for (long code = 0; code < total; code++) { std::string s; long c = code; for (int k = 0; k < len; k++, c /= nal) s += al[c % nal]; f(s); }
    }
}
int main()
{
    long cnt = 0;
    static const char AL1[] = {'a', 'b', '\0'};
    const std::string reps[] = {std::string(), std::string("b"), std::string("ab\0", 3)};
    all_strings(AL1, 3, 5, [&](const std::string &in) {
        all_strings(AL1, 3, 3, [&](const std::string &sub) {
            for (const std::string &rep : reps) {
                cnt++;
                try { if (igris::replace(in, sub, rep) != ref_replace(in, sub, rep)) fail("igris::replace differs from the reference substitution", in, sub); }
                catch (...) { fail("igris::replace threw", in, sub); }
            }
        });
    });
    static const char AL2[] = {'a', ' ', ',', '\0'};
    all_strings(AL2, 4, 6, [&](const std::string &in) {
        char *exact = (char *)std::malloc(in.size() ? in.size() : 1);          // exact-size, not terminated: an over-read is an ASan error
        std::memcpy(exact, in.data(), in.size());
        igris::buffer view(exact, in.size());
        cnt += 2;
        if (igris::split(view, ' ') != ref_split(in, std::string(" ") )) {
            // split(buffer, char) treats only the delimiter character as separator (a NUL is data)
            std::vector<std::string> r; std::string cur; bool have = false;
            for (char c : in) { if (c == ' ') { if (have) r.push_back(cur); cur.clear(); have = false; } else { cur += c; have = true; } }
            if (have) r.push_back(cur);
            if (igris::split(view, ' ') != r) fail("igris::split(buffer, char) differs from the reference", in, " ");
        }
        if (igris::split(view, " ,") != ref_split(in, " ,")) fail("igris::split(buffer, delims) differs from the reference", in, " ,");
        std::free(exact);
    });
    if (fails) { std::printf("%d clause violations (first shown) over %ld calls\n", fails, cnt); return 1; }
    std::printf("ok: %ld calls\n", cnt);
    return 0;
}
