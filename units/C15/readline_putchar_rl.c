/*@unit {
 'kind': 'proof', 'mode': 'dfcc',
 'functions': ['readline_putchar'],
 'replace': ['memmove', 'memcpy', 'memset', 'strlen', 'strncmp'],
 'params': {'CASE': [0, 1, 2, 3, 4, 5, 6, 7, 8, 9, 10], 'HD': [0, 1, 2, 3, 102]},
 'params_thorough': {'HD': [0, 1, 2, 3, 4, 102, 103]},
 'clauses': 'the contract of readline_putchar that unit vterm_newdata uses (contracts/c15_readline_contract.h, C15_RP_PRE => C15_RP_POST), proved in harness form for EVERY byte (NUL included) and every RL state, known-finding regions included: return code is one of the READLINE_* codes, buffers / capacity / depth untouched, cursor <= len <= cap-1, phase in 0..3, head < H, browse <= H, len unchanged by NOTHING/NEWLINE/LEFT/RIGHT, cursor moves by exactly one on LEFT/RIGHT, lastsize = old len on UPDATELINE, the ghost entry stays NUL-terminated inside its cap bytes; all accesses inside the line buffer / history space (exact-size objects)',
 'assumptions': ['C15_RP_PRE: RL(rl) shape, line buffer an object of exactly cap bytes, history space NULL or an object of exactly cap*history_size bytes, the entry the key consults holds a NUL within its first cap bytes',
                 'same case split and the same two geometries as unit readline_putchar (HD 1..3: depth constant, capacity symbolic; HD 102/103: capacity 2/3, depth symbolic 1..255; HD 0: no history)'],
 'timeout': 300, 'object_bits': 10,
 'witness': {'unwind': 10},
} @*/
#include "vc.h"
#include <limits.h>
#include "c15_libc.h"
#include "c15_editor_ref.h"
#include <igris/shell/readline.h>
#include <igris/defs/vt100.h>
#define readline_putchar c15_declared_readline_putchar /* the contract declaration is not used here, only its macros */
#define vt100_left c15_declared_vt100_left
#include "c15_readline_contract.h"
#undef readline_putchar
#undef vt100_left

#define C15_CLASS_OF(st, ch)                                                                                   \
    ((st) == 0 ? (spec_ed_is_eol(ch) ? 0 : (ch) == ED_KEY_BS ? 1 : (ch) == ED_KEY_ESC ? 2 : 3)                  \
     : (st) == 1 ? 4                                                                                           \
     : (st) == 2 ? ((ch) == 'A' ? 5 : (ch) == 'B' ? 6 : ((ch) == 'C' || (ch) == 'D') ? 7 : (ch) == '3' ? 8 : 9) \
     : (st) == 3 ? 10 : 11)

void harness(void)
{
    struct readline rl;
    WIT(uint, cap0); WIT(uint, len); WIT(uint, cursor); WIT(char, last); WIT(char, c0);
    WIT(uint8_t, any_state); WIT(char, any_c);
    WIT(uint8_t, Hfree); WIT(uint8_t, head); WIT(uint8_t, browse);
    WIT(uint8_t, j); WIT(uint, Lj); WIT(uint, Lq); WIT(int, lastsize);
    WIT(size_t, k);
    WIT_ARR(char, content, 6);
    WIT_ARR(char, hcontent, 6);
    const uint8_t has_hist = HD != 0;
    const uint8_t H = (HD != 0 && HD < 100) ? HD : Hfree;
    const uint cap = HD >= 100 ? HD - 100 : cap0;
    __CPROVER_assert(any_state > 3 || C15_CLASS_OF(any_state, any_c) <= 10, "the case split is complete: every (state, byte) falls in one of the classes");
    const uint8_t state = CASE <= 3 ? 0 : CASE == 4 ? 1 : CASE <= 9 ? 2 : 3;
    const char c = CASE == 1 ? ED_KEY_BS : CASE == 2 ? ED_KEY_ESC : CASE == 5 ? 'A' : CASE == 6 ? 'B' : CASE == 8 ? '3' : c0;
    __CPROVER_assume(C15_CLASS_OF(state, c) == CASE);
    __CPROVER_assume(cap >= 2 && cap <= VC_MAXOBJ && cap <= INT_MAX && H >= 1);
    if (has_hist) __CPROVER_assume((unsigned long long)cap * H <= UINT_MAX && (size_t)cap * H <= VC_MAXOBJ);
    char *buf = NEW_OBJ(cap);
    FILL(buf, (size_t)cap, content);
    char *hist = has_hist ? NEW_OBJ((size_t)cap * H) : NULL;
    if (has_hist) FILL(hist, (size_t)cap * H, hcontent);
    rl.line.buf = buf; rl.line.cap = cap; rl.line.len = len; rl.line.cursor = cursor;
    rl.state = state; rl.last = last; rl.lastsize = lastsize;
    rl.history_space = hist; rl.history_size = H; rl.headhist = head; rl.curhist = browse;
    g_rp_Lq = Lq; g_rp_k = k;
    __CPROVER_assume(C15_RP_PRE(&rl, c)); /* the precondition of the contract, verbatim */
    __CPROVER_assume(k < cap && j < H);
    /* cross-check of the contract's "consulted entry" against the reference's */
    struct ed_ref r;
    r.l.cap = cap; r.l.len = len; r.l.cursor = cursor; r.esc = state; r.last = last;
    r.has_hist = has_hist; r.H = H; r.head = head; r.browse = browse;
    int q = C15_RP_Q(&rl, c);
    __CPROVER_assert(q == spec_ed_consults(&r, c), "the contract's consulted entry is the reference's");
    const char *slot_q = q >= 0 ? hist + (size_t)q * cap : NULL;
    const char *slot_j = has_hist ? hist + (size_t)j * cap : NULL;
    if (has_hist) { /* RL: the ghost entry holds a string of some length Lj < cap */
        if (q == (int)j) __CPROVER_assume(Lj == Lq);
        __CPROVER_assume(Lj < cap && slot_j[Lj] == 0 && (!(k < Lj) || slot_j[k] != 0));
    }
    char old_line_k = buf[k];
    char old_q_k = q >= 0 ? slot_q[k] : 0;
    char line_km1 = k >= 1 ? buf[k - 1] : 0, line_kp1 = k + 1 < cap ? buf[k + 1] : 0;
    g_strlen_L = Lq; g_strlen_k = k; g_strlen_s2 = NULL;
    g_strncmp_k = k; g_strncmp_nz = 1;
    g_memset_k = k;
    g_memcpy_k = k;
    g_memcpy_v = (state == 2 && (c == 'A' || c == 'B')) ? old_q_k : old_line_k;
    if (state == 0 && c == ED_KEY_BS) { g_memmove_k = k - (size_t)(cursor - (cursor ? 1 : 0)); g_memmove_v = cursor ? line_kp1 : old_line_k; }
    else if (state == 2) { g_memmove_k = k - (size_t)cursor; g_memmove_v = cursor < len ? line_kp1 : old_line_k; }
    else { g_memmove_k = k - ((size_t)cursor + 1); g_memmove_v = line_km1; }

    int got = readline_putchar(&rl, c);

    __CPROVER_assert(C15_RP_POST(got, &rl, buf, cap, len, cursor, hist, H), "postcondition of the contract, verbatim");
    if (has_hist) {
        __CPROVER_assert(slot_j[Lj] == 0 || (j == head && len != 0 && slot_j[len] == 0), "RL: the ghost entry still holds a NUL within its first cap bytes (old position, or at len when the line was recorded there)");
    }
    CANARY("contract proof end reachable");
}
