/*@unit {
 'kind': 'proof', 'mode': 'dfcc',
 'functions': ['sline_newdata', 'sline_avail'],
 'replace': ['memmove', 'memcpy'],
 'clauses': 'bulk insert against the reference spec_ed_bulk_insert for every int len (negative, zero, larger than the room): the first min(len, cap-1-sl.len) bytes of data are inserted at the cursor (nothing for len <= 0), tail moved right, prefix untouched, that number returned; 0 <= cursor <= len < cap preserved; reads only data[0..len) (exact-size object), writes only buf[0..cap)',
 'kf': ['C15_newdata_fill', 'C15_newdata_negative'],
 'assumptions': ['SL(sl) on entry: cap >= 2, buf an object of exactly cap bytes, cursor <= len <= cap-1', 'cap <= INT_MAX (sline_avail and the len parameter are int)',
                 'data is an object of exactly max(len,0) bytes that does not overlap the line buffer'],
 'witness': {'unwind': 10},
} @*/
#include "vc.h"
#include <limits.h>
#include <igris/datastruct/sline.h>
#include "c15_libc.h"
#include "c15_editor_ref.h"

void harness(void)
{
    struct sline sl;
    WIT(uint, cap);
    WIT(uint, len);
    WIT(uint, cursor);
    WIT(int, n);
    WIT(size_t, k);
    WIT_ARR(char, content, 6);
    WIT_ARR(char, dcontent, 6);
    __CPROVER_assume(cap >= 2 && cap <= VC_MAXOBJ && cap <= INT_MAX);
    __CPROVER_assume(cursor <= len && len <= cap - 1);
    __CPROVER_assume(n <= (int)VC_MAXN || n <= 0);
    char *buf = NEW_OBJ(cap);
    sl.buf = buf; sl.cap = cap; sl.len = len; sl.cursor = cursor;
    FILL(sl.buf, (size_t)cap, content);
    size_t dn = n > 0 ? (size_t)n : 0;
    char *data = NEW_OBJ(dn);
    FILL(data, dn, dcontent);
    __CPROVER_assume(k < cap);
    struct ed_line r = {cap, len, cursor, k, buf[k]};
    /* known findings (genuine defects, findings.json): more data than the room / a negative length */
    int kf_fill = n > 0 && (unsigned)n > spec_ed_room(&r);
    int kf_neg = n < 0;
    __CPROVER_assume(KF_C15_newdata_fill == 0 ? 1 : KF_C15_newdata_fill == 1 ? !kf_fill : kf_fill);
    __CPROVER_assume(KF_C15_newdata_negative == 0 ? 1 : KF_C15_newdata_negative == 1 ? !kf_neg : kf_neg);
    unsigned m = spec_ed_bulk_count(&r, n);
    char old_k = buf[k];
    char old_kmn = (k >= m) ? buf[k - m] : 0;                              /* REL at index k-m */
    char data_at = (k >= cursor && k - cursor < dn) ? data[k - cursor] : 0; /* the data byte that lands at index k */
    g_memmove_k = k - ((size_t)cursor + m); g_memmove_v = old_kmn;
    g_memcpy_k = k - (size_t)cursor; g_memcpy_v = data_at;

    int got = sline_newdata(&sl, data, n);
    unsigned want = spec_ed_bulk_insert(&r, n, data_at, old_kmn);

    __CPROVER_assert(got == (int)want, "returns the number of characters inserted = min(len, room), 0 for len <= 0");
    __CPROVER_assert(sl.buf == buf && sl.cap == cap, "buffer and capacity untouched");
    __CPROVER_assert(sl.len == r.len && sl.cursor == r.cursor, "len and cursor equal the reference's");
    __CPROVER_assert(sl.cursor <= sl.len && sl.len <= sl.cap - 1, "sline invariant 0<=cursor<=len<cap preserved (room for the terminator of sline_getline)");
    if (k < r.len) __CPROVER_assert(buf[k] == r.at_k, "content equals the reference line (arbitrary index)");
    if (k < cursor) __CPROVER_assert(buf[k] == old_k, "prefix left of the old cursor untouched");
    CANARY("sline_newdata end reachable");
}
