/*@unit {
 'kind': 'proof', 'mode': 'dfcc',
 'functions': ['sline_putchar'],
 'replace': ['memmove'],
 'clauses': 'insert at cursor when len < cap-1, tail shifted right by one, prefix untouched, refused (nothing changes) when full; 0 <= cursor <= len < cap preserved; writes only buf[0..cap)',
 'witness': {'unwind': 10},
} @*/
#include "vc.h"
#include <igris/datastruct/sline.h>
#include "libc_contracts.h"

void harness(void)
{
    struct sline sl;
    WIT(uint, cap);
    WIT(uint, len);
    WIT(uint, cursor);
    WIT(char, c);
    WIT(size_t, k);
    WIT_ARR(char, content, 6);
    __CPROVER_assume(cap >= 2 && cap <= VC_MAXOBJ);
    __CPROVER_assume(cursor <= len && len <= cap - 1);
    sl.buf = NEW_OBJ(cap);
    sl.cap = cap; sl.len = len; sl.cursor = cursor;
    FILL(sl.buf, (size_t)cap, content);
    __CPROVER_assume(k < cap);
    char old_k = sl.buf[k];
    char old_km1 = k > 0 ? sl.buf[k - 1] : 0;
    /* instantiate the callee's ghost index from ours: byte k of the buffer is byte
       k-(cursor+1) of the moved block */
    g_memmove_k = k - ((size_t)cursor + 1);
    g_memmove_v = old_km1;

    int r = sline_putchar(&sl, c);

    __CPROVER_assert(sl.cap == cap && sl.cursor <= sl.len && sl.len <= sl.cap - 1, "sline invariant 0<=cursor<=len<cap preserved");
    if (len >= cap - 1) {
        __CPROVER_assert(r == 0 && sl.len == len && sl.cursor == cursor && sl.buf[k] == old_k, "full line: refused, nothing changes");
    } else {
        __CPROVER_assert(r == 1 && sl.len == len + 1 && sl.cursor == cursor + 1, "inserted: len and cursor advance by one");
        if (k < cursor) __CPROVER_assert(sl.buf[k] == old_k, "prefix untouched");
        if (k == cursor) __CPROVER_assert(sl.buf[k] == c, "character stored at the cursor");
        if (k > cursor && k <= len) __CPROVER_assert(sl.buf[k] == old_km1, "tail shifted right by one");
        if (k > len) __CPROVER_assert(sl.buf[k] == old_k, "bytes beyond the new end untouched");
    }
    CANARY("sline_putchar end reachable");
}
