/*@unit {
 'kind': 'proof', 'mode': 'dfcc',
 'functions': ['sline_backspace'],
 'replace': ['memmove'],
 'clauses': 'reference spec_ed_backspace for every count (0, 1, more than the cursor): min(count, cursor) characters left of the cursor are removed, the tail moves left, prefix untouched, cursor and len shrink by that number which is returned; 0 <= cursor <= len < cap preserved; writes only buf[0..cap) (exact-size object), cap and buf untouched',
 'assumptions': ['SL(sl) on entry: cap >= 2, buf an object of exactly cap bytes, cursor <= len <= cap-1', 'cap <= INT_MAX (the sline API reports lengths as int)'],
 'witness': {'unwind': 10},
} @*/
#include "vc.h"
#include <limits.h>
#include <igris/datastruct/sline.h>
#include "c15_libc.h"
#include "c15_editor_ref.h"

void harness(void)
{
    struct sline sl;
    WIT(uint, cap);
    WIT(uint, len);
    WIT(uint, cursor);
    WIT(uint, count);
    WIT(size_t, k);
    WIT_ARR(char, content, 6);
    __CPROVER_assume(cap >= 2 && cap <= VC_MAXOBJ && cap <= INT_MAX);
    __CPROVER_assume(cursor <= len && len <= cap - 1);
    char *buf = NEW_OBJ(cap);
    sl.buf = buf; sl.cap = cap; sl.len = len; sl.cursor = cursor;
    FILL(sl.buf, (size_t)cap, content);
    __CPROVER_assume(k < cap);
    struct ed_line r = {cap, len, cursor, k, buf[k]};
    unsigned m = spec_ed_backspace_count(&r, count);
    char old_k = buf[k];
    char old_kpn = (k + m < cap) ? buf[k + m] : 0; /* REL at index k+m: the reference line's character there */
    /* callee ghost index: byte k of the buffer is byte k-(cursor-m) of the moved block, its source byte is buf[k+m] */
    g_memmove_k = k - (size_t)(cursor - m);
    g_memmove_v = old_kpn;

    int got = sline_backspace(&sl, count);
    unsigned want = spec_ed_backspace(&r, count, old_kpn);

    __CPROVER_assert(got == (int)want, "returns the number of characters removed = min(count, cursor)");
    __CPROVER_assert(sl.buf == buf && sl.cap == cap, "buffer and capacity untouched");
    __CPROVER_assert(sl.len == r.len && sl.cursor == r.cursor, "len and cursor equal the reference's");
    __CPROVER_assert(sl.cursor <= sl.len && sl.len <= sl.cap - 1, "sline invariant 0<=cursor<=len<cap preserved");
    if (k < r.len) __CPROVER_assert(buf[k] == r.at_k, "content equals the reference line (arbitrary index)");
    if (k < r.cursor) __CPROVER_assert(buf[k] == old_k, "prefix left of the new cursor untouched");
    CANARY("sline_backspace end reachable");
}
