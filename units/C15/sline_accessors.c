/*@unit {
 'kind': 'proof', 'mode': 'plain',
 'functions': ['sline_left', 'sline_right', 'sline_reset', 'sline_init', 'sline_setbuf', 'sline_empty', 'sline_avail', 'sline_size',
               'sline_rightpart', 'sline_rightsize', 'sline_in_rightpos'],
 'clauses': 'cursor moves against the reference (spec_ed_left/right: clamped to [0,len], return 1 iff moved), reset/init give the empty line over the given buffer, the accessors report len, cap-len, len-cursor, buf+cursor (inside the buffer), cursor==len; none of them touches the buffer or leaves 0 <= cursor <= len < cap',
 'params': {'FN': [0, 1, 2, 3, 4, 5]},
 'assumptions': ['SL(sl) on entry', 'cap <= INT_MAX (sline_avail/sline_size return int)'],
 'witness': {'unwind': 10},
} @*/
#include "vc.h"
#include <limits.h>
#include <igris/datastruct/sline.h>
#include "c15_editor_ref.h"

void harness(void)
{
    struct sline sl;
    WIT(uint, cap);
    WIT(uint, len);
    WIT(uint, cursor);
    WIT(size_t, k);
    WIT_ARR(char, content, 6);
    __CPROVER_assume(cap >= 2 && cap <= VC_MAXOBJ && cap <= INT_MAX);
    __CPROVER_assume(cursor <= len && len <= cap - 1);
    char *buf = NEW_OBJ(cap);
    sl.buf = buf; sl.cap = cap; sl.len = len; sl.cursor = cursor;
    FILL(sl.buf, (size_t)cap, content);
    __CPROVER_assume(k < cap);
    char old_k = buf[k];
    struct ed_line r = {cap, len, cursor, k, old_k};
#if FN == 0
    int got = sline_left(&sl);
    int want = spec_ed_left(&r);
    __CPROVER_assert(got == want && sl.cursor == r.cursor && sl.len == r.len, "left: as the reference (one column left, not below 0)");
#elif FN == 1
    int got = sline_right(&sl);
    int want = spec_ed_right(&r);
    __CPROVER_assert(got == want && sl.cursor == r.cursor && sl.len == r.len, "right: as the reference (one column right, not beyond len)");
#elif FN == 2
    sline_reset(&sl);
    spec_ed_clear(&r);
    __CPROVER_assert(sl.cursor == r.cursor && sl.len == r.len && sl.len == 0, "reset: empty line");
#elif FN == 3
    struct sline s2;
    sline_init(&s2, buf, cap);
    __CPROVER_assert(s2.buf == buf && s2.cap == cap && s2.len == 0 && s2.cursor == 0, "init: empty line over the given buffer");
    struct sline s3 = sl;
    sline_setbuf(&s3, buf, cap);
    __CPROVER_assert(s3.buf == buf && s3.cap == cap && s3.len == len && s3.cursor == cursor, "setbuf: buffer and capacity only");
#elif FN == 4
    __CPROVER_assert(sline_empty(&sl) == (len == 0), "empty iff len == 0");
    __CPROVER_assert(sline_size(&sl) == (int)len, "size == len");
    __CPROVER_assert(sline_avail(&sl) == (int)(cap - len) && sline_avail(&sl) >= 1, "avail == cap - len (counts the terminator's byte)");
#else
    char *rp = sline_rightpart(&sl);
    unsigned rs = sline_rightsize(&sl);
    __CPROVER_assert(rp == buf + cursor && rs == len - cursor && (size_t)cursor + rs <= cap - 1, "right part = buf[cursor..len), inside the buffer");
    __CPROVER_assert(__CPROVER_r_ok(rp, rs), "right part readable");
    __CPROVER_assert(sline_in_rightpos(&sl) == (cursor == len), "in_rightpos iff cursor == len");
#endif
    __CPROVER_assert(sl.buf == buf && sl.cap == cap, "buffer and capacity untouched");
    __CPROVER_assert(sl.cursor <= sl.len && sl.len <= sl.cap - 1, "sline invariant preserved");
    __CPROVER_assert(buf[k] == old_k, "buffer content untouched");
    CANARY("accessor end reachable");
}
