/*@unit {
 'kind': 'proof', 'mode': 'legacy',
 'functions': ['igris::sline::clear'],
 'extract': 'units/C15/sline_cxx_extract.py',
 'inject': [{'file': 'overlay:cxx/sline_cxx.c', 'func': 'igris_sline_clear', 'loop': 0, 'expect': 'vc_i < self->_space.m_size',
             'assigns': 'vc_i, __CPROVER_object_whole(self->_space.m_data)',
             'invariants': ['vc_i <= self->_space.m_size', 'g_k < vc_i ==> self->_space.m_data[g_k] == 0'],
             'decreases': 'self->_space.m_size - vc_i'}],
 'clauses': 'igris::sline::clear() zeroes every byte of the storage (range-for over the unbounded_array, any size), writes nothing outside it and leaves len / cursor / buffer / capacity alone',
 'assumptions': ['class invariant on entry', 'range-for over igris::unbounded_array<char> rewritten to an index loop over [m_data, m_data + m_size) by a listed cxx2c rule'],
 'witness': {'unwind': 10},
} @*/
#include "vc.h"
#include <limits.h>
size_t g_k;
#define C15_ALLOC(n) NEW_OBJ(n)
#include "cxx/sline_cxx.c"

void harness(void)
{
    struct igris_sline o;
    WIT(uint, cap); WIT(uint, len); WIT(uint, cursor); WIT(size_t, k);
    WIT_ARR(char, content, 6);
    igris_sline_defaults(&o);
    __CPROVER_assume(cap <= VC_MAXOBJ && cap <= INT_MAX);
    char *buf = NEW_OBJ(cap);
    FILL(buf, (size_t)cap, content);
    o._space.m_data = buf; o._space.m_size = cap;
    o.sl.buf = buf; o.sl.cap = cap; o.sl.len = len; o.sl.cursor = cursor;
    g_k = k;
    igris_sline_clear(&o);
    if (k < cap) __CPROVER_assert(buf[k] == 0, "clear: every byte of the storage is zero (arbitrary index)");
    __CPROVER_assert(o._space.m_data == buf && o._space.m_size == cap && o.sl.buf == buf && o.sl.cap == cap && o.sl.len == len && o.sl.cursor == cursor, "clear: descriptor and storage pointer untouched");
    CANARY("cxx_sline_clear end reachable");
}
