/*@unit {
 'kind': 'proof', 'mode': 'dfcc',
 'functions': ['sline_delete', 'sline_rightsize'],
 'replace': ['memmove'],
 'clauses': 'reference spec_ed_delete for every count: min(count, len-cursor) characters at/right of the cursor are removed, the tail moves left, prefix and cursor untouched, len shrinks by that number which is returned; 0 <= cursor <= len < cap preserved; writes only buf[0..cap)',
 'assumptions': ['SL(sl) on entry: cap >= 2, buf an object of exactly cap bytes, cursor <= len <= cap-1', 'cap <= INT_MAX (the sline API reports lengths as int)'],
 'witness': {'unwind': 10},
} @*/
#include "vc.h"
#include <limits.h>
#include <igris/datastruct/sline.h>
#include "c15_libc.h"
#include "c15_editor_ref.h"

void harness(void)
{
    struct sline sl;
    WIT(uint, cap);
    WIT(uint, len);
    WIT(uint, cursor);
    WIT(uint, count);
    WIT(size_t, k);
    WIT_ARR(char, content, 6);
    __CPROVER_assume(cap >= 2 && cap <= VC_MAXOBJ && cap <= INT_MAX);
    __CPROVER_assume(cursor <= len && len <= cap - 1);
    char *buf = NEW_OBJ(cap);
    sl.buf = buf; sl.cap = cap; sl.len = len; sl.cursor = cursor;
    FILL(sl.buf, (size_t)cap, content);
    __CPROVER_assume(k < cap);
    struct ed_line r = {cap, len, cursor, k, buf[k]};
    unsigned m = spec_ed_delete_count(&r, count);
    char old_k = buf[k];
    char old_kpn = (k + m < cap) ? buf[k + m] : 0; /* REL at index k+m */
    /* callee ghost index: byte k of the buffer is byte k-cursor of the moved block, its source byte is buf[k+m] */
    g_memmove_k = k - (size_t)cursor;
    g_memmove_v = old_kpn;

    int got = sline_delete(&sl, count);
    unsigned want = spec_ed_delete(&r, count, old_kpn);

    __CPROVER_assert(got == (int)want, "returns the number of characters removed = min(count, len-cursor)");
    __CPROVER_assert(sl.buf == buf && sl.cap == cap, "buffer and capacity untouched");
    __CPROVER_assert(sl.len == r.len && sl.cursor == r.cursor && sl.cursor == cursor, "len equals the reference's, cursor stays");
    __CPROVER_assert(sl.cursor <= sl.len && sl.len <= sl.cap - 1, "sline invariant 0<=cursor<=len<cap preserved");
    if (k < r.len) __CPROVER_assert(buf[k] == r.at_k, "content equals the reference line (arbitrary index)");
    if (k < cursor) __CPROVER_assert(buf[k] == old_k, "prefix left of the cursor untouched");
    CANARY("sline_delete end reachable");
}
