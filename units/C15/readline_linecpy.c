/*@unit {
 'kind': 'proof', 'mode': 'dfcc',
 'functions': ['readline_linecpy'],
 'replace': ['memcpy'],
 'clauses': 'copies n = min(maxlen-1, len) characters of the line and a terminator into line[0..n]: inside the maxlen-byte destination (exact-size object) for every maxlen >= 1, reads only buf[0..len), returns n, the editor is untouched',
 'assumptions': ['SL(rl->line) on entry', 'the destination is an object of exactly maxlen bytes, 1 <= maxlen <= INT_MAX (the function computes in int; maxlen == 0 leaves no room for the terminator: len = -1, memcpy of (size_t)-1 bytes - caller error, not claimed)'],
 'witness': {'unwind': 10},
} @*/
#include "vc.h"
#include <limits.h>
#include "c15_libc.h"
#include <igris/shell/readline.h>

void harness(void)
{
    struct readline rl;
    WIT(uint, cap); WIT(uint, len); WIT(uint, cursor); WIT(size_t, maxlen); WIT(size_t, k);
    WIT_ARR(char, content, 6);
    __CPROVER_assume(cap >= 2 && cap <= VC_MAXOBJ && cap <= INT_MAX);
    __CPROVER_assume(cursor <= len && len <= cap - 1);
    __CPROVER_assume(maxlen >= 1 && maxlen <= INT_MAX && maxlen <= VC_MAXOBJ);
    char *buf = NEW_OBJ(cap);
    FILL(buf, (size_t)cap, content);
    rl.line.buf = buf; rl.line.cap = cap; rl.line.len = len; rl.line.cursor = cursor;
    char *dst = NEW_OBJ(maxlen);
    size_t n = maxlen - 1 > len ? len : maxlen - 1;
    char src_k = k < len ? buf[k] : 0;
    char old_b = k < cap ? buf[k] : 0;
    char old_d = k < maxlen ? dst[k] : 0;
    g_memcpy_k = k; g_memcpy_v = src_k;

    int r = readline_linecpy(&rl, dst, maxlen);

    __CPROVER_assert(r >= 0 && (size_t)r == n, "returns min(maxlen-1, len)");
    __CPROVER_assert(dst[n] == 0, "terminator right after the copied characters, inside the destination");
    if (k < n) __CPROVER_assert(dst[k] == src_k, "copied characters equal the line (arbitrary index)");
    if (k > n && k < maxlen) __CPROVER_assert(dst[k] == old_d, "destination beyond the terminator untouched");
    __CPROVER_assert(rl.line.buf == buf && rl.line.cap == cap && rl.line.len == len && rl.line.cursor == cursor, "editor descriptor untouched");
    if (k < cap) __CPROVER_assert(buf[k] == old_b, "line buffer untouched");
    CANARY("readline_linecpy end reachable");
}
