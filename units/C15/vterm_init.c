/*@unit {
 'kind': 'proof', 'mode': 'dfcc',
 'functions': ['vterm_automate_init', 'vterm_set_write_callback', 'vterm_set_execute_callback', 'vterm_set_signal_callback', 'readline_init', 'readline_history_init'],
 'replace': ['memset'],
 'params': {'HS': [1, 2, 3, 8]},
 'kf': ['C15_history_size_u8'],
 'kf_probe_case': {'C15_history_size_u8': {'HS': 1}},
 'clauses': 'vterm_automate_init leaves the automaton in state 0 with echo on, prompt "$ ", no callbacks, and RL(rl) established over the given buffers: empty line of capacity buffer_size, phase 0, head = browse = 0, history depth as given, every history byte zero (ghost slot / index); writes only the automaton and the cap*history_size bytes of the history space; the three setters store callback and private data and nothing else',
 'assumptions': ['buffer an object of exactly buffer_size bytes (2..INT_MAX), hbuffer an object of exactly buffer_size*history_size bytes, the product <= UINT_MAX'],
 'witness': {'unwind': 10},
} @*/
#include "vc.h"
#include <limits.h>
#include "c15_libc.h"
#ifdef REPLAY
#include "igris/util/numconvert.c"   /* native runs: vt100.h helpers (unused by vterm.c) reference igris_i32toa */
#endif
#include "igris/shell/vterm.c"

static void g_w(void *p, const char *s, unsigned n) { (void)p; (void)s; (void)n; }
static void g_x(void *p, const char *s, unsigned n) { (void)p; (void)s; (void)n; }
static void g_s(void *p, int n) { (void)p; (void)n; }

void harness(void)
{
    struct vterm_automate vt;
    WIT(uint, cap);
    WIT(uint8_t, hi); /* 0: history_size = HS, 1: HS + 256 */
    WIT(uint8_t, j);
    WIT(size_t, k);
    __CPROVER_assume(cap >= 2 && cap <= VC_MAXOBJ && cap <= INT_MAX && hi <= 1);
    __CPROVER_assume(KF_C15_history_size_u8 == 0 ? 1 : KF_C15_history_size_u8 == 1 ? !(hi == 1) : (hi == 1));
    unsigned hsize = HS + (hi ? 256 : 0);
    size_t hbytes = (size_t)cap * HS + (hi ? (size_t)cap * 256 : 0);
    __CPROVER_assume(hbytes <= UINT_MAX && hbytes <= VC_MAXOBJ);
    char *buf = NEW_OBJ(cap);
    char *hist = NEW_OBJ(hbytes);
    __CPROVER_assume(k < cap && j < HS);
    size_t off = (size_t)j * cap + k;
    g_memset_k = off;
    char old_k = buf[k];

    vterm_automate_init(&vt, buf, cap, hist, hsize);

    __CPROVER_assert(vt.state == 0 && vt.echo == 1, "state 0, echo on");
    __CPROVER_assert(vt.prefix_string[0] == '$' && vt.prefix_string[1] == ' ' && vt.prefix_string[2] == 0, "prompt \"$ \"");
    __CPROVER_assert(vt.write_callback == NULL && vt.execute_callback == NULL && vt.signal_callback == NULL, "no callbacks yet");
    __CPROVER_assert(vt.rl.line.buf == buf && vt.rl.line.cap == cap && vt.rl.line.len == 0 && vt.rl.line.cursor == 0, "empty line over the given buffer");
    __CPROVER_assert(vt.rl.state == 0 && vt.rl.last == 0 && vt.rl.headhist == 0 && vt.rl.curhist == 0 && vt.rl.history_space == hist, "phase 0, no pairing memory, head = browse = 0, history space recorded");
    __CPROVER_assert((vt.rl.history_size == hsize || (hsize > 255 && vt.rl.history_size == 255)) && vt.rl.history_size >= 1, "history depth recorded as given, or the largest depth the uint8_t indices can address");
    __CPROVER_assert(hist[off] == 0, "every byte of every history entry is NUL (ghost slot, ghost index)");
    __CPROVER_assert(buf[k] == old_k, "line buffer content untouched");
    char cw, cx, cs;
    vterm_set_write_callback(&vt, g_w, &cw);
    vterm_set_execute_callback(&vt, g_x, &cx);
    vterm_set_signal_callback(&vt, g_s, &cs);
    __CPROVER_assert(vt.write_callback == g_w && vt.write_privdata == &cw && vt.execute_callback == g_x && vt.execute_privdata == &cx && vt.signal_callback == g_s && vt.signal_privdata == &cs, "setters store callback and private data");
    __CPROVER_assert(vt.state == 0 && vt.echo == 1 && vt.rl.line.buf == buf && vt.rl.history_space == hist, "setters touch nothing else");
    CANARY("vterm_automate_init end reachable");
}
