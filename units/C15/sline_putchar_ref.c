/*@unit {
 'kind': 'proof', 'mode': 'dfcc',
 'functions': ['sline_putchar'],
 'replace': ['memmove'],
 'clauses': 'sline_putchar against the reference spec_ed_insert (unit sline_putchar states the same clauses directly): same return value, len, cursor, content at an arbitrary index',
 'assumptions': ['SL(sl) on entry: cap >= 2, buf an object of exactly cap bytes, cursor <= len <= cap-1'],
 'witness': {'unwind': 10},
} @*/
#include "vc.h"
#include <igris/datastruct/sline.h>
#include "c15_libc.h"
#include "c15_editor_ref.h"

void harness(void)
{
    struct sline sl;
    WIT(uint, cap);
    WIT(uint, len);
    WIT(uint, cursor);
    WIT(char, c);
    WIT(size_t, k);
    WIT_ARR(char, content, 6);
    __CPROVER_assume(cap >= 2 && cap <= VC_MAXOBJ);
    __CPROVER_assume(cursor <= len && len <= cap - 1);
    char *buf = NEW_OBJ(cap);
    sl.buf = buf; sl.cap = cap; sl.len = len; sl.cursor = cursor;
    FILL(sl.buf, (size_t)cap, content);
    __CPROVER_assume(k < cap);
    struct ed_line r = {cap, len, cursor, k, buf[k]};
    char old_km1 = k > 0 ? buf[k - 1] : 0; /* REL at index k-1 */
    g_memmove_k = k - ((size_t)cursor + 1);
    g_memmove_v = old_km1;

    int got = sline_putchar(&sl, c);
    int want = spec_ed_insert(&r, c, old_km1);

    __CPROVER_assert(got == want, "accepted iff the reference has room");
    __CPROVER_assert(sl.buf == buf && sl.cap == cap, "buffer and capacity untouched");
    __CPROVER_assert(sl.len == r.len && sl.cursor == r.cursor, "len and cursor equal the reference's");
    __CPROVER_assert(spec_ed_line_ok(&r) && sl.cursor <= sl.len && sl.len <= sl.cap - 1, "sline invariant preserved (and the reference's)");
    if (k < r.len) __CPROVER_assert(buf[k] == r.at_k, "content equals the reference line (arbitrary index)");
    CANARY("sline_putchar end reachable");
}
