/*@unit {
 'kind': 'proof', 'mode': 'dfcc',
 'functions': ['readline_putchar', 'readline_history_up', 'readline_history_down', 'readline_load_history_line', 'readline_is_not_same_as_last',
               'readline_push_current_line_to_history', '_readline_push_line_to_history', 'readline_history_pointer', 'readline_current_history_pointer',
               'sline_putchar', 'sline_backspace', 'sline_delete', 'sline_left', 'sline_right', 'sline_equal'],
 'replace': ['memmove', 'memcpy', 'memset', 'strlen', 'strncmp'],
 'inject': [{'file': 'igris/shell/readline.h', 'func': 'readline_push_current_line_to_history', 'at': 'func-begin',
             'ghost': 'g_pushed = 1; g_differs = rl->line.len != g_Lq || (g_strncmp_d < rl->line.len && rl->line.buf[g_strncmp_d] != g_slot_q[g_strncmp_d]);'}],
 'clauses': 'one-call refinement (DESIGN 3.4) of the key automaton against spec_ed_key (spec/c15_editor_ref.h): for every RL state related to a reference state, every byte, every capacity >= 2, every history depth 1..255 (and no history at all): same return code, related next state (len, cursor, content at an arbitrary index, escape phase, CR/LF memory, ring head, browse index, the entry of an arbitrary ghost slot, lastsize after a recall), RL preserved (cursor <= len <= cap-1, head < H, browse <= H, every entry NUL-terminated inside its cap bytes); the decision "line equals the most recent entry" is justified in both directions; every access inside the line buffer / the history space (exact-size objects)',
 'kf': ['C15_echo_refused', 'C15_crlf_pair'],
 'kf_probe_case': {'C15_echo_refused': {'CASE': 3, 'HD': 1}, 'C15_crlf_pair': {'CASE': 0, 'HD': 1}},
 'assumptions': ['RL(rl) on entry: SL(line), state in 0..3, history space an object of exactly cap*history_size bytes (or NULL), history_size >= 1, headhist < history_size, curhist <= history_size',
                 'the history entry the key consults and the ghost entry hold a NUL within their first cap bytes (part of RL; proved preserved for the ghost entry)',
                 'the typed byte is not NUL and the line holds no NUL (the history stores C strings; NUL is not a key of the statement; proved preserved at the ghost index)',
                 'cap * history_size <= UINT_MAX (readline_history_init and readline_history_pointer compute it in unsigned int), cap <= INT_MAX',
                 'stream-level conclusion by simulation induction over the byte stream on top of this one-step lemma (not machine-checked)'],
 'params': {'CASE': [0, 1, 2, 3, 4, 5, 6, 7, 8, 9, 10], 'HD': [0, 1, 2, 3, 102, 103]},
 'timeout': 300, 'object_bits': 10,
 'witness': {'unwind': 10},
} @*/
#include "vc.h"
#include <limits.h>
#include "c15_libc.h"
#include "c15_editor_ref.h"
int g_pushed, g_differs;
size_t g_Lq;
const char *g_slot_q;
#include <igris/shell/readline.h>

/* key classes: 0 end of line, 1 BS, 2 ESC, 3 ordinary character (phase 0); 4 any byte after ESC; 5..9 after ESC [ : A, B, C or D, 3, any other;
   10 any byte after ESC [ 3 */
#define C15_CLASS_OF(st, ch)                                                                                   \
    ((st) == 0 ? (spec_ed_is_eol(ch) ? 0 : (ch) == ED_KEY_BS ? 1 : (ch) == ED_KEY_ESC ? 2 : 3)                  \
     : (st) == 1 ? 4                                                                                           \
     : (st) == 2 ? ((ch) == 'A' ? 5 : (ch) == 'B' ? 6 : ((ch) == 'C' || (ch) == 'D') ? 7 : (ch) == '3' ? 8 : 9) \
     : (st) == 3 ? 10 : 11)

void harness(void)
{
    struct readline rl;
    WIT(uint, cap0); WIT(uint, len); WIT(uint, cursor); WIT(char, last); WIT(char, c0);
    WIT(uint8_t, any_state); WIT(char, any_c);
    WIT(uint8_t, Hfree);
    /* history: HD == 0: none (history_space NULL, history_size arbitrary); HD in 1..99: depth HD, capacity symbolic */
    const uint8_t has_hist = HD != 0;
    const uint8_t H = (HD != 0 && HD < 100) ? HD : Hfree;
    /* second geometry (HD = 100 + cap): capacity constant, depth symbolic 1..255 (a product of two symbolic factors does not finish) */
    const uint cap = HD >= 100 ? HD - 100 : cap0;
    WIT(uint8_t, head); WIT(uint8_t, browse);
    WIT(uint8_t, j); WIT(uint, Lj); WIT(uint, Lq); WIT(int, lastsize);
    WIT(size_t, k);
    WIT_ARR(char, content, 6);
    WIT_ARR(char, hcontent, 6);
    /* ---- case split over (escape phase, key class): one run per class with the phase (and the key, where the class is a
       single key) as constants, so that symbolic execution only walks the branch concerned; the classes cover every
       (state in 0..3, byte), which is asserted over a fresh pair (any_state, any_c) */
    __CPROVER_assert(any_state > 3 || C15_CLASS_OF(any_state, any_c) <= 10, "the case split is complete: every (state, byte) falls in one of the classes");
    const uint8_t state = CASE <= 3 ? 0 : CASE == 4 ? 1 : CASE <= 9 ? 2 : 3;
    const char c = CASE == 1 ? ED_KEY_BS : CASE == 2 ? ED_KEY_ESC : CASE == 5 ? 'A' : CASE == 6 ? 'B' : CASE == 8 ? '3' : c0;
    __CPROVER_assume(C15_CLASS_OF(state, c) == CASE);
    /* ---- RL(rl) */
    __CPROVER_assume(cap >= 2 && cap <= VC_MAXOBJ && cap <= INT_MAX);
    __CPROVER_assume(cursor <= len && len <= cap - 1);
    __CPROVER_assume(state <= 3);
    __CPROVER_assume(H >= 1 && head < H && browse <= H && j < H);
    if (has_hist) __CPROVER_assume((unsigned long long)cap * H <= UINT_MAX && (size_t)cap * H <= VC_MAXOBJ);
    __CPROVER_assume(c != 0);
    char *buf = NEW_OBJ(cap);
    FILL(buf, (size_t)cap, content);
    char *hist = has_hist ? NEW_OBJ((size_t)cap * H) : NULL;
    if (has_hist) FILL(hist, (size_t)cap * H, hcontent);
    rl.line.buf = buf; rl.line.cap = cap; rl.line.len = len; rl.line.cursor = cursor;
    rl.state = state; rl.last = last; rl.lastsize = lastsize;
    rl.history_space = hist; rl.history_size = H; rl.headhist = head; rl.curhist = browse;
    __CPROVER_assume(k < cap);
    /* the line holds no NUL: instances k-1, k, k+1 of the invariant */
    __CPROVER_assume(!(k < len) || buf[k] != 0);
    __CPROVER_assume(!(k >= 1 && k - 1 < len) || buf[k - 1] != 0);
    __CPROVER_assume(!(k + 1 < len) || buf[k + 1] != 0);
    /* ---- the reference state, REL */
    struct ed_ref r;
    struct ed_oracle o;
    r.l.cap = cap; r.l.len = len; r.l.cursor = cursor; r.l.k = k; r.l.at_k = buf[k];
    r.esc = state; r.last = last; r.lastsize = lastsize;
    r.has_hist = has_hist != 0; r.H = H; r.head = head; r.browse = browse; r.j = j;
    o.line_km1 = k >= 1 ? buf[k - 1] : 0;
    o.line_kp1 = k + 1 < cap ? buf[k + 1] : 0;
    int q = spec_ed_consults(&r, c); /* the entry this key looks at, if any */
    const char *slot_q = q >= 0 ? hist + (size_t)q * cap : NULL;
    const char *slot_j = has_hist ? hist + (size_t)j * cap : NULL;
    if (q >= 0) /* RL: it holds a string of some length Lq < cap (claim stated at the ghost index) */
        __CPROVER_assume(Lq < cap && slot_q[Lq] == 0 && (!(k < Lq) || slot_q[k] != 0));
    if (has_hist) {
        if (q == (int)j) __CPROVER_assume(Lj == Lq);
        __CPROVER_assume(Lj < cap && slot_j[Lj] == 0 && (!(k < Lj) || slot_j[k] != 0));
    }
    r.hj_len = has_hist ? Lj : 0; r.hj_at_k = has_hist ? slot_j[k] : 0;
    o.q_len = q >= 0 ? Lq : 0; o.q_at_k = q >= 0 ? slot_q[k] : 0;
    char old_line_k = buf[k];
    char old_q_k = o.q_at_k;
    int ordinary = state == 0 && c != ED_KEY_CR && c != ED_KEY_LF && c != ED_KEY_BS && c != ED_KEY_ESC;
    /* ---- known findings (genuine defects, findings.json) */
    int kf_echo = ordinary && len >= cap - 1;
    int kf_crlf = state == 0 && spec_ed_swallowed_eol(&r, c);
    __CPROVER_assume(KF_C15_echo_refused == 0 ? 1 : KF_C15_echo_refused == 1 ? !kf_echo : kf_echo);
    __CPROVER_assume(KF_C15_crlf_pair == 0 ? 1 : KF_C15_crlf_pair == 1 ? !kf_crlf : kf_crlf);
    /* ---- ghost indices of the replaced libc callees (at most one call of each on a path) */
    g_strlen_L = Lq; g_strlen_k = k; g_strlen_s2 = NULL;
    g_strncmp_k = k; g_strncmp_nz = 1;
    g_memset_k = k;
    g_memcpy_k = k;
    g_memcpy_v = (state == 2 && (c == 'A' || c == 'B')) ? old_q_k : old_line_k; /* recall copies the entry, a push copies the line */
    if (state == 0 && c == ED_KEY_BS) { g_memmove_k = k - (size_t)(cursor - (cursor ? 1 : 0)); g_memmove_v = cursor ? o.line_kp1 : old_line_k; }
    else if (state == 2) { g_memmove_k = k - (size_t)cursor; g_memmove_v = cursor < len ? o.line_kp1 : old_line_k; }
    else { g_memmove_k = k - ((size_t)cursor + 1); g_memmove_v = o.line_km1; }
    g_pushed = 0; g_differs = 0; g_Lq = Lq; g_slot_q = slot_q;

    int got = readline_putchar(&rl, c);

    o.same_as_last = !g_pushed; /* the code's decision, justified below */
    int want = spec_ed_key(&r, c, &o);

    __CPROVER_assert(got == want, "return code equals the reference's");
    __CPROVER_assert(rl.line.buf == buf && rl.line.cap == cap && rl.history_space == hist && rl.history_size == H, "buffers, capacity and depth untouched");
    __CPROVER_assert(rl.line.len == r.l.len && rl.line.cursor == r.l.cursor, "len and cursor equal the reference's");
    __CPROVER_assert(rl.line.cursor <= rl.line.len && rl.line.len <= cap - 1, "0 <= cursor <= len < cap preserved");
    if (k < r.l.len) __CPROVER_assert(buf[k] == r.l.at_k && buf[k] != 0, "line content equals the reference (arbitrary index), still no NUL");
    __CPROVER_assert(rl.state == r.esc && rl.state >= 0 && rl.state <= 3, "escape phase equals the reference's");
    __CPROVER_assert(rl.last == r.last, "CR/LF pairing memory equals the reference's");
    __CPROVER_assert(rl.headhist == r.head && rl.headhist < H, "ring head equals the reference's, inside [0, history_size)");
    __CPROVER_assert(rl.curhist == r.browse && rl.curhist <= H, "browse index equals the reference's, inside [0, history_size]");
    if (want == ED_UPDATELINE) __CPROVER_assert(rl.lastsize == r.lastsize, "recall: lastsize = length of the replaced line");
    if (has_hist) {
        __CPROVER_assert(r.hj_len < cap && slot_j[r.hj_len] == 0, "ghost entry: NUL-terminated inside its cap bytes, length equals the reference's");
        if (k < r.hj_len) __CPROVER_assert(slot_j[k] == r.hj_at_k && slot_j[k] != 0, "ghost entry: content equals the reference's (arbitrary index)");
    }
    if (want == ED_NEWLINE && has_hist && len != 0) {
        if (g_pushed) __CPROVER_assert(g_differs, "recorded: the line differs from the most recent entry (length or a witness index)");
        else __CPROVER_assert(len == Lq && (!(k < len) || old_line_k == old_q_k), "not recorded: the line equals the most recent entry (arbitrary index)");
    } else {
        __CPROVER_assert(!g_pushed, "nothing is recorded by any other key, for an empty line or without history");
    }
    CANARY("refinement step end reachable");
}
