/*@unit {
 'kind': 'bounded', 'mode': 'plain',
 'bound': 'capacity 2..8, history depth 1..2 (or none), prompt "$ ", echo on, one call of vterm_automate_newdata from every steady editor state (automaton state 2, any len/cursor/content/escape phase/browse index/history content within these sizes), input byte from the reduced key alphabet {space, a, ~, [, A, B, C, D, 3, BS, ESC, CR, LF, Ctrl-C} (one run per escape phase ST and key KEY: with the key a constant the symbolic execution walks one branch of the automata); line and history characters printable; all loops unwound completely for these sizes (unwinding assertions)',
 'functions': ['vterm_automate_newdata', 'readline_putchar', 'vt100_left'],
 'params': {'ST': [0, 1, 2, 3], 'KEY': [32, 97, 126, 91, 65, 66, 67, 68, 51, 8, 27, 13, 10, 3]},
 'unwind': 11, 'cbmc_flags': ['--unwindset', 'vterm_automate_newdata.0:6'],
 'complete_unwinding': 'every loop is bounded by the sizes of the bound: state-machine loop <= 5 rounds, blocks written <= 10 bytes, decimal digits of a one-digit argument, libc models over <= 8 bytes; unwound 11 times with unwinding assertions',
 'clauses': 'screen clause: the bytes handed to write_callback, fed to a VT100 model (spec/c15_vt100_model.h: one row tracked at an arbitrary ghost column, a cursor column) that shows the prompt and the line with the cursor at prompt+cursor, leave it showing the prompt and the NEW line with the cursor at prompt+cursor (after a delivered line / Ctrl-C: a fresh row with just the prompt); no unmodelled byte is written',
 'kf': ['C15_echo_refused', 'C15_updateline_cursor'],
 'kf_probe_case': {'C15_echo_refused': {'ST': 0, 'KEY': 97}, 'C15_updateline_cursor': {'ST': 2, 'KEY': 65}},
 'timeout': 120,
 'witness': {'unwind': 11},
} @*/
#include "vc.h"
#include "c15_editor_ref.h"
#include "c15_vt100_model.h"
#include "igris/util/numconvert.c"
#include "igris/shell/vterm.c"

#define MAXCAP 8
static struct vt_model g_scr;
static unsigned g_x_count;
static char g_wp, g_xp;
/* one function serves as write and as execute callback (told apart by the private data): the function-pointer calls
   of vterm.c then have a single candidate, which keeps the symbolic execution small */
static void g_cb(void *priv, const char *p, unsigned n)
{
    if (priv == &g_xp) { g_x_count++; return; }
    for (unsigned i = 0; i < n; i++) spec_vt_feed(&g_scr, p[i]);
}
static int c15_printable(char ch) { return ch >= 0x20 && ch <= 0x7E; }

void harness(void)
{
    struct vterm_automate vt;
    WIT(uint, cap); WIT(uint, len); WIT(uint, cursor); WIT(char, last);
    WIT(uint8_t, H); WIT(uint8_t, head); WIT(uint8_t, browse); WIT(uint, L0); WIT(uint, L1); WIT(size_t, g);
    WIT_ARR(char, buf, MAXCAP);      /* the line buffer (its first cap bytes are used) */
    WIT_ARR(char, hist, 2 * MAXCAP); /* the history space */
    const uint8_t rlstate = ST;
    const char c = KEY;
    __CPROVER_assume(cap >= 2 && cap <= MAXCAP && cursor <= len && len <= cap - 1);
    __CPROVER_assume(H <= 2 && (H == 0 || (head < H && browse <= H)));
    for (unsigned i = 0; i < MAXCAP; i++) if (i < len) __CPROVER_assume(c15_printable(buf[i]));
    /* every history entry: a printable string of length < cap */
    __CPROVER_assume(L0 < cap && L1 < cap);
    if (H >= 1) { hist[L0] = 0; for (unsigned i = 0; i < MAXCAP; i++) if (i < L0) __CPROVER_assume(c15_printable(hist[i])); }
    if (H >= 2) { hist[cap + L1] = 0; for (unsigned i = 0; i < MAXCAP; i++) if (i < L1) __CPROVER_assume(c15_printable(hist[cap + i])); }
    vt.execute_callback = g_cb; vt.write_callback = g_cb; vt.signal_callback = NULL;
    vt.execute_privdata = &g_xp; vt.write_privdata = &g_wp; vt.signal_privdata = NULL;
    vt.state = 2; vt.echo = 1; vt.prefix_string = "$ ";
    vt.rl.line.buf = buf; vt.rl.line.cap = cap; vt.rl.line.len = len; vt.rl.line.cursor = cursor;
    vt.rl.state = rlstate; vt.rl.last = last; vt.rl.lastsize = 0;
    vt.rl.history_space = H ? hist : NULL; vt.rl.history_size = H ? H : 1; vt.rl.headhist = H ? head : 0; vt.rl.curhist = H ? browse : 0;
    /* known findings */
    int kf_echo = rlstate == 0 && c15_printable(c) && len >= cap - 1;
    int kf_upd = rlstate == 2 && H != 0 && ((c == 'A' && browse < H) || (c == 'B' && browse > 0)) && cursor != len;
    __CPROVER_assume(KF_C15_echo_refused == 0 ? 1 : KF_C15_echo_refused == 1 ? !kf_echo : kf_echo);
    __CPROVER_assume(KF_C15_updateline_cursor == 0 ? 1 : KF_C15_updateline_cursor == 1 ? !kf_upd : kf_upd);
    /* the screen shows the prompt and the line, cursor at prompt + cursor (stated at the ghost column g) */
    __CPROVER_assume(g < 64);
    spec_vt_init(&g_scr, g);
    g_scr.at_g = g == 0 ? '$' : g == 1 ? ' ' : g - 2 < len ? buf[g - 2] : VT_BLANK;
    g_scr.col = 2 + cursor;
    g_x_count = 0;

    vterm_automate_newdata(&vt, (int16_t)(unsigned char)c);

    __CPROVER_assert(!g_scr.bad && g_scr.ph == 0, "only modelled bytes / complete control sequences are written");
    __CPROVER_assert(g_scr.rows_done == (unsigned)(g_x_count != 0 || c == ED_KEY_CTRL_C), "a new screen row exactly after a delivered line or Ctrl-C");
    char want = g == 0 ? '$' : g == 1 ? ' ' : g - 2 < vt.rl.line.len ? buf[g - 2] : VT_BLANK;
    __CPROVER_assert(g_scr.at_g == want, "the row shows the prompt, then the line's characters, then nothing (arbitrary column)");
    __CPROVER_assert(g_scr.col == 2 + vt.rl.line.cursor, "the screen cursor is at prompt + cursor");
    CANARY("screen_model end reachable");
}
