/*@unit {
 'kind': 'proof', 'mode': 'dfcc',
 'functions': ['readline_push_current_line_to_history', 'readline_history_up', 'readline_history_down', 'readline_load_history_line', 'readline_newline_reset',
               'readline_history_pointer', 'readline_current_history_pointer', '_readline_push_line_to_history'],
 'replace': ['memcpy', 'memset', 'strlen'],
 'params': {'HD': [1, 2, 3, 102], 'FULL': [0]},
 'params_thorough': {'HD': [1, 2, 3, 4, 102, 103], 'FULL': [1]},
 'clauses': 'lemma harness (real functions, 9 calls): from any RL state with any ring head, enter line A, then line B (both non-empty, any length <= cap-1, arbitrary content), start a fresh line; then up shows B (len, cursor at the end, content at an arbitrary index), a second up shows A when the depth is >= 2 and is refused (nothing changes) when the depth is 1; down goes back to B, down again gives the empty line (browse 0), a further down is refused; with depth >= 3 a third up shows the entry that was there before; head and browse index stay in range throughout, lastsize = length of the replaced line',
 'assumptions': ['RL(rl) on entry (history present, browse index 0)', 'lines hold no NUL (C-string history; stated at the ghost index)', 'cap*history_size <= UINT_MAX'],
 'timeout': 300, 'object_bits': 11,
 'witness': {'unwind': 10},
} @*/
#include "vc.h"
#include <limits.h>
#include "c15_libc.h"
#include <igris/shell/readline.h>

#define LINE_IS(L, vk) (rl.line.len == (L) && rl.line.cursor == (L) && (!(k < (L)) || buf[k] == (vk)))

void harness(void)
{
    struct readline rl;
    WIT(uint, cap0); WIT(uint8_t, Hfree); WIT(uint8_t, head);
    WIT(uint, a); WIT(uint, b); WIT(uint, cursor_a); WIT(uint, cursor_b); WIT(uint, L0); WIT(size_t, k);
    WIT_ARR(char, content, 6);
    WIT_ARR(char, content2, 6);
    WIT_ARR(char, hcontent, 6);
    const uint8_t H = HD < 100 ? HD : Hfree;
    const uint cap = HD >= 100 ? HD - 100 : cap0;
    __CPROVER_assume(cap >= 2 && cap <= INT_MAX && cap <= VC_MAXOBJ && H >= 1 && head < H);
    __CPROVER_assume((unsigned long long)cap * H <= UINT_MAX && (size_t)cap * H <= VC_MAXOBJ);
    __CPROVER_assume(a >= 1 && a <= cap - 1 && cursor_a <= a && b >= 1 && b <= cap - 1 && cursor_b <= b && k < cap);
    char *buf = NEW_OBJ(cap);
    FILL(buf, (size_t)cap, content);
    char *hist = NEW_OBJ((size_t)cap * H);
    FILL(hist, (size_t)cap * H, hcontent);
    rl.line.buf = buf; rl.line.cap = cap; rl.line.len = a; rl.line.cursor = cursor_a;
    rl.state = 0; rl.last = 0; rl.lastsize = 0;
    rl.history_space = hist; rl.history_size = H; rl.headhist = head; rl.curhist = 0;
    /* the entry that is two pushes away from being overwritten (depth >= 3): a string of length L0 */
    uint8_t h1 = head + 1 == H ? 0 : head + 1, h2 = h1 + 1 == H ? 0 : h1 + 1;
    uint8_t old3 = head == 0 ? H - 1 : head - 1; /* most recent entry before the two pushes */
    char *slot_old = hist + (size_t)old3 * cap;
    __CPROVER_assume(L0 < cap && slot_old[L0] == 0 && (!(k < L0) || slot_old[k] != 0));
    char O_k = slot_old[k];
    g_strlen_s2 = NULL; g_strlen_k = k; g_memcpy_k = k; g_memset_k = k;

    /* ---- enter A */
    char A_k = buf[k];
    __CPROVER_assume(!(k < a) || A_k != 0);
    g_memcpy_v = A_k;
    readline_push_current_line_to_history(&rl);
    __CPROVER_assert(rl.headhist == h1, "head advanced (1)");
    /* ---- the user types another line B over the same buffer */
#ifdef WITNESS_MODE
    FILL(buf, (size_t)cap, content2);
#else
    __CPROVER_havoc_object(buf);
#endif
    rl.line.len = b; rl.line.cursor = cursor_b;
    char B_k = buf[k];
    __CPROVER_assume(!(k < b) || B_k != 0);
    g_memcpy_v = B_k;
    readline_push_current_line_to_history(&rl);
    __CPROVER_assert(rl.headhist == h2 && rl.headhist < H, "head advanced (2), inside [0, history_size)");
    readline_newline_reset(&rl);
    __CPROVER_assert(rl.line.len == 0 && rl.curhist == 0, "fresh line");

    /* ---- up: B */
    g_strlen_L = b; g_memcpy_v = B_k;
    int r1 = readline_history_up(&rl);
    __CPROVER_assert(r1 == 1 && rl.curhist == 1 && LINE_IS(b, B_k) && rl.lastsize == 0, "first up recalls the line entered last (B)");
    /* ---- up: A (depth >= 2), refused (depth 1) */
    g_strlen_L = a; g_memcpy_v = A_k;
    int r2 = readline_history_up(&rl);
    if (H >= 2) __CPROVER_assert(r2 == 1 && rl.curhist == 2 && LINE_IS(a, A_k) && rl.lastsize == (int)b, "second up recalls the line entered before it (A)");
    else __CPROVER_assert(r2 == 0 && rl.curhist == 1 && LINE_IS(b, B_k), "depth 1: second up refused, nothing changes");
    if (H >= 3) {
        /* ---- up: what was the most recent entry before */
        g_strlen_L = L0; g_memcpy_v = O_k;
        int r3 = readline_history_up(&rl);
        __CPROVER_assert(r3 == 1 && rl.curhist == 3 && LINE_IS(L0, O_k), "third up recalls the entry that was the most recent one before (untouched by the two pushes)");
#if !(FULL || HD <= 2)
        CANARY("history_recall (ups only) end reachable");
        return; /* quick tier, depth >= 3: the way back down is checked for depth 1 and 2 (and for all in the thorough tier) */
#endif
        g_strlen_L = a; g_memcpy_v = A_k;
        int r4 = readline_history_down(&rl);
        __CPROVER_assert(r4 == 1 && rl.curhist == 2 && LINE_IS(a, A_k), "down from there: A again");
    }
#if !(FULL || HD <= 2)
    if (H >= 3) return;
#endif
    if (H >= 2) {
        /* ---- down: B */
        g_strlen_L = b; g_memcpy_v = B_k;
        int r5 = readline_history_down(&rl);
        __CPROVER_assert(r5 == 1 && rl.curhist == 1 && LINE_IS(b, B_k) && rl.lastsize == (int)a, "down: B again");
    }
    /* ---- down: empty line; down again: refused */
    int r6 = readline_history_down(&rl);
    __CPROVER_assert(r6 == 1 && rl.curhist == 0 && rl.line.len == 0 && rl.line.cursor == 0 && rl.lastsize == (int)b, "down from the newest entry: the empty fresh line");
    int r7 = readline_history_down(&rl);
    __CPROVER_assert(r7 == 0 && rl.curhist == 0 && rl.line.len == 0, "down on the fresh line refused");
    __CPROVER_assert(rl.line.buf == buf && rl.line.cap == cap && rl.history_space == hist && rl.history_size == H && rl.headhist == h2, "buffers, depth and head untouched by recall");
#if FULL || HD <= 2 || HD >= 100
    CANARY("history_recall end reachable");
#endif
}
