/*@unit {
 'kind': 'proof', 'mode': 'plain',
 'functions': ['sline_getline'],
 'clauses': 'NUL-terminating accessor: the terminator lands at buf[len] INSIDE the buffer (exact-size object of cap bytes), the len characters before it, len, cursor, cap are untouched, the buffer itself is returned',
 'assumptions': ['SL(sl) on entry: cap >= 2, buf an object of exactly cap bytes, cursor <= len <= cap-1 (the invariant every other sline function is proved to preserve; sline_newdata only outside its known-finding region)'],
 'witness': {'unwind': 10},
} @*/
#include "vc.h"
#include <igris/datastruct/sline.h>

void harness(void)
{
    struct sline sl;
    WIT(uint, cap);
    WIT(uint, len);
    WIT(uint, cursor);
    WIT(size_t, k);
    WIT_ARR(char, content, 6);
    __CPROVER_assume(cap >= 2 && cap <= VC_MAXOBJ);
    __CPROVER_assume(cursor <= len && len <= cap - 1);
    char *buf = NEW_OBJ(cap);
    sl.buf = buf; sl.cap = cap; sl.len = len; sl.cursor = cursor;
    FILL(sl.buf, (size_t)cap, content);
    __CPROVER_assume(k < cap);
    char old_k = buf[k];

    const char *s = sline_getline(&sl);

    __CPROVER_assert(s == buf && sl.buf == buf && sl.cap == cap && sl.len == len && sl.cursor == cursor, "returns the buffer; descriptor untouched");
    __CPROVER_assert(s[len] == 0, "terminator at index len");
    if (k != len) __CPROVER_assert(buf[k] == old_k, "every other byte of the buffer untouched (the line's characters in particular)");
    CANARY("sline_getline end reachable");
}
