/*@unit {
 'kind': 'proof', 'mode': 'plain',
 'functions': ['readline_history_pointer', 'readline_current_history_pointer'],
 'params': {'HD': [1, 2, 3, 8, 102, 103]},
 'clauses': 'index arithmetic of the history ring: for every head < H and every num in 0..H the entry "num-th last" is slot (head - num) mod H (stated without %), the returned pointer is history_space + slot*cap with the whole cap-byte slot inside the cap*H-byte history space; current_history_pointer is the same for num = curhist; nothing is modified. Two geometries: depth HD in {1,2,3,8} with symbolic capacity, capacity HD-100 in {2,3} with symbolic depth 1..255',
 'assumptions': ['RL(rl): history space an object of exactly cap*history_size bytes, headhist < history_size, curhist <= history_size', 'cap*history_size <= UINT_MAX'],
 'witness': {'unwind': 10},
} @*/
#include "vc.h"
#include <limits.h>
#include <igris/shell/readline.h>

void harness(void)
{
    struct readline rl;
    WIT(uint, cap0); WIT(uint8_t, Hfree); WIT(uint8_t, head); WIT(uint8_t, browse); WIT(uint8_t, num);
    const uint8_t H = HD < 100 ? HD : Hfree;
    const uint cap = HD >= 100 ? HD - 100 : cap0;
    __CPROVER_assume(cap >= 2 && cap <= INT_MAX && H >= 1 && head < H && browse <= H && num <= H);
    __CPROVER_assume((unsigned long long)cap * H <= UINT_MAX && (size_t)cap * H <= VC_MAXOBJ);
    char *hist = NEW_OBJ((size_t)cap * H);
    rl.line.buf = NULL; rl.line.cap = cap; rl.line.len = 0; rl.line.cursor = 0;
    rl.state = 0; rl.last = 0; rl.lastsize = 0;
    rl.history_space = hist; rl.history_size = H; rl.headhist = head; rl.curhist = browse;

    char *p = readline_history_pointer(&rl, num);
    unsigned slot = head >= num ? head - num : head + H - num; /* (head - num) mod H for num <= H */
    __CPROVER_assert(slot < H, "slot index inside [0, history_size)");
    __CPROVER_assert(p == hist + (size_t)slot * cap, "pointer = history_space + slot*cap, slot = (head - num) mod history_size");
    __CPROVER_assert(__CPROVER_same_object(p, hist) && (size_t)__CPROVER_POINTER_OFFSET(p) + cap <= (size_t)cap * H && __CPROVER_rw_ok(p, cap), "the whole cap-byte entry lies inside the history space");
    char *c = readline_current_history_pointer(&rl);
    unsigned cslot = head >= browse ? head - browse : head + H - browse;
    __CPROVER_assert(c == hist + (size_t)cslot * cap && __CPROVER_rw_ok(c, cap), "current entry = entry number curhist");
    __CPROVER_assert(rl.history_space == hist && rl.history_size == H && rl.headhist == head && rl.curhist == browse && rl.line.cap == cap, "nothing modified");
    CANARY("history_pointer end reachable");
}
