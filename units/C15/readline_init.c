/*@unit {
 'kind': 'proof', 'mode': 'dfcc',
 'functions': ['readline_init', 'readline_history_init', 'readline_newline_reset', 'sline_init', 'sline_reset'],
 'replace': ['memset'],
 'params': {'HS': [1, 2, 3, 8]},
 'kf_probe_case': {'C15_history_size_u8': {'HS': 1}},
 'clauses': 'readline_init + readline_history_init establish RL: empty line over the given buffer (cap = len), phase 0, no pairing memory, head = browse = 0, history_size == hsize, the cap*hsize bytes of the history space zeroed (every entry the empty string, stated at a ghost slot / index), nothing written outside them; readline_newline_reset: empty line, browse 0, nothing else changes. History depth hsize = HS or HS + 256 (case split over constants: cap*hsize is a product)',
 'kf': ['C15_history_size_u8'],
 'assumptions': ['buffer an object of exactly cap bytes, cap in 2..INT_MAX; history space an object of exactly cap*hsize bytes, cap*hsize <= UINT_MAX (computed in unsigned int by the code)'],
 'witness': {'unwind': 10},
} @*/
#include "vc.h"
#include <limits.h>
#include "c15_libc.h"
#include <igris/shell/readline.h>

void harness(void)
{
    struct readline rl;
    WIT(uint, cap);
    WIT(uint8_t, hi); /* 0: hsize = HS, 1: hsize = HS + 256 (does not fit the uint8_t field) */
    WIT(uint8_t, j);
    WIT(size_t, k);
    __CPROVER_assume(cap >= 2 && cap <= VC_MAXOBJ && cap <= INT_MAX);
    __CPROVER_assume(hi <= 1);
    /* known finding: history_size is a uint8_t, hsize an int (vterm_automate_init: unsigned int) */
    __CPROVER_assume(KF_C15_history_size_u8 == 0 ? 1 : KF_C15_history_size_u8 == 1 ? !(hi == 1) : (hi == 1));
    int hsize = HS + (hi ? 256 : 0);
    size_t hbytes = (size_t)cap * HS + (hi ? (size_t)cap * 256 : 0);
    __CPROVER_assume(hbytes <= UINT_MAX && hbytes <= VC_MAXOBJ);
    char *buf = NEW_OBJ(cap);
    char *hist = NEW_OBJ(hbytes);
    __CPROVER_assume(k < cap && j < HS);
    char old_k = buf[k];
    size_t off = (size_t)j * cap + k; /* byte k of slot j */
    g_memset_k = off;

    readline_init(&rl, buf, cap);
    __CPROVER_assert(rl.line.buf == buf && rl.line.cap == cap && rl.line.len == 0 && rl.line.cursor == 0, "init: empty line over the given buffer");
    __CPROVER_assert(rl.state == 0 && rl.last == 0 && rl.history_space == NULL && rl.curhist == 0 && rl.headhist == 0, "init: phase 0, no pairing memory, no history, head = browse = 0");
    readline_history_init(&rl, hist, hsize);
    __CPROVER_assert(rl.history_space == hist, "history_init: space recorded");
    __CPROVER_assert((rl.history_size == hsize || (hsize > 255 && rl.history_size == 255)) && rl.history_size >= 1, "history_init: depth recorded as given (>= 1), or the largest depth the uint8_t indices can address");
    __CPROVER_assert(hist[off] == 0, "history_init: every byte of every entry is NUL (ghost slot, ghost index)");
    __CPROVER_assert(rl.line.buf == buf && rl.line.cap == cap && rl.line.len == 0 && rl.line.cursor == 0 && rl.headhist < rl.history_size && rl.curhist <= rl.history_size, "RL established");
    __CPROVER_assert(buf[k] == old_k, "line buffer content untouched");

    WIT(uint, len); WIT(uint, cursor); WIT(uint8_t, browse); WIT(uint8_t, head); WIT(uint8_t, state); WIT(char, last);
    __CPROVER_assume(cursor <= len && len <= cap - 1);
    rl.line.len = len; rl.line.cursor = cursor; rl.curhist = browse; rl.headhist = head; rl.state = state; rl.last = last;
    readline_newline_reset(&rl);
    __CPROVER_assert(rl.line.len == 0 && rl.line.cursor == 0 && rl.curhist == 0, "newline_reset: empty line, browse index 0");
    __CPROVER_assert(rl.line.buf == buf && rl.line.cap == cap && rl.headhist == head && rl.state == state && rl.last == last && rl.history_space == hist, "newline_reset: nothing else changes");
    CANARY("readline_init end reachable");
}
