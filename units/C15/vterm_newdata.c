/*@unit {
 'kind': 'proof', 'mode': 'legacy',
 'functions': ['vterm_automate_newdata', 'vterm_newline', 'readline_newline_reset', 'sline_getline', 'sline_size', 'sline_reset', 'sline_rightpart', 'sline_rightsize', 'sline_in_rightpos'],
 'replace': ['readline_putchar', 'vt100_left', 'strlen'],
 'params': {'HD': [0, 1, 2, 102]},
 'params_thorough': {'HD': [0, 1, 2, 3, 4, 102, 103]},
 'unwind': 6,
 'complete_unwinding': 'the state-machine loop runs at most 5 rounds per call (prompt, take the byte, process it, prompt again after a newline / Ctrl-C, leave): unwound 6 times with an unwinding assertion',
 'inject': [{'file': 'igris/shell/vterm.c', 'func': 'vterm_automate_newdata', 'at': 'after', 'anchor': 'ret = readline_putchar(&vterm->rl, c);',
             'ghost': 'g_ed_calls = g_ed_calls + 1; g_ed_c = c; g_ed_ret = ret; g_ed_len = vterm->rl.line.len; g_ed_cursor = vterm->rl.line.cursor; g_ed_browse = vterm->rl.curhist; g_ed_at_k = g_k < vterm->rl.line.len ? vterm->rl.line.buf[g_k] : 0;'}],
 'clauses': 'one call of the terminal automaton against spec_term_begin / spec_term_end (spec/c15_editor_ref.h), the editor in the middle being readline_putchar through its proved contract: for every state the automaton can be left in (0, 1, 2), every int16 input (no byte, Ctrl-C, any other byte), echo on or off, signal callback present or not, any prompt string: the byte reaches the editor exactly once unless it is Ctrl-C or absent; execute_callback is called exactly when the editor answered NEWLINE, with the line buffer, the length and the content (arbitrary index) the editor left and a terminator inside the buffer; Ctrl-C discards the line and raises SIGINT once; a fresh line (len 0, browse 0) and one prompt follow every delivery / interrupt / initial step; the automaton is left in state 2; every (ptr,len) handed to write_callback is readable and lies inside the line characters buf[0..len), is the prompt string, or is a short literal / the local buf[16] / the byte itself (never the history, never the automaton); nothing is written with echo off; callbacks, private data, prompt and echo flag untouched',
 'assumptions': ['RL(vterm->rl) on entry (contract precondition C15_RP_PRE is asserted at the call of readline_putchar)', 'vterm->state in {0,1,2}: the states a call can leave behind (the default branch for any other value only resets)',
                 'write/execute callbacks set (vterm.c calls them unconditionally); the callbacks do not touch the automaton or its buffers',
                 'that the line the editor left equals the reference line is the subject of unit readline_putchar; the two lemmas compose by transitivity (not machine-checked)'],
 'timeout': 300, 'object_bits': 10,
 'witness': {'unwind': 10},
} @*/
#include "vc.h"
#include <limits.h>
#include "c15_editor_ref.h"
size_t g_k;
int g_ed_calls, g_ed_ret; char g_ed_c, g_ed_at_k; unsigned g_ed_len, g_ed_cursor, g_ed_browse;
#ifdef REPLAY
#include "igris/util/numconvert.c"   /* native runs: vt100.h helpers (unused by vterm.c) reference igris_i32toa */
#endif
#include "igris/shell/vterm.c"
#include "c15_libc.h"
#include "c15_readline_contract.h"

/* ---- recording callbacks */
static struct vterm_automate *g_vt;
static char *g_buf, *g_hist;
static const char *g_prefix;
static size_t g_prefix_len, g_hist_bytes;
static unsigned g_w_count, g_w_prompts, g_w_bad;
static unsigned g_x_count, g_x_len; static const char *g_x_ptr; static char g_x_at_k, g_x_term; static void *g_x_priv;
static unsigned g_s_count; static int g_s_sig; static void *g_s_priv;
static char g_wp, g_xp, g_sp; /* private data cookies */
#ifdef REPLAY
#define C15_IN_OBJ(p, base, size) ((base) != NULL && (uintptr_t)(p) - (uintptr_t)(base) < (size))
#define C15_OFF(p, base) ((size_t)((uintptr_t)(p) - (uintptr_t)(base)))
#else
#define C15_IN_OBJ(p, base, size) ((base) != NULL && __CPROVER_same_object((p), (base)))
#define C15_OFF(p, base) ((size_t)__CPROVER_POINTER_OFFSET(p))
#endif
static void g_write(void *priv, const char *p, unsigned n)
{
    __CPROVER_assert(priv == &g_wp, "write_callback gets its private data");
    __CPROVER_assert(__CPROVER_r_ok(p, n), "write_callback: (ptr,len) is readable");
    if (C15_IN_OBJ(p, g_buf, g_vt->rl.line.cap))
        __CPROVER_assert(C15_OFF(p, g_buf) + n <= g_vt->rl.line.len, "write_callback: a block of the line buffer lies inside the line's characters buf[0..len)");
    else if (C15_IN_OBJ(p, g_prefix, g_prefix_len + 1)) {
        __CPROVER_assert(p == g_prefix && n == g_prefix_len, "write_callback: the prompt is written whole");
        g_w_prompts++;
    } else
        __CPROVER_assert(!C15_IN_OBJ(p, g_hist, g_hist_bytes) && !C15_IN_OBJ(p, (char *)g_vt, sizeof(*g_vt)) && n >= 1 && n <= 15,
                         "write_callback: otherwise a short literal, the local buf[16] or the byte itself - never the history or the automaton");
    g_w_count++;
}
static void g_exec(void *priv, const char *line, unsigned n)
{
    g_x_count++; g_x_priv = priv; g_x_ptr = line; g_x_len = n;
    g_x_at_k = g_k < n ? line[g_k] : 0;
    g_x_term = line[n];
}
static void g_signal(void *priv, int sig) { g_s_count++; g_s_priv = priv; g_s_sig = sig; }

void harness(void)
{
    struct vterm_automate vt;
    WIT(uint, cap0); WIT(uint, len); WIT(uint, cursor); WIT(uint8_t, rlstate); WIT(char, last); WIT(int, lastsize);
    WIT(uint8_t, Hfree); WIT(uint8_t, head); WIT(uint8_t, browse); WIT(uint, Lq);
    WIT(uint8_t, vstate); WIT(uint8_t, echo); WIT(uint8_t, has_sig); WIT(int16_t, in); WIT(uint, P);
    WIT(size_t, k);
    WIT_ARR(char, content, 6);
    WIT_ARR(char, hcontent, 6);
    WIT_ARR(char, pcontent, 6);
    const uint8_t has_hist = HD != 0;
    const uint8_t H = (HD != 0 && HD < 100) ? HD : Hfree;
    const uint cap = HD >= 100 ? HD - 100 : cap0;
    __CPROVER_assume(cap >= 2 && cap <= VC_MAXOBJ && cap <= INT_MAX && H >= 1);
    if (has_hist) __CPROVER_assume((unsigned long long)cap * H <= UINT_MAX && (size_t)cap * H <= VC_MAXOBJ);
    __CPROVER_assume(vstate <= 2 && P < VC_MAXOBJ && P <= 1000);
    char *buf = NEW_OBJ(cap);
    FILL(buf, (size_t)cap, content);
    char *hist = has_hist ? NEW_OBJ((size_t)cap * H) : NULL;
    if (has_hist) FILL(hist, (size_t)cap * H, hcontent);
    char *prefix = NEW_OBJ((size_t)P + 1);
    FILL(prefix, (size_t)P + 1, pcontent);
    __CPROVER_assume(k < cap);
    __CPROVER_assume(prefix[P] == 0 && (!(k < P) || prefix[k] != 0)); /* the prompt is a string of length P (claim at the ghost index) */
    vt.execute_callback = g_exec; vt.write_callback = g_write; vt.signal_callback = has_sig ? g_signal : NULL;
    vt.execute_privdata = &g_xp; vt.write_privdata = &g_wp; vt.signal_privdata = &g_sp;
    vt.state = vstate; vt.echo = echo; vt.prefix_string = prefix;
    vt.rl.line.buf = buf; vt.rl.line.cap = cap; vt.rl.line.len = len; vt.rl.line.cursor = cursor;
    vt.rl.state = rlstate; vt.rl.last = last; vt.rl.lastsize = lastsize;
    vt.rl.history_space = hist; vt.rl.history_size = H; vt.rl.headhist = head; vt.rl.curhist = browse;
    __CPROVER_assume(C15_RL_SHAPE(&vt.rl)); /* RL(rl) */
    /* RL: the entry the editor will consult (seen from the state it is called in: after the fresh-line reset if one is due) holds a string */
    struct readline at_call = vt.rl;
    if (vstate != 2) { at_call.line.len = 0; at_call.line.cursor = 0; at_call.curhist = 0; }
    g_rp_Lq = Lq; g_rp_k = k;
    if (in >= 0 && (char)in != ED_KEY_CTRL_C) __CPROVER_assume(C15_RP_QCLAIM(&at_call, (char)in));
    g_vt = &vt; g_buf = buf; g_hist = hist; g_prefix = prefix; g_prefix_len = P; g_hist_bytes = has_hist ? (size_t)cap * H : 0;
    g_k = k; g_ed_calls = 0; g_w_count = 0; g_w_prompts = 0; g_x_count = 0; g_s_count = 0;
    g_strlen_L = P; g_strlen_k = k; g_strlen_s2 = NULL;
    /* ---- the reference terminal, REL */
    struct term_ref t;
    t.fresh = vstate != 2;
    t.ed.l.cap = cap; t.ed.l.len = len; t.ed.l.cursor = cursor; t.ed.l.k = k; t.ed.l.at_k = buf[k];
    t.ed.browse = browse;
    char old_p = k <= P ? prefix[k] : 0;

    vterm_automate_newdata(&vt, in);

    int a = spec_term_begin(&t, in);
    if (a == 2) {
        __CPROVER_assert(g_ed_calls == 1 && g_ed_c == (char)in, "the byte goes to the editor exactly once");
        /* the editor's outcome (equal to the reference editor's: unit readline_putchar) */
        t.ed.l.len = g_ed_len; t.ed.l.cursor = g_ed_cursor; t.ed.l.at_k = g_ed_at_k; t.ed.browse = g_ed_browse;
        spec_term_end(&t, g_ed_ret);
    } else {
        __CPROVER_assert(g_ed_calls == 0, "no byte / Ctrl-C: the editor is not called");
    }
    __CPROVER_assert(g_x_count == (unsigned)t.delivered, "execute_callback is called exactly when the editor answered NEWLINE");
    if (t.delivered) {
        __CPROVER_assert(g_x_priv == &g_xp && g_x_ptr == buf && g_x_len == t.dl_len, "delivered: the line buffer and the length the editor left");
        if (k < t.dl_len) __CPROVER_assert(g_x_at_k == t.dl_at_k, "delivered: the content the editor left (arbitrary index)");
        __CPROVER_assert(g_x_term == 0, "delivered: terminated at index len, inside the buffer");
    }
    __CPROVER_assert(g_s_count == (unsigned)(t.interrupted && has_sig), "signal_callback is called exactly once per Ctrl-C (when set)");
    if (g_s_count) __CPROVER_assert(g_s_priv == &g_sp && g_s_sig == SIGINT, "signal_callback gets its private data and SIGINT");
    __CPROVER_assert(vt.state == 2, "the automaton is left waiting for the next byte");
    __CPROVER_assert(vt.rl.line.buf == buf && vt.rl.line.cap == cap && vt.rl.history_space == hist && vt.rl.history_size == H, "buffers, capacity, depth untouched");
    __CPROVER_assert(vt.rl.line.len == t.ed.l.len && vt.rl.line.cursor == t.ed.l.cursor && vt.rl.curhist == t.ed.browse, "line length, cursor and browse index equal the reference terminal's (fresh line after delivery / interrupt / initial step)");
    if (k < t.ed.l.len) __CPROVER_assert(buf[k] == t.ed.l.at_k, "line content equals the reference terminal's (arbitrary index)");
    __CPROVER_assert(C15_RL_SHAPE(&vt.rl), "RL shape preserved");
    __CPROVER_assert(g_w_prompts == (echo ? (unsigned)t.prompts : 0), "one prompt per fresh line (echo on)");
    if (!echo) __CPROVER_assert(g_w_count == 0, "echo off: nothing is written");
    __CPROVER_assert(vt.execute_callback == g_exec && vt.write_callback == g_write && vt.signal_callback == (has_sig ? g_signal : NULL) &&
                     vt.execute_privdata == &g_xp && vt.write_privdata == &g_wp && vt.signal_privdata == &g_sp &&
                     vt.echo == echo && vt.prefix_string == prefix, "callbacks, private data, echo flag and prompt pointer untouched");
    if (k <= P) __CPROVER_assert(prefix[k] == old_p, "prompt string untouched");
    CANARY("vterm_automate_newdata end reachable");
}
