/*@unit {
 'kind': 'proof', 'mode': 'plain',
 'functions': ['vt100_left', 'igris_i32toa', 'igris_i64toa'],
 'unwind': 13,
 'complete_unwinding': 'igris_i64toa in base 10 on a 32-bit value: digit loop at most 10 rounds, reversal loop at most 5; unwound 13 times with unwinding assertions',
 'clauses': 'for every 32-bit argument the text "ESC [ <decimal> D" and its terminator fit the 16-byte buffer the terminal passes (exact-size object: the longest, ESC [ -2147483648 D NUL, is 15 bytes), the returned length is the index of the terminator (4..14), the characters between "ESC [" and "D" are decimal digits after an optional leading minus, bytes beyond the terminator untouched; this is the contract C15_VT_POST that unit vterm_newdata uses',
 'witness': {'unwind': 13},
} @*/
#include "vc.h"
#include "igris/util/numconvert.c"
#include <igris/defs/vt100.h>
#include <igris/shell/readline.h>
#define readline_putchar c15_declared_readline_putchar
#define vt100_left c15_declared_vt100_left
#include "c15_readline_contract.h"
#undef readline_putchar
#undef vt100_left

void harness(void)
{
    WIT(int, arg);
    WIT(uint, k);
    char *buf = NEW_OBJ(16);
    __CPROVER_assume(k < 16);
    char old_k = buf[k];

    int r = vt100_left(buf, arg);

    __CPROVER_assert(C15_VT_POST(r, buf), "postcondition of the contract, verbatim: ESC [ ... D NUL, length 4..14");
    if (k >= 2 && k < (uint)r - 1) __CPROVER_assert((buf[k] >= '0' && buf[k] <= '9') || (k == 2 && arg < 0 && buf[k] == '-'), "decimal digits after an optional leading minus");
    if (arg >= 0 && arg <= 9) __CPROVER_assert(r == 4 && buf[2] == '0' + arg, "single digit arguments: one digit");
    if (k > (uint)r) __CPROVER_assert(buf[k] == old_k, "bytes beyond the terminator untouched");
    CANARY("vt100_left end reachable");
}
