/*@unit {
 'kind': 'proof', 'mode': 'dfcc',
 'functions': ['readline_push_line_to_history', '_readline_push_line_to_history'],
 'replace': ['memcpy', 'strlen'],
 'params': {'HD': [1, 2, 3, 102, 103]},
 'clauses': 'readline_push_line_to_history(rl, str) for a string of length L <= cap-1: entry head := str (content at an arbitrary index, NUL at L, all inside the slot), every other entry untouched (ghost slot), head advances by one modulo history_size (stated without %), line / browse index / phase untouched; reads only str[0..L]',
 'assumptions': ['RL(rl)', 'strlen(str) <= cap-1 (unchecked precondition of this public function: a longer string overruns the slot; the editor itself only pushes its own line, len <= cap-1)',
                 'str is an object of exactly L+1 bytes outside the history space', 'cap*history_size <= UINT_MAX'],
 'witness': {'unwind': 10},
} @*/
#include "vc.h"
#include <limits.h>
#include "c15_libc.h"
#include <igris/shell/readline.h>

void harness(void)
{
    struct readline rl;
    WIT(uint, cap0); WIT(uint8_t, Hfree); WIT(uint8_t, head); WIT(uint8_t, browse); WIT(uint8_t, j);
    WIT(uint, L); WIT(size_t, k); WIT(uint8_t, state); WIT(char, last);
    WIT_ARR(char, hcontent, 6);
    WIT_ARR(char, scontent, 6);
    const uint8_t H = HD < 100 ? HD : Hfree;
    const uint cap = HD >= 100 ? HD - 100 : cap0;
    __CPROVER_assume(cap >= 2 && cap <= INT_MAX && H >= 1 && head < H && browse <= H && j < H);
    __CPROVER_assume((unsigned long long)cap * H <= UINT_MAX && (size_t)cap * H <= VC_MAXOBJ);
    __CPROVER_assume(L <= cap - 1 && k < cap);
    char *hist = NEW_OBJ((size_t)cap * H);
    FILL(hist, (size_t)cap * H, hcontent);
    char *str = NEW_OBJ((size_t)L + 1);
    FILL(str, (size_t)L + 1, scontent);
    __CPROVER_assume(str[L] == 0 && (!(k < L) || str[k] != 0)); /* str is a string of length L (claim at the ghost index) */
    rl.line.buf = NULL; rl.line.cap = cap; rl.line.len = 0; rl.line.cursor = 0;
    rl.state = state; rl.last = last; rl.lastsize = 0;
    rl.history_space = hist; rl.history_size = H; rl.headhist = head; rl.curhist = browse;
    char *slot_j = hist + (size_t)j * cap;
    char *slot_h = hist + (size_t)head * cap;
    char old_j = slot_j[k];
    char s_k = k <= L ? str[k] : 0;
    g_strlen_L = L; g_strlen_k = k; g_strlen_s2 = NULL;
    g_memcpy_k = k; g_memcpy_v = s_k;

    readline_push_line_to_history(&rl, str);

    if (k < L) __CPROVER_assert(slot_h[k] == s_k, "entry head holds the string (arbitrary index)");
    __CPROVER_assert(slot_h[L] == 0, "entry head is NUL-terminated at L, inside its cap bytes");
    if (j != head) __CPROVER_assert(slot_j[k] == old_j, "every other entry untouched (ghost slot, ghost index)");
    if (j == head && k > L) __CPROVER_assert(slot_j[k] == old_j, "bytes of the entry beyond the terminator untouched");
    __CPROVER_assert(rl.headhist == (head + 1 == H ? 0 : head + 1) && rl.headhist < H, "head advances by one modulo history_size");
    __CPROVER_assert(rl.history_space == hist && rl.history_size == H && rl.curhist == browse && rl.state == state && rl.last == last && rl.line.cap == cap && rl.line.len == 0, "nothing else changes");
    if (k <= L) __CPROVER_assert(str[k] == s_k, "source string untouched");
    CANARY("push end reachable");
}
