#include <igris/shell/readline.h>
#include <stdio.h>
#include <stdlib.h>
int main(int argc, char **argv) {
    int mode = atoi(argv[1]);
    if (mode == 1) { /* newdata fills to len == cap, getline writes buf[cap] */
        char *b = malloc(4); struct sline sl; sline_init(&sl, b, 4);
        int n = sline_newdata(&sl, "abcdef", 6);
        printf("newdata returned %d, len=%u cap=%u\n", n, sl.len, sl.cap);
        sline_getline(&sl); /* ASan: write at b[4] */
    } else if (mode == 2) { /* negative length */
        char *b = malloc(8); struct sline sl; sline_init(&sl, b, 8);
        sline_newdata(&sl, "ab", 2);
        int n = sline_newdata(&sl, "xy", -1);
        printf("returned %d len=%u cursor=%u\n", n, sl.len, sl.cursor);
    } else if (mode == 3) { /* ECHOCHAR although refused */
        char *b = malloc(3); struct readline rl; readline_init(&rl, b, 3);
        int r1 = readline_putchar(&rl, 'a'), r2 = readline_putchar(&rl, 'b'), r3 = readline_putchar(&rl, 'c');
        printf("codes %d %d %d, len=%u line=%.*s\n", r1, r2, r3, rl.line.len, (int)rl.line.len, rl.line.buf);
        return r3 == READLINE_ECHOCHAR ? 1 : 0;
    } else if (mode == 4) { /* CRLF CRLF: second (empty) line lost */
        char *b = malloc(8); struct readline rl; readline_init(&rl, b, 8);
        const char *in = "\r\n\r\n\r\n"; int nl = 0;
        for (const char *p = in; *p; p++) if (readline_putchar(&rl, *p) == READLINE_NEWLINE) nl++;
        printf("3 CRLF pairs gave %d NEWLINE\n", nl);
        return nl == 3 ? 0 : 1;
    } else if (mode == 5) { /* history_init with hsize 256: history_size (uint8_t) becomes 0 */
        char *b = malloc(4), *h = malloc(4 * 256); struct readline rl; readline_init(&rl, b, 4);
        readline_history_init(&rl, h, 256);
        printf("history_size=%u\n", rl.history_size);
        readline_putchar(&rl, 'a'); readline_putchar(&rl, '\r'); /* % 0 */
        printf("survived\n");
    } else if (mode == 6) { /* hsize 257 -> depth 1 */
        char *b = malloc(4), *h = malloc(4 * 257); struct readline rl; readline_init(&rl, b, 4);
        readline_history_init(&rl, h, 257);
        printf("history_size=%u\n", rl.history_size);
        return rl.history_size == 257 ? 0 : 1;
    }
    return 0;
}
