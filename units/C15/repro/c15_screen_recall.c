#include <igris/shell/vterm.h>
#include <stdio.h>
#include <stdlib.h>
#include <string.h>
/* tiny VT100 row model */
static char row[80]; static int col, ph, arg, has;
static void feed(char ch) {
    if (ph == 0) { if (ch == 27) ph = 1; else if (ch == '\r') col = 0; else if (ch == '\n') memset(row, ' ', 79); else { row[col++] = ch; } }
    else if (ph == 1) { ph = ch == '[' ? 2 : 0; arg = 0; has = 0; }
    else if (ch >= '0' && ch <= '9') { arg = arg * 10 + ch - '0'; has = 1; }
    else { int n = has && arg ? arg : 1; if (ch == 'D') col = col >= n ? col - n : 0; else if (ch == 'C') col += n; else if (ch == 'K') memset(row + col, ' ', 79 - col); ph = 0; }
}
static void wr(void *p, const char *s, unsigned n) { for (unsigned i = 0; i < n; i++) feed(s[i]); }
static void ex(void *p, const char *s, unsigned n) { printf("execute(\"%.*s\")\n", (int)n, s); }
static void show(const char *what, struct vterm_automate *vt) {
    int e = 78; while (e >= 0 && row[e] == ' ') e--;
    printf("%-28s screen row \"%.*s\" col %d | line \"%.*s\" cursor %u (expected row \"$ %.*s\" col %u)\n", what, e + 1, row, col,
           (int)vt->rl.line.len, vt->rl.line.buf, vt->rl.line.cursor, (int)vt->rl.line.len, vt->rl.line.buf, 2 + vt->rl.line.cursor);
}
int main(void) {
    static char buf[16], hist[16 * 3]; struct vterm_automate vt;
    memset(row, ' ', 79);
    vterm_automate_init(&vt, buf, 16, hist, 3);
    vterm_set_write_callback(&vt, wr, NULL); vterm_set_execute_callback(&vt, ex, NULL);
    vterm_automate_init_step(&vt);
    const char *s1 = "x\r"; for (const char *p = s1; *p; p++) vterm_automate_newdata(&vt, *p);
    const char *s2 = "abcd\x1b[D\x1b[D\x1b[D"; for (const char *p = s2; *p; p++) vterm_automate_newdata(&vt, *p);
    show("typed abcd, 3x left:", &vt);
    const char *s3 = "\x1b[A"; for (const char *p = s3; *p; p++) vterm_automate_newdata(&vt, *p);
    show("then Up (recall \"x\"):", &vt);
    int e = 78; while (e >= 0 && row[e] == ' ') e--;
    return (e + 1 == 3 && !memcmp(row, "$ x", 3) && col == 3) ? 0 : 1;
}
