/*@unit {
 'kind': 'proof', 'mode': 'dfcc',
 'functions': ['igris::sline::init', 'igris::sline::data', 'igris::sline::newdata(char)', 'igris::sline::newdata(const char*,size_t)', 'igris::sline::getline',
               'igris::sline::current_size', 'igris::sline::maximum_size', 'igris::sline::storage_size', 'igris::sline::reset', 'igris::sline::set_size_and_cursor',
               'igris::sline::equal', 'igris::sline::backspace', 'igris::sline::del', 'igris::sline::left', 'igris::sline::right', 'igris::sline::rightsize',
               'igris::sline::rightpart', 'igris::sline::in_rightpos'],
 'extract': 'units/C15/sline_cxx_extract.py',
 'replace': ['memmove', 'memcpy', 'strlen', 'strncmp'],
 'params': {'FN': [0, 1, 2, 3, 4, 5, 6, 7, 8]},
 'clauses': 'the C++ wrapper igris::sline (container/sline.h, extracted to C mechanically) on top of the proved C functions: init(sz) allocates sz bytes and leaves the empty line over exactly that storage (class invariant: sl.buf == storage, sl.cap == storage size, SL); every editing / query member behaves as the reference editor says for the forwarded arguments (newdata(char) = insert, newdata(ptr,sz) = bulk insert, backspace / del with the int argument converted to unsigned, left / right, getline with the terminator inside the storage, equal, rightpart / rightsize / in_rightpos, current_size = maximum_size() = len (sic: maximum_size forwards sline_size), storage_size = bytes allocated) and preserves the class invariant; set_size_and_cursor is a raw setter (stores the two values, narrowed to unsigned)',
 'kf': ['C15_newdata_fill'],
 'kf_probe_case': {'C15_newdata_fill': {'FN': 2}},
 'assumptions': ['class invariant on entry: sl.buf == _space.m_data, an object of exactly _space.m_size bytes, sl.cap == _space.m_size in 2..INT_MAX, cursor <= len <= cap-1',
                 'newdata(ptr, sz): sz <= INT_MAX (the wrapper narrows size_t to the int parameter of sline_newdata: a larger sz arrives negative / truncated, see NOTES.md); init(sz): sz <= UINT_MAX',
                 'igris::unbounded_array<char> represented by its two data fields; resize(n) by a stub handing out a fresh object of exactly n bytes (anchored on the real lines, see the extraction recipe)',
                 'C++ semantics carried over by the cxx2c rules listed in the evidence (members -> self->, ::sline_x -> sline_x, auto return types named, bool from <stdbool.h>)'],
 'witness': {'unwind': 10},
} @*/
#include "vc.h"
#include <limits.h>
#include "c15_libc.h"
#include "c15_editor_ref.h"
#define C15_ALLOC(n) NEW_OBJ(n)
#include "cxx/sline_cxx.c"

void harness(void)
{
    struct igris_sline o;
    WIT(uint, cap); WIT(uint, len); WIT(uint, cursor); WIT(size_t, k); WIT(size_t, sz); WIT(size_t, sz2); WIT(int, cnt); WIT(char, c); WIT(size_t, L);
    WIT_ARR(char, content, 6);
    WIT_ARR(char, dcontent, 6);
    igris_sline_defaults(&o);
    __CPROVER_assume(cap >= 2 && cap <= VC_MAXOBJ && cap <= INT_MAX && cursor <= len && len <= cap - 1 && k < cap);
    char *buf = NEW_OBJ(cap);
    FILL(buf, (size_t)cap, content);
    o._space.m_data = buf; o._space.m_size = cap;
    o.sl.buf = buf; o.sl.cap = cap; o.sl.len = len; o.sl.cursor = cursor;
    struct ed_line r = {cap, len, cursor, k, buf[k]};
    char old_k = buf[k];
    char old_km1 = k > 0 ? buf[k - 1] : 0;
    int touched_content = 1;
#if FN == 0
    struct igris_sline n;
    igris_sline_defaults(&n);
    __CPROVER_assert(n._space.m_data == NULL && n._space.m_size == 0 && n.sl.buf == NULL && n.sl.cap == 0 && n.sl.len == 0, "default construction: no storage, empty descriptor");
    __CPROVER_assume(sz >= 2 && sz <= UINT_MAX && sz <= VC_MAXOBJ);
    igris_sline_init(&n, sz);
    __CPROVER_assert(n.sl.buf == n._space.m_data && n.sl.buf == igris_sline_data(&n) && n._space.m_size == sz && n.sl.cap == sz && igris_sline_storage_size(&n) == sz, "init: line over exactly the storage allocated");
    __CPROVER_assert(__CPROVER_rw_ok(n.sl.buf, sz) && n.sl.len == 0 && n.sl.cursor == 0 && igris_sline_current_size(&n) == 0, "init: sz bytes of storage, empty line");
    touched_content = 0;
#elif FN == 1
    g_memmove_k = k - ((size_t)cursor + 1); g_memmove_v = old_km1;
    igris_sline_newdata_char(&o, c);
    spec_ed_insert(&r, c, old_km1);
#elif FN == 2
    __CPROVER_assume(sz <= INT_MAX && sz <= VC_MAXN);
    int kf_fill = sz > spec_ed_room(&r);
    __CPROVER_assume(KF_C15_newdata_fill == 0 ? 1 : KF_C15_newdata_fill == 1 ? !kf_fill : kf_fill);
    char *data = NEW_OBJ(sz);
    FILL(data, sz, dcontent);
    unsigned m = spec_ed_bulk_count(&r, (long long)sz);
    char old_kmn = (k >= m) ? buf[k - m] : 0;
    char data_at = (k >= cursor && k - cursor < sz) ? data[k - cursor] : 0;
    g_memmove_k = k - ((size_t)cursor + m); g_memmove_v = old_kmn;
    g_memcpy_k = k - (size_t)cursor; g_memcpy_v = data_at;
    igris_sline_newdata(&o, data, sz);
    spec_ed_bulk_insert(&r, (long long)sz, data_at, old_kmn);
#elif FN == 3
    const char *s = igris_sline_getline(&o);
    __CPROVER_assert(s == buf && s[len] == 0, "getline: the storage, terminated at len (inside the storage)");
    __CPROVER_assert(igris_sline_current_size(&o) == len && igris_sline_maximum_size(&o) == len && igris_sline_storage_size(&o) == cap, "current_size == maximum_size() == len, storage_size == bytes allocated");
    if (k != len) __CPROVER_assert(buf[k] == old_k, "getline: nothing else written");
    touched_content = 0;
#elif FN == 4
    igris_sline_reset(&o);
    spec_ed_clear(&r);
    __CPROVER_assert(buf[k] == old_k, "reset: storage untouched");
    struct igris_sline raw = o;
    igris_sline_set_size_and_cursor(&raw, sz, sz2);
    __CPROVER_assert(raw.sl.len == (unsigned)sz && raw.sl.cursor == (unsigned)sz2 && raw.sl.buf == buf && raw.sl.cap == cap, "set_size_and_cursor: raw setter of len and cursor");
#elif FN == 5
    __CPROVER_assume(L < VC_MAXOBJ);
    char *str = NEW_OBJ(L + 1);
    FILL(str, L + 1, dcontent);
    __CPROVER_assume(str[L] == 0 && (!(k < L) || str[k] != 0));
    g_strlen_L = L; g_strlen_k = k; g_strlen_s2 = NULL; g_strncmp_k = k; g_strncmp_nz = 1;
    bool eq = igris_sline_equal(&o, str);
    if (eq) __CPROVER_assert(len == L && (!(k < len) || buf[k] == str[k]), "equal: same length, same character at an arbitrary index");
    else __CPROVER_assert(len != L || (g_strncmp_d < len && buf[g_strncmp_d] != str[g_strncmp_d]), "not equal: lengths differ or a differing index exists");
    __CPROVER_assert(buf[k] == old_k, "equal: storage untouched");
    touched_content = 0;
#elif FN == 6 || FN == 8
    unsigned count = (unsigned)cnt; /* the int argument is converted to the unsigned count of the C function */
    if (FN == 6) {
        unsigned m = spec_ed_backspace_count(&r, count);
        char old_kpn = (k + m < cap) ? buf[k + m] : 0;
        g_memmove_k = k - (size_t)(cursor - m); g_memmove_v = old_kpn;
        int got = igris_sline_backspace(&o, cnt);
        __CPROVER_assert(got == (int)spec_ed_backspace(&r, count, old_kpn), "backspace: removes min(count, cursor) characters left of the cursor");
    } else {
        unsigned m = spec_ed_delete_count(&r, count);
        char old_kpn = (k + m < cap) ? buf[k + m] : 0;
        g_memmove_k = k - (size_t)cursor; g_memmove_v = old_kpn;
        int got = igris_sline_del(&o, cnt);
        __CPROVER_assert(got == (int)spec_ed_delete(&r, count, old_kpn), "del: removes min(count, len-cursor) characters at the cursor");
    }
#else
    WIT(uint8_t, which);
    __CPROVER_assert(igris_sline_rightsize(&o) == len - cursor && igris_sline_rightpart(&o) == buf + cursor && igris_sline_in_rightpos(&o) == (cursor == len), "rightsize / rightpart / in_rightpos");
    if (which & 1) { int got = igris_sline_left(&o); __CPROVER_assert(got == spec_ed_left(&r), "left: as the reference"); }
    else { int got = igris_sline_right(&o); __CPROVER_assert(got == spec_ed_right(&r), "right: as the reference"); }
    __CPROVER_assert(buf[k] == old_k, "cursor moves: storage untouched");
#endif
    __CPROVER_assert(o._space.m_data == buf && o._space.m_size == cap && o.sl.buf == buf && o.sl.cap == cap, "class invariant: the line lies over exactly the storage");
    __CPROVER_assert(o.sl.len == r.len && o.sl.cursor == r.cursor && o.sl.cursor <= o.sl.len && o.sl.len <= cap - 1, "len and cursor equal the reference's; 0 <= cursor <= len < cap");
    if (touched_content && k < r.len) __CPROVER_assert(buf[k] == r.at_k, "content equals the reference line (arbitrary index)");
    CANARY("cxx_sline end reachable");
}
