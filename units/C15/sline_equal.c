/*@unit {
 'kind': 'proof', 'mode': 'dfcc',
 'functions': ['sline_equal'],
 'replace': ['strlen', 'strncmp'],
 'clauses': 'sline_equal(sl, str) for a string of any length L: result 1 => len == L and the line equals str at an arbitrary index; result 0 => len != L or a differing index below len exists (ghost witness from strncmp); reads only buf[0..len) and str[0..L], writes nothing',
 'assumptions': ['SL(sl) on entry', 'str is an object of exactly L+1 bytes, str[L] == 0, no NUL before L (stated at the ghost index)'],
 'witness': {'unwind': 10},
} @*/
#include "vc.h"
#include <igris/datastruct/sline.h>
#include "c15_libc.h"

void harness(void)
{
    struct sline sl;
    WIT(uint, cap);
    WIT(uint, len);
    WIT(uint, cursor);
    WIT(size_t, L);
    WIT(size_t, k);
    WIT_ARR(char, content, 6);
    WIT_ARR(char, scontent, 6);
    __CPROVER_assume(cap >= 2 && cap <= VC_MAXOBJ);
    __CPROVER_assume(cursor <= len && len <= cap - 1);
    __CPROVER_assume(L < VC_MAXOBJ);
    char *buf = NEW_OBJ(cap);
    sl.buf = buf; sl.cap = cap; sl.len = len; sl.cursor = cursor;
    FILL(sl.buf, (size_t)cap, content);
    char *str = NEW_OBJ(L + 1);
    FILL(str, L + 1, scontent);
    /* str is a string of length L: the claim is stated at the ghost index k */
    __CPROVER_assume(str[L] == 0 && (!(k < L) || str[k] != 0));
    g_strlen_L = L; g_strlen_k = k; g_strlen_s2 = NULL;
    g_strncmp_k = k; g_strncmp_nz = 1;
    char old_b = k < cap ? buf[k] : 0, old_s = k <= L ? str[k] : 0;

    int r = sline_equal(&sl, str);

    if (r) {
        __CPROVER_assert(r == 1 && len == L, "equal: same length");
        if (k < len) __CPROVER_assert(buf[k] == str[k], "equal: same character at an arbitrary index");
    } else {
        __CPROVER_assert(len != L || (g_strncmp_d < len && buf[g_strncmp_d] != str[g_strncmp_d]), "not equal: lengths differ or a differing index exists");
    }
    __CPROVER_assert(sl.buf == buf && sl.cap == cap && sl.len == len && sl.cursor == cursor, "descriptor untouched");
    if (k < cap) __CPROVER_assert(buf[k] == old_b, "line buffer untouched");
    if (k <= L) __CPROVER_assert(str[k] == old_s, "string untouched");
    CANARY("sline_equal end reachable");
}
