# cxx2c recipe for igris::sline (igris/container/sline.h): the C++ wrapper over the C sline_* functions.
# A python literal; see vclib/cxx2c.py.  The storage member igris::unbounded_array<char> is represented by the two
# fields it consists of (m_data, m_size; the stateless std::allocator member is dropped); resize(n) =
# invalidate() + create_buffer(n) is a glue stub that hands out a fresh exact-size object of n bytes, guarded by
# anchors on the real lines it stands for.
[{
 'out': 'cxx/sline_cxx.c',
 'pieces': [
  {'op': 'glue', 'text': '#include <stddef.h>\n#include <stdbool.h>\n#include <igris/datastruct/sline.h>\n'},
  {'op': 'anchor', 'file': 'igris/container/unbounded_array.h', 'regex': r'^\s*T \*m_data = nullptr;|^\s*size_t m_size = 0;', 'min': 2},
  {'op': 'anchor', 'file': 'igris/container/unbounded_array.h', 'regex': r'^\s*m_data = alloc\.allocate\(size\);|^\s*m_size = size;|^\s*return m_data;|^\s*return m_size;', 'min': 4},
  {'op': 'glue', 'text': '/* glue: igris::unbounded_array<char> = { std::allocator<char> alloc; char *m_data; size_t m_size; };\n'
                         '   data() returns m_data, size() returns m_size, resize(n): invalidate(); m_data = alloc.allocate(n); m_size = n; */\n'
                         'struct c15_uarray { char *m_data; size_t m_size; };\n'
                         'static inline void c15_uarray_resize(struct c15_uarray *a, size_t n) { a->m_data = C15_ALLOC(n); a->m_size = n; }\n'},
  {'op': 'struct', 'file': 'igris/container/sline.h', 'name': 'sline', 'as': 'igris_sline', 'ctor': 'igris_sline_defaults',
   'tparams': {'igris::unbounded_array<char>': 'struct c15_uarray', 'struct ::sline': 'struct sline'}},
  {'op': 'func', 'file': 'igris/container/sline.h', 'in_class': 'sline', 'name': 'data', 'occurrence': 0, 'as': 'igris_sline_data', 'self': 'igris_sline',
   'rewrite': [[r'self->_space\.data\(\)', 'self->_space.m_data', 1]]},
  {'op': 'func', 'file': 'igris/container/sline.h', 'in_class': 'sline', 'name': 'init', 'as': 'igris_sline_init', 'self': 'igris_sline',
   'rewrite': [[r'self->_space\.resize\(sz\)', 'c15_uarray_resize(&self->_space, sz)', 1], [r'self->_space\.data\(\)', 'self->_space.m_data', 1], [r'::sline_', 'sline_', 1]]},
  {'op': 'func', 'file': 'igris/container/sline.h', 'in_class': 'sline', 'name': 'newdata', 'occurrence': 0, 'as': 'igris_sline_newdata', 'self': 'igris_sline',
   'rewrite': [[r'::sline_', 'sline_', 1]]},
  {'op': 'func', 'file': 'igris/container/sline.h', 'in_class': 'sline', 'name': 'newdata', 'occurrence': 1, 'as': 'igris_sline_newdata_char', 'self': 'igris_sline',
   'rewrite': [[r'::sline_', 'sline_', 1]]},
  {'op': 'func', 'file': 'igris/container/sline.h', 'in_class': 'sline', 'name': 'getline', 'as': 'igris_sline_getline', 'self': 'igris_sline',
   'rewrite': [[r'::sline_', 'sline_', 1]]},
  {'op': 'func', 'file': 'igris/container/sline.h', 'in_class': 'sline', 'name': 'current_size', 'as': 'igris_sline_current_size', 'self': 'igris_sline'},
  {'op': 'func', 'file': 'igris/container/sline.h', 'in_class': 'sline', 'name': 'maximum_size', 'as': 'igris_sline_maximum_size', 'self': 'igris_sline',
   'rewrite': [[r'::sline_', 'sline_', 1]]},
  {'op': 'func', 'file': 'igris/container/sline.h', 'in_class': 'sline', 'name': 'storage_size', 'as': 'igris_sline_storage_size', 'self': 'igris_sline',
   'rewrite': [[r'self->_space\.size\(\)', 'self->_space.m_size', 1]]},
  {'op': 'func', 'file': 'igris/container/sline.h', 'in_class': 'sline', 'name': 'reset', 'as': 'igris_sline_reset', 'self': 'igris_sline',
   'rewrite': [[r'::sline_', 'sline_', 1]]},
  {'op': 'func', 'file': 'igris/container/sline.h', 'in_class': 'sline', 'name': 'clear', 'as': 'igris_sline_clear', 'self': 'igris_sline',
   'rewrite': [[r'for \(auto &it : self->_space\)\s*it = 0;',
                'for (size_t vc_i = 0; vc_i < self->_space.m_size; vc_i++) /* range-for over [m_data, m_data + m_size) */\n                self->_space.m_data[vc_i] = 0;', 1]]},
  {'op': 'func', 'file': 'igris/container/sline.h', 'in_class': 'sline', 'name': 'set_size_and_cursor', 'as': 'igris_sline_set_size_and_cursor', 'self': 'igris_sline'},
  {'op': 'func', 'file': 'igris/container/sline.h', 'in_class': 'sline', 'name': 'equal', 'as': 'igris_sline_equal', 'self': 'igris_sline',
   'rewrite': [[r'::sline_', 'sline_', 1]]},
  {'op': 'func', 'file': 'igris/container/sline.h', 'in_class': 'sline', 'name': 'backspace', 'as': 'igris_sline_backspace', 'self': 'igris_sline', 'ret': 'int',
   'rewrite': [[r'::sline_', 'sline_', 1]]},
  {'op': 'func', 'file': 'igris/container/sline.h', 'in_class': 'sline', 'name': 'right', 'as': 'igris_sline_right', 'self': 'igris_sline', 'ret': 'int',
   'rewrite': [[r'::sline_', 'sline_', 1]]},
  {'op': 'func', 'file': 'igris/container/sline.h', 'in_class': 'sline', 'name': 'left', 'as': 'igris_sline_left', 'self': 'igris_sline', 'ret': 'int',
   'rewrite': [[r'::sline_', 'sline_', 1]]},
  {'op': 'func', 'file': 'igris/container/sline.h', 'in_class': 'sline', 'name': 'del', 'as': 'igris_sline_del', 'self': 'igris_sline', 'ret': 'int',
   'rewrite': [[r'::sline_', 'sline_', 1]]},
  {'op': 'func', 'file': 'igris/container/sline.h', 'in_class': 'sline', 'name': 'rightsize', 'as': 'igris_sline_rightsize', 'self': 'igris_sline', 'ret': 'unsigned int',
   'rewrite': [[r'::sline_', 'sline_', 1]]},
  {'op': 'func', 'file': 'igris/container/sline.h', 'in_class': 'sline', 'name': 'rightpart', 'as': 'igris_sline_rightpart', 'self': 'igris_sline', 'ret': 'char *',
   'rewrite': [[r'::sline_', 'sline_', 1]]},
  {'op': 'func', 'file': 'igris/container/sline.h', 'in_class': 'sline', 'name': 'in_rightpos', 'as': 'igris_sline_in_rightpos', 'self': 'igris_sline',
   'rewrite': [[r'::sline_', 'sline_', 1]]},
 ],
}]
