#!/usr/bin/env python3
"""Writes the C02 unit files units/C02/*.c from the table below (only a convenience: the generated files are
self-contained units, the driver never runs this script).  Shared parts: the `inject` entries of the loops a unit
reaches and the usual header keys."""
import os
import pprint
import sys

HERE = os.path.dirname(os.path.dirname(os.path.abspath(__file__)))
F = 'overlay:cxx/igris_vector.c'

INJ = {
    'AD': [
        {'file': F, 'func': 'igris_array_destructor', 'ghost': 'g_ad_first0 = first; g_snap_take(&g_ad, first);', 'at': 'func-begin'},
        {'file': F, 'func': 'igris_array_destructor', 'loop': 0, 'expect': 'while (',
         'assigns': 'first, __CPROVER_object_whole(last)',
         'invariants': ['C02_INV_AD_PTR(first, last)', 'C02_INV_AD_K(first, last)', 'C02_INV_AD_J(first, last)'],
         'decreases': 'C02_DEC_AD(first, last)'}],
    'CB': [
        {'file': F, 'func': 'vector_changeBuffer', 'ghost': 'g_snap_take(&g_cb, self->m_data);', 'at': 'func-begin'},
        {'file': F, 'func': 'vector_changeBuffer', 'loop': 0, 'expect': 'for (',
         'assigns': 'ip, op, __CPROVER_object_whole(newbuf), __CPROVER_object_whole(self->m_data)',
         'invariants': ['C02_INV_CB_PTR(self, ip, op, newbuf)', 'C02_INV_CB_K(self, ip, newbuf, oldcapacity, sz)',
                        'C02_INV_CB_J(self, ip, newbuf, oldcapacity, sz)'],
         'decreases': 'C02_DEC_CB(self, ip)'}],
    'CL': [
        {'file': F, 'func': 'vector_clear', 'ghost': 'g_snap_take(&g_cl, self->m_data);', 'at': 'func-begin'},
        {'file': F, 'func': 'vector_clear', 'loop': 0, 'expect': 'for (',
         'assigns': 'i, __CPROVER_object_whole(self->m_data)',
         'invariants': ['i <= self->m_size', 'C02_INV_CL_K(self, i)', 'C02_INV_CL_J(self, i)'],
         'decreases': 'self->m_size - i'}],
    'RS': [
        {'file': F, 'func': 'vector_resize', 'ghost': 'g_snap_take(&g_rs, self->m_data);', 'at': 'after', 'anchor': 'size_t oldsize = self->m_size;'},
        {'file': F, 'func': 'vector_resize', 'loop': 0, 'expect': 'for (',
         'assigns': 'i, __CPROVER_object_whole(self->m_data)',
         'invariants': ['oldsize <= i && i <= n', 'C02_INV_RSG_K(self, oldsize, i)', 'C02_INV_RSG_J(self, oldsize, i)'],
         'decreases': 'n - i'},
        {'file': F, 'func': 'vector_resize', 'loop': 1, 'expect': 'for (',
         'assigns': 'i, __CPROVER_object_whole(self->m_data)',
         'invariants': ['n <= i && i <= oldsize', 'C02_INV_RSS_K(self, n, i)', 'C02_INV_RSS_J(self, n, i)'],
         'decreases': 'oldsize - i'}],
    'CCC': [   # copy constructor
        {'file': F, 'func': 'vector_ctor_copy', 'ghost': 'g_snap_take(&g_cc, other->m_data);', 'at': 'func-begin'},
        {'file': F, 'func': 'vector_ctor_copy', 'loop': 0, 'expect': 'for (',
         'assigns': 'ip, op, __CPROVER_object_whole(self->m_data)',
         'invariants': ['C02_INV_CC_PTR(self, other, ip, op)', 'C02_INV_CC_K(self, ip)', 'C02_INV_CC_J(self, ip)'],
         'decreases': 'C02_DEC_CC(other, ip)'}],
    'CCA': [   # copy assignment
        {'file': F, 'func': 'vector_assign_copy', 'ghost': 'g_snap_take(&g_cc, other->m_data);', 'at': 'func-begin'},
        {'file': F, 'func': 'vector_assign_copy', 'loop': 0, 'expect': 'for (',
         'assigns': 'ip, op, __CPROVER_object_whole(self->m_data)',
         'invariants': ['C02_INV_CC_PTR(self, other, ip, op)', 'C02_INV_CC_K(self, ip)', 'C02_INV_CC_J(self, ip)'],
         'decreases': 'C02_DEC_CC(other, ip)'}],
    'EQ': [
        {'file': F, 'func': 'vector_eq', 'ghost': 'g_eq_it = it;', 'at': 'before', 'anchor': 'if (!C02_ELEM_EQ(it, bit))'},
        {'file': F, 'func': 'vector_eq', 'loop': 0, 'expect': 'for (',
         'assigns': 'it, bit, g_eq_it',
         'invariants': ['C02_INV_EQ(self, oth, it, bit)'],
         'decreases': 'self->m_size - C02_IDX(it)'}],
    'CR': [
        {'file': F, 'func': 'vector_ctor_range', 'ghost': 'g_cr_first0 = first;', 'at': 'func-begin'},
        {'file': F, 'func': 'vector_ctor_range', 'loop': 0, 'expect': 'for (',
         'assigns': 'first, self->m_size, __CPROVER_object_whole(self->m_data)',
         'invariants': ['C02_INV_CR(self, first, last)', 'C02_INV_CR1(g_k, self)'],
         'decreases': '__CPROVER_POINTER_OFFSET(last) - __CPROVER_POINTER_OFFSET(first)'}],
    # case split REALLOC (params): in the case size()+n <= capacity() changeBuffer must not be reached - asserted, then the path is cut so that
    # symex drops the reallocation code from the formula (assert-then-assume of the same condition: nothing is hidden)
    'NOREALLOC': [
        {'file': F, 'func': 'vector_changeBuffer', 'at': 'func-begin',
         'ghost': '__CPROVER_assert(REALLOC != 0, "value: no reallocation while the new size() fits capacity()"); __CPROVER_assume(REALLOC != 0);'}],
    # repaired insert(pos, value): its temporary copy lives in raw local storage; it must be destroyed before it goes out of scope
    'TMPCHK': [
        {'file': F, 'func': 'vector_insert', 'at': 'before', 'anchor': 'self->m_size++;',
         'ghost': '__CPROVER_assert((tmpbuf[0] & 3) == ELEM_RAW, "lifetime: insert(pos, x): the temporary copy of x is destroyed before its storage goes out of scope");'}],
}

COMMON_ASSUME = [
    'capacity <= 2^36 elements (no wrap in size()+n, cbmc object size limit 2^40 bytes)',
    'the tracked slot indices g_k, g_j are unconstrained nondet inputs unless stated: a lifetime obligation at any slot of any block is the obligation at '
    'g_k == that index; VEC slot facts are assumed at the tracked indices only',
    'element type = ELEM of spec/elem_lifetime.h in its 1-byte representation (values 0..63): igris::vector is parametric in T and uses only ==, < on values',
]
COMMON_TRUSTED = ['spec/c02_vec.h allocator stub = std::allocator<T>::allocate/deallocate ([allocator.members]): fresh exact-size zeroed block / size recorded']

UNITS = {}
# function groups of the generated file a unit needs (vector_extract.py emits them under #ifdef C02_G_<GROUP>)
GROUPS = {'push_back': ['BACK'], 'emplace_back': ['BACK'], 'pop_back': ['BACK'], 'clear': ['BACK'], 'resize': ['BACK'],
          'access': ['ACCESS'], 'at_const': ['ACCESS'],
          'erase_it': ['MID'], 'erase_range': ['MID'], 'insert_value': ['MID'], 'insert_alias': ['MID'], 'emplace': ['MID'],
          'insert_range': ['MID'], 'insert_range2': ['MID'],
          'op_eq': ['CMP'], 'op_lt': ['CMP'],
          'ctor_copy': ['COPY'], 'assign_copy': ['COPY'], 'move_ops': ['COPY'],
          'ctor_n': ['FILL', 'BACK'], 'ctor_range': ['FILL', 'BACK'], 'ctor_iter': ['FILL', 'BACK']}


def unit(name, functions, loops, clauses, body, kf=(), extra_inject=(), extra=None, assumptions=(), trusted=(), need_j=False):
    meta = {
        'kind': 'proof', 'mode': 'legacy',
        'functions': functions,
        'extract': 'units/C02/vector_extract.py',
        'inject': [e for l in loops for e in INJ[l]] + list(extra_inject),
        'clauses': clauses,
        'witness': {'unwind': 7},
        # the ghost statements only take snapshots for the loop invariants (spec/c02_vec_inv.h) or state proof clauses inside the
        # code; no harness assertion reads them, so the bounded fallback may drop those whose anchors are gone
        'fallback': 'ghost-free',
        'trusted': COMMON_TRUSTED + list(trusted),
        'assumptions': COMMON_ASSUME + list(assumptions),
    }
    if name == 'access':
        # bounded native run of the REAL C++ class (not the extraction): decides changes that fall outside the extractor's dialect
        meta['native_cxx_probes'] = [{'file': 'units/C02/native/vector_model_probe.cpp', 'run': True,
                                      'what': 'real igris::vector<T> (not the extraction) against std::vector with a lifetime-tracking element type',
                                      'bound': 'one operation (push_back/insert with outside or self-aliasing argument, emplace, erase, pop_back, resize, reserve, clear, copy/move, ==, !=, < against shortened / changed copies) from every start state of 0..4 elements with and without spare capacity: 1200 state x operation pairs'}]
    if name == 'op_lt':
        meta['loop_contracts_in_unit'] = 1        # the loop contract of the std::lexicographical_compare stub (spec/c02_std_algo.h)
    meta['defines'] = ['C02_G_' + x for x in GROUPS.get(name, [])]
    if not need_j:
        meta['defines'] += ['C02_NO_J']      # one tracked index is enough: invariants about g_j compiled out
    if kf:
        meta['kf'] = list(kf)
    if extra:
        meta.update(extra)
    UNITS[name] = (meta, body)


exec(open(os.path.join(HERE, 'tools', 'unit_table.py')).read())

for name, (meta, body) in UNITS.items():
    if len(sys.argv) > 1 and name not in sys.argv[1:]:
        continue
    txt = '/*@unit ' + pprint.pformat(meta, width=150, sort_dicts=False) + ' @*/\n'
    txt += '/* generated by units/C02/tools/gen_units.py from tools/unit_table.py */\n' + ('#if defined(REALLOC) && REALLOC == 0\n#define C02_NO_J 1   /* no reallocation: the source slots are read in their pre-state, one tracked index is enough */\n#endif\n' if 'REALLOC' in str(meta.get('params', '')) else '') + '#include "vc.h"\n#include "cxx/igris_vector.c"\n' + body.lstrip('\n')
    open(os.path.join(HERE, name + '.c'), 'w').write(txt)
    print('wrote', name)
