# The C02 units (executed by gen_units.py; `unit(...)`, INJ, F are defined there).

PRE = '''
    struct vector v;
    WIT(size_t, cap); WIT(size_t, size); WIT(size_t, k); WIT(size_t, j); WIT(int, isnull);
    WIT_ARR(int, content, 4);
    c02_init(k, j);
    c02_vec_any(&v, cap, size, isnull, content);
'''

# ---------------------------------------------------------------------------------------------- push_back
unit('push_back',
     ['igris::vector::push_back', 'igris::vector::reserve', 'igris::vector::changeBuffer', 'igris::constructor', 'igris::move_constructor',
      'igris::destructor', 'igris::array_destructor'],
     ['AD', 'CB'],
     'push_back(x) from an arbitrary VEC state (any capacity, any size <= capacity, with or without reallocation): bounds - every access inside the '
     'blocks, old block released with its recorded size, VEC shape; lifetime - the new slot is constructed over RAW storage, every old element is '
     'move-constructed into RAW storage of the new block and destroyed exactly once in the old one, nothing alive in a released block, no block '
     'leaked; value - size()+1, old elements keep value and order, last element == x, no reallocation while size() < capacity(); '
     'the argument may be an element of the vector itself (std::vector allows v.push_back(v[a]))',
     '''
void harness(void)
{''' + PRE + '''
    WIT(int, x); WIT(int, alias); WIT(size_t, a);
    __CPROVER_assume(size < C02_MAXN && 0 <= x && x <= C02_VMAX);
    /* the argument: a live element outside the vector, or one of its own */
    ELEM *val;
    if (alias) {
        __CPROVER_assume(a < size);
        val = &v.m_data[a];
        if (a != k && a != j) __CPROVER_assume(ELEM_ST(val) == ELEM_LIVE);   /* VEC at slot a */
        x = ELEM_V(val);
    } else {
        val = (ELEM *)NEW_OBJ(sizeof(ELEM)); ELEM_SET(val, ELEM_LIVE, x); g_solo = val;
    }
    /* known finding: the reference dangles when push_back(v[a]) has to reallocate */
    C02_KF(KF_C02_push_back_self_alias, alias && size == cap);
    ELEM *d0 = v.m_data;
    int old_k = k < size ? ELEM_V(&v.m_data[k]) : 0;

    vector_push_back(&v, val);

    c02_vec_check(&v);
    c02_no_leak(&v, NULL);
    __CPROVER_assert(v.m_size == size + 1, "value: push_back: size() grows by one");
    if (k < size) __CPROVER_assert(ELEM_V(&v.m_data[k]) == old_k, "value: push_back: the old elements keep their value and position");
    if (k == size) __CPROVER_assert(ELEM_V(&v.m_data[k]) == x, "value: push_back: the new last element equals the argument");
    if (!alias) __CPROVER_assert(C02_IS(val, ELEM_LIVE, x), "frame: push_back: the argument is not modified");
    if (size < cap) __CPROVER_assert(v.m_data == d0 && v.m_capacity == cap, "value: push_back: no reallocation while size() < capacity()");
    CANARY("push_back end reachable");
}
''', kf=['C02_push_back_self_alias'])

# ---------------------------------------------------------------------------------------------- emplace_back
unit('emplace_back',
     ['igris::vector::emplace_back(1 arg)', 'igris::vector::reserve', 'igris::vector::changeBuffer'],
     ['AD', 'CB'],
     'emplace_back(x) (one constructor argument) from an arbitrary VEC state: as push_back - bounds / lifetime (T(x) constructed over RAW storage) / '
     'value (size()+1, old elements unchanged, last element == T(x), no reallocation while size() < capacity())',
     '''
void harness(void)
{''' + PRE + '''
    WIT(int, x);
    __CPROVER_assume(size < C02_MAXN && 0 <= x && x <= C02_VMAX);
    ELEM *d0 = v.m_data;
    int old_k = k < size ? ELEM_V(&v.m_data[k]) : 0;

    vector_emplace_back(&v, x);

    c02_vec_check(&v);
    c02_no_leak(&v, NULL);
    __CPROVER_assert(v.m_size == size + 1, "value: emplace_back: size() grows by one");
    if (k < size) __CPROVER_assert(ELEM_V(&v.m_data[k]) == old_k, "value: emplace_back: the old elements keep their value and position");
    if (k == size) __CPROVER_assert(ELEM_V(&v.m_data[k]) == x, "value: emplace_back: the new last element is T(x)");
    if (size < cap) __CPROVER_assert(v.m_data == d0 && v.m_capacity == cap, "value: emplace_back: no reallocation while size() < capacity()");
    CANARY("emplace_back end reachable");
}
''')

# ---------------------------------------------------------------------------------------------- pop_back
unit('pop_back',
     ['igris::vector::pop_back', 'igris::destructor'],
     [],
     'pop_back() on a non-empty vector (precondition of std::vector::pop_back): the last element is destroyed exactly once, size()-1, the other elements, '
     'the block and the capacity are untouched',
     '''
void harness(void)
{''' + PRE + '''
    __CPROVER_assume(size > 0);       /* ISO [sequence.reqmts]: pop_back requires !empty() */
    ELEM *d0 = v.m_data;
    int old_k = k < size ? ELEM_V(&v.m_data[k]) : 0;

    vector_pop_back(&v);

    c02_vec_check(&v);
    c02_no_leak(&v, NULL);
    __CPROVER_assert(v.m_size == size - 1, "value: pop_back: size() shrinks by one");
    __CPROVER_assert(v.m_data == d0 && v.m_capacity == cap, "value: pop_back: block and capacity unchanged");
    if (k < size - 1) __CPROVER_assert(ELEM_V(&v.m_data[k]) == old_k, "value: pop_back: the remaining elements keep their value and position");
    CANARY("pop_back end reachable");
}
''', assumptions=['pop_back: the vector is not empty (ISO precondition; igris documents none, tests/vector.cpp only pops non-empty vectors)'])

# ---------------------------------------------------------------------------------------------- reserve / changeBuffer
unit('reserve',
     ['igris::vector::reserve', 'igris::vector::changeBuffer', 'igris::move_constructor', 'igris::array_destructor'],
     ['AD', 'CB'],
     'reserve(n) from an arbitrary VEC state: n <= capacity(): nothing changes; n > capacity(): a block of exactly n slots, every element move-constructed '
     'into RAW storage of the new block (same value, same position), the moved-from elements destroyed exactly once, the old block released with its recorded '
     'size and nothing alive in it; returns 1; size() unchanged',
     '''
void harness(void)
{''' + PRE + '''
    WIT(size_t, n);
    __CPROVER_assume(n <= C02_MAXN);
    ELEM *d0 = v.m_data;
    int old_k = k < size ? ELEM_V(&v.m_data[k]) : 0;

    unsigned char r = vector_reserve(&v, n);

    c02_vec_check(&v);
    c02_no_leak(&v, NULL);
    __CPROVER_assert(r == 1, "value: reserve: returns 1");
    __CPROVER_assert(v.m_size == size, "value: reserve: size() unchanged");
    __CPROVER_assert(v.m_capacity >= n && v.m_capacity >= cap, "value: reserve: capacity() >= n afterwards and never shrinks");
    if (n <= cap) __CPROVER_assert(v.m_data == d0 && v.m_capacity == cap, "value: reserve: no reallocation when n <= capacity()");
    if (k < size) __CPROVER_assert(ELEM_V(&v.m_data[k]) == old_k, "value: reserve: elements keep their value and position");
    CANARY("reserve end reachable");
}
''')

# ---------------------------------------------------------------------------------------------- clear
unit('clear',
     ['igris::vector::clear', 'igris::destructor'],
     ['CL'],
     'clear(): every element destroyed exactly once, size() == 0, block and capacity kept (as std::vector)',
     '''
void harness(void)
{''' + PRE + '''
    /* known finding: the loop counter is an unsigned int */
    C02_KF(KF_C02_clear_uint_index, size > 0xFFFFFFFFu);
    ELEM *d0 = v.m_data;

    vector_clear(&v);

    c02_vec_check(&v);
    c02_no_leak(&v, NULL);
    __CPROVER_assert(v.m_size == 0, "value: clear: size() == 0");
    __CPROVER_assert(v.m_data == d0 && v.m_capacity == cap, "value: clear: block and capacity unchanged");
    CANARY("clear end reachable");
}
''', kf=['C02_clear_uint_index'])

# ---------------------------------------------------------------------------------------------- resize
unit('resize',
     ['igris::vector::resize', 'igris::vector::reserve', 'igris::vector::changeBuffer', 'igris::constructor', 'igris::destructor'],
     ['AD', 'CB', 'RS'],
     'resize(n) from an arbitrary VEC state: n > size(): the new elements [size, n) are default-constructed (T()) over RAW storage, after a reallocation '
     'when n > capacity(); n < size(): the elements [n, size) are destroyed exactly once; the elements below min(n, size) keep value and position; size() == n',
     '''
void harness(void)
{''' + PRE + '''
    WIT(size_t, n);
    __CPROVER_assume(n <= C02_MAXN);
    int old_k = k < size ? ELEM_V(&v.m_data[k]) : 0;

    vector_resize(&v, n);

    c02_vec_check(&v);
    c02_no_leak(&v, NULL);
    __CPROVER_assert(v.m_size == n, "value: resize: size() == n");
    if (k < size && k < n) __CPROVER_assert(ELEM_V(&v.m_data[k]) == old_k, "value: resize: the elements below min(n, old size) keep their value and position");
    if (k >= size && k < n) __CPROVER_assert(ELEM_V(&v.m_data[k]) == 0, "value: resize: the appended elements are value-initialised (T())");
    CANARY("resize end reachable");
}
''')

# ---------------------------------------------------------------------------------------------- invalidate / destructor
unit('invalidate',
     ['igris::vector::invalidate', 'igris::vector::~vector', 'igris::array_destructor'],
     ['AD'],
     'invalidate() and ~vector() from an arbitrary VEC state: every element destroyed exactly once, the block released with its recorded size and nothing '
     'alive in it, the vector is left as (NULL, 0, 0)',
     '''
void harness(void)
{''' + PRE + '''
    WIT(int, via_dtor);

    if (via_dtor) vector_dtor(&v); else vector_invalidate(&v);

    c02_vec_check(&v);
    c02_no_leak(&v, NULL);
    __CPROVER_assert(v.m_data == NULL && v.m_size == 0 && v.m_capacity == 0, "value: invalidate: the vector is empty and owns no block");
    __CPROVER_assert(g_dealloc_calls == (isnull ? 0 : 1), "lifetime: invalidate: the block is released exactly once");
    CANARY("invalidate end reachable");
}
''')
