# The C02 units (executed by gen_units.py; `unit(...)`, INJ, F are defined there).

PRE = '''
    struct vector v;
    WIT(size_t, cap); WIT(size_t, size); WIT(size_t, k); WIT(size_t, j); WIT(int, isnull);
    WIT_ARR(int, content, 4);
    c02_init(k, j);
    c02_vec_any(&v, cap, size, isnull, content);
'''

# ---------------------------------------------------------------------------------------------- push_back
unit('push_back',
     ['igris::vector::push_back', 'igris::vector::reserve', 'igris::vector::changeBuffer', 'igris::constructor', 'igris::move_constructor',
      'igris::destructor', 'igris::array_destructor'],
     ['AD', 'CB'],
     'push_back(x) from an arbitrary VEC state (any capacity, any size <= capacity, with or without reallocation): bounds - every access inside the '
     'blocks, old block released with its recorded size, VEC shape; lifetime - the new slot is constructed over RAW storage, every old element is '
     'move-constructed into RAW storage of the new block and destroyed exactly once in the old one, nothing alive in a released block, no block '
     'leaked; value - size()+1, old elements keep value and order, last element == x, no reallocation while size() < capacity(); '
     'the argument may be an element of the vector itself (std::vector allows v.push_back(v[a]))',
     '''
void harness(void)
{''' + PRE + '''
    WIT(int, x); WIT(int, alias); WIT(size_t, a);
    __CPROVER_assume(size < C02_MAXN && 0 <= x && x <= C02_VMAX);
    /* the argument: a live element outside the vector, or one of its own */
    ELEM *val;
    if (alias) {
        __CPROVER_assume(a < size);
        val = &v.m_data[a];
        if (a != k && a != j) __CPROVER_assume(ELEM_ST(val) == ELEM_LIVE);   /* VEC at slot a */
        x = ELEM_V(val);
    } else {
        val = (ELEM *)NEW_OBJ(sizeof(ELEM)); ELEM_SET(val, ELEM_LIVE, x); g_solo = val;
    }
    ELEM *d0 = v.m_data;
    int old_k = k < size ? ELEM_V(&v.m_data[k]) : 0;

    vector_push_back(&v, val);

    c02_vec_check(&v);
    c02_no_leak(&v, NULL);
    __CPROVER_assert(v.m_size == size + 1, "value: push_back: size() grows by one");
    if (k < size) __CPROVER_assert(ELEM_V(&v.m_data[k]) == old_k, "value: push_back: the old elements keep their value and position");
    if (k == size) __CPROVER_assert(ELEM_V(&v.m_data[k]) == x, "value: push_back: the new last element equals the argument");
    if (!alias) __CPROVER_assert(C02_IS(val, ELEM_LIVE, x), "frame: push_back: the argument is not modified");
    if (size < cap) __CPROVER_assert(v.m_data == d0 && v.m_capacity == cap, "value: push_back: no reallocation while size() < capacity()");
    CANARY("push_back end reachable");
}
''')

# ---------------------------------------------------------------------------------------------- emplace_back
unit('emplace_back',
     ['igris::vector::emplace_back(1 arg)', 'igris::vector::reserve', 'igris::vector::changeBuffer'],
     ['AD', 'CB'],
     'emplace_back(x) (one constructor argument) from an arbitrary VEC state: as push_back - bounds / lifetime (T(x) constructed over RAW storage) / '
     'value (size()+1, old elements unchanged, last element == T(x), no reallocation while size() < capacity())',
     '''
void harness(void)
{''' + PRE + '''
    WIT(int, x);
    __CPROVER_assume(size < C02_MAXN && 0 <= x && x <= C02_VMAX);
    ELEM *d0 = v.m_data;
    int old_k = k < size ? ELEM_V(&v.m_data[k]) : 0;

    vector_emplace_back(&v, x);

    c02_vec_check(&v);
    c02_no_leak(&v, NULL);
    __CPROVER_assert(v.m_size == size + 1, "value: emplace_back: size() grows by one");
    if (k < size) __CPROVER_assert(ELEM_V(&v.m_data[k]) == old_k, "value: emplace_back: the old elements keep their value and position");
    if (k == size) __CPROVER_assert(ELEM_V(&v.m_data[k]) == x, "value: emplace_back: the new last element is T(x)");
    if (size < cap) __CPROVER_assert(v.m_data == d0 && v.m_capacity == cap, "value: emplace_back: no reallocation while size() < capacity()");
    CANARY("emplace_back end reachable");
}
''')

# ---------------------------------------------------------------------------------------------- pop_back
unit('pop_back',
     ['igris::vector::pop_back', 'igris::destructor'],
     [],
     'pop_back() on a non-empty vector (precondition of std::vector::pop_back): the last element is destroyed exactly once, size()-1, the other elements, '
     'the block and the capacity are untouched',
     '''
void harness(void)
{''' + PRE + '''
    __CPROVER_assume(size > 0);       /* ISO [sequence.reqmts]: pop_back requires !empty() */
    ELEM *d0 = v.m_data;
    int old_k = k < size ? ELEM_V(&v.m_data[k]) : 0;

    vector_pop_back(&v);

    c02_vec_check(&v);
    c02_no_leak(&v, NULL);
    __CPROVER_assert(v.m_size == size - 1, "value: pop_back: size() shrinks by one");
    __CPROVER_assert(v.m_data == d0 && v.m_capacity == cap, "value: pop_back: block and capacity unchanged");
    if (k < size - 1) __CPROVER_assert(ELEM_V(&v.m_data[k]) == old_k, "value: pop_back: the remaining elements keep their value and position");
    CANARY("pop_back end reachable");
}
''', assumptions=['pop_back: the vector is not empty (ISO precondition; igris documents none, tests/vector.cpp only pops non-empty vectors)'])

# ---------------------------------------------------------------------------------------------- reserve / changeBuffer
unit('reserve',
     ['igris::vector::reserve', 'igris::vector::changeBuffer', 'igris::move_constructor', 'igris::array_destructor'],
     ['AD', 'CB'],
     'reserve(n) from an arbitrary VEC state: n <= capacity(): nothing changes; n > capacity(): a block of exactly n slots, every element move-constructed '
     'into RAW storage of the new block (same value, same position), the moved-from elements destroyed exactly once, the old block released with its recorded '
     'size and nothing alive in it; returns 1; size() unchanged',
     '''
void harness(void)
{''' + PRE + '''
    WIT(size_t, n);
    __CPROVER_assume(n <= C02_MAXN);
    ELEM *d0 = v.m_data;
    int old_k = k < size ? ELEM_V(&v.m_data[k]) : 0;

    unsigned char r = vector_reserve(&v, n);

    c02_vec_check(&v);
    c02_no_leak(&v, NULL);
    __CPROVER_assert(r == 1, "value: reserve: returns 1");
    __CPROVER_assert(v.m_size == size, "value: reserve: size() unchanged");
    __CPROVER_assert(v.m_capacity >= n && v.m_capacity >= cap, "value: reserve: capacity() >= n afterwards and never shrinks");
    if (n <= cap) __CPROVER_assert(v.m_data == d0 && v.m_capacity == cap, "value: reserve: no reallocation when n <= capacity()");
    if (k < size) __CPROVER_assert(ELEM_V(&v.m_data[k]) == old_k, "value: reserve: elements keep their value and position");
    CANARY("reserve end reachable");
}
''')

# ---------------------------------------------------------------------------------------------- clear
unit('clear',
     ['igris::vector::clear', 'igris::destructor'],
     ['CL'],
     'clear(): every element destroyed exactly once, size() == 0, block and capacity kept (as std::vector)',
     '''
void harness(void)
{''' + PRE + '''
    ELEM *d0 = v.m_data;

    vector_clear(&v);

    c02_vec_check(&v);
    c02_no_leak(&v, NULL);
    __CPROVER_assert(v.m_size == 0, "value: clear: size() == 0");
    __CPROVER_assert(v.m_data == d0 && v.m_capacity == cap, "value: clear: block and capacity unchanged");
    CANARY("clear end reachable");
}
''')

# ---------------------------------------------------------------------------------------------- resize
unit('resize',
     ['igris::vector::resize', 'igris::vector::reserve', 'igris::vector::changeBuffer', 'igris::constructor', 'igris::destructor'],
     ['AD', 'CB', 'RS'],
     'resize(n) from an arbitrary VEC state: n > size(): the new elements [size, n) are default-constructed (T()) over RAW storage, after a reallocation '
     'when n > capacity(); n < size(): the elements [n, size) are destroyed exactly once; the elements below min(n, size) keep value and position; size() == n',
     '''
void harness(void)
{''' + PRE + '''
    WIT(size_t, n);
    __CPROVER_assume(n <= C02_MAXN);
    int old_k = k < size ? ELEM_V(&v.m_data[k]) : 0;

    vector_resize(&v, n);

    c02_vec_check(&v);
    c02_no_leak(&v, NULL);
    __CPROVER_assert(v.m_size == n, "value: resize: size() == n");
    if (k < size && k < n) __CPROVER_assert(ELEM_V(&v.m_data[k]) == old_k, "value: resize: the elements below min(n, old size) keep their value and position");
    if (k >= size && k < n) __CPROVER_assert(ELEM_V(&v.m_data[k]) == 0, "value: resize: the appended elements are value-initialised (T())");
    CANARY("resize end reachable");
}
''')

# ---------------------------------------------------------------------------------------------- invalidate / destructor
unit('invalidate',
     ['igris::vector::invalidate', 'igris::vector::~vector', 'igris::array_destructor'],
     ['AD'],
     'invalidate() and ~vector() from an arbitrary VEC state: every element destroyed exactly once, the block released with its recorded size and nothing '
     'alive in it, the vector is left as (NULL, 0, 0)',
     '''
void harness(void)
{''' + PRE + '''
    WIT(int, via_dtor);

    if (via_dtor) vector_dtor(&v); else vector_invalidate(&v);

    c02_vec_check(&v);
    c02_no_leak(&v, NULL);
    __CPROVER_assert(v.m_data == NULL && v.m_size == 0 && v.m_capacity == 0, "value: invalidate: the vector is empty and owns no block");
    __CPROVER_assert(g_dealloc_calls == (isnull ? 0 : 1), "lifetime: invalidate: the block is released exactly once");
    CANARY("invalidate end reachable");
}
''')

# ---------------------------------------------------------------------------------------------- element access / observers
unit('access',
     ['igris::vector::operator[]', 'igris::vector::operator[] const', 'igris::vector::at', 'igris::vector::front', 'igris::vector::back',
      'igris::vector::front const', 'igris::vector::back const', 'igris::vector::data', 'igris::vector::size', 'igris::vector::capacity',
      'igris::vector::empty', 'igris::vector::begin', 'igris::vector::end', 'igris::vector::begin const', 'igris::vector::end const'],
     [],
     'observers on an arbitrary VEC state: operator[](n) (n < size(), its assert holds) and at(n) return a reference to the live element n; at(n) with '
     'n >= size() throws (ghost flag) and touches nothing; front()/back() on a non-empty vector are elements 0 and size()-1; data()/begin() == m_data, '
     'end() == begin() + size(), size()/capacity()/empty() report the fields; nothing is modified',
     '''
void harness(void)
{''' + PRE + '''
    WIT(size_t, n); WIT(int, op);
    ELEM *d0 = v.m_data;
    const ELEM *r;
    if (op == 0) {
        __CPROVER_assume(n < size);                   /* ISO precondition of operator[] */
        r = vector_index(&v, n);
        __CPROVER_assert(r == d0 + n, "value: operator[](n) refers to element n");
        __CPROVER_assert(vector_index_c(&v, n) == r, "value: operator[] const refers to the same element");
        if (n == k) __CPROVER_assert(ELEM_ST(r) == ELEM_LIVE, "lifetime: operator[] yields a live element");
    } else if (op == 1) {
        r = vector_at(&v, n);
        if (n < size) {
            __CPROVER_assert(!g_thrown && r == d0 + n, "value: at(n), n < size(): refers to element n, nothing thrown");
            if (n == k) __CPROVER_assert(ELEM_ST(r) == ELEM_LIVE, "lifetime: at() yields a live element");
        } else
            __CPROVER_assert(g_thrown == 1, "value: at(n), n >= size(): throws std::out_of_range");
    } else if (op == 2) {
        __CPROVER_assume(size > 0);                   /* ISO precondition of front() / back() */
        __CPROVER_assert(vector_front(&v) == d0 && vector_front_c(&v) == d0, "value: front() is element 0");
        __CPROVER_assert(vector_back(&v) == d0 + (size - 1) && vector_back_c(&v) == d0 + (size - 1), "value: back() is element size()-1");
    } else {
        __CPROVER_assert(vector_data(&v) == d0 && vector_begin(&v) == d0 && vector_begin_c(&v) == d0, "value: data() == begin() == the block");
        if (d0) __CPROVER_assert(vector_end(&v) == d0 + size && vector_end_c(&v) == d0 + size, "value: end() == begin() + size()");
        __CPROVER_assert(vector_size(&v) == size && vector_capacity(&v) == cap && vector_empty(&v) == (size == 0), "value: size() / capacity() / empty()");
    }
    c02_vec_check(&v);
    __CPROVER_assert(v.m_data == d0 && v.m_size == size && v.m_capacity == cap, "frame: observers do not modify the vector");
    CANARY("access end reachable");
}
''', assumptions=['operator[]: n < size(); front()/back(): the vector is not empty (ISO preconditions)'])

unit('at_const',
     ['igris::vector::at const'],
     [],
     'at(n) const: n < size(): reference to element n; n >= size(): throws std::out_of_range like std::vector (does not abort)',
     '''
void harness(void)
{''' + PRE + '''
    WIT(size_t, n);
    ELEM *d0 = v.m_data;
    const ELEM *r = vector_at_c(&v, n);
    if (n < size) __CPROVER_assert(!g_thrown && r == d0 + n, "value: at(n) const, n < size(): refers to element n, nothing thrown");
    else __CPROVER_assert(g_thrown == 1, "value: at(n) const, n >= size(): throws std::out_of_range");
    CANARY("at const end reachable");
}
''')




# ---------------------------------------------------------------------------------------------- two-vector scenarios
PRE2 = '''
    struct vector v, w;
    WIT(size_t, cap); WIT(size_t, size); WIT(size_t, k); WIT(size_t, j); WIT(int, isnull);
    WIT(size_t, wcap); WIT(size_t, wsize); WIT(int, wisnull);
    WIT_ARR(int, content, 4); WIT_ARR(int, wcontent, 4);
    c02_init(k, j);
    c02_vec_any(&v, cap, size, isnull, content);
    c02_vec_any(&w, wcap, wsize, wisnull, wcontent);
'''

unit('ctor_copy',
     ['igris::vector::vector(const vector&)', 'igris::constructor'],
     ['CCC'],
     'copy constructor from an arbitrary VEC state of the source: the new vector has the source\'s size() and element values in order, every element is '
     'copy-constructed over RAW storage of a fresh block from a live element, VEC holds for the copy; the source is untouched',
     '''
void harness(void)
{''' + PRE + '''
    struct vector c;
    int src_k = k < size ? ELEM_V(&v.m_data[k]) : 0;
    ELEM *d0 = v.m_data;

    vector_defaults(&c);
    vector_ctor_copy(&c, &v);

    c02_vec_check(&c);
    c02_vec_check(&v);
    c02_no_leak(&c, &v);
    __CPROVER_assert(c.m_size == size, "value: copy constructor: same size()");
    if (k < size) __CPROVER_assert(ELEM_V(&c.m_data[k]) == src_k, "value: copy constructor: same elements in the same order");
    __CPROVER_assert(v.m_data == d0 && v.m_size == size && v.m_capacity == cap, "frame: copy constructor: the source vector is untouched");
    if (k < size) __CPROVER_assert(ELEM_V(&v.m_data[k]) == src_k, "frame: copy constructor: the source elements keep their value");
    __CPROVER_assert(c.m_data != v.m_data || v.m_data == NULL, "value: copy constructor: the copy owns its own block");
    CANARY("copy constructor end reachable");
}
''')

unit('assign_copy',
     ['igris::vector::operator=(const vector&)', 'igris::vector::invalidate', 'igris::constructor'],
     ['AD', 'CCA'],
     'copy assignment w = v from arbitrary VEC states of both: the old elements of w are destroyed exactly once and its block released, w gets v\'s size() '
     'and element values in order, copy-constructed over RAW storage inside a block that is large enough; v is untouched; self-assignment changes nothing',
     '''
void harness(void)
{''' + PRE2 + '''
    WIT(int, self_assign);
    int src_k = k < size ? ELEM_V(&v.m_data[k]) : 0;
    int w_k = k < wsize ? ELEM_V(&w.m_data[k]) : 0;
    ELEM *d0 = v.m_data, *wd0 = w.m_data;

    if (self_assign) vector_assign_copy(&w, &w); else vector_assign_copy(&w, &v);

    c02_vec_check(&w);
    c02_vec_check(&v);
    c02_no_leak(&w, &v);
    if (self_assign) {
        __CPROVER_assert(w.m_data == wd0 && w.m_size == wsize && w.m_capacity == wcap, "value: copy assignment: w = w changes nothing");
        if (k < wsize) __CPROVER_assert(ELEM_V(&w.m_data[k]) == w_k, "value: copy assignment: w = w keeps the elements");
    } else {
        __CPROVER_assert(w.m_size == size, "value: copy assignment: same size() as the source");
        if (k < size) __CPROVER_assert(ELEM_V(&w.m_data[k]) == src_k, "value: copy assignment: same elements in the same order");
        __CPROVER_assert(w.m_data != v.m_data || v.m_data == NULL, "value: copy assignment: the target owns its own block");
    }
    __CPROVER_assert(v.m_data == d0 && v.m_size == size && v.m_capacity == cap, "frame: copy assignment: the source vector is untouched");
    if (k < size) __CPROVER_assert(ELEM_V(&v.m_data[k]) == src_k, "frame: copy assignment: the source elements keep their value");
    CANARY("copy assignment end reachable");
}
''', extra={'solver': 'cadical'})

unit('move_ops',
     ['igris::vector::vector(vector&&)', 'igris::vector::operator=(vector&&)', 'igris::vector::invalidate'],
     ['AD'],
     'move constructor / move assignment from arbitrary VEC states: the target takes over block, size() and capacity() of the source (element values and '
     'addresses unchanged, no element operation), the source is left empty (NULL, 0, 0); move assignment first destroys the target\'s old elements exactly once '
     'and releases its block; self-move-assignment changes nothing',
     '''
void harness(void)
{''' + PRE2 + '''
    WIT(int, op);
    ELEM *d0 = v.m_data, *wd0 = w.m_data;
    int src_k = k < size ? ELEM_V(&v.m_data[k]) : 0;
    if (op == 0) {
        struct vector c;
        vector_defaults(&c);
        vector_ctor_move(&c, &v);
        c02_vec_check(&c);
        c02_vec_check(&v);
        __CPROVER_assert(c.m_data == d0 && c.m_size == size && c.m_capacity == cap, "value: move constructor: takes over block, size() and capacity()");
        __CPROVER_assert(v.m_data == NULL && v.m_size == 0 && v.m_capacity == 0, "value: move constructor: the source is left empty");
        if (k < size) __CPROVER_assert(ELEM_V(&c.m_data[k]) == src_k, "value: move constructor: elements unchanged");
        __CPROVER_assert(g_alloc_calls == 0 && g_dealloc_calls == 0, "value: move constructor: no allocation");
    } else if (op == 1) {
        vector_assign_move(&w, &v);
        c02_vec_check(&w);
        c02_vec_check(&v);
        c02_no_leak(&w, &v);
        __CPROVER_assert(w.m_data == d0 && w.m_size == size && w.m_capacity == cap, "value: move assignment: takes over block, size() and capacity()");
        __CPROVER_assert(v.m_data == NULL && v.m_size == 0 && v.m_capacity == 0, "value: move assignment: the source is left empty");
        if (k < size) __CPROVER_assert(ELEM_V(&w.m_data[k]) == src_k, "value: move assignment: elements unchanged");
        __CPROVER_assert(g_dealloc_calls == (wisnull ? 0 : 1), "lifetime: move assignment: the target's old block is released exactly once");
    } else {
        vector_assign_move(&v, &v);
        c02_vec_check(&v);
        __CPROVER_assert(v.m_data == d0 && v.m_size == size && v.m_capacity == cap, "value: move assignment: v = std::move(v) changes nothing");
        if (k < size) __CPROVER_assert(ELEM_V(&v.m_data[k]) == src_k, "value: move assignment: v = std::move(v) keeps the elements");
    }
    CANARY("move operations end reachable");
}
''')

unit('op_eq',
     ['igris::vector::operator==', 'igris::vector::operator!='],
     ['EQ'],
     'operator== / operator!= on arbitrary VEC states (also v == v): true iff the sizes are equal and the elements are equal (T::operator==) position by position '
     '(std::vector: equal ranges); only live elements inside the blocks are read; nothing is modified',
     '''
void harness(void)
{''' + PRE2 + '''
    WIT(int, same); WIT(int, ne);
    struct vector *o = same ? &v : &w;
    size_t osize = same ? size : wsize;

    bool r = ne ? !vector_ne(&v, o) : vector_eq(&v, o);

    if (r) {
        __CPROVER_assert(size == osize, "value: operator==: true only for equal sizes");
        if (k < size) __CPROVER_assert(C02_VEQ(ELEM_V(&v.m_data[k]), ELEM_V(&o->m_data[k])), "value: operator==: true only if every pair of elements is equal (T::operator==)");
    } else {
#if !VC_FALLBACK        /* depends on the ghost g_eq_it (injected statement in the loop / set by the std::equal, memcmp stubs) */
        size_t idx = (size != osize || !g_eq_it) ? size : (size_t)(g_eq_it - v.m_data);      /* ghost: where the comparison stopped */
        __CPROVER_assert(size != osize || (idx < size && !C02_VEQ(ELEM_V(&v.m_data[idx]), ELEM_V(&o->m_data[idx]))),
                         "value: operator==: false only for different sizes or a differing pair of elements");
#endif
    }
#ifdef WITNESS_MODE     /* small concrete blocks: compare with a directly computed reference (ghost-free, used by the bounded fallback) */
    {
        bool ref = size == osize;
        for (size_t i = 0; ref && i < size; i++) if (!C02_VEQ(ELEM_V(&v.m_data[i]), ELEM_V(&o->m_data[i]))) ref = false;
        __CPROVER_assert(r == ref, "value: operator==: equals std::equal of the two element sequences (reference loop)");
    }
#endif
    c02_vec_check(&v);
    c02_vec_check(&w);
    __CPROVER_assert(v.m_size == size && v.m_capacity == cap && w.m_size == wsize && w.m_capacity == wcap, "frame: operator==: nothing modified");
    CANARY("operator== end reachable");
}
''', extra={'fallback': 'ghost-free', 'params': {'C02_T_TRIVIAL': [0, 1]}},
     assumptions=['op_eq runs twice: C02_T_TRIVIAL=0 (element equality = value identity) and C02_T_TRIVIAL=1 (std::is_trivially_copyable<T> etc. are true and '
                  'T::operator== ignores value bit 0: a trivially copyable T need not have bytewise equality, e.g. double, POD with user-defined ==)'])

unit('op_lt',
     ['igris::vector::operator<', 'std::lexicographical_compare stub'],
     [],
     'operator< on arbitrary VEC states: lexicographic comparison of the two element sequences ([alg.lex.comparison]): with m = length of the common '
     'equal prefix, v < w iff (m < both sizes and v[m] < w[m]) or (m == v.size() < w.size()); only live elements inside the blocks are read',
     '''
void harness(void)
{''' + PRE2 + '''
    bool r = vector_lt(&v, &w);

    size_t m = g_lex_m;
    __CPROVER_assert(m <= size && m <= wsize, "value: operator<: the compared prefix lies inside both vectors");
    if (k < m) __CPROVER_assert(ELEM_V(&v.m_data[k]) == ELEM_V(&w.m_data[k]), "value: operator<: the elements before the deciding position are equivalent");
    if (m < size && m < wsize) {
        __CPROVER_assert(ELEM_V(&v.m_data[m]) != ELEM_V(&w.m_data[m]), "value: operator<: the deciding position is the first mismatch");
        __CPROVER_assert(r == (ELEM_V(&v.m_data[m]) < ELEM_V(&w.m_data[m])), "value: operator<: decided by the first mismatching pair");
    } else
        __CPROVER_assert(r == (size < wsize), "value: operator<: a proper prefix is less, equal sequences are not");
    c02_vec_check(&v);
    c02_vec_check(&w);
    CANARY("operator< end reachable");
}
''')

unit('ctor_n',
     ['igris::vector::vector(size_t)', 'igris::vector::resize', 'igris::vector::reserve', 'igris::vector::changeBuffer'],
     ['AD', 'CB', 'RS'],
     'vector(n): n value-initialised elements (T()) constructed over RAW storage of a fresh block; size() == n, VEC holds',
     '''
void harness(void)
{
    struct vector c;
    WIT(size_t, n); WIT(size_t, k); WIT(size_t, j);
    c02_init(k, j);
    __CPROVER_assume(n <= C02_MAXN);

    vector_defaults(&c);
    vector_ctor_n(&c, n);

    c02_vec_check(&c);
    c02_no_leak(&c, NULL);
    __CPROVER_assert(c.m_size == n, "value: vector(n): size() == n");
    if (k < n) __CPROVER_assert(ELEM_V(&c.m_data[k]) == 0, "value: vector(n): every element is value-initialised (T())");
    CANARY("vector(n) end reachable");
}
''')

unit('ctor_range',
     ['igris::vector::vector(I first, O last)', 'igris::vector::reserve', 'igris::vector::push_back', 'std::distance stub'],
     ['AD', 'CB', 'CR'],
     'template range constructor vector(first, last) over a foreign range of live elements: one reserve(distance), then size() == distance and element i '
     'is a copy of first[i], each copy-constructed over RAW storage without any reallocation; the source range is untouched',
     '''
void harness(void)
{
    struct vector c;
    WIT(size_t, n); WIT(size_t, k); WIT(size_t, j);
    WIT_ARR(int, content, 4);
    c02_init(k, j);
    __CPROVER_assume(n <= C02_MAXN);
    ELEM *src = (ELEM *)NEW_OBJ(n * sizeof(ELEM));
#ifdef WITNESS_MODE
    for (size_t i = 0; i < n; i++) ELEM_SET(&src[i], ELEM_LIVE, content[i]);
#else
    if (k < n) __CPROVER_assume(ELEM_ST(&src[k]) == ELEM_LIVE);      /* the source range holds live elements (at the tracked index) */
#endif
    int src_k = k < n ? ELEM_V(&src[k]) : 0;

    vector_defaults(&c);
    vector_ctor_range(&c, src, src + n);

    c02_vec_check(&c);
    c02_no_leak(&c, NULL);
    __CPROVER_assert(c.m_size == n, "value: vector(first, last): size() == distance(first, last)");
    if (k < n) __CPROVER_assert(ELEM_V(&c.m_data[k]) == src_k, "value: vector(first, last): element i is a copy of first[i]");
    if (k < n) __CPROVER_assert(C02_IS(&src[k], ELEM_LIVE, src_k), "frame: vector(first, last): the source range is untouched");
    __CPROVER_assert(g_alloc_calls <= 1, "value: vector(first, last): at most one allocation");
    CANARY("vector(first, last) end reachable");
}
''')

# ---------------------------------------------------------------------------------------------- vector(iterator a, const iterator b)
unit('ctor_iter',
     ['igris::vector::vector(iterator, const iterator)', 'igris::vector::push_back'],
     ['AD', 'CB'],
     'vector(a, b) over a foreign range of at most 3 live elements (the push_back loop is unwound; push_back itself is proved for an arbitrary VEC state by '
     'unit push_back): size() == b - a, element i is a copy of a[i], every intermediate block (capacity grows by one per element) is released, VEC holds',
     '''
void harness(void)
{
    struct vector c;
    WIT(size_t, n); WIT(size_t, k); WIT(size_t, j);
    WIT_ARR(int, content, 4);
    c02_init(k, j);
    __CPROVER_assume(n <= 3);
    ELEM src[3];
    for (size_t i = 0; i < 3; i++) ELEM_SET(&src[i], ELEM_LIVE, content[i] & C02_VMAX);

    vector_defaults(&c);
    vector_ctor_iter(&c, src, src + n);

    c02_vec_check(&c);
    c02_no_leak(&c, NULL);
    __CPROVER_assert(c.m_size == n, "value: vector(a, b): size() == b - a");
    if (k < n) __CPROVER_assert(ELEM_V(&c.m_data[k]) == (content[k] & C02_VMAX), "value: vector(a, b): element i is a copy of a[i]");
    if (k < n) __CPROVER_assert(ELEM_ST(&src[k]) == ELEM_LIVE, "frame: vector(a, b): the source range is untouched");
    CANARY("vector(a, b) end reachable");
}
''', extra={'kind': 'bounded', 'bound': 'source range of at most 3 elements (outer push_back loop unwound 4 times with unwinding assertion; the loops of '
                                          'changeBuffer / array_destructor inside keep their loop contracts, blocks are of symbolic size)',
               'unwindset': ['vector_ctor_iter.0:4']})


# ============================================================================================== units rewritten for the repaired code
# ---------------------------------------------------------------------------------------------- erase(pos)
unit('erase_it',
     ['igris::vector::erase(iterator)', 'igris::vector::erase(iterator, iterator)', 'igris::array_destructor'],
     ['AD'],
     'erase(pos), pos dereferenceable (std::vector::erase(const_iterator)): removes exactly the element at pos - size()-1, elements before pos keep their '
     'place, elements after pos move down by one; exactly one element object is destroyed (nothing alive at or above the new size(), nothing assigned to '
     'or moved from a destroyed object); block and capacity kept',
     '''
void harness(void)
{''' + PRE + '''
    WIT(size_t, pos);
    __CPROVER_assume(pos < size);               /* ISO: pos is a valid dereferenceable iterator */
    ELEM *d0 = v.m_data;
    int old_k = k < size ? ELEM_V(&v.m_data[k]) : 0;
    int old_j = (k < size && k + 1 < size) ? ELEM_V(&v.m_data[k + 1]) : 0;      /* pre-state value of the source of slot k */

    vector_erase_at(&v, v.m_data + pos);

    c02_vec_check(&v);
    c02_no_leak(&v, NULL);
    __CPROVER_assert(v.m_data == d0 && v.m_capacity == cap, "value: erase(pos): block and capacity unchanged");
    __CPROVER_assert(v.m_size == size - 1, "value: erase(pos): size() shrinks by one");
    if (k < pos) __CPROVER_assert(ELEM_V(&v.m_data[k]) == old_k, "value: erase(pos): elements before pos keep their value and position");
    if (k >= pos && k < size - 1) __CPROVER_assert(ELEM_V(&v.m_data[k]) == old_j, "value: erase(pos): elements after pos move down by one");
    CANARY("erase(pos) end reachable");
}
''', extra={'solver': 'cadical'})

# ---------------------------------------------------------------------------------------------- erase(first, last)
unit('erase_range',
     ['igris::vector::erase(iterator, iterator)', 'igris::array_destructor', 'std::move(first, last, d) stub'],
     ['AD'],
     'erase(first, last), begin() <= first <= last <= end(): removes [first, last) - size() shrinks by last-first, elements before first keep their place, '
     'elements from last on move down by last-first; exactly last-first element objects are destroyed: nothing is assigned to or moved from a destroyed '
     'slot, nothing alive at or above the new size(); block and capacity kept',
     '''
void harness(void)
{''' + PRE + '''
    WIT(size_t, fi); WIT(size_t, li);
    __CPROVER_assume(fi <= li && li <= size);
    __CPROVER_assume(!isnull);                   /* nullptr - nullptr is defined in C++ only; see PROPERTY.json */
    ELEM *d0 = v.m_data;
    int old_k = k < size ? ELEM_V(&v.m_data[k]) : 0;
    int old_j = (k < size && k + (li - fi) < size) ? ELEM_V(&v.m_data[k + (li - fi)]) : 0;      /* pre-state value of the source of slot k */

    vector_erase_range(&v, v.m_data + fi, v.m_data + li);

    c02_vec_check(&v);
    c02_no_leak(&v, NULL);
    __CPROVER_assert(v.m_data == d0 && v.m_capacity == cap, "value: erase(first, last): block and capacity unchanged");
    __CPROVER_assert(v.m_size == size - (li - fi), "value: erase(first, last): size() shrinks by last - first");
    if (k < fi) __CPROVER_assert(ELEM_V(&v.m_data[k]) == old_k, "value: erase(first, last): elements before first keep their value and position");
    if (k >= fi && k < size - (li - fi)) __CPROVER_assert(ELEM_V(&v.m_data[k]) == old_j, "value: erase(first, last): elements from last on move down by last - first");
    CANARY("erase(first, last) end reachable");
}
''', extra={'solver': 'cadical'})

# ---------------------------------------------------------------------------------------------- insert(pos, value)
INSERT_PRE = '''
    WIT(size_t, pos); WIT(int, x);
    __CPROVER_assume(pos <= size && size < C02_MAXN && 0 <= x && x <= C02_VMAX);
    __CPROVER_assume(REALLOC ? size == cap : size < cap);   /* case split (params): with / without reallocation */
    __CPROVER_assume(k == 0 ? j == 0 : j == k - 1);         /* second tracked slot = the source of slot k (value bookkeeping only) */
    ELEM *d0 = v.m_data;
    int old_k = k < size ? ELEM_V(&v.m_data[k]) : 0;
    int old_j = (k > 0 && k - 1 < size) ? ELEM_V(&v.m_data[k - 1]) : 0;     /* pre-state value of the source of slot k (== slot j) */
'''
INSERT_POST = '''
    c02_vec_check(&v);
    c02_no_leak(&v, NULL);
    __CPROVER_assert(v.m_size == size + 1, "value: %(f)s: size() grows by one");
    __CPROVER_assert(r == v.m_data + pos, "value: %(f)s: returns an iterator to the inserted element");
    if (k < pos) __CPROVER_assert(ELEM_V(&v.m_data[k]) == old_k, "value: %(f)s: elements before pos keep their value and position");
    if (k == pos) __CPROVER_assert(ELEM_V(&v.m_data[k]) == x, "value: %(f)s: the element at pos is the new one");
    if (k > pos && k <= size) __CPROVER_assert(ELEM_V(&v.m_data[k]) == old_j, "value: %(f)s: elements from pos on move up by one");
    if (size < cap) __CPROVER_assert(v.m_data == d0 && v.m_capacity == cap, "value: %(f)s: no reallocation while size() < capacity()");
'''
SPLIT = {'params': {'REALLOC': [0]}, 'params_thorough': {'REALLOC': [0, 1]}, 'timeout': 400, 'solver': 'cadical'}
SPLIT_INS = dict(SPLIT, params={'REALLOC': [0], 'BYINDEX': [0]}, params_thorough={'REALLOC': [0, 1], 'BYINDEX': [0, 1]})
SPLIT_NOTE = ['quick tier: the case size() < capacity() (no reallocation); thorough tier: also size() == capacity() (solver time > 60 s)']
unit('insert_value',
     ['igris::vector::insert(const_iterator, const T&)', 'igris::vector::insert(int, const T&)', 'std::move_backward stub'],
     ['NOREALLOC', 'AD', 'CB', 'TMPCHK'],
     'insert(pos, x), begin() <= pos <= end(), x outside the vector, from an arbitrary VEC state: size()+1, elements before pos unchanged, element pos == x, '
     'elements from pos on moved up by one, iterator to the new element returned; lifetime - the new last slot is move-constructed (or constructed from the '
     'copy of x), only live elements are assigned to / moved from, the temporary copy of x is constructed in raw storage and destroyed exactly once, nothing '
     'alive above size(); the (int pos) overload forwards to it',
     '''
void harness(void)
{''' + PRE + INSERT_PRE + '''
    int by_index = BYINDEX;       /* params: the (int pos) overload is exercised in the thorough tier */
    ELEM *val = (ELEM *)NEW_OBJ(sizeof(ELEM)); ELEM_SET(val, ELEM_LIVE, x); g_solo = val;
    if (by_index) __CPROVER_assume(pos <= 0x7fffffff);

    ELEM *r = by_index ? vector_insert_at(&v, (int)pos, val) : vector_insert(&v, v.m_data + pos, val);
''' + INSERT_POST % {'f': 'insert(pos, x)'} + '''
    __CPROVER_assert(C02_IS(val, ELEM_LIVE, x), "frame: insert(pos, x): the argument is not modified");
    CANARY("insert(pos, x) end reachable");
}
''', extra=SPLIT_INS, assumptions=SPLIT_NOTE, need_j=True)

unit('insert_alias',
     ['igris::vector::insert(const_iterator, const T&) with an element of the vector as argument'],
     ['NOREALLOC', 'AD', 'CB', 'TMPCHK'],
     'insert(pos, v[a]) (std::vector supports an argument that is an element of the vector), any a, with or without reallocation: the inserted element '
     'equals the value v[a] had before the call; the argument is copied while it is a live element of a live block (the shifted elements are covered by insert_value)',
     '''
void harness(void)
{''' + PRE + '''
    WIT(size_t, pos); WIT(size_t, a);
    __CPROVER_assume(pos <= size && size < C02_MAXN);
    __CPROVER_assume(a < size && j == a);       /* second tracked slot = the argument (value bookkeeping only) */
    __CPROVER_assume(REALLOC ? size == cap : size < cap);   /* case split (params): with / without reallocation */
    ELEM *val = &v.m_data[a];
    int x = ELEM_V(val);
    int old_k = k < size ? ELEM_V(&v.m_data[k]) : 0;

    ELEM *r = vector_insert(&v, v.m_data + pos, val);

    c02_vec_check(&v);
    c02_no_leak(&v, NULL);
    __CPROVER_assert(v.m_size == size + 1, "value: insert(pos, v[a]): size() grows by one");
    __CPROVER_assert(r == v.m_data + pos, "value: insert(pos, v[a]): returns an iterator to the inserted element");
    if (k < pos) __CPROVER_assert(ELEM_V(&v.m_data[k]) == old_k, "value: insert(pos, v[a]): elements before pos keep their value and position");
    if (k == pos) __CPROVER_assert(ELEM_V(&v.m_data[k]) == x, "value: insert(pos, v[a]): the element at pos has the value v[a] had before the call");
    CANARY("insert(pos, v[a]) end reachable");
}
''', extra=SPLIT, assumptions=SPLIT_NOTE, need_j=True)

# ---------------------------------------------------------------------------------------------- emplace(pos, arg)
unit('emplace',
     ['igris::vector::emplace(const_iterator, 1 arg)', 'std::move_backward stub'],
     ['NOREALLOC', 'AD', 'CB'],
     'emplace(pos, a) (one constructor argument), begin() <= pos <= end(), from an arbitrary VEC state: as insert(pos, T(a)); lifetime - the new last slot is '
     'move-constructed, the element at pos is destroyed before T(a) is constructed in its storage (pos == end(): constructed in raw storage)',
     '''
void harness(void)
{''' + PRE + INSERT_PRE + '''
    ELEM *r = vector_emplace(&v, v.m_data + pos, x);
''' + INSERT_POST % {'f': 'emplace(pos, a)'} + '''
    CANARY("emplace(pos, a) end reachable");
}
''', extra=SPLIT, assumptions=SPLIT_NOTE, need_j=True)

# ---------------------------------------------------------------------------------------------- insert(pos, first, last)
unit('insert_range',
     ['igris::vector::insert(iterator, const_iterator, const_iterator)', 'igris::vector::insert(const_iterator, const T&)'],
     ['NOREALLOC', 'AD', 'CB'],
     'insert(pos, first, last) with a range of at most 1 live element outside the vector (the loop over insert(pos, value) is unwound; insert(pos, value) '
     'itself is proved for an arbitrary VEC state by insert_value): size() grows by n, elements before pos unchanged, [pos, pos+n) are copies of [first, last) '
     'in order, the old elements from pos on move up by n; VEC holds, the source range is untouched, one reserve at most',
     '''
void harness(void)
{''' + PRE + '''
    WIT(size_t, pos); WIT(size_t, m);
    WIT_ARR(int, scontent, 2);
    __CPROVER_assume(pos <= size && m <= MAXM && size + 2 <= C02_MAXN);       /* params: MAXM = 1 */
    __CPROVER_assume(REALLOC ? size + m > cap : size + m <= cap);   /* case split (params): with / without reallocation */
    ELEM src[2];
    for (int i = 0; i < 2; i++) ELEM_SET(&src[i], ELEM_LIVE, scontent[i] & C02_VMAX);
    __CPROVER_assume(k < m ? j == 0 : j == k - m);      /* second tracked slot = the source of slot k (value bookkeeping only) */
    ELEM *d0 = v.m_data;
    int old_k = k < size ? ELEM_V(&v.m_data[k]) : 0;
    int old_j = (k >= m && k - m < size) ? ELEM_V(&v.m_data[k - m]) : 0;   /* pre-state value of the source of slot k (== slot j) */

    ELEM *r = vector_insert_range(&v, v.m_data + pos, src, src + m);

    c02_vec_check(&v);
    c02_no_leak(&v, NULL);
    __CPROVER_assert(v.m_size == size + m, "value: insert(pos, first, last): size() grows by last - first");
    __CPROVER_assert(r == v.m_data + pos, "value: insert(pos, first, last): returns an iterator to the first inserted element");
    if (k < pos) __CPROVER_assert(ELEM_V(&v.m_data[k]) == old_k, "value: insert(pos, first, last): elements before pos keep their value and position");
    if (k >= pos && k - pos < m) __CPROVER_assert(ELEM_V(&v.m_data[k]) == (scontent[k - pos] & C02_VMAX), "value: insert(pos, first, last): [pos, pos+n) are copies of [first, last)");
    /* with two shifts the value passes through the untracked slot k-1: claimed for n <= 1 (n == 2 is two applications of insert_value's clause) */
    if (m <= 1 && k >= pos + m && k < size + m) __CPROVER_assert(ELEM_V(&v.m_data[k]) == old_j, "value: insert(pos, first, last): elements from pos on move up by n");
    if (m == 0) __CPROVER_assert(v.m_data == d0 && v.m_capacity == cap, "value: insert(pos, first, last): an empty range changes nothing");
    for (int i = 0; i < 2; i++) __CPROVER_assert(C02_IS(&src[i], ELEM_LIVE, scontent[i] & C02_VMAX), "frame: insert(pos, first, last): the source range is untouched");
    __CPROVER_assert(g_alloc_calls <= 1, "value: insert(pos, first, last): at most one allocation");
    CANARY("insert(pos, first, last) end reachable");
}
''', extra=dict(SPLIT, kind='bounded', bound='source range of at most 1 element (the loop over insert(pos, value) unwound twice with unwinding assertion; '
                                                  'blocks are of symbolic size, the loops of changeBuffer / array_destructor keep their loop contracts)',
               unwindset=['vector_insert_range.0:2'], params={'REALLOC': [0], 'MAXM': [1]}, params_thorough={'REALLOC': [0], 'MAXM': [1]}),
     assumptions=['insert_range: only the case size()+n <= capacity() is run (with a reallocation the unwound formula exceeds 8 GB); reserve() with reallocation is proved by unit reserve, insert(pos, value) after a reallocation by insert_value in the thorough tier'], need_j=True)
# ---------------------------------------------------------------------------------------------- insert(pos, first, last), two elements (thorough tier)
unit('insert_range2',
     ['igris::vector::insert(iterator, const_iterator, const_iterator)', 'igris::vector::insert(const_iterator, const T&)'],
     ['NOREALLOC', 'AD', 'CB'],
     'insert(pos, first, last) with a range of at most 2 live elements outside the vector (thorough tier; two elements expose the order of the insertions) (the loop over insert(pos, value) is unwound; insert(pos, value) '
     'itself is proved for an arbitrary VEC state by insert_value): size() grows by n, elements before pos unchanged, [pos, pos+n) are copies of [first, last) '
     'in order, the old elements from pos on move up by n; VEC holds, the source range is untouched, one reserve at most',
     '''
void harness(void)
{''' + PRE + '''
    WIT(size_t, pos); WIT(size_t, m);
    WIT_ARR(int, scontent, 2);
    __CPROVER_assume(pos <= size && m <= MAXM && size + 2 <= C02_MAXN);       /* params: MAXM = 2 */
    __CPROVER_assume(REALLOC ? size + m > cap : size + m <= cap);   /* case split (params): with / without reallocation */
    ELEM src[2];
    for (int i = 0; i < 2; i++) ELEM_SET(&src[i], ELEM_LIVE, scontent[i] & C02_VMAX);
    __CPROVER_assume(k < m ? j == 0 : j == k - m);      /* second tracked slot = the source of slot k (value bookkeeping only) */
    ELEM *d0 = v.m_data;
    int old_k = k < size ? ELEM_V(&v.m_data[k]) : 0;
    int old_j = (k >= m && k - m < size) ? ELEM_V(&v.m_data[k - m]) : 0;   /* pre-state value of the source of slot k (== slot j) */

    ELEM *r = vector_insert_range(&v, v.m_data + pos, src, src + m);

    c02_vec_check(&v);
    c02_no_leak(&v, NULL);
    __CPROVER_assert(v.m_size == size + m, "value: insert(pos, first, last): size() grows by last - first");
    __CPROVER_assert(r == v.m_data + pos, "value: insert(pos, first, last): returns an iterator to the first inserted element");
    if (k < pos) __CPROVER_assert(ELEM_V(&v.m_data[k]) == old_k, "value: insert(pos, first, last): elements before pos keep their value and position");
    if (k >= pos && k - pos < m) __CPROVER_assert(ELEM_V(&v.m_data[k]) == (scontent[k - pos] & C02_VMAX), "value: insert(pos, first, last): [pos, pos+n) are copies of [first, last)");
    /* with two shifts the value passes through the untracked slot k-1: claimed for n <= 1 (n == 2 is two applications of insert_value's clause) */
    if (m <= 1 && k >= pos + m && k < size + m) __CPROVER_assert(ELEM_V(&v.m_data[k]) == old_j, "value: insert(pos, first, last): elements from pos on move up by n");
    if (m == 0) __CPROVER_assert(v.m_data == d0 && v.m_capacity == cap, "value: insert(pos, first, last): an empty range changes nothing");
    for (int i = 0; i < 2; i++) __CPROVER_assert(C02_IS(&src[i], ELEM_LIVE, scontent[i] & C02_VMAX), "frame: insert(pos, first, last): the source range is untouched");
    __CPROVER_assert(g_alloc_calls <= 1, "value: insert(pos, first, last): at most one allocation");
    CANARY("insert(pos, first, last) end reachable");
}
''', extra=dict(SPLIT, kind='bounded', bound='source range of at most 2 elements (the loop over insert(pos, value) unwound 3 times with unwinding assertion; '
                                                  'blocks are of symbolic size, the loops of changeBuffer / array_destructor keep their loop contracts)',
               unwindset=['vector_insert_range.0:3'], tier='thorough', params={'REALLOC': [0], 'MAXM': [2]}, params_thorough={'REALLOC': [0], 'MAXM': [2]}),
     assumptions=['insert_range: only the case size()+n <= capacity() is run (with a reallocation the unwound formula exceeds 8 GB); reserve() with reallocation is proved by unit reserve, insert(pos, value) after a reallocation by insert_value in the thorough tier'], need_j=True)
