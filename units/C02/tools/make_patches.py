#!/usr/bin/env python3
"""Regenerates /verif/proposed_fixes/C02_*.patch from the text edits below (diff -u against /repo/igris/container/vector.h).
Every patch applies to the unchanged tree on its own, except C02_emplace_over_live and C02_insert_self_alias, which are generated
against the tree with C02_insert_raw_slot applied (they touch the same lines).  Also writes the file with all eleven applied to argv[1]."""
import subprocess, sys, tempfile, os
REL = 'igris/container/vector.h'
ORIG = open('/repo/' + REL).read()
OUT = '/verif/proposed_fixes/'


def diff(a, b, header):
    d = tempfile.mkdtemp()
    open(d + '/a.h', 'w').write(a); open(d + '/b.h', 'w').write(b)
    r = subprocess.run(['diff', '-u', '--label', 'a/' + REL, '--label', 'b/' + REL, d + '/a.h', d + '/b.h'], capture_output=True, text=True).stdout
    assert r, header
    return header + '\n' + r


def rep(t, old, new):
    assert t.count(old) == 1, (t.count(old), old)
    return t.replace(old, new)


P = {}
P['C02_copy_assign_alloc0'] = (lambda t: rep(t, '''            m_data = m_alloc.allocate(m_size);
            m_size = other.m_size;
            m_capacity = m_size;
            for (auto ip = other.m_data, op = m_data;
                 ip != other.m_data + other.m_size;
                 ip++, op++)
            {
                igris::constructor(op, *ip);
            }

            return *this;''', '''            m_size = other.m_size;
            m_data = m_alloc.allocate(m_size);
            m_capacity = m_size;
            for (auto ip = other.m_data, op = m_data;
                 ip != other.m_data + other.m_size;
                 ip++, op++)
            {
                igris::constructor(op, *ip);
            }

            return *this;'''),
    'C02_copy_assign_alloc0: copy assignment sized the new block with m_size AFTER invalidate() had zeroed it; take the size from `other` first (as the copy in std_portable.h already does).')
P['C02_clear_uint_index'] = (lambda t: rep(t, '            for (unsigned int i = 0; i < m_size; ++i)\n            {\n                igris::destructor(m_data + i);',
                                            '            for (size_t i = 0; i < m_size; ++i)\n            {\n                igris::destructor(m_data + i);'),
    'C02_clear_uint_index: clear() counted with an unsigned int against the size_t m_size (endless loop / repeated destruction above UINT_MAX elements).')
P['C02_at_const_assert'] = (lambda t: rep(t, '''        const T &at(size_t num) const
        {
            assert(num < m_size);
            if (num >= m_size)''', '''        const T &at(size_t num) const
        {
            if (num >= m_size)'''),
    'C02_at_const_assert: at() const asserted the index before it could throw std::out_of_range; drop the assert (the non-const at() has none).')


def rev(t):
    t = rep(t, '        using reverse_iterator = T *;\n        using const_reverse_iterator = const T *;',
            '        using reverse_iterator = std::reverse_iterator<iterator>;\n        using const_reverse_iterator = std::reverse_iterator<const_iterator>;')
    t = rep(t, '''        iterator rbegin()
        {
            return m_data + m_size - 1;
        }
        const_iterator rend()
        {
            return m_data - 1;
        }''', '''        reverse_iterator rbegin()
        {
            return reverse_iterator(end());
        }
        reverse_iterator rend()
        {
            return reverse_iterator(begin());
        }''')
    t = rep(t, '''        const_iterator rbegin() const
        {
            return m_data + m_size - 1;
        }
        const_iterator rend() const
        {
            return m_data - 1;
        }''', '''        const_reverse_iterator rbegin() const
        {
            return const_reverse_iterator(end());
        }
        const_reverse_iterator rend() const
        {
            return const_reverse_iterator(begin());
        }''')
    return rep(t, '#include <initializer_list>\n', '#include <initializer_list>\n#include <iterator>\n')


P['C02_reverse_iter'] = (rev, 'C02_reverse_iter: rbegin()/rend() were raw pointers (++ walked away from rend(), rend() pointed before the block); use std::reverse_iterator.')
P['C02_erase_range_lifetime'] = (lambda t: rep(t, '''            size_t sz = last - first;
            for (size_t i = 0; i < sz; ++i)
            {
                igris::destructor(first + i);
            }
            std::move(last, end(), first);
            m_size -= sz;''', '''            size_t sz = last - first;
            if (sz == 0)
                return;
            iterator newend = std::move(last, end(), first);
            igris::array_destructor(newend, end());
            m_size -= sz;'''),
    'C02_erase_range_lifetime: erase(first, last) destroyed the range and then move-assigned onto the destroyed objects, leaving the moved-from tail alive; shift down first, then destroy the tail.')
P['C02_erase_it_truncates'] = (lambda t: rep(t, '''        void erase(iterator newend)
        {
            m_size = newend - m_data;
        }''', '''        void erase(iterator pos)
        {
            erase(pos, pos + 1);
        }'''),
    'C02_erase_it_truncates: erase(pos) truncated the vector at pos without destroying anything; remove exactly the element at pos (needs C02_erase_range_lifetime for a correct erase(first, last)).')
INS_OLD = '''            size_t _pos = pos - m_data;

            reserve(m_size + 1);
            m_size++;

            iterator first = m_data + _pos;
            iterator last = std::prev((iterator)end());
            std::move_backward(first, last, (iterator)end());
            *first = value;

            return first;'''
INS_NEW = '''            size_t _pos = pos - m_data;

            reserve(m_size + 1);

            iterator first = m_data + _pos;
            iterator last = (iterator)end();
            if (first == last)
            {
                igris::constructor(last, value);
            }
            else
            {
                igris::move_constructor(last, std::move(*(last - 1)));
                std::move_backward(first, last - 1, last);
                *first = value;
            }
            m_size++;

            return first;'''
EMP_OLD = '''            size_t _pos = pos - m_data;

            reserve(m_size + 1);
            m_size++;

            iterator first = m_data + _pos;
            iterator last = std::prev((iterator)end());
            std::move_backward(first, last, end());
            new (first) T(std::forward<Args>(args)...);

            return first;'''
EMP_NEW = '''            size_t _pos = pos - m_data;

            reserve(m_size + 1);

            iterator first = m_data + _pos;
            iterator last = (iterator)end();
            if (first != last)
            {
                igris::move_constructor(last, std::move(*(last - 1)));
                std::move_backward(first, last - 1, last);
            }
            m_size++;
            new (first) T(std::forward<Args>(args)...);

            return first;'''
P['C02_insert_raw_slot'] = (lambda t: rep(rep(t, INS_OLD, INS_NEW), EMP_OLD, EMP_NEW),
    'C02_insert_raw_slot: insert/emplace (move-)assigned into the unconstructed slot end()-1; construct the new last element from its predecessor (or from the argument when inserting at end()) and shift only constructed elements.')
P['C02_emplace_over_live'] = (lambda t: rep(t, '''            m_size++;
            new (first) T(std::forward<Args>(args)...);

            return first;''', '''            m_size++;
            if (first != last)
                igris::destructor(first);
            new (first) T(std::forward<Args>(args)...);

            return first;'''),
    'C02_emplace_over_live (applies after C02_insert_raw_slot): emplace(pos) with pos < end() placement-constructed over the moved-from element at pos; destroy it first.')
# The copy of the argument lives in raw local storage (placement new + explicit destructor) rather than in `T tmp(value);`: the same
# semantics, and the construction / destruction of the temporary stay explicit calls that the C++->C extractor of /verif can follow.
P['C02_insert_self_alias'] = (lambda t: rep(t, '''            size_t _pos = pos - m_data;

            reserve(m_size + 1);

            iterator first = m_data + _pos;
            iterator last = (iterator)end();
            if (first == last)
            {
                igris::constructor(last, value);
            }
            else
            {
                igris::move_constructor(last, std::move(*(last - 1)));
                std::move_backward(first, last - 1, last);
                *first = value;
            }
            m_size++;''', '''            size_t _pos = pos - m_data;
            // value may be an element of this vector: copy it before anything moves
            alignas(T) unsigned char tmpbuf[sizeof(T)];
            T *tmp = reinterpret_cast<T *>(tmpbuf);
            igris::constructor(tmp, value);

            reserve(m_size + 1);

            iterator first = m_data + _pos;
            iterator last = (iterator)end();
            if (first == last)
            {
                igris::move_constructor(last, std::move(*tmp));
            }
            else
            {
                igris::move_constructor(last, std::move(*(last - 1)));
                std::move_backward(first, last - 1, last);
                *first = std::move(*tmp);
            }
            igris::destructor(tmp);
            m_size++;'''),
    'C02_insert_self_alias (applies after C02_insert_raw_slot): insert(pos, v[a]) read its argument after the reallocation / the shift; copy it first (into raw local storage, destroyed explicitly), as std::vector implementations do.')
P['C02_push_back_self_alias'] = (lambda t: rep(t, '''        void push_back(const T &ref)
        {
            reserve(m_size + 1);
            igris::constructor(m_data + m_size, ref);
            m_size++;
        }''', '''        void push_back(const T &ref)
        {
            if (m_size + 1 > m_capacity)
            {
                // ref may be an element of this vector: copy it before the old block is released
                alignas(T) unsigned char tmpbuf[sizeof(T)];
                T *tmp = reinterpret_cast<T *>(tmpbuf);
                igris::constructor(tmp, ref);
                reserve(m_size + 1);
                igris::move_constructor(m_data + m_size, std::move(*tmp));
                igris::destructor(tmp);
            }
            else
            {
                igris::constructor(m_data + m_size, ref);
            }
            m_size++;
        }'''),
    'C02_push_back_self_alias: push_back(v[i]) copy-constructed from a dangling reference after the reallocation; copy the argument (into raw local storage, destroyed explicitly) before reallocating.')
P['C02_insert_range'] = (lambda t: rep(t, '''            size_t _pos = pos - m_data;
            size_t _first = first - m_data;
            size_t _last = last - m_data;

            size_t sz = _last - _first;
            reserve(m_size + sz);
            m_size += sz;

            iterator first_it = m_data + _pos;
            iterator last_it = std::prev((iterator)end(), sz);
            std::move_backward(first_it, last_it, (iterator)end());
            std::copy(m_data + _first, m_data + _last, first_it);

            return first_it;''', '''            // [first, last) must not be a range of this vector (as for std::vector)
            size_t _pos = pos - m_data;
            reserve(m_size + (last - first));
            for (size_t i = _pos; first != last; ++first, ++i)
                insert(m_data + i, *first);

            return m_data + _pos;'''),
    'C02_insert_range: insert(pos, first, last) computed offsets of a foreign range relative to m_data (wild read after reallocation) and assigned into raw slots; insert the elements one by one through insert(pos, value) after a single reserve (quadratic in the worst case, but correct; needs C02_insert_raw_slot).')

ORDER = ['C02_copy_assign_alloc0', 'C02_clear_uint_index', 'C02_at_const_assert', 'C02_reverse_iter', 'C02_erase_range_lifetime', 'C02_erase_it_truncates',
         'C02_insert_raw_slot', 'C02_emplace_over_live', 'C02_insert_self_alias', 'C02_push_back_self_alias', 'C02_insert_range']
CUM = {'C02_emplace_over_live': ['C02_insert_raw_slot'], 'C02_insert_self_alias': ['C02_insert_raw_slot']}
for name in ORDER:
    base = ORIG
    for dep in CUM.get(name, []):
        base = P[dep][0](base)
    open(OUT + name + '.patch', 'w').write(diff(base, P[name][0](base), P[name][1]))
t = ORIG
for name in ORDER:
    t = P[name][0](t)
if len(sys.argv) > 1:
    open(sys.argv[1], 'w').write(t)
print('\n'.join(ORDER))
