#!/usr/bin/env python3
"""(after-fix version: run on a worktree of the REPAIRED /repo)  Detection tests for the C02 units: realistic breaking edits of igris/container/vector.h / igris/util/ctrdtr.h in a scratch
worktree, each checked by the unit that should catch it.
   git -C /repo worktree add --detach /tmp/wt-C02
   python3 units/C02/tools/mutation_tests.py [name ...]     (VERIF_JOBS is taken from the environment)
   git -C /repo worktree remove --force /tmp/wt-C02
Prints one line per mutation: exit code of `vc check` (1 = VIOLATION = caught) and the first failed obligation."""
import os
import shutil
import subprocess
import sys

WT = '/tmp/wt-C02'
V = 'igris/container/vector.h'
C = 'igris/util/ctrdtr.h'

M = [
    # name, file, old, new, unit
    ('changeBuffer_no_destroy_old', V, '''            igris::array_destructor(begin(), end());
            auto oldbuf = m_data;''', '''            igris::array_destructor(begin(), begin());
            auto oldbuf = m_data;''', 'reserve'),
    ('changeBuffer_wrong_dealloc_size', V, 'm_alloc.deallocate(oldbuf, oldcapacity);', 'm_alloc.deallocate(oldbuf, sz);', 'reserve'),
    ('changeBuffer_capacity_off_by_one', V, '            m_capacity = sz;\n            if (m_data == nullptr)', '            m_capacity = sz + 1;\n            if (m_data == nullptr)', 'push_back'),
    ('changeBuffer_wrong_target_slot', V, 'for (auto ip = begin(), op = newbuf; ip != ie; op++, ip++)', 'for (auto ip = begin(), op = newbuf + 1; ip != ie; op++, ip++)', 'reserve'),
    ('pop_back_destroys_wrong_element', V, '''            igris::destructor(m_data + m_size - 1);
            m_size--;''', '''            igris::destructor(m_data + m_size - 2);
            m_size--;''', 'pop_back'),
    ('clear_keeps_size', V, '''                igris::destructor(m_data + i);
            }
            m_size = 0;''', '''                igris::destructor(m_data + i);
            }''', 'clear'),
    ('resize_shrink_skips_one', V, 'for (size_t i = n; i < oldsize; ++i)', 'for (size_t i = n + 1; i < oldsize; ++i)', 'resize'),
    ('resize_grow_one_too_many', V, 'for (size_t i = oldsize; i < n; ++i)', 'for (size_t i = oldsize; i <= n; ++i)', 'resize'),
    ('invalidate_no_deallocate', V, '''                if (m_data)
                    m_alloc.deallocate(m_data, m_capacity);''', '''                if (!m_data)
                    m_alloc.deallocate(m_data, m_capacity);''', 'invalidate'),
    ('index_off_by_one', V, '''            assert(num < m_size);
            return m_data[num];
        }

        const T &operator[]''', '''            assert(num < m_size);
            return m_data[num + 1];
        }

        const T &operator[]''', 'access'),
    ('at_wrong_bound', V, '''            if (num >= m_size)
                throw std::out_of_range("vector::at");
            return m_data[num];
        }

        T &operator[]''', '''            if (num > m_size)
                throw std::out_of_range("vector::at");
            return m_data[num];
        }

        T &operator[]''', 'access'),
    ('back_past_end', V, '''        T &back()
        {
            return m_data[m_size - 1];''', '''        T &back()
        {
            return m_data[m_size];''', 'access'),
    ('emplace_back_wrong_slot', V, 'igris::constructor(m_data + m_size, std::forward<Args>(args)...);', 'igris::constructor(m_data + m_size + 1, std::forward<Args>(args)...);', 'emplace_back'),
    ('copy_ctor_no_capacity', V, '''            m_data = m_alloc.allocate(m_size);
            m_capacity = m_size;
            for (auto ip = other.m_data, op = m_data;
                 ip != other.m_data + other.m_size;
                 ip++, op++)
            {
                igris::constructor(op, *ip);
            }
        }''', '''            m_data = m_alloc.allocate(m_size);
            for (auto ip = other.m_data, op = m_data;
                 ip != other.m_data + other.m_size;
                 ip++, op++)
            {
                igris::constructor(op, *ip);
            }
        }''', 'ctor_copy'),
    ('copy_assign_no_self_check', V, '''        vector &operator=(const vector &other)
        {
            if (this == &other)
                return *this;
''', '''        vector &operator=(const vector &other)
        {
            if (false)
                return *this;
''', 'assign_copy'),
    ('move_ctor_keeps_source_size', V, '''            other.m_capacity = 0;
            other.m_size = 0;
        }

        vector &operator=(const vector &other)''', '''            other.m_capacity = 0;
        }

        vector &operator=(const vector &other)''', 'move_ops'),
    ('move_assign_no_invalidate', V, '''            invalidate();

            m_data = other.m_data;''', '''            m_data = other.m_data;''', 'move_ops'),
    ('eq_wrong_size_check', V, '            if (size() != oth.size())', '            if (size() > oth.size())', 'op_eq'),
    ('lt_swapped', V, 'begin(), end(), oth.begin(), oth.end());', 'oth.begin(), oth.end(), begin(), end());', 'op_lt'),
    ('ctor_n_one_more', V, '            resize(sz);', '            resize(sz + 1);', 'ctor_n'),
    ('ctor_range_no_reserve', V, '            reserve(std::distance(first, last));\n', '            std::distance(first, last);\n', 'ctor_range'),
    ('ctor_iter_bad_init', V, '''        vector(iterator a, const iterator b)
            : m_data(nullptr), m_capacity(0), m_size(0)''', '''        vector(iterator a, const iterator b)
            : m_data(nullptr), m_capacity(0), m_size(1)''', 'ctor_iter'),
    ('ctrdtr_destructor_noop', C, '        ptr->~T();', '        ptr->~T(); ptr->~T();', 'pop_back'),
    ('ctrdtr_array_destructor_skips_first', C, '''        while (first != last)
        {
            igris::destructor(&*first);''', '''        if (first != last)
            ++first;
        while (first != last)
        {
            igris::destructor(&*first);''', 'invalidate'),
    # ---- edits of the repaired functions (re-introduce the repaired defects / break the new code)
    ('push_back_copies_after_reserve', V, '''                igris::constructor(tmp, ref);
                reserve(m_size + 1);''', '''                reserve(m_size + 1);
                igris::constructor(tmp, ref);''', 'push_back'),
    ('copy_assign_order_reverted', V, '''            m_size = other.m_size;
            m_data = m_alloc.allocate(m_size);''', '''            m_data = m_alloc.allocate(m_size);
            m_size = other.m_size;''', 'assign_copy'),
    ('erase_destroys_one_too_few', V, 'igris::array_destructor(newend, end());', 'igris::array_destructor(newend + 1, end());', 'erase_range'),
    ('erase_pos_removes_two', V, '            erase(pos, pos + 1);', '            erase(pos, pos + 2);', 'erase_it'),
    ('insert_temp_destroyed_twice', V, '''            igris::destructor(tmp);
            m_size++;

            return first;''', '''            igris::destructor(tmp);
            igris::destructor(tmp);
            m_size++;

            return first;''', 'insert_value'),
    ('insert_constructs_over_last', V, 'igris::move_constructor(last, std::move(*(last - 1)));\n                std::move_backward(first, last - 1, last);\n                *first',
     'igris::move_constructor(last - 1, std::move(*(last - 1)));\n                std::move_backward(first, last - 1, last);\n                *first', 'insert_value'),
    ('emplace_no_destroy_before_construct', V, '''            if (first != last)
                igris::destructor(first);
            new (first)''', '''            if (first == last)
                igris::destructor(first);
            new (first)''', 'emplace'),
    ('insert_range_wrong_position', V, '                insert(m_data + i, *first);', '                insert(m_data + _pos, *first);', 'insert_range2'),   # needs --tier thorough
]


def main():
    sel = sys.argv[1:]
    for name, f, old, new, unit in M:
        if sel and name not in sel:
            continue
        for ff in (V, C):
            shutil.copy('/repo/' + ff, os.path.join(WT, ff))
        p = os.path.join(WT, f)
        t = open(p).read()
        if t.count(old) != 1:
            print('%-40s ANCHOR occurs %d times' % (name, t.count(old)))
            continue
        open(p, 'w').write(t.replace(old, new))
        env = dict(os.environ, VERIF_REPO=WT)
        r = subprocess.run(['/verif/vc', 'check', 'C02', '--tier', 'thorough', '--unit', unit], capture_output=True, text=True, env=env, cwd='/verif')
        lines = r.stdout.splitlines()
        first = ''
        for i, l in enumerate(lines):
            if l.strip().startswith('failed obligations'):
                first = lines[i + 1].strip()[:150]
                break
        if not first:
            first = ' | '.join(l.strip()[:150] for l in lines if l.startswith('UNDECIDED') or l.startswith('VIOLATION'))[:300]
        rep = 'replayed-natively' if ('VIOLATION' in r.stdout and 'no-failing-input-found' not in r.stdout) else ''
        print('%-40s unit=%-14s exit=%d %s %s' % (name, unit, r.returncode, rep, first), flush=True)
    for ff in (V, C):
        shutil.copy('/repo/' + ff, os.path.join(WT, ff))


main()
