// Bounded native run of the REAL igris::vector<T> (igris/container/vector.h - not the extraction) against std::vector, with an element type that
// tracks object lifetimes, under ASan/UBSan.  Stands in when a changed member function is outside the extractor's dialect (e.g. uses a local
// object of type T): bounded stand-in, never counted as proved.
// Bound: ONE operation from every start state with 0..4 elements (values 10, 11, ...) and either no spare capacity or 3 spare slots; operations:
//        push_back / insert(pos, x) / insert(int, x) with x an outside value or ANY element of the vector itself, emplace_back, emplace(pos, v),
//        erase(pos), erase(first, last) for every range, pop_back, resize(0..6), reserve(0..8), clear, copy construction, copy and move assignment.
// C02 clauses: contents and size equal the std::vector model after the operation; exactly the live elements are constructed objects (nothing
// constructed over a live object, nothing destroyed twice or leaked); assignment only between live objects.
#include <igris/container/vector.h>
#include <cstdio>
#include <set>
#include <vector>

static int fails;
static char ctx[160];
static void fail(const char *what) { if (fails++ < 5) std::printf("FAIL: %s (%s)\n", what, ctx); }

struct Tracked
{
    int v;
    static std::set<const Tracked *> &live() { static std::set<const Tracked *> s; return s; }
    void born() { if (!live().insert(this).second) fail("an object is constructed over a live object"); }
    Tracked() : v(0) { born(); }
    Tracked(int x) : v(x) { born(); }
    Tracked(const Tracked &o) : v(o.v) { if (!live().count(&o)) fail("copy construction from a dead object"); born(); }
    Tracked(Tracked &&o) : v(o.v) { if (!live().count(&o)) fail("move construction from a dead object"); born(); if (&o != this) o.v = -1; }
    Tracked &operator=(const Tracked &o) { if (!live().count(this) || !live().count(&o)) fail("assignment to or from a dead object"); v = o.v; return *this; }
    Tracked &operator=(Tracked &&o) { if (!live().count(this) || !live().count(&o)) fail("move assignment to or from a dead object"); int x = o.v; if (&o != this) o.v = -1; v = x; return *this; }
    ~Tracked() { if (!live().erase(this)) fail("an object is destroyed twice (or was never constructed)"); }
    bool operator==(const Tracked &o) const { if (!live().count(this) || !live().count(&o)) fail("comparison reads an element that is not alive"); return v == o.v; }
    bool operator!=(const Tracked &o) const { return !(*this == o); }
    bool operator<(const Tracked &o) const { if (!live().count(this) || !live().count(&o)) fail("comparison reads an element that is not alive"); return v < o.v; }
};

typedef igris::vector<Tracked> IV;
typedef std::vector<int> SV;

static void compare(IV &a, const SV &m, size_t outside_live)
{
    if (a.size() != m.size()) { fail("size differs from the std::vector model"); return; }
    for (size_t i = 0; i < m.size(); i++) if (a[i].v != m[i]) { fail("contents differ from the std::vector model"); return; }
    if (a.capacity() < a.size()) fail("capacity() < size()");
    if (Tracked::live().size() != m.size() + outside_live) fail("number of constructed element objects != size() (leak or lost destruction)");
    for (size_t i = 0; i < m.size(); i++) if (!Tracked::live().count(&a[i])) { fail("an element below size() is not a live object"); return; }
}
static void build(IV &a, SV &m, int n, int spare)
{
    for (int i = 0; i < n; i++) { a.emplace_back(10 + i); m.push_back(10 + i); }
    if (spare) a.reserve(n + 3);
}
#define STATE(opname, ...) for (int n = 0; n <= 4 && !fails; n++) for (int spare = 0; spare < 2 && !fails; spare++) { \
    { IV a; SV m; build(a, m, n, spare); std::snprintf(ctx, sizeof ctx, "%s from %d elements, %s", opname, n, spare ? "3 spare slots" : "no spare capacity"); __VA_ARGS__ } \
    if (!Tracked::live().empty()) { std::snprintf(ctx, sizeof ctx, "%s from %d elements: after destruction", opname, n); fail("objects still alive after the vector was destroyed"); Tracked::live().clear(); } cnt++; }

int main()
{
    long cnt = 0;
    for (int alias = -1; alias < 4; alias++) {
        STATE("push_back", if (alias < n) { if (alias < 0) { Tracked x(99); a.push_back(x); m.push_back(99); compare(a, m, 1); continue; } int val = m[alias]; a.push_back(a[alias]); m.push_back(val); compare(a, m, 0); })
        for (int pos = 0; pos <= 4; pos++) {
            STATE("insert(pos, x)", if (pos <= n && alias < n) { if (alias < 0) { Tracked x(99); a.insert(a.begin() + pos, x); m.insert(m.begin() + pos, 99); compare(a, m, 1); continue; }
                  int val = m[alias]; a.insert(a.begin() + pos, a[alias]); m.insert(m.begin() + pos, val); compare(a, m, 0); })
            STATE("insert(int pos, x)", if (pos <= n && alias < n && alias >= 0) { int val = m[alias]; a.insert(pos, a[alias]); m.insert(m.begin() + pos, val); compare(a, m, 0); })
        }
    }
    STATE("emplace_back", a.emplace_back(77); m.push_back(77); compare(a, m, 0);)
    for (int pos = 0; pos <= 4; pos++) {
        STATE("emplace(pos, v)", if (pos <= n) { a.emplace(a.begin() + pos, 77); m.insert(m.begin() + pos, 77); compare(a, m, 0); })
        STATE("erase(pos)", if (pos < n) { a.erase(a.begin() + pos); m.erase(m.begin() + pos); compare(a, m, 0); })
        for (int last = pos; last <= 4; last++)
            STATE("erase(first, last)", if (last <= n) { a.erase(a.begin() + pos, a.begin() + last); m.erase(m.begin() + pos, m.begin() + last); compare(a, m, 0); })
    }
    STATE("pop_back", if (n > 0) { a.pop_back(); m.pop_back(); compare(a, m, 0); })
    STATE("clear", a.clear(); m.clear(); compare(a, m, 0);)
    for (int k = 0; k <= 8; k++) {
        STATE("reserve", a.reserve(k); compare(a, m, 0);)
        if (k <= 6) STATE("resize", a.resize(k); m.resize(k); compare(a, m, 0);)
    }
    STATE("copy construction", { IV b(a); compare(b, m, m.size()); } compare(a, m, 0);)
    for (int k = 0; k <= 3; k++) {
        STATE("copy assignment", { IV b; SV mb; build(b, mb, k, 0); b = a; compare(b, m, m.size()); } compare(a, m, 0);)
        STATE("move assignment", { IV b; SV mb; build(b, mb, k, 0); b = std::move(a); compare(b, m, a.size()); if (a.size() > a.capacity()) fail("moved-from vector inconsistent"); a.push_back(Tracked(5)); if (a.size() == 0 || a[a.size() - 1].v != 5) fail("moved-from vector not usable"); })
    }
    // comparisons: b is a copy of a, then shortened by k (pop_back leaves dead slots behind size()) and optionally changed in its last element
    for (int k = 0; k <= 4; k++) for (int tweak = -1; tweak <= 1; tweak++) {
        STATE("operator== / != / <", if (k <= n) { IV b(a); SV mb(m); for (int i = 0; i < k; i++) { b.pop_back(); mb.pop_back(); }
              if (tweak && !mb.empty()) { b[b.size() - 1] = Tracked(mb.back() + tweak); mb.back() += tweak; }
              if ((a == b) != (m == mb) || (b == a) != (mb == m)) fail("operator== differs from std::vector");
              if ((a != b) != (m != mb)) fail("operator!= differs from std::vector");
              if ((a < b) != (m < mb)) fail("operator< (longer or equal on the left) differs from std::vector");
              if ((b < a) != (mb < m)) fail("operator< (shorter on the left) differs from std::vector"); })
    }
    STATE("self copy assignment", { IV &r = a; a = r; compare(a, m, 0); })
    if (fails) { std::printf("%d clause violations (first shown) after %ld start states x operations\n", fails, cnt); return 1; }
    std::printf("ok: %ld start states x operations\n", cnt);
    return 0;
}
