# cxx2c recipe for igris/container/vector.h + igris/util/ctrdtr.h, instantiated at T = ELEM (spec/elem_lifetime.h),
# Allocator = struct c02_allocator (spec/c02_vec.h).  A python literal, shared by all C02 units; see vclib/cxx2c.py.
#
# Conventions of the rewrite rules (each with a must-fire count):
#   placement new / ~T()                       -> ELEM_construct_* / ELEM_copy_construct / ELEM_move_construct / ELEM_destroy
#   igris::constructor/destructor/...          -> the extracted ctrdtr.h instantiations igris_constructor_{default,copy,value},
#                                                 igris_move_constructor, igris_destructor, igris_array_destructor
#   *a = b, *a != *b on elements               -> ELEM_copy_assign / ELEM_value
#   m_alloc.allocate / deallocate              -> c02_allocate / c02_deallocate (allocator stub)
#   std::move_backward/move/copy/prev/distance/lexicographical_compare -> c02_std_* (spec/c02_std_algo.h)
#   T& / const T& parameters                   -> pointers (cxx2c `refs`); T& results -> ELEM* (`ret` + `return &...`)
#   constructor mem-initialiser lists          -> cxx2c has no piece type for them: the list is pinned by a `lines` piece
#                                                 (exact source text, inside a comment) and its assignments are prepended to the
#                                                 body by a rule anchored at the opening brace
[{
 'out': 'cxx/igris_vector.c',
 'typedefs': ['vector'],
 'pieces': [
  {'op': 'glue', 'text': '#include <stdint.h>\n#include <stddef.h>\n#include <stdbool.h>\n#include <assert.h>\n#include "c02_vec.h"\n'
                         '#define nullptr ((void *)0)\n'},
  # ------------------------------------------------------------------ igris/container/vector.h: data members
  # cxx2c's `struct` piece mis-parses members preceded by a // comment (vector.h:30-36), so the four data members are
  # pinned by their exact source text (a change => exit 2) and declared by glue; vector_defaults() = their default member initialisers
  {'op': 'glue', 'text': '/* data members of igris::vector, source text:'},
  {'op': 'lines', 'file': 'igris/container/vector.h', 'regex': r'^        T \*m_data = nullptr;$', 'min': 1},
  {'op': 'lines', 'file': 'igris/container/vector.h', 'regex': r'^        size_t m_capacity = 0;$', 'min': 1},
  {'op': 'lines', 'file': 'igris/container/vector.h', 'regex': r'^        size_t m_size = 0;$', 'min': 1},
  {'op': 'lines', 'file': 'igris/container/vector.h', 'regex': r'^        Allocator m_alloc = \{\};$', 'min': 1},
  {'op': 'glue', 'text': '*/\nstruct vector { ELEM *m_data; size_t m_capacity; size_t m_size; struct c02_allocator m_alloc; };\n'
                         'static inline void vector_defaults(struct vector *self)\n'
                         '{ self->m_data = nullptr; self->m_capacity = 0; self->m_size = 0; self->m_alloc = (struct c02_allocator){0}; }\n#include "c02_vec_inv.h"\n'},
  # ------------------------------------------------------------------ igris/util/ctrdtr.h
  {'op': 'func', 'file': 'igris/util/ctrdtr.h', 'name': 'destructor', 'as': 'igris_destructor', 'tparams': {'T': 'ELEM'},
   'rewrite': [[r'ptr->~ELEM\(\);', 'ELEM_destroy(ptr);', 1]]},
  {'op': 'func', 'file': 'igris/util/ctrdtr.h', 'name': 'constructor', 'as': 'igris_constructor_default', 'tparams': {'T': 'ELEM'},
   'sig_rewrite': [[r', Args &&\.\.\. args', '', 1]],
   'rewrite': [[r'new \(\(void \*\)ptr\) ELEM\(std::forward<Args>\(args\)\.\.\.\);', 'ELEM_construct_default(ptr);', 1]]},
  {'op': 'func', 'file': 'igris/util/ctrdtr.h', 'name': 'constructor', 'as': 'igris_constructor_copy', 'tparams': {'T': 'ELEM'},
   'sig_rewrite': [[r'Args &&\.\.\. args', 'const ELEM *args', 1]],
   'rewrite': [[r'new \(\(void \*\)ptr\) ELEM\(std::forward<Args>\(args\)\.\.\.\);', 'ELEM_copy_construct(ptr, args);', 1]]},
  {'op': 'func', 'file': 'igris/util/ctrdtr.h', 'name': 'constructor', 'as': 'igris_constructor_value', 'tparams': {'T': 'ELEM'},
   'sig_rewrite': [[r'Args &&\.\.\. args', 'int args', 1]],
   'rewrite': [[r'new \(\(void \*\)ptr\) ELEM\(std::forward<Args>\(args\)\.\.\.\);', 'ELEM_construct_value(ptr, args);', 1]]},
  {'op': 'func', 'file': 'igris/util/ctrdtr.h', 'name': 'move_constructor', 'as': 'igris_move_constructor', 'tparams': {'T': 'ELEM'},
   'sig_rewrite': [[r'ELEM &&other', 'ELEM *other', 1]],
   'rewrite': [[r'new \(\(void \*\)ptr\) ELEM\(std::move\(other\)\);', 'ELEM_move_construct(ptr, other);', 1]]},
  {'op': 'func', 'file': 'igris/util/ctrdtr.h', 'name': 'array_destructor', 'as': 'igris_array_destructor',
   'tparams': {'InputIterator': 'ELEM *', 'EndIterator': 'ELEM *'},
   'rewrite': [[r'igris::destructor\(&\*first\);', 'igris_destructor(&*first);', 1]]},
  # observers / iterators
  {'op': 'func', 'file': 'igris/container/vector.h', 'name': 'data', 'in_class': 'vector', 'self': 'vector', 'members': ['m_data', 'm_capacity', 'm_size', 'm_alloc'], 'as': 'vector_data', 'tparams': {'T': 'ELEM'}},
  {'op': 'func', 'file': 'igris/container/vector.h', 'name': 'size', 'in_class': 'vector', 'self': 'vector', 'members': ['m_data', 'm_capacity', 'm_size', 'm_alloc'], 'as': 'vector_size'},
  {'op': 'func', 'file': 'igris/container/vector.h', 'name': 'capacity', 'in_class': 'vector', 'self': 'vector', 'members': ['m_data', 'm_capacity', 'm_size', 'm_alloc'], 'as': 'vector_capacity'},
  {'op': 'func', 'file': 'igris/container/vector.h', 'name': 'empty', 'in_class': 'vector', 'self': 'vector', 'members': ['m_data', 'm_capacity', 'm_size', 'm_alloc'], 'as': 'vector_empty'},
  {'op': 'func', 'file': 'igris/container/vector.h', 'name': 'begin', 'in_class': 'vector', 'self': 'vector', 'members': ['m_data', 'm_capacity', 'm_size', 'm_alloc'], 'as': 'vector_begin', 'tparams': {'iterator': 'ELEM *'}},
  {'op': 'func', 'file': 'igris/container/vector.h', 'name': 'end', 'in_class': 'vector', 'self': 'vector', 'members': ['m_data', 'm_capacity', 'm_size', 'm_alloc'], 'as': 'vector_end', 'tparams': {'iterator': 'ELEM *'}},
  {'op': 'func', 'file': 'igris/container/vector.h', 'name': 'begin', 'occurrence': 1, 'in_class': 'vector', 'self': 'vector', 'members': ['m_data', 'm_capacity', 'm_size', 'm_alloc'], 'as': 'vector_begin_c', 'tparams': {'const_iterator': 'const ELEM *'}},
  {'op': 'func', 'file': 'igris/container/vector.h', 'name': 'end', 'occurrence': 1, 'in_class': 'vector', 'self': 'vector', 'members': ['m_data', 'm_capacity', 'm_size', 'm_alloc'], 'as': 'vector_end_c', 'tparams': {'const_iterator': 'const ELEM *'}},
  {'op': 'func', 'file': 'igris/container/vector.h', 'name': 'rbegin', 'in_class': 'vector', 'self': 'vector', 'members': ['m_data', 'm_capacity', 'm_size', 'm_alloc'], 'as': 'vector_rbegin', 'tparams': {'iterator': 'ELEM *'}},
  {'op': 'func', 'file': 'igris/container/vector.h', 'name': 'rend', 'in_class': 'vector', 'self': 'vector', 'members': ['m_data', 'm_capacity', 'm_size', 'm_alloc'], 'as': 'vector_rend', 'tparams': {'const_iterator': 'const ELEM *'}},
  # storage management
  {'op': 'glue', 'text': 'unsigned char vector_changeBuffer(struct vector *self, size_t sz);\n'},
  {'op': 'func', 'file': 'igris/container/vector.h', 'name': 'invalidate', 'in_class': 'vector', 'self': 'vector', 'members': ['m_data', 'm_capacity', 'm_size', 'm_alloc'], 'as': 'vector_invalidate',
   'methods': {'begin': 'vector_begin', 'end': 'vector_end'},
   'rewrite': [[r'igris::array_destructor\(', 'igris_array_destructor(', 1],
               [r'self->m_alloc\.deallocate\(', 'c02_deallocate(&self->m_alloc, ', 1]]},
  {'op': 'func', 'file': 'igris/container/vector.h', 'name': 'reserve', 'in_class': 'vector', 'self': 'vector', 'members': ['m_data', 'm_capacity', 'm_size', 'm_alloc'], 'as': 'vector_reserve',
   'methods': {'changeBuffer': 'vector_changeBuffer'}},
  {'op': 'func', 'file': 'igris/container/vector.h', 'name': 'changeBuffer', 'in_class': 'vector', 'self': 'vector', 'members': ['m_data', 'm_capacity', 'm_size', 'm_alloc'], 'as': 'vector_changeBuffer',
   'methods': {'begin': 'vector_begin', 'end': 'vector_end'},
   'rewrite': [[r'auto newbuf = self->m_alloc\.allocate\(sz\);', 'ELEM *newbuf = c02_allocate(&self->m_alloc, sz);', 1],
               [r'auto ie = ', 'ELEM *ie = ', 1],
               [r'auto ip = ([^,;]*), op = ', r'ELEM *ip = \1, *op = ', 1],
               [r'igris::move_constructor\(op, std::move\(\*ip\)\);', 'igris_move_constructor(op, ip);', 1],
               [r'igris::array_destructor\(', 'igris_array_destructor(', 1],
               [r'auto oldbuf = ', 'ELEM *oldbuf = ', 1],
               [r'self->m_alloc\.deallocate\(', 'c02_deallocate(&self->m_alloc, ', 1]]},
  {'op': 'func', 'file': 'igris/container/vector.h', 'name': 'clear', 'in_class': 'vector', 'self': 'vector', 'members': ['m_data', 'm_capacity', 'm_size', 'm_alloc'], 'as': 'vector_clear',
   'rewrite': [[r'igris::destructor\(', 'igris_destructor(', 1]]},
  # element access
  {'op': 'func', 'file': 'igris/container/vector.h', 'name': 'front', 'in_class': 'vector', 'self': 'vector', 'members': ['m_data', 'm_capacity', 'm_size', 'm_alloc'], 'as': 'vector_front', 'ret': 'ELEM *',
   'rewrite': [[r'return (self->m_data\[[^;]*\]);', r'return &\1;', 1]]},
  {'op': 'func', 'file': 'igris/container/vector.h', 'name': 'back', 'in_class': 'vector', 'self': 'vector', 'members': ['m_data', 'm_capacity', 'm_size', 'm_alloc'], 'as': 'vector_back', 'ret': 'ELEM *',
   'rewrite': [[r'return (self->m_data\[[^;]*\]);', r'return &\1;', 1]]},
  {'op': 'func', 'file': 'igris/container/vector.h', 'name': 'back', 'occurrence': 1, 'in_class': 'vector', 'self': 'vector', 'members': ['m_data', 'm_capacity', 'm_size', 'm_alloc'], 'as': 'vector_back_c', 'ret': 'const ELEM *',
   'rewrite': [[r'return (self->m_data\[[^;]*\]);', r'return &\1;', 1]]},
  {'op': 'func', 'file': 'igris/container/vector.h', 'name': 'front', 'occurrence': 1, 'in_class': 'vector', 'self': 'vector', 'members': ['m_data', 'm_capacity', 'm_size', 'm_alloc'], 'as': 'vector_front_c', 'ret': 'const ELEM *',
   'rewrite': [[r'return (self->m_data\[[^;]*\]);', r'return &\1;', 1]]},
  {'op': 'func', 'file': 'igris/container/vector.h', 'name': 'operator[]', 'in_class': 'vector', 'self': 'vector', 'members': ['m_data', 'm_capacity', 'm_size', 'm_alloc'], 'as': 'vector_index', 'ret': 'ELEM *',
   'rewrite': [[r'return (self->m_data\[[^;]*\]);', r'return &\1;', 1]]},
  {'op': 'func', 'file': 'igris/container/vector.h', 'name': 'operator[]', 'occurrence': 1, 'in_class': 'vector', 'self': 'vector', 'members': ['m_data', 'm_capacity', 'm_size', 'm_alloc'], 'as': 'vector_index_c', 'ret': 'const ELEM *',
   'rewrite': [[r'return (self->m_data\[[^;]*\]);', r'return &\1;', 1]]},
  {'op': 'func', 'file': 'igris/container/vector.h', 'name': 'at', 'in_class': 'vector', 'self': 'vector', 'members': ['m_data', 'm_capacity', 'm_size', 'm_alloc'], 'as': 'vector_at', 'ret': 'ELEM *',
   'rewrite': [[r'throw std::out_of_range\("vector::at"\);', '{ g_thrown = 1; return NULL; }', 1],
               [r'return (self->m_data\[[^;]*\]);', r'return &\1;', 1]]},
  {'op': 'func', 'file': 'igris/container/vector.h', 'name': 'at', 'occurrence': 1, 'in_class': 'vector', 'self': 'vector', 'members': ['m_data', 'm_capacity', 'm_size', 'm_alloc'], 'as': 'vector_at_c', 'ret': 'const ELEM *',
   'rewrite': [[r'throw std::out_of_range\("vector::at"\);', '{ g_thrown = 1; return NULL; }', 1],
               [r'return (self->m_data\[[^;]*\]);', r'return &\1;', 1]]},
  # modifiers at the end
  {'op': 'func', 'file': 'igris/container/vector.h', 'name': 'emplace_back', 'in_class': 'vector', 'self': 'vector', 'members': ['m_data', 'm_capacity', 'm_size', 'm_alloc'], 'as': 'vector_emplace_back',
   'methods': {'reserve': 'vector_reserve'},
   'sig_rewrite': [[r'Args &&\.\.\. args', 'int args', 1]],
   'rewrite': [[r'igris::constructor\(([^;]*), std::forward<Args>\(args\)\.\.\.\);', r'igris_constructor_value(\1, args);', 1]]},
  {'op': 'func', 'file': 'igris/container/vector.h', 'name': 'push_back', 'in_class': 'vector', 'self': 'vector', 'members': ['m_data', 'm_capacity', 'm_size', 'm_alloc'], 'as': 'vector_push_back',
   'tparams': {'T': 'ELEM'}, 'refs': ['ref'], 'methods': {'reserve': 'vector_reserve'},
   'rewrite': [[r'igris::constructor\(([^;]*), \(\*ref\)\);', r'igris_constructor_copy(\1, ref);', 1]]},
  {'op': 'func', 'file': 'igris/container/vector.h', 'name': 'pop_back', 'in_class': 'vector', 'self': 'vector', 'members': ['m_data', 'm_capacity', 'm_size', 'm_alloc'], 'as': 'vector_pop_back',
   'rewrite': [[r'igris::destructor\(', 'igris_destructor(', 1]]},
  {'op': 'func', 'file': 'igris/container/vector.h', 'name': 'resize', 'in_class': 'vector', 'self': 'vector', 'members': ['m_data', 'm_capacity', 'm_size', 'm_alloc'], 'as': 'vector_resize',
   'methods': {'reserve': 'vector_reserve'},
   'rewrite': [[r'igris::constructor\(([^;,]*)\);', r'igris_constructor_default(\1);', 1],
               [r'igris::destructor\(', 'igris_destructor(', 1]]},
 ],
}]
