/*@unit {
 'kind': 'proof', 'mode': 'legacy',
 'functions': ['igris::vector::push_back', 'igris::vector::reserve', 'igris::vector::changeBuffer', 'igris::constructor', 'igris::move_constructor',
               'igris::destructor', 'igris::array_destructor'],
 'extract': 'units/C02/vector_extract.py',
 'inject': [
   {'file': 'overlay:cxx/igris_vector.c', 'func': 'igris_array_destructor', 'ghost': 'g_ad_first0 = first; g_snap_take(&g_ad, first);', 'at': 'func-begin'},
   {'file': 'overlay:cxx/igris_vector.c', 'func': 'igris_array_destructor', 'loop': 0, 'expect': 'while (first != last)',
    'assigns': 'first, __CPROVER_object_whole(last)',
    'invariants': ['C02_INV_AD_PTR(first, last)', 'C02_INV_AD_K(first, last)', 'C02_INV_AD_J(first, last)'], 'decreases': 'C02_DEC_AD(first, last)'},
   {'file': 'overlay:cxx/igris_vector.c', 'func': 'vector_changeBuffer', 'ghost': 'g_snap_take(&g_cb, self->m_data);', 'at': 'func-begin'},
   {'file': 'overlay:cxx/igris_vector.c', 'func': 'vector_changeBuffer', 'loop': 0, 'expect': 'ip != ie',
    'assigns': 'ip, op, __CPROVER_object_whole(newbuf), __CPROVER_object_whole(self->m_data)',
    'invariants': ['C02_INV_CB_PTR(self, ip, op, newbuf)', 'C02_INV_CB_K(self, ip, newbuf, oldcapacity, sz)', 'C02_INV_CB_J(self, ip, newbuf, oldcapacity, sz)'],
    'decreases': 'C02_DEC_CB(self, ip)'},
 ],
 'clauses': 'push_back(x) from an arbitrary VEC state (any capacity, any size <= capacity, with or without reallocation): bounds - every access inside the '
            'blocks, old block released with its recorded size, VEC shape; lifetime - the new slot is constructed over RAW storage, every old element is '
            'move-constructed into RAW storage of the new block and destroyed exactly once in the old one, nothing alive in a released block, no block '
            'leaked; value - size()+1, old elements keep their value and order, last element == x, no reallocation while size() < capacity()',
 'witness': {'unwind': 6},
 'kf': ['C02_push_back_self_alias'],
 'trusted': ['spec/c02_vec.h allocator stub = std::allocator<T>::allocate/deallocate ([allocator.members])'],
 'assumptions': ['capacity <= 2^36 elements (no wrap in size()+1, cbmc object size limit)',
                 'the tracked slot indices g_k, g_j are unconstrained nondet inputs: a lifetime obligation at any slot of any block is the obligation at g_k == that index'],
} @*/
#include "vc.h"
#include "cxx/igris_vector.c"

void harness(void)
{
    struct vector v;
    WIT(size_t, cap); WIT(size_t, size); WIT(size_t, k); WIT(size_t, j); WIT(int, isnull); WIT(int, x);
    WIT(int, alias); WIT(size_t, a);
    WIT_ARR(int, content, 4);
    g_k = k; g_j = j;
    c02_vec_any(&v, cap, size, isnull, content);
    __CPROVER_assume(size < C02_MAXN);
    /* the argument: a live element outside the vector, or (std::vector allows v.push_back(v[a])) one of its own */
    ELEM *val;
    if (alias) {
        __CPROVER_assume(a < size);
        val = &v.m_data[a];
        if (a != k && a != j) __CPROVER_assume(val->g_state == ELEM_LIVE);   /* VEC at slot a */
        x = val->v;
    } else {
        val = (ELEM *)NEW_OBJ(sizeof(ELEM)); val->v = x; val->g_state = ELEM_LIVE;
    }
    /* known finding: the reference dangles when push_back(v[a]) has to reallocate */
    C02_KF(KF_C02_push_back_self_alias, alias && size == cap);
    ELEM *d0 = v.m_data;
    int old_k = k < size ? v.m_data[k].v : 0;

    vector_push_back(&v, val);

    c02_vec_check(&v);
    c02_no_leak(&v, NULL);
    __CPROVER_assert(v.m_size == size + 1, "value: push_back: size() grows by one");
    if (k < size) __CPROVER_assert(v.m_data[k].v == old_k, "value: push_back: the old elements keep their value and position");
    if (k == size) __CPROVER_assert(v.m_data[k].v == x, "value: push_back: the new last element equals the argument");
    if (!alias) __CPROVER_assert(val->v == x && val->g_state == ELEM_LIVE, "frame: push_back: the argument is not modified");
    if (size < cap) __CPROVER_assert(v.m_data == d0 && v.m_capacity == cap, "value: push_back: no reallocation while size() < capacity()");
    CANARY("push_back end reachable");
}
