/*@unit {
 'kind': 'bounded', 'mode': 'plain',
 'bound': 'blocks of 4 slots, all ranges / destinations inside the block (loops of the element-wise version unwound completely)',
 'functions': ['std::move / std::move_backward / std::copy stubs of spec/c02_std_algo.h'],
 'extract': 'units/C02/vector_extract.py',
 'unwind': 8,
 'clauses': 'cross-check of the algorithm stubs: for every pre-state of a 4-slot block, every source range, destination, direction and kind (move / copy) '
            'allowed by the ISO precondition, the effect computed for the tracked slots by the sparse summary (c02_shift_sparse, used by the proof units) '
            'equals state and value left there by the element-wise ISO loop (c02_shift_loop, used by the native replay)',
 'assumptions': ['the lifetime protocol asserts are switched off here (ELEM_TRACKED == 0): this unit compares final states and values only; that each check '
                 'of the summary sees the state the loop would see follows from the event order argued in the header of spec/c02_std_algo.h'],
} @*/
#define ELEM_TRACKED(q) 0
#include "vc.h"
#include "cxx/igris_vector.c"

void harness(void)
{
    WIT(size_t, k); WIT(size_t, j); WIT(size_t, F); WIT(size_t, L); WIT(size_t, Dlo); WIT(int, is_move); WIT(int, backward);
    WIT_ARR(uchar, bits, 4);
    c02_init(k, j);
    __CPROVER_assume(F <= L && L <= 4 && Dlo <= 4 && Dlo + (L - F) <= 4);
    size_t N = L - F;
    /* ISO precondition (or the harmless self-assignment) */
    __CPROVER_assume(N == 0 || Dlo == F || (backward ? !(Dlo + N > F && Dlo < F) : !(Dlo > F && Dlo < L)));
    ELEM *a = (ELEM *)NEW_OBJ(4 * sizeof(ELEM)), *b = (ELEM *)NEW_OBJ(4 * sizeof(ELEM));
    for (int i = 0; i < 4; i++) {
        __CPROVER_assume((bits[i] & 3) != 3);
        a[i].g_bits = bits[i]; b[i].g_bits = bits[i];
    }
    c02_shift_loop(a + F, a + Dlo, N, is_move != 0, backward != 0);
    c02_shift_sparse(b + F, b + L, b + Dlo, N, is_move != 0, backward != 0);
    /* a self-move-assignment (*p = std::move(*p)) leaves a live element with an unspecified value in both versions: compare the state only */
    unsigned char cmpmask = (is_move && Dlo == F) ? 3 : 0xFF;
    if (k < 4) __CPROVER_assert((a[k].g_bits & cmpmask) == (b[k].g_bits & cmpmask), "stub cross-check: tracked slot g_k: the summary leaves the state and value of the element-wise loop");
    if (j < 4) __CPROVER_assert((a[j].g_bits & cmpmask) == (b[j].g_bits & cmpmask), "stub cross-check: tracked slot g_j: the summary leaves the state and value of the element-wise loop");
    CANARY("stub cross-check end reachable");
}
