// Element type that observes its own lifetime (address -> state registry), used by the native
// reproducers of the C02 findings.  Mirrors spec/elem_lifetime.h: RAW / LIVE / MOVED per storage slot.
#ifndef C02_TRACKED_H
#define C02_TRACKED_H
#include <cstdio>
#include <map>
#include <utility>

struct Tracked
{
    enum { RAW = 0, LIVE = 1, MOVED = 2 };
    static std::map<const void *, int> &reg()
    {
        static std::map<const void *, int> r;
        return r;
    }
    static int &errors()
    {
        static int e;
        return e;
    }
    static int &ctors()
    {
        static int c;
        return c;
    }
    static int &dtors()
    {
        static int c;
        return c;
    }
    static int st(const void *p)
    {
        auto it = reg().find(p);
        return it == reg().end() ? RAW : it->second;
    }
    static void bad(const char *what, const void *p)
    {
        std::printf("  LIFETIME: %s (slot %p)\n", what, p);
        errors()++;
    }
    static int live_count()
    {
        int n = 0;
        for (auto &kv : reg())
            if (kv.second != RAW)
                n++;
        return n;
    }

    int v;
    void born()
    {
        if (st(this) != RAW)
            bad("construct over an element that is still alive", this);
        reg()[this] = LIVE;
        ctors()++;
    }
    Tracked() : v(0) { born(); }
    Tracked(int x) : v(x) { born(); }
    Tracked(const Tracked &o) : v(o.v)
    {
        if (st(&o) != LIVE)
            bad("copy-construct from a non-live element", &o);
        born();
    }
    Tracked(Tracked &&o) : v(o.v)
    {
        if (st(&o) != LIVE)
            bad("move-construct from a non-live element", &o);
        born();
        reg()[&o] = MOVED;
    }
    Tracked &operator=(const Tracked &o)
    {
        if (st(this) == RAW)
            bad("assignment to an unconstructed or destroyed element", this);
        if (st(&o) != LIVE)
            bad("assignment from a non-live element", &o);
        v = o.v;
        reg()[this] = LIVE;
        return *this;
    }
    Tracked &operator=(Tracked &&o)
    {
        if (st(this) == RAW)
            bad("move-assignment to an unconstructed or destroyed element", this);
        if (st(&o) != LIVE)
            bad("move-assignment from a non-live element", &o);
        if (this != &o)
        {
            v = o.v;
            reg()[this] = LIVE;
            reg()[&o] = MOVED;
        }
        return *this;
    }
    ~Tracked()
    {
        if (st(this) == RAW)
            bad("destructor run on an unconstructed or already destroyed element", this);
        reg()[this] = RAW;
        dtors()++;
    }
    bool operator==(const Tracked &o) const { return v == o.v; }
    bool operator!=(const Tracked &o) const { return v != o.v; }
    bool operator<(const Tracked &o) const { return v < o.v; }
};

// end of a scenario: every constructed element destroyed exactly once
static inline int tracked_report(const char *name)
{
    int leaked = Tracked::live_count();
    if (leaked)
        std::printf("  LIFETIME: %d element(s) constructed but never destroyed\n", leaked);
    int e = Tracked::errors() + leaked;
    std::printf("%s: ctors=%d dtors=%d lifetime-errors=%d\n", name, Tracked::ctors(), Tracked::dtors(), e);
    return e ? 1 : 0;
}
#endif
