// Native reproducers of the C02 findings on the REAL igris/container/vector.h.
//   clang++ -std=c++17 -g -fsanitize=address,undefined -I/repo -I/verif/units/C02/reproducers c02_repro.cpp -o c02_repro
//   ./c02_repro <scenario>      exit 0 = behaves like std::vector and lifetimes balanced, 1 = defect reproduced
// Every scenario runs the same calls on igris::vector<Tracked> and std::vector<Tracked> and compares the value
// sequence; Tracked (tracked.h) observes construction / assignment / destruction per storage slot.
#include "tracked.h"
#include <cstring>
#include <igris/container/vector.h>
#include <vector>

template <class A, class B> static int same(const A &a, const B &b)
{
    if (a.size() != b.size())
    {
        std::printf("  VALUE: size %zu, std::vector has %zu\n", (size_t)a.size(), (size_t)b.size());
        return 1;
    }
    for (size_t i = 0; i < b.size(); i++)
        if (a.data()[i].v != b[i].v)
        {
            std::printf("  VALUE: element %zu is %d, std::vector has %d\n", i, a.data()[i].v, b[i].v);
            return 1;
        }
    return 0;
}

template <class V> static void fill(V &v, int n, size_t cap)
{
    v.reserve(cap);
    for (int i = 0; i < n; i++)
        v.push_back(Tracked(10 + i));
}

int main(int argc, char **argv)
{
    const char *sc = argc > 1 ? argv[1] : "";
    int bad = 0;
    {
        igris::vector<Tracked> v;
        std::vector<Tracked> r;
        if (!strcmp(sc, "baseline"))
        { // push_back / pop_back / reserve / resize / clear: no finding expected
            fill(v, 3, 2), fill(r, 3, 2);
            v.pop_back(), r.pop_back();
            v.resize(5), r.resize(5);
            v.resize(1), r.resize(1);
            bad |= same(v, r);
            v.clear(), r.clear();
        }
        else if (!strcmp(sc, "copy_assign"))
        { // allocate(m_size) after invalidate(): zero slots, then other.m_size elements constructed -> heap overflow (ASan)
            igris::vector<Tracked> w;
            fill(v, 3, 3);
            w = v;
            std::vector<Tracked> rw;
            fill(r, 3, 3);
            rw = r;
            bad |= same(w, rw);
        }
        else if (!strcmp(sc, "insert_mid") || !strcmp(sc, "insert_end"))
        { // move-assignment / assignment into the raw slot end()-1
            fill(v, 3, 8), fill(r, 3, 8);
            Tracked x(99);
            size_t pos = !strcmp(sc, "insert_mid") ? 1 : 3;
            v.insert(v.begin() + pos, x), r.insert(r.begin() + pos, x);
            bad |= same(v, r);
        }
        else if (!strcmp(sc, "emplace_mid") || !strcmp(sc, "emplace_end"))
        { // as insert, and placement-new over the live slot at pos
            fill(v, 3, 8), fill(r, 3, 8);
            size_t pos = !strcmp(sc, "emplace_mid") ? 1 : 3;
            v.emplace(v.begin() + pos, 99), r.emplace(r.begin() + pos, 99);
            bad |= same(v, r);
        }
        else if (!strcmp(sc, "erase_range"))
        { // destroys [first,last), move-assigns into the destroyed slots, leaves the moved-from tail alive beyond size
            fill(v, 5, 8), fill(r, 5, 8);
            v.erase(v.begin() + 1, v.begin() + 3), r.erase(r.begin() + 1, r.begin() + 3);
            bad |= same(v, r);
        }
        else if (!strcmp(sc, "erase_range_tail"))
        { // erase(first, end()): the only range that is handled correctly
            fill(v, 5, 8), fill(r, 5, 8);
            v.erase(v.begin() + 2, v.end()), r.erase(r.begin() + 2, r.end());
            bad |= same(v, r);
        }
        else if (!strcmp(sc, "erase_one"))
        { // erase(it): truncates at it instead of removing one element, dropped elements never destroyed
            fill(v, 4, 8), fill(r, 4, 8);
            v.erase(v.begin() + 1), r.erase(r.begin() + 1);
            bad |= same(v, r);
        }
        else if (!strcmp(sc, "erase_last"))
        { // erase(end()-1): value sequence right, the element is still never destroyed
            fill(v, 4, 8), fill(r, 4, 8);
            v.erase(v.end() - 1), r.erase(r.end() - 1);
            bad |= same(v, r);
        }
        else if (!strcmp(sc, "insert_range") || !strcmp(sc, "insert_range_realloc"))
        { // insert(pos, first, last) with a foreign range (the only kind std::vector allows)
            size_t cap = !strcmp(sc, "insert_range") ? 8 : 3;
            fill(v, 3, cap), fill(r, 3, cap);
            Tracked src[2] = {Tracked(70), Tracked(71)};
            v.insert(v.begin() + 1, src, src + 2), r.insert(r.begin() + 1, src, src + 2);
            bad |= same(v, r);
        }
        else if (!strcmp(sc, "push_back_self"))
        { // push_back(v[0]) with reallocation: the reference dangles after changeBuffer (ASan: use after free)
            fill(v, 2, 2), fill(r, 2, 2);
            v.push_back(v[0]), r.push_back(r[0]);
            bad |= same(v, r);
        }
        else if (!strcmp(sc, "insert_self") || !strcmp(sc, "insert_self_realloc"))
        { // insert(pos, v[a]): the argument is read after the shift (a >= pos) / after the old block was released (reallocation)
            size_t cap = !strcmp(sc, "insert_self") ? 8 : 3;
            fill(v, 3, cap), fill(r, 3, cap);
            v.insert(v.begin() + 1, v[2]), r.insert(r.begin() + 1, r[2]);
            bad |= same(v, r);
        }
        else if (!strcmp(sc, "rend"))
        { // rend() == m_data - 1 (pointer before the block), rbegin()/rend() are not reverse iterators
            fill(v, 3, 3), fill(r, 3, 3);
            int n = 0, first = -1;
            for (auto it = v.rbegin(); it != v.rend(); ++it) // walks upwards from the last element: never reaches m_data - 1
            {
                if (first < 0)
                    first = it->v;
                if (++n > 3)
                    break;
            }
            if (n != 3)
            {
                std::printf("  VALUE: reverse traversal visits %s elements, std::vector visits 3\n", n > 3 ? "more than 3 (runs past the end)" : "fewer than 3");
                bad = 1;
            }
        }
        else
        {
            std::printf("unknown scenario\n");
            return 2;
        }
    }
    return tracked_report(sc) | bad;
}
