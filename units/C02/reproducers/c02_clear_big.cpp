// C02_clear_uint_index: clear() counts with `unsigned int i` against the size_t m_size.  With more than UINT_MAX
// elements i wraps to 0 before it reaches m_size: the loop never ends and destroys the same elements again.
// Needs ~4.3 GB of memory.
//   clang++ -std=c++17 -O2 -I/repo c02_clear_big.cpp -o c02_clear_big && ./c02_clear_big
//   exit 0 = clear() returned after exactly size() destructor calls, 1 = more destructor calls than elements (alarm after 30 s)
#include <csignal>
#include <cstdio>
#include <cstdlib>
#include <igris/container/vector.h>
#include <unistd.h>
static volatile unsigned long long dtors;
static unsigned long long expected;
struct Counted
{
    char c;
    Counted() : c(0) {}
    ~Counted() { dtors = dtors + 1; }
};
static void on_alarm(int)
{
    char buf[160];
    int n = std::snprintf(buf, sizeof buf, "clear() still running: %llu destructor calls for %llu elements\n", (unsigned long long)dtors, expected);
    (void)!write(1, buf, n);
    _exit(dtors > expected ? 1 : 3);
}
int main()
{
    static igris::vector<Counted> v; // static: its destructor is not the point here
    expected = (1ull << 32) + 1;
    v.resize(expected);
    std::signal(SIGALRM, on_alarm);
    alarm(30);
    v.clear();
    std::printf("clear() returned: %llu destructor calls for %llu elements\n", (unsigned long long)dtors, expected);
    return dtors == expected ? 0 : 1;
}
