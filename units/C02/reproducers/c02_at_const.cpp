// C02_at_const_assert: at() const must throw std::out_of_range for an index >= size() (like std::vector and like the
// non-const at()); with assertions enabled it aborts instead.
//   clang++ -std=c++17 -I/repo c02_at_const.cpp -o c02_at_const && ./c02_at_const   -> exit 0 = threw, 134 (SIGABRT) = defect
#include <cstdio>
#include <igris/container/vector.h>
int main()
{
    igris::vector<int> v;
    v.push_back(1);
    const igris::vector<int> &cv = v;
    try
    {
        v.at(5);
        return 2;
    }
    catch (const std::out_of_range &)
    {
        std::printf("non-const at(5) threw std::out_of_range\n");
    }
    try
    {
        cv.at(5);
        return 2;
    }
    catch (const std::out_of_range &)
    {
        std::printf("const at(5) threw std::out_of_range\n");
    }
    return 0;
}
