# cxx2c recipe for igris/util/base64.cpp and igris/string/hexascii_string.cpp (shared by the C18 base64 / hexascii_string units).
# A python literal; see vclib/cxx2c.py.  Every std::string operation the code uses is mapped by a listed rewrite rule
# onto one function of spec/c18_string_stub.h (which states its ISO behaviour); C has no overloading, so the overloads
# taking a std::string get the suffix _str and calls that overload resolution sends there are renamed by a rule.
[{
 'out': 'cxx/base64_cxx.c',
 'pieces': [
  {'op': 'glue', 'text': '#include <stdint.h>\n#include <stddef.h>\n#include <stdbool.h>\n#include <string.h>\n#include <ctype.h>\n'
                         '/* glibc implements isalnum as a macro over its locale table (__ctype_b_loc); call the FUNCTION isalnum instead, */\n'
                         '/* i.e. the ISO C 7.4.1.1 behaviour in the "C" locale (cbmc library model; host libc in the native replay) */\n'
                         '#undef isalnum\n'
                         '#include "c18_string_stub.h"\n'},
  # goto-instrument --apply-loop-contracts makes every mutable static nondeterministic, and `static const char *base64_charset` is a
  # mutable pointer (never written by base64.cpp).  The same two source lines are therefore copied twice: the first time under a macro
  # that turns the declaration into `static const char *const vc_base64_charset_initial = "..."` (a constant, left alone by the
  # instrumentation); the harness re-establishes base64_charset = vc_base64_charset_initial before the call (C18_RESTORE_STATICS).
  {'op': 'glue', 'text': '#define base64_charset const vc_base64_charset_initial'},
  {'op': 'lines', 'file': 'igris/util/base64.cpp', 'regex': r'^\s*static const char \*base64_charset =$|^\s*"ABCDEFGHIJKLMNOPQRSTUVWXYZ', 'min': 2},
  {'op': 'glue', 'text': '#undef base64_charset\n#define C18_RESTORE_STATICS() (base64_charset = vc_base64_charset_initial)'},
  {'op': 'lines', 'file': 'igris/util/base64.cpp', 'regex': r'^\s*static const char \*base64_charset =$|^\s*"ABCDEFGHIJKLMNOPQRSTUVWXYZ', 'min': 2},
  {'op': 'func', 'file': 'igris/util/base64.cpp', 'name': 'is_base64'},
  {'op': 'func', 'file': 'igris/util/base64.cpp', 'name': 'base64_encode', 'occurrence': 0,
   'sig_rewrite': [[r'\bstd::string\b', 'struct vc_string', 1]],
   'rewrite': [[r'\bstd::string\s+(\w+);', r'struct vc_string \1 = vc_string_new();', 1],
               [r'\bstd::string::size_type\b', 'size_t', 1],
               [r'\b(\w+)\.reserve\(', r'vc_string_reserve(&\1, ', 1],
               [r'\b(\w+)\.push_back\(', r'vc_string_push_back(&\1, ', 12]]},
  {'op': 'func', 'file': 'igris/util/base64.cpp', 'name': 'base64_encode', 'occurrence': 1, 'as': 'base64_encode_str', 'refs': ['str'],
   'sig_rewrite': [[r'\bstd::string\b', 'struct vc_string', 2]],
   'rewrite': [[r'\b(\w+)->data\(\)', r'vc_string_data(\1)', 1],
               [r'\b(\w+)->size\(\)', r'vc_string_size(\1)', 1]]},
  {'op': 'func', 'file': 'igris/util/base64.cpp', 'name': 'base64_decode', 'as': 'base64_decode_str', 'refs': ['encoded_string'],
   'sig_rewrite': [[r'\bstd::string\b', 'struct vc_string', 2]],
   'rewrite': [[r'\bstd::string\s+(\w+);', r'struct vc_string \1 = vc_string_new();', 1],
               [r'\b(\w+)->size\(\)', r'vc_string_size(\1)', 1],
               [r'\(\*(\w+)\)\[([^\]]+)\]', r'vc_string_at(\1, \2)', 3],
               [r'\bret \+= ([^;]+);', r'vc_string_push_back(&ret, \1);', 2]]},
  {'op': 'func', 'file': 'igris/util/base64.cpp', 'name': 'base64url_encode', 'occurrence': 0,
   'sig_rewrite': [[r'\bstd::string\b', 'struct vc_string', 1]],
   'rewrite': [[r'\bstd::string\s+(\w+) = ', r'struct vc_string \1 = ', 1],
               [r'\bauto (\w+) = (\w+)\.begin\(\);', r'char *\1 = vc_string_begin(&\2);', 1],
               [r'\bauto (\w+) = (\w+)\.end\(\);', r'char *\1 = vc_string_end(&\2);', 1]]},
  {'op': 'func', 'file': 'igris/util/base64.cpp', 'name': 'base64url_encode', 'occurrence': 1, 'as': 'base64url_encode_str', 'refs': ['str'],
   'sig_rewrite': [[r'\bstd::string\b', 'struct vc_string', 2]],
   'rewrite': [[r'\b(\w+)->data\(\)', r'vc_string_data(\1)', 1],
               [r'\b(\w+)->size\(\)', r'vc_string_size(\1)', 1]]},
  {'op': 'func', 'file': 'igris/util/base64.cpp', 'name': 'base64url_decode', 'as': 'base64url_decode_str', 'refs': ['s'],
   'sig_rewrite': [[r'\bstd::string\b', 'struct vc_string', 2]],
   # the first four rules depend on the shape of the body (unchanged tree: `std::string ret = base64_encode(s);` ... `return ret;`;
   # after proposed_fixes/C18_base64url_decode_encodes.patch: `std::string ret = s;` ... `return base64_decode(ret);`), so they may fire 0 times;
   # a std::string construct that no rule converts does not compile as C and the run ends with exit 2, never with a verdict
   'rewrite': [[r'\bbase64_(en|de)code\(\(\*(\w+)\)\)', r'base64_\1code_str(\2)', 0],
               [r'\bstd::string\s+(\w+) = \(\*(\w+)\);', r'struct vc_string \1 = vc_string_copy(\2);', 0],
               [r'\bstd::string\s+(\w+) = ', r'struct vc_string \1 = ', 0],
               [r'\breturn base64_decode\((\w+)\);', r'return base64_decode_str(&\1);', 0],
               [r'\bauto (\w+) = (\w+)\.begin\(\);', r'char *\1 = vc_string_begin(&\2);', 1],
               [r'\bauto (\w+) = (\w+)\.end\(\);', r'char *\1 = vc_string_end(&\2);', 1]]},
 ],
},
{
 'out': 'cxx/hexascii_string_cxx.c',
 'pieces': [
  {'op': 'glue', 'text': '#include <stdint.h>\n#include <stddef.h>\n#include <igris/util/hexascii.h>\n#include "c18_string_stub.h"\n'},
  {'op': 'func', 'file': 'igris/string/hexascii_string.cpp', 'name': 'hexascii_encode', 'occurrence': 0, 'as': 'igris_hexascii_encode',
   'sig_rewrite': [[r'\bstd::string\b', 'struct vc_string', 1]],
   'rewrite': [[r'\bstd::string\s+(\w+);', r'struct vc_string \1 = vc_string_new();', 1],
               [r'\b(\w+)\.resize\(', r'vc_string_resize(&\1, ', 1],
               [r'&(\w+)\[([^\]]+)\]', r'vc_string_ref(&\1, \2)', 1]]},
  {'op': 'func', 'file': 'igris/string/hexascii_string.cpp', 'name': 'hexascii_encode', 'occurrence': 1, 'as': 'igris_hexascii_encode_str', 'refs': ['str'],
   'sig_rewrite': [[r'\bstd::string\b', 'struct vc_string', 2]],
   'rewrite': [[r'\bhexascii_encode\(', 'igris_hexascii_encode(', 1],
               [r'\b(\w+)->data\(\)', r'vc_string_data(\1)', 1],
               [r'\b(\w+)->size\(\)', r'vc_string_size(\1)', 1]]},
 ],
}]
