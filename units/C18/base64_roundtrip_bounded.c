/*@unit {
 'kind': 'bounded', 'bound': 'byte strings of at most 7 bytes (two complete groups and a tail of each kind): complete unwinding of every loop up to that length',
 'mode': 'plain',
 'functions': ['igris::base64_encode(const uint8_t*, size_t)', 'igris::base64_decode(const std::string&)'],
 'extract': 'units/C18/cxx_extract.py',
 'defines': ['URL=0'],
 'clauses': 'the REAL encoder composed with the REAL decoder: base64_decode(base64_encode(x)) == x for every byte string x of '
            '0..7 bytes (all contents, all three tail shapes). Bounded companion of the unbounded statement, which is obtained from units base64_encode / base64url_encode '
            '(encoder == reference), base64_decode (decoder == reference on the longest alphabet prefix) and base64_ref_selfcheck PART=2 (reference decoder inverts reference encoder, '
            'data characters are alphabet characters followed by the pad) - see PROPERTY.json',
 'unwind': 70,
 'trusted': ['libstdc++ std::string as modelled by spec/c18_string_stub.h', 'host libc strchr / isalnum (cbmc library models)'],
 'assumptions': ['storage of every result string: 16 bytes (enough for every result here)'],
 'witness': {'unwind': 70},
} @*/
#include "vc.h"
#include "c18_base64_ref.h"
#include "cxx/base64_cxx.c"
#define MAXN 7

void harness(void)
{
    WIT(size_t, n);
    WIT(size_t, k);
    WIT_ARR(uint8_t, content, 7);
    __CPROVER_assume(n <= MAXN && n <= VC_MAXOBJ);
#if URL
    /* known finding (genuine defect, see findings.json): base64url_decode encodes; only the empty string survives the round trip */
    __CPROVER_assume(KF_C18_base64url_decode_encodes == 0 ? 1 : KF_C18_base64url_decode_encodes == 1 ? n == 0 : n >= 1);
#endif
    uint8_t *x = NEW_OBJ(n);
    FILL(x, n, content);
    C18_RESTORE_STATICS();
    g_vc_string_cap = 16;
    g_vc_string_nothrow = 1;
#if URL
    struct vc_string text = base64url_encode(x, n);
    text.g_iter = 0; /* the iterators base64url_encode used are dead once it has returned */
    struct vc_string back = base64url_decode_str(&text);
#else
    struct vc_string text = base64_encode(x, n);
    struct vc_string back = base64_decode_str(&text);
#endif
    __CPROVER_assert(back.size == n, "decode(encode(x)) has the length of x");
    if (k < n && k < back.size)
        __CPROVER_assert((uint8_t)back.p[k] == x[k], "decode(encode(x)) == x (arbitrary byte)");
    CANARY("base64 round trip end reachable");
}
