/*@unit {
 'kind': 'proof', 'mode': 'plain',
 'functions': ['hex2half', 'hex2byte'],
 'clauses': 'hex2half(c) is the digit value (0..15) of c for EVERY hexadecimal digit character c, i.e. the whole set its callers '
            'let through (igris_atou32/igris_atou64 pass any igris_isxdigit character = 0-9 A-F a-f); hex2byte likewise for every pair of hexadecimal digits',
 'kf': ['C18_hex2half_lowercase'],
 'assumptions': ['precondition of hex2half taken from its call sites in igris/util/numconvert.c: the character satisfies igris_isxdigit (ISO C isxdigit set)'],
 'witness': {'unwind': 2},
} @*/
#include "vc.h"
#include <igris/util/hexascii.h>
#include "c18_hex_ref.h"

void harness(void)
{
    WIT(char, c);
    WIT(char, d);
    __CPROVER_assume(SPEC_IS_XDIGIT(c) && SPEC_IS_XDIGIT(d));
    /* known finding (genuine defect, see findings.json): lower-case digits are mapped with the upper-case offset */
    int lower = (c >= 'a' && c <= 'f') || (d >= 'a' && d <= 'f');
    __CPROVER_assume(KF_C18_hex2half_lowercase == 0 ? 1 : KF_C18_hex2half_lowercase == 1 ? !lower : lower);

    __CPROVER_assert(hex2half(c) == SPEC_HEXVAL(c), "hex2half(c) is the digit value of the hexadecimal digit c");
    __CPROVER_assert(hex2half(c) < 16, "hex2half(c) is a nibble");
    __CPROVER_assert(hex2byte(c, d) == 16 * SPEC_HEXVAL(c) + SPEC_HEXVAL(d), "hex2byte(hi, lo) == 16*value(hi) + value(lo)");
    CANARY("hex2half_xdigit end reachable");
}
