/*@unit {
 'kind': 'bounded', 'bound': 'texts of at most 8 characters (two groups): complete unwinding of every loop up to that length',
 'mode': 'plain',
 'functions': ['igris::base64url_decode(const std::string&)'],
 'extract': 'units/C18/cxx_extract.py',
 'clauses': 'base64url_decode(t) equals the RFC 4648 section 5 reference decoder (spec_b64_decode with Table 2: - and _ for 62 and 63) for every text t of length 0..8 and content: '
            'same length, same bytes. Bounded stand-in: on the unchanged tree the routine is an ENCODER (finding C18_base64url_decode_encodes), so there is no decoder loop to put '
            'under contract; with proposed_fixes/C18_base64url_decode_encodes.patch applied this unit verifies for every text of the bound without carve-out',
 'unwind': 70,
 'kf': ['C18_base64url_decode_encodes'],
 'trusted': ['libstdc++ std::string as modelled by spec/c18_string_stub.h', 'host libc strchr / isalnum (cbmc library models)'],
 'assumptions': ['the text contains neither + nor / (never produced by base64url_encode; whether a url-safe decoder rejects or accepts the standard letters is left open)',
                 'storage of the result string: 16 bytes (enough for every result of a text of at most 8 characters, encoder or decoder)'],
 'witness': {'unwind': 70},
} @*/
#include "vc.h"
#include "c18_base64_ref.h"
#include "cxx/base64_cxx.c"
#define MAXLEN 8

void harness(void)
{
    WIT(size_t, len);
    WIT(size_t, k);
    WIT_ARR(char, content, 8);
    __CPROVER_assume(len <= MAXLEN && len <= VC_MAXOBJ);
    /* known finding (genuine defect, see findings.json): base64url_decode calls base64_encode; only the empty text comes out right */
    __CPROVER_assume(KF_C18_base64url_decode_encodes == 0 ? 1 : KF_C18_base64url_decode_encodes == 1 ? len == 0 : len >= 1);
    char *t = NEW_OBJ(len);
    FILL(t, len, content);
    for (size_t i = 0; i < MAXLEN; i++)   /* the url-safe decoder's treatment of the STANDARD letters + and / is left unspecified */
        __CPROVER_assume(!(i < len) || (t[i] != '+' && t[i] != '/'));
    struct vc_string arg;
    arg.p = t; arg.size = len; arg.cap = len; arg.g_iter = 0;
    C18_RESTORE_STATICS();
    g_vc_string_cap = 16;
    g_vc_string_nothrow = 1;
    uint8_t want[MAXLEN];
    size_t want_len = spec_b64_decode(1, t, len, want);

    struct vc_string res = base64url_decode_str(&arg);

    __CPROVER_assert(res.size == want_len, "base64url_decode: length equals the reference decoder's (floor(6m/8) for the longest url-safe alphabet prefix m)");
    if (k < want_len && k < res.size)
        __CPROVER_assert((uint8_t)res.p[k] == want[k], "base64url_decode: byte k equals the reference decoder's");
    CANARY("base64url_decode harness end reachable");
}
