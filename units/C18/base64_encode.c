/*@unit {
 'kind': 'proof', 'mode': 'legacy',
 'functions': ['igris::base64_encode(const uint8_t*, size_t)'],
 'extract': 'units/C18/cxx_extract.py',
 'params': {'R': [0, 1, 2]},
 'clauses': 'for every size = 3q + R and content (C++ source extracted mechanically, std::string operations by spec/c18_string_stub.h): the result has exactly 4*ceil(size/3) characters; '
            'character k is the RFC 4648 Table 1 character of the k-th 6-bit group of the input (zero-padded last group) for k < ceil(8*size/6) and the pad = otherwise '
            '(R=1: 2 characters + "==", R=2: 3 characters + "="); loop invariant: after 3j input bytes exactly 4j characters, each the reference character of '
            'its group (ghost index); reads only indata[0..size) (exact-size object), input not modified; never appends beyond the specified length: with storage for exactly '
            '4*ceil(size/3) characters no library call throws',
 'inject': [{'file': 'overlay:cxx/base64_cxx.c', 'func': 'base64_encode', 'loop': 0, 'expect': 'while (remaining >= 3)',
             'assigns': 'remaining, dp, g_j, outdata.size, __CPROVER_object_whole(outdata.p)',
             'invariants': ['g_j <= g_q && remaining == 3 * (g_q - g_j) + g_r',
                            '__CPROVER_same_object(dp, indata) && __CPROVER_POINTER_OFFSET(dp) >= 0 && (size_t)__CPROVER_POINTER_OFFSET(dp) == 3 * g_j',
                            'outdata.size == 4 * g_j && outdata.size <= outdata.cap',
                            'C18_IMP(g_k < outdata.size, outdata.p[g_k] == SPEC_B64Q_ENC_CHAR(0, indata, g_q, g_r, g_k))'],
             'decreases': 'remaining'},
            {'file': 'overlay:cxx/base64_cxx.c', 'func': 'base64_encode', 'ghost': 'g_j++;', 'at': 'body-end', 'loop': 0}],
 'trusted': ['libstdc++ std::string implements reserve / push_back / default construction as ISO C++ [basic.string] specifies (stub spec/c18_string_stub.h)'],
 'assumptions': ['indata is passed by its base address (the loop invariant speaks in object offsets)',
                 'executions in which std::string cannot grow (length_error / bad_alloc) leave the function by an exception and are outside the property; '
                 'the storage g_vc_string_cap is arbitrary, and with cap >= 4*ceil(size/3) a throw is a proof obligation (never happens)',
                 'base64_charset keeps its initial value (mutable static pointer never written by base64.cpp; re-established by C18_RESTORE_STATICS because '
                 'goto-instrument --apply-loop-contracts havocs mutable statics)',
                 'cxx2c rules listed in the evidence carry the C++ semantics over (std::string operations -> stub calls, return by value -> struct copy)'],
 'timeout': 600,
 'native_cxx_probes': [{'file': 'units/C18/native/string_codecs_probe.cpp', 'run': True,
                        'sources': ['igris/util/base64.cpp', 'igris/string/hexascii_string.cpp', 'igris/util/hexascii.c'],
                        'what': 'real base64 / url-safe base64 / hexascii std::string codecs (not the extraction) against RFC 4648 reference encoders',
                        'bound': 'all 2801 byte strings of length 0..4 over {00,01,3E,3F,41,F8,FF}'}],
 'witness': {'unwind': 8},
} @*/
#include "vc.h"
#include "c18_base64_ref.h"
#define C18_IMP(a, b) (!(a) || (b))
size_t g_j;      /* ghost: number of complete 3-byte groups encoded so far */
size_t g_q, g_r; /* ghost: size == 3 * g_q + g_r, g_r < 3 (the harness builds the size that way: no 64-bit division in the proof) */
size_t g_k;      /* ghost index: arbitrary, so a statement about character g_k is a statement about every character */
#include "cxx/base64_cxx.c"

void harness(void)
{
    WIT(size_t, q);
    size_t r = R;            /* one run per residue of the size modulo 3 (no tail, 1-byte tail, 2-byte tail) */
    WIT(size_t, cap);
    WIT(size_t, k);
    WIT(size_t, j);
    WIT_ARR(uint8_t, content, 6);
    __CPROVER_assume(q <= VC_MAXOBJ / 3 && cap <= 2 * VC_MAXOBJ);
    size_t n = 3 * q + r;    /* every size 0..VC_MAXOBJ, given as quotient and remainder by 3 */
    uint8_t *x = NEW_OBJ(n); /* exact size: a read outside indata[0..size) fails */
    FILL(x, n, content);
    C18_RESTORE_STATICS();   /* initial value of the never-written static pointer base64_charset, see cxx_extract.py */
    g_vc_string_cap = cap;   /* arbitrary storage; exactly the specified length is one of the cases */
    g_vc_string_nothrow = cap >= SPEC_B64Q_ENC_LEN(q, r);
    g_k = k;
    g_j = 0; g_q = q; g_r = r;
    uint8_t x_j = j < n ? x[j] : 0;

    struct vc_string res = base64_encode(x, n);

    __CPROVER_assert(res.size == SPEC_B64Q_ENC_LEN(q, r), "length is 4*ceil(n/3)");
    if (k < res.size) {
        __CPROVER_assert(res.p[k] == SPEC_B64Q_ENC_CHAR(0, x, q, r, k), "character k is the RFC 4648 character of its 6-bit group, or the pad");
        __CPROVER_assert(SPEC_B64_IS(0, res.p[k]) || res.p[k] == SPEC_B64_PAD, "only RFC 4648 Table 1 letters and =");
        __CPROVER_assert((res.p[k] == SPEC_B64_PAD) == (k >= SPEC_B64Q_NDATA(q, r)), "pads exactly behind the ceil(8n/6) data characters");
    }
    __CPROVER_assert(!(j < n) || x[j] == x_j, "input not modified");
    CANARY("base64_encode harness end reachable");
}
