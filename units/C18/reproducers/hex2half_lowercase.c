/* C18_hex2half_lowercase: gcc -I/repo hex2half_lowercase.c /repo/igris/util/numconvert.c -lm && ./a.out
 * exit 1 while the defect is present, 0 when repaired */
#include <stdio.h>
#include <igris/util/hexascii.h>
#include <igris/util/numconvert.h>
int main(void)
{
    char *e;
    int bad = 0;
    printf("hex2half('a') = %u (want 10)\n", hex2half('a'));
    printf("hex2byte('f','f') = %u (want 255)\n", hex2byte('f', 'f'));
    printf("hex_to_uint8(\"ff\") = %u (want 255)\n", hex_to_uint8("ff"));
    printf("igris_atou32(\"ff\", 16) = %u (want 255)\n", (unsigned)igris_atou32("ff", 16, &e));
    bad |= hex2half('a') != 10 || hex2half('f') != 15 || hex2byte('f', 'f') != 255 || igris_atou32("ff", 16, &e) != 255;
    bad |= hex2half('A') != 10 || hex2half('F') != 15 || hex2half('0') != 0 || hex2half('9') != 9;
    return bad;
}
