/* C18_base64_decode_int_index: g++ -std=c++17 -O0 -I/repo base64_decode_int_index.cpp /repo/igris/util/base64.cpp && ./a.out
 * needs about 6 GiB of memory.  A text of 2^31 + 8 alphabet characters: `int in_` is incremented past INT_MAX.
 * While the defect is present the process dies (SIGSEGV: encoded_string[(size_t)(int)-2147483648] is far outside the string) or
 * returns a wrong length; exit 0 when repaired (1610612742 bytes decoded). */
#include <cstdio>
#include <string>
#include <igris/util/base64.h>
int main()
{
    std::string t((size_t)2147483648u + 8, 'A');
    std::string d = igris::base64_decode(t);
    size_t want = 6 * t.size() / 8;
    printf("decoded %zu bytes, want %zu\n", d.size(), want);
    return d.size() == want ? 0 : 1;
}
