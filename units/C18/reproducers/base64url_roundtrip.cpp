/* C18_base64url_decode_encodes: g++ -std=c++17 -I/repo base64url_roundtrip.cpp /repo/igris/util/base64.cpp && ./a.out
 * exit 1 while the defect is present, 0 when repaired */
#include <cstdio>
#include <string>
#include <igris/util/base64.h>
int main()
{
    int bad = 0;
    const std::string xs[] = {std::string(""), std::string("f"), std::string("fo"), std::string("foo"), std::string("foobar"),
                              std::string("\xfb\xff\xfe", 3), std::string("\x00\x01\xff", 3)};
    for (const std::string &x : xs)
    {
        std::string e = igris::base64url_encode(x);
        std::string d = igris::base64url_decode(e);
        std::string d2 = igris::base64_decode(igris::base64_encode(x));
        printf("x=%zu bytes  url-encoded=\"%s\"  url-decoded=%zu bytes %s   (plain base64 round trip %s)\n", x.size(), e.c_str(), d.size(),
               d == x ? "== x" : "!= x", d2 == x ? "ok" : "BROKEN");
        if (d != x || d2 != x)
            bad = 1;
        if (e.find('+') != std::string::npos || e.find('/') != std::string::npos)
            bad = 1;
    }
    printf("base64url_decode(\"Zm9v\") = \"%s\" (want \"foo\")\n", igris::base64url_decode("Zm9v").c_str());
    printf("base64url_decode(\"-_8=\") has %zu bytes (want 2: fb ff)\n", igris::base64url_decode("-_8=").size());
    if (igris::base64url_decode("-_8=") != std::string("\xfb\xff", 2))
        bad = 1;
    if (igris::base64url_decode("-_8") != std::string("\xfb\xff", 2)) /* unpadded form, common for url-safe base64 */
        bad = 1;
    return bad;
}
