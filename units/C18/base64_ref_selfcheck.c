/*@unit {
 'kind': 'proof', 'mode': 'plain',
 'functions': [],
 'params': {'PART': [0, 1, 2, 3, 4]},
 'clauses': 'about the REFERENCE only (spec/c18_base64_ref.h): PART=0 the textbook loop coder/decoder and the positional macros reproduce the test vectors of RFC 4648 '
            'section 10 ("", f, fo, foo, foob, fooba, foobar) and the +/ vs -_ vector FB FF; PART=1 positional encoder == loop encoder and positional decoder == '
            'loop decoder on every byte string / text of length 0..7 (both alphabets); PART=2 for EVERY length n and content: every character before '
            'SPEC_B64_NCHARS(n) is an alphabet character, the next one (if any) is the pad, SPEC_B64_DEC_LEN(SPEC_B64_NCHARS(n)) == n, and the positional decoder applied to the '
            'positional encoding returns byte j (reference round trip, the lemma that turns "encoder == reference" and "decoder == reference" into decode(encode(x)) == x); '
            'PART=3 / PART=4 the 24-bit-group notation SPEC_B64Q_* (sizes and positions as quotient and remainder, used by the loop invariants) equals the bit-position '
            'notation SPEC_B64_* for EVERY size and position: encoder (3) and decoder (4)',
 'unwind': 10, 'solver': 'cadical',
 'complete_unwinding': 'PART 0/1 are bounded by construction (strings of at most 7 bytes / 8 characters, all loops are reference loops); PART 2, 3, 4 are loop-free',
 'witness': {'unwind': 10},
} @*/
#include "vc.h"
#include <string.h>
#include "c18_base64_ref.h"

#if PART == 0
static void vector(const char *plain, size_t n, const char *text)
{
    char enc[16];
    uint8_t dec[16];
    size_t len = spec_b64_encode(0, (const uint8_t *)plain, n, enc);
    size_t tl = strlen(text);
    __CPROVER_assert(len == tl && len == SPEC_B64_ENC_LEN(n), "RFC vector: length");
    for (size_t k = 0; k < tl; k++) {
        __CPROVER_assert(enc[k] == text[k], "RFC vector: loop encoder");
        __CPROVER_assert(SPEC_B64_ENC_CHAR(0, plain, n, k) == text[k], "RFC vector: positional encoder");
    }
    size_t dl = spec_b64_decode(0, text, tl, dec);
    __CPROVER_assert(dl == n, "RFC vector: decoded length");
    for (size_t k = 0; k < n; k++) {
        __CPROVER_assert(dec[k] == (uint8_t)plain[k], "RFC vector: loop decoder");
        __CPROVER_assert(SPEC_B64_DEC_BYTE(0, text, k) == (uint8_t)plain[k], "RFC vector: positional decoder");
    }
}
#endif

void harness(void)
{
#if PART == 0
    vector("", 0, "");
    vector("f", 1, "Zg==");
    vector("fo", 2, "Zm8=");
    vector("foo", 3, "Zm9v");
    vector("foob", 4, "Zm9vYg==");
    vector("fooba", 5, "Zm9vYmE=");
    vector("foobar", 6, "Zm9vYmFy");
    {
        const uint8_t hi[2] = {0xFB, 0xFF};
        char e[8];
        __CPROVER_assert(spec_b64_encode(0, hi, 2, e) == 4 && e[0] == '+' && e[1] == '/' && e[2] == '8' && e[3] == '=', "FB FF -> +/8=");
        __CPROVER_assert(spec_b64_encode(1, hi, 2, e) == 4 && e[0] == '-' && e[1] == '_' && e[2] == '8' && e[3] == '=', "FB FF -> -_8= (url-safe)");
    }
#elif PART == 1
    WIT(size_t, n);
    WIT(size_t, len);
    WIT(_Bool, url);
    WIT(size_t, k);
    uint8_t x[7];
    char t[8];
    char enc[12];
    uint8_t dec[8];
    __CPROVER_assume(n <= 7 && len <= 8);
    size_t el = spec_b64_encode(url, x, n, enc);
    __CPROVER_assert(el == SPEC_B64_ENC_LEN(n), "positional length == loop encoder length");
    if (k < el)
        __CPROVER_assert(enc[k] == SPEC_B64_ENC_CHAR(url, x, n, k), "positional encoder == loop encoder");
    size_t m = 0;
    while (m < len && SPEC_B64_IS(url, t[m])) m++;
    size_t dl = spec_b64_decode(url, t, len, dec);
    __CPROVER_assert(dl == SPEC_B64_DEC_LEN(m), "positional decoded length == loop decoder length");
    if (k < dl)
        __CPROVER_assert(dec[k] == SPEC_B64_DEC_BYTE(url, t, k), "positional decoder == loop decoder");
#elif PART == 2
    WIT(size_t, n);
    WIT(size_t, j);
    WIT(size_t, k);
    WIT(_Bool, url);
    WIT_ARR(uint8_t, content, 6);
    __CPROVER_assume(n <= VC_MAXOBJ);
    uint8_t *x = NEW_OBJ(n);
    FILL(x, n, content);
    size_t m = SPEC_B64_NCHARS(n);
    __CPROVER_assert(m <= SPEC_B64_ENC_LEN(n) && SPEC_B64_ENC_LEN(n) - m <= 2, "at most two pads");
    __CPROVER_assert(SPEC_B64_DEC_LEN(m) == n, "the data characters of the encoding of n bytes decode to n bytes");
    if (k < SPEC_B64_ENC_LEN(n)) {
        char c = SPEC_B64_ENC_CHAR(url, x, n, k);
        __CPROVER_assert(k < m ? SPEC_B64_IS(url, c) : c == SPEC_B64_PAD, "data characters belong to the alphabet, the rest is the pad");
        __CPROVER_assert(!SPEC_B64_IS(url, SPEC_B64_PAD), "the pad is not an alphabet character");
    }
    if (j < n) {
        size_t i = SPEC_B64_DEC_IDX(j);
        __CPROVER_assert(i + 1 < m, "both groups of byte j are data characters");
        char c0 = SPEC_B64_ENC_CHAR(url, x, n, i), c1 = SPEC_B64_ENC_CHAR(url, x, n, i + 1);
        __CPROVER_assert(SPEC_B64_DEC_BYTE_OF(url, c0, c1, j) == x[j], "reference round trip: positional decoder inverts positional encoder");
    }
#elif PART == 3
    WIT(size_t, q);
    WIT(size_t, r);
    WIT(size_t, k);
    WIT(_Bool, url);
    WIT_ARR(uint8_t, content, 6);
    __CPROVER_assume(q <= VC_MAXOBJ / 3 && r < 3);
    size_t n = 3 * q + r;
    uint8_t *x = NEW_OBJ(n);
    FILL(x, n, content);
    __CPROVER_assert(SPEC_B64Q_ENC_LEN(q, r) == SPEC_B64_ENC_LEN(n), "group notation: text length");
    __CPROVER_assert(SPEC_B64Q_NDATA(q, r) == SPEC_B64_NCHARS(n), "group notation: number of data characters");
    if (k < SPEC_B64Q_ENC_LEN(q, r)) {
        __CPROVER_assert(SPEC_B64Q_IS_DATA_POS(q, r, k) == SPEC_B64_IS_DATA_POS(n, k), "group notation: data positions");
        __CPROVER_assert(SPEC_B64Q_ENC_CHAR(url, x, q, r, k) == SPEC_B64_ENC_CHAR(url, x, n, k), "group notation: character k");
    }
#else
    WIT(size_t, mq);
    WIT(size_t, mr);
    WIT(size_t, g);
    WIT(size_t, c);
    WIT(_Bool, url);
    WIT_ARR(char, content, 6);
    __CPROVER_assume(mq <= VC_MAXOBJ / 4 && mr < 4 && g <= VC_MAXOBJ / 3 && c < 3);
    size_t m = 4 * mq + mr;
    char *t = NEW_OBJ(m);
    FILL(t, m, content);
    size_t k = 3 * g + c;
    __CPROVER_assert(SPEC_B64Q_DEC_LEN(mq, mr) == SPEC_B64_DEC_LEN(m), "group notation: decoded length");
    __CPROVER_assert(SPEC_B64Q_IS_DEC_BYTE(mq, mr, g, c) == (k < SPEC_B64_DEC_LEN(m)), "group notation: byte positions");
    if (SPEC_B64Q_IS_DEC_BYTE(mq, mr, g, c))
        __CPROVER_assert(SPEC_B64Q_DEC_BYTE(url, t, mq, mr, g, c) == SPEC_B64_DEC_BYTE(url, t, k), "group notation: byte 3g+c");
#endif
    CANARY("base64 reference selfcheck end reachable");
}
