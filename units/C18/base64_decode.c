/*@unit {
 'kind': 'proof', 'mode': 'legacy',
 'functions': ['igris::base64_decode(const std::string&)', 'igris::is_base64'],
 'extract': 'units/C18/cxx_extract.py',
 'clauses': 'co-simulation with the RFC 4648 reference decoder (spec/c18_base64_ref.h, positional form) for EVERY text of length 0..INT_MAX and content: there is m (ghost output, the '
            'value of in_ when the scan stops) such that text[0..m) are alphabet characters and m == length or text[m] is the pad / a foreign character (m is the longest '
            'alphabet prefix); the result has exactly floor(6m/8) bytes and byte 3g+c is bits [16-8c, 24-8c) of the 24-bit group formed by the values of characters 4g..4g+3 '
            '(missing characters of the last group are zero bits: the lookup of the zero filler as the string terminator, index 65, is masked away); loop invariant: after 4j accepted '
            'characters exactly 3j bytes, each the reference byte (ghost index), up to 3 accepted characters buffered; reads only text[0..length) (exact-size object), text not '
            'modified; never appends beyond the reference length: with storage for floor(6*length/8) bytes no library call throws',
 'inject': [{'file': 'overlay:cxx/base64_cxx.c', 'func': 'base64_decode_str', 'loop': 0, 'expect': 'while (in_len--',
             'assigns': 'in_len, i, in_, __CPROVER_object_whole(char_array_4), __CPROVER_object_whole(char_array_3), ret.size, __CPROVER_object_whole(ret.p)',
             'invariants': ['0 <= in_ && (size_t)in_ <= g_len && in_len == g_len - (size_t)in_',
                            '0 <= i && i <= 3 && i == (in_ & 3)',
                            'ret.size == 3 * SPEC_B64_GRP(in_) && ret.size <= ret.cap',
                            'C18_IMP(i > 0, char_array_4[0] == (unsigned char)g_t[in_ - i] && SPEC_B64_IS(0, g_t[in_ - i]))',
                            'C18_IMP(i > 1, char_array_4[1] == (unsigned char)g_t[in_ - i + 1] && SPEC_B64_IS(0, g_t[in_ - i + 1]))',
                            'C18_IMP(i > 2, char_array_4[2] == (unsigned char)g_t[in_ - i + 2] && SPEC_B64_IS(0, g_t[in_ - i + 2]))',
                            'C18_IMP(g_p < (size_t)in_, SPEC_B64_IS(0, g_t[g_p]))',
                            'C18_IMP(g_dg < SPEC_B64_GRP(in_), (unsigned char)ret.p[3 * g_dg + g_dc] == SPEC_B64Q_DEC_BYTE(0, g_t, SPEC_B64_GRP(in_), 0, g_dg, g_dc))'],
             'decreases': 'in_len'},
            {'file': 'overlay:cxx/base64_cxx.c', 'func': 'base64_decode_str', 'ghost': 'g_m = (size_t)in_;', 'at': 'before', 'anchor': 'if (i)'}],
 'unwindset': ['base64_decode_str.0:5', 'base64_decode_str.1:4', 'base64_decode_str.3:4', 'base64_decode_str.4:5', 'base64_decode_str.5:3'],
 'unwind': 67, 'solver': 'cadical',
 'complete_unwinding': 'inner loops of base64_decode have fixed trip counts (4 lookups, 3 appends, at most 3 fillers, 4 lookups, at most 2 appends); strchr (cbmc library model, '
                       'ISO C 7.24.5.2) scans the 65-character constant base64_charset: at most 66 iterations; all with unwinding assertions',
 'trusted': ['libstdc++ std::string implements size / operator[] const / default construction / operator+=(char) as ISO C++ [basic.string] specifies (stub spec/c18_string_stub.h)',
             'host libc strchr and isalnum behave as ISO C specifies in the "C" locale (cbmc library models)'],
 'assumptions': ['length <= INT_MAX: the routine indexes the text with an int (longer texts: finding C18_base64_decode_int_index)',
                 'executions in which std::string cannot grow leave the function by an exception and are outside the property; the storage is arbitrary, and with '
                 'cap >= floor(6*length/8) a throw is a proof obligation (never happens)',
                 'base64_charset keeps its initial value (C18_RESTORE_STATICS, see unit base64_encode)',
                 'cxx2c rules listed in the evidence carry the C++ semantics over'],
 'kf': ['C18_base64_decode_int_index'],
 'witness': {'unwind': 67},
} @*/
#include "vc.h"
#include <limits.h>
#include "c18_base64_ref.h"
#define C18_IMP(a, b) (!(a) || (b))
const char *g_t;    /* ghost: the text */
size_t g_len;       /* ghost: its length */
size_t g_p;         /* ghost index into the text: arbitrary */
size_t g_dg, g_dc;  /* ghost index of a decoded byte: group and byte inside the group, arbitrary */
size_t g_m;         /* ghost out: number of characters the routine consumed */
#include "cxx/base64_cxx.c"

void harness(void)
{
    WIT(size_t, lq);
    WIT(size_t, lr);
    WIT(size_t, cap);
    WIT(size_t, p);
    WIT(size_t, g);
    WIT(size_t, c);
    WIT_ARR(char, content, 6);
    __CPROVER_assume(lq <= VC_MAXOBJ / 4 && lr < 4 && cap <= VC_MAXOBJ && g <= VC_MAXOBJ / 4 && c < 3);
    size_t len = 4 * lq + lr;  /* every length, given as quotient and remainder by 4 */
    /* known finding (genuine defect, see findings.json): the text is indexed with an int */
    __CPROVER_assume(KF_C18_base64_decode_int_index == 0 ? 1 : KF_C18_base64_decode_int_index == 1 ? len <= INT_MAX : len > INT_MAX);
    char *t = NEW_OBJ(len);    /* exact size: a read outside text[0..length) fails */
    FILL(t, len, content);
    struct vc_string arg;      /* a std::string whose characters are t[0..len) */
    arg.p = t; arg.size = len; arg.cap = len; arg.g_iter = 0;
    C18_RESTORE_STATICS();
    g_vc_string_cap = cap;     /* arbitrary storage */
    g_vc_string_nothrow = cap >= SPEC_B64Q_DEC_LEN(lq, lr);
    g_t = t; g_len = len; g_p = p; g_dg = g; g_dc = c;
    char t_p = p < len ? t[p] : 0;

    struct vc_string res = base64_decode_str(&arg);

    size_t m = g_m, mq = SPEC_B64_GRP(m), mr = SPEC_B64_POS(m); /* m == 4*mq + mr */
    __CPROVER_assert(m <= len && (m == len || !SPEC_B64_IS(0, t[m])), "the scan stops at the end, at the pad or at a foreign character");
    __CPROVER_assert(!(p < m) || SPEC_B64_IS(0, t[p]), "every character before the stop is an alphabet character (m is the longest alphabet prefix)");
    __CPROVER_assert(res.size == SPEC_B64Q_DEC_LEN(mq, mr), "length is floor(6m/8)");
    if (SPEC_B64Q_IS_DEC_BYTE(mq, mr, g, c))
        __CPROVER_assert((unsigned char)res.p[3 * g + c] == SPEC_B64Q_DEC_BYTE(0, t, mq, mr, g, c), "byte 3g+c equals the reference decoder's byte");
    __CPROVER_assert(!(p < len) || t[p] == t_p, "text not modified");
    CANARY("base64_decode harness end reachable");
}
