/*@unit {
 'kind': 'proof', 'mode': 'dfcc',
 'functions': ['hexascii_encode', 'hexascii_decode'],
 'replace': ['hexascii_encode', 'hexascii_decode'],
 'clauses': 'round-trip lemma over the two CONTRACTS (proved against the real loops by units hexascii_encode and hexascii_decode): for every byte string x of '
            'size 0..INT_MAX/2, hexascii_decode(hexascii_encode(x), 2*size) == x; byte j of the result is obtained by instantiating both ghost indices with j; '
            'the decoder\'s precondition and alphabet condition are discharged from the encoder\'s postcondition (the decoder accepts everything the encoder produces)',
 'assumptions': ['2*size <= INT_MAX: the text length is passed to hexascii_decode as an int'],
 'witness': {'unwind': 8},
} @*/
#include "vc.h"
#include <limits.h>
#include "c18_hexascii_contracts.h"
#ifdef REPLAY
#include "igris/util/hexascii.c"      /* native runs call the real routines (under cbmc they are used through their contracts) */
#endif

void harness(void)
{
    WIT(int, size);
    WIT(size_t, j);
    WIT_ARR(uint8_t, content, 6);
    __CPROVER_assume(size >= 0 && size <= INT_MAX / 2 && (size_t)size <= VC_MAXOBJ / 2);
    uint8_t *x = NEW_OBJ((size_t)size);
    FILL(x, (size_t)size, content);
    uint8_t *text = NEW_OBJ(2 * (size_t)size);
    uint8_t *back = NEW_OBJ((size_t)size);
    g_hexenc_j = j;
    g_hexdec_j = j;

    hexascii_encode(x, size, text);
    hexascii_decode(text, 2 * size, back);

    if (j < (size_t)size)
        __CPROVER_assert(back[j] == x[j], "decode(encode(x)) == x (arbitrary byte)");
    CANARY("hexascii round trip end reachable");
}
