/*@unit {
 'kind': 'proof', 'mode': 'legacy',
 'functions': ['igris::hexascii_encode(const uint8_t*, size_t)', 'igris::hexascii_encode(const std::string&)', 'half2hex'],
 'extract': 'units/C18/cxx_extract.py',
 'clauses': 'igris::hexascii_encode over std::string (C++ source extracted mechanically, std::string operations by spec/c18_string_stub.h): for every size and content the result '
            'has size() == 2*size, characters 2j and 2j+1 are the upper-case hex digits of the high and low nibble of byte j (same clause C18_HEXENC_AT as the C routine); '
            'the loop writes through a raw pointer into the string: storage of exactly size() bytes, so any write outside [&ret[0], &ret[0]+size()) fails; reads only indata[0..size); '
            'VIA=1: the std::string overload forwards data()/size() of its argument',
 'params': {'VIA': [0, 1]},
 'inject': [{'file': 'overlay:cxx/hexascii_string_cxx.c', 'func': 'igris_hexascii_encode', 'loop': 0, 'expect': 'it != eit',
             'assigns': 'it, oit, __CPROVER_object_whole(ret.p)',
             'invariants': ['__CPROVER_same_object(it, indata) && __CPROVER_POINTER_OFFSET(it) >= 0 && (size_t)__CPROVER_POINTER_OFFSET(it) <= size',
                            '__CPROVER_same_object(oit, ret.p) && __CPROVER_POINTER_OFFSET(oit) == 2 * __CPROVER_POINTER_OFFSET(it)',
                            'C18_IMP(g_hexenc_j < (size_t)__CPROVER_POINTER_OFFSET(it), C18_HEXENC_AT(indata, ret.p, g_hexenc_j))'],
             'decreases': 'size - (size_t)__CPROVER_POINTER_OFFSET(it)'}],
 'trusted': ['libstdc++ std::string implements default construction / resize / operator[] / data / size as ISO C++ [basic.string] specifies (stub spec/c18_string_stub.h)'],
 'assumptions': ['indata is passed by its base address (the loop invariant speaks in object offsets)',
                 'resize throwing (length_error / bad_alloc) leaves the function by an exception: outside the property',
                 'cxx2c rules listed in the evidence carry the C++ semantics over (std::string operations -> stub calls, return by value -> struct copy)'],
 'witness': {'unwind': 8},
} @*/
#include "vc.h"
#include "c18_hexascii_contracts.h"
#include "cxx/hexascii_string_cxx.c"

void harness(void)
{
    WIT(size_t, n);
    WIT(size_t, j);
    WIT_ARR(uint8_t, content, 6);
    __CPROVER_assume(n <= VC_MAXOBJ);
    uint8_t *x = NEW_OBJ(n); /* exact size: a read outside indata[0..size) fails */
    FILL(x, n, content);
    g_vc_string_cap = 0;     /* the default-constructed string is only resized: no spare storage */
    g_vc_string_nothrow = 1; /* 2*n <= PTRDIFF_MAX: resize must not throw */
    g_hexenc_j = j;
    uint8_t x_j = j < n ? x[j] : 0;
#if VIA == 0
    struct vc_string res = igris_hexascii_encode(x, n);
#else
    struct vc_string arg;    /* a std::string whose characters are x[0..n) */
    arg.p = (char *)x; arg.size = n; arg.cap = n; arg.g_iter = 0;
    struct vc_string res = igris_hexascii_encode_str(&arg);
#endif
    __CPROVER_assert(res.size == 2 * n, "size() == 2*n");
    __CPROVER_assert(res.cap == res.size, "storage is exactly size() bytes (no out-of-range write can hide)");
    if (j < n) {
        __CPROVER_assert(C18_HEXENC_AT(x, res.p, j), "characters 2j, 2j+1 are the hex digits of byte j");
        __CPROVER_assert(SPEC_IS_HEXUP(res.p[2 * j]) && SPEC_IS_HEXUP(res.p[2 * j + 1]), "only the alphabet 0-9A-F");
        __CPROVER_assert(x[j] == x_j, "input not modified");
    }
    CANARY("igris::hexascii_encode harness end reachable");
}
