// Bounded native run of the REAL C++ string codecs (igris/util/base64.cpp, igris/string/hexascii_string.cpp - not the extraction) against
// reference encoders written from RFC 4648 / the hexascii definition, under ASan/UBSan.  Stands in when a changed function is outside the
// extractor's dialect (bounded stand-in, never counted as proved).
// Bound: every byte string of length 0..4 over the alphabet {00, 01, 3E, 3F, 41, F8, FF} (2801 strings: covers NUL bytes, the 6-bit groups 62/63
// that map to '+' '/' resp. '-' '_', all three padding lengths).
// C18 clauses: encoded text == reference text (length and characters) for every overload; decode(encode(x)) == x for base64 and url-safe base64.
#include <igris/util/base64.h>
#include <igris/string/hexascii_string.h>
#include <igris/buffer.h>
#include <cstdio>
#include <cstdint>
#include <string>

static int fails;
static void fail(const char *what, const std::string &in)
{
    if (fails++ < 5) { std::printf("FAIL: %s, input", what); for (unsigned char c : in) std::printf(" %02X", c); std::printf(" (%zu bytes)\n", in.size()); }
}
static std::string ref_b64(const std::string &in, const char *tab)
{
    std::string out; size_t i = 0;
    for (; i + 2 < in.size(); i += 3) {
        uint32_t v = (uint8_t)in[i] << 16 | (uint8_t)in[i + 1] << 8 | (uint8_t)in[i + 2];
        out += tab[v >> 18]; out += tab[(v >> 12) & 63]; out += tab[(v >> 6) & 63]; out += tab[v & 63];
    }
    if (in.size() - i == 1) { uint32_t v = (uint8_t)in[i] << 16; out += tab[v >> 18]; out += tab[(v >> 12) & 63]; out += "=="; }
    if (in.size() - i == 2) { uint32_t v = (uint8_t)in[i] << 16 | (uint8_t)in[i + 1] << 8; out += tab[v >> 18]; out += tab[(v >> 12) & 63]; out += tab[(v >> 6) & 63]; out += '='; }
    return out;
}
static std::string ref_hex(const std::string &in)
{
    static const char d[] = "0123456789ABCDEF"; std::string out;
    for (unsigned char c : in) { out += d[c >> 4]; out += d[c & 15]; }
    return out;
}
int main()
{
    static const unsigned char al[] = {0x00, 0x01, 0x3E, 0x3F, 0x41, 0xF8, 0xFF};
    static const char *STD = "ABCDEFGHIJKLMNOPQRSTUVWXYZabcdefghijklmnopqrstuvwxyz0123456789+/";
    static const char *URL = "ABCDEFGHIJKLMNOPQRSTUVWXYZabcdefghijklmnopqrstuvwxyz0123456789-_";
    long n = 0;
    for (int len = 0; len <= 4; len++) {
        int total = 1; for (int k = 0; k < len; k++) total *= 7;
        for (int code = 0; code < total; code++, n++) {
            std::string in; int c = code;
            for (int k = 0; k < len; k++, c /= 7) in += (char)al[c % 7];
            const uint8_t *p = (const uint8_t *)in.data();
            std::string e1 = igris::base64_encode(p, in.size()), e2 = igris::base64_encode(in);
            if (e1 != ref_b64(in, STD) || e2 != e1) fail("base64_encode differs from RFC 4648", in);
            if (igris::base64_decode(ref_b64(in, STD)) != in) fail("base64_decode(reference text) != input", in);
            std::string u1 = igris::base64url_encode(p, in.size()), u2 = igris::base64url_encode(in);
            if (u1 != ref_b64(in, URL) || u2 != u1) fail("base64url_encode differs from RFC 4648 section 5", in);
            if (igris::base64url_decode(ref_b64(in, URL)) != in) fail("base64url_decode(reference text) != input", in);
            std::string h1 = igris::hexascii_encode(p, in.size()), h2 = igris::hexascii_encode(in), h3 = igris::hexascii_encode(igris::buffer(in.data(), in.size()));
            if (h1 != ref_hex(in)) fail("hexascii_encode(pointer, size) differs from the reference", in);
            if (h2 != ref_hex(in)) fail("hexascii_encode(std::string) differs from the reference", in);
            if (h3 != ref_hex(in)) fail("hexascii_encode(igris::buffer) differs from the reference", in);
        }
    }
    if (fails) { std::printf("%d clause violations (first shown) over %ld inputs\n", fails, n); return 1; }
    std::printf("ok: %ld inputs\n", n);
    return 0;
}
