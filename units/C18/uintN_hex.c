/*@unit {
 'kind': 'proof', 'mode': 'plain',
 'functions': ['uint8_to_hex', 'uint16_to_hex', 'uint32_to_hex', 'uint64_to_hex',
               'hex_to_uint8', 'hex_to_uint16', 'hex_to_uint32', 'hex_to_uint64', 'HIHALF', 'LOHALF'],
 'params': {'W': [8, 16, 32, 64]},
 'clauses': 'for N = W and EVERY N-bit value v (fully symbolic): uintN_to_hex writes exactly N/4 characters into an exact-size object, character k is the '
            'upper-case hex digit of bits [N-4-4k, N-4k) of v (big-endian text, alphabet 0-9A-F only); hex_to_uintN(uintN_to_hex(v)) == v; '
            'for EVERY text t of N/4 alphabet characters hex_to_uintN(t) is its big-endian value, reads exactly t[0..N/4), and uintN_to_hex(hex_to_uintN(t)) == t',
 'unwind': 17,
 'complete_unwinding': 'the only loops are harness/spec loops over the N/4 <= 16 characters of the fixed-width text; the functions under proof are loop-free',
 'assumptions': ['little-endian host (cbmc x86_64 model): igris/util/access.h selects the byte lanes by __BYTE_ORDER__; the big-endian branch is not compiled',
                 'second direction: the text consists of alphabet characters 0-9A-F (the range of the encoder; lower case is finding C18_hex2half_lowercase)'],
 'witness': {'unwind': 17},
} @*/
#include "vc.h"
#include <igris/util/hexascii.h>
#include "c18_hex_ref.h"

#if W == 8
typedef uint8_t T;
#define TO_HEX uint8_to_hex
#define FROM_HEX hex_to_uint8
#elif W == 16
typedef uint16_t T;
#define TO_HEX uint16_to_hex
#define FROM_HEX hex_to_uint16
#elif W == 32
typedef uint32_t T;
#define TO_HEX uint32_to_hex
#define FROM_HEX hex_to_uint32
#else
typedef uint64_t T;
#define TO_HEX uint64_to_hex
#define FROM_HEX hex_to_uint64
#endif
#define NCH (W / 4)

void harness(void)
{
    WIT(uint64_t, val);
    WIT(size_t, k);
    WIT_ARR(char, content, 16);
    T v = (T)val;
    __CPROVER_assume(k < NCH);

    /* value -> text -> value */
    char *txt = NEW_OBJ(NCH); /* exact size: a write outside txt[0..N/4) fails */
    TO_HEX(txt, v);
    __CPROVER_assert(txt[k] == SPEC_HEX_CHAR(v, NCH, k), "character k is the upper-case hex digit of the k-th nibble from the top (big-endian text)");
    __CPROVER_assert(SPEC_IS_HEXUP(txt[k]), "only the alphabet 0-9A-F");
    __CPROVER_assert(FROM_HEX(txt) == v, "hex_to_uintN(uintN_to_hex(v)) == v");

    /* text -> value -> text, on the encoder's range */
    char *t = NEW_OBJ(NCH); /* exact size: a read outside t[0..N/4) fails */
    FILL(t, (size_t)NCH, content);
    uint64_t want = 0;
    for (size_t i = 0; i < NCH; i++) {
        __CPROVER_assume(SPEC_IS_HEXUP(t[i]));
        want = want * 16 + SPEC_HEXVAL(t[i]); /* positional value, most significant digit first */
    }
    char old_k = t[k];
    T got = FROM_HEX(t);
    __CPROVER_assert(got == (T)want, "hex_to_uintN(t) is the big-endian value of the text");
    __CPROVER_assert(t[k] == old_k, "hex_to_uintN does not modify the text");
    char *back = NEW_OBJ(NCH);
    TO_HEX(back, got);
    __CPROVER_assert(back[k] == t[k], "uintN_to_hex(hex_to_uintN(t)) == t");
    CANARY("uintN_hex end reachable");
}
