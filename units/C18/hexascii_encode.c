/*@unit {
 'kind': 'proof', 'mode': 'legacy',
 'functions': ['hexascii_encode', 'half2hex'],
 'clauses': 'for every size >= 0 and content: exactly 2*size characters are written, characters 2j and 2j+1 are the upper-case hex digits of the '
            'high and low nibble of byte j (hence only the alphabet 0-9A-F); reads only indata[0..size), writes only out[0..2*size) '
            '(exact-size objects when tail == 0, every other byte of a larger output object unchanged), the input is not modified; size == 0 included',
 'inject': [{'file': 'igris/util/hexascii.c', 'func': 'hexascii_encode', 'loop': 0, 'expect': 'it != eit',
             'assigns': 'it, oit, __CPROVER_object_whole(out)',
             'invariants': ['__CPROVER_same_object(it, data) && __CPROVER_POINTER_OFFSET(it) >= 0 && __CPROVER_POINTER_OFFSET(it) <= size',
                            '__CPROVER_same_object(oit, out) && __CPROVER_POINTER_OFFSET(oit) == 2 * __CPROVER_POINTER_OFFSET(it)',
                            'C18_IMP(g_hexenc_j < (size_t)__CPROVER_POINTER_OFFSET(it), C18_HEXENC_AT(data, out, g_hexenc_j))',
                            '*g_fp == g_fv'],
             'decreases': 'size - __CPROVER_POINTER_OFFSET(it)'}],
 'assumptions': ['size >= 0 (a byte count; a negative size makes the end pointer precede the begin pointer, no caller does that)',
                 'indata and out are distinct objects, both passed by their base address (the loop invariant speaks in object offsets)'],
 'witness': {'unwind': 8},
} @*/
#include "vc.h"
#include <limits.h>
#include "c18_hexascii_contracts.h"
const uint8_t *g_fp; uint8_t g_fv; /* ghost frame byte: a byte of the output object outside out[0..2*size) */
#define hexascii_encode vc_hexascii_encode
#define hexascii_decode vc_hexascii_decode
#include "igris/util/hexascii.c"
#undef hexascii_encode
#undef hexascii_decode

void harness(void)
{
    WIT(int, size);
    WIT(size_t, tail);
    WIT(size_t, j);
    WIT(size_t, f);
    WIT_ARR(uint8_t, content, 6);
    WIT_ARR(uint8_t, junk, 6);
    __CPROVER_assume(size >= 0 && (size_t)size <= VC_MAXOBJ && tail <= 4);
    uint8_t *in = NEW_OBJ((size_t)size);                  /* exact size: a read outside in[0..size) fails */
    FILL(in, (size_t)size, content);
    size_t osize = 2 * (size_t)size + tail;               /* tail == 0: exact size, a write outside out[0..2*size) fails */
    uint8_t *obase = NEW_OBJ(osize);
    FILL(obase, osize, junk);
    uint8_t dummy = 0;
    if (tail > 0) {                                       /* tail > 0: an arbitrary byte behind the text is the frame byte */
        __CPROVER_assume(f >= 2 * (size_t)size && f < osize);
        g_fp = obase + f;
    } else
        g_fp = &dummy;
    g_fv = *g_fp;
    g_hexenc_j = j;
    uint8_t in_j = j < (size_t)size ? in[j] : 0;
    __CPROVER_assert(C18_HEXENC_PRE(in, size, obase), "harness state satisfies the contract precondition");

    vc_hexascii_encode(in, size, obase);

    __CPROVER_assert(C18_HEXENC_POST(in, size, obase), "hexascii_encode: contract postcondition (characters 2j, 2j+1 are the hex digits of byte j)");
    if (j < (size_t)size) {
        __CPROVER_assert(SPEC_IS_HEXUP(obase[2 * j]) && SPEC_IS_HEXUP(obase[2 * j + 1]), "hexascii_encode: only the alphabet 0-9A-F");
        __CPROVER_assert(in[j] == in_j, "hexascii_encode: input not modified");
    }
    __CPROVER_assert(*g_fp == g_fv, "hexascii_encode: bytes of the output object beyond out[0..2*size) unchanged (length is exactly 2*size)");
    CANARY("hexascii_encode harness end reachable");
}
