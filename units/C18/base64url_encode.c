/*@unit {
 'kind': 'proof', 'mode': 'legacy',
 'functions': ['igris::base64url_encode(const uint8_t*, size_t)', 'igris::base64_encode(const uint8_t*, size_t)'],
 'extract': 'units/C18/cxx_extract.py',
 'params': {'R': [0, 1, 2]},
 'clauses': 'for every size = 3q + R and content: base64url_encode returns exactly 4*ceil(size/3) characters, character k is the RFC 4648 Table 2 (url-safe: - and _ for 62 and 63) '
            'character of the k-th 6-bit group, or the pad; neither + nor / occurs; the substitution loop walks [begin(), end()) of the string only (iterators are raw pointers into '
            'storage of arbitrary capacity >= size()); reads only indata[0..size); both loops (base64_encode grouping loop, substitution loop) under loop contracts',
 'inject': [{'file': 'overlay:cxx/base64_cxx.c', 'func': 'base64_encode', 'loop': 0, 'expect': 'while (remaining >= 3)',
             'assigns': 'remaining, dp, g_j, outdata.size, __CPROVER_object_whole(outdata.p)',
             'invariants': ['g_j <= g_q && remaining == 3 * (g_q - g_j) + g_r',
                            '__CPROVER_same_object(dp, indata) && __CPROVER_POINTER_OFFSET(dp) >= 0 && (size_t)__CPROVER_POINTER_OFFSET(dp) == 3 * g_j',
                            'outdata.size == 4 * g_j && outdata.size <= outdata.cap',
                            'C18_IMP(g_k < outdata.size, outdata.p[g_k] == SPEC_B64Q_ENC_CHAR(0, indata, g_q, g_r, g_k))'],
             'decreases': 'remaining'},
            {'file': 'overlay:cxx/base64_cxx.c', 'func': 'base64_encode', 'ghost': 'g_j++;', 'at': 'body-end', 'loop': 0},
            {'file': 'overlay:cxx/base64_cxx.c', 'func': 'base64url_encode', 'loop': 0, 'expect': 'it != eit',
             'assigns': 'it, __CPROVER_object_whole(ret.p)',
             'invariants': ['__CPROVER_same_object(it, ret.p) && __CPROVER_POINTER_OFFSET(it) >= 0 && (size_t)__CPROVER_POINTER_OFFSET(it) <= ret.size',
                            'C18_IMP(g_k < ret.size, ret.p[g_k] == SPEC_B64Q_ENC_CHAR(g_k < (size_t)__CPROVER_POINTER_OFFSET(it), indata, g_q, g_r, g_k))'],
             'decreases': 'ret.size - (size_t)__CPROVER_POINTER_OFFSET(it)'}],
 'trusted': ['libstdc++ std::string implements reserve / push_back / default construction as ISO C++ [basic.string] specifies (stub spec/c18_string_stub.h)'],
 'assumptions': ['indata is passed by its base address (the loop invariant speaks in object offsets)',
                 'executions in which std::string cannot grow (length_error / bad_alloc) leave the function by an exception and are outside the property; '
                 'the storage g_vc_string_cap is arbitrary, and with cap >= 4*ceil(size/3) a throw is a proof obligation (never happens)',
                 'base64_charset keeps its initial value (mutable static pointer never written by base64.cpp; re-established by C18_RESTORE_STATICS because '
                 'goto-instrument --apply-loop-contracts havocs mutable statics)',
                 'cxx2c rules listed in the evidence carry the C++ semantics over (std::string operations -> stub calls, return by value -> struct copy)'],
 'timeout': 600,
 'witness': {'unwind': 8},
} @*/
#include "vc.h"
#include "c18_base64_ref.h"
#define C18_IMP(a, b) (!(a) || (b))
size_t g_j;      /* ghost: number of complete 3-byte groups encoded so far */
size_t g_q, g_r; /* ghost: size == 3 * g_q + g_r, g_r < 3 (the harness builds the size that way: no 64-bit division in the proof) */
size_t g_k;      /* ghost index: arbitrary, so a statement about character g_k is a statement about every character */
#include "cxx/base64_cxx.c"

void harness(void)
{
    WIT(size_t, q);
    size_t r = R;            /* one run per residue of the size modulo 3 (no tail, 1-byte tail, 2-byte tail) */
    WIT(size_t, cap);
    WIT(size_t, k);
    WIT(size_t, j);
    WIT_ARR(uint8_t, content, 6);
    __CPROVER_assume(q <= VC_MAXOBJ / 3 && cap <= 2 * VC_MAXOBJ);
    size_t n = 3 * q + r;    /* every size 0..VC_MAXOBJ, given as quotient and remainder by 3 */
    uint8_t *x = NEW_OBJ(n); /* exact size: a read outside indata[0..size) fails */
    FILL(x, n, content);
    C18_RESTORE_STATICS();   /* initial value of the never-written static pointer base64_charset, see cxx_extract.py */
    g_vc_string_cap = cap;   /* arbitrary storage; exactly the specified length is one of the cases */
    g_vc_string_nothrow = cap >= SPEC_B64Q_ENC_LEN(q, r);
    g_k = k;
    g_j = 0; g_q = q; g_r = r;
    uint8_t x_j = j < n ? x[j] : 0;

    struct vc_string res = base64url_encode(x, n);

    __CPROVER_assert(res.size == SPEC_B64Q_ENC_LEN(q, r), "length is 4*ceil(n/3)");
    if (k < res.size) {
        __CPROVER_assert(res.p[k] == SPEC_B64Q_ENC_CHAR(1, x, q, r, k), "character k is the RFC 4648 url-safe (Table 2) character of its 6-bit group, or the pad");
        __CPROVER_assert(SPEC_B64_IS(1, res.p[k]) || res.p[k] == SPEC_B64_PAD, "only RFC 4648 Table 2 letters (- and _, neither + nor /) and =");
        __CPROVER_assert((res.p[k] == SPEC_B64_PAD) == (k >= SPEC_B64Q_NDATA(q, r)), "pads exactly behind the ceil(8n/6) data characters");
    }
    __CPROVER_assert(!(j < n) || x[j] == x_j, "input not modified");
    CANARY("base64url_encode harness end reachable");
}
