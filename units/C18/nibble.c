/*@unit {
 'kind': 'proof', 'mode': 'plain',
 'functions': ['half2hex', 'hex2half', 'hex2byte'],
 'clauses': 'full domain, loop-free: half2hex(n) for n in 0..15 is the n-th character of "0123456789ABCDEF" (upper-case alphabet only); '
            'hex2half(half2hex(n)) == n; half2hex(hex2half(c)) == c for every alphabet character c; '
            'hex2byte(half2hex(b >> 4), half2hex(b & 15)) == b for every byte b; hex2byte(hi, lo) == 16*value(hi) + value(lo) for every pair of alphabet characters',
 'witness': {'unwind': 2},
} @*/
#include "vc.h"
#include <igris/util/hexascii.h>
#include "c18_hex_ref.h"

void harness(void)
{
    WIT(uint8_t, n);
    WIT(uint8_t, b);
    WIT(char, c);
    WIT(char, d);

    if (n < 16) {
        char h = half2hex(n);
        __CPROVER_assert(h == SPEC_HEX_ALPHABET[n], "half2hex(n) is the n-th character of 0123456789ABCDEF");
        __CPROVER_assert(SPEC_IS_HEXUP(h), "half2hex produces only 0-9A-F");
        __CPROVER_assert(hex2half(h) == n, "hex2half(half2hex(n)) == n");
    }
    if (SPEC_IS_HEXUP(c)) {
        __CPROVER_assert(hex2half(c) == SPEC_HEXVAL(c), "hex2half(c) is the digit value of the upper-case hex digit c");
        __CPROVER_assert(hex2half(c) < 16 && half2hex(hex2half(c)) == c, "half2hex(hex2half(c)) == c on the alphabet");
    }
    __CPROVER_assert(hex2byte(half2hex((uint8_t)(b >> 4)), half2hex((uint8_t)(b & 15))) == b, "hex2byte(half2hex(hi), half2hex(lo)) == byte");
    if (SPEC_IS_HEXUP(c) && SPEC_IS_HEXUP(d))
        __CPROVER_assert(hex2byte(c, d) == 16 * SPEC_HEXVAL(c) + SPEC_HEXVAL(d), "hex2byte(hi, lo) == 16*value(hi) + value(lo)");
    CANARY("nibble harness end reachable");
}
