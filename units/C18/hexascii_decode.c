/*@unit {
 'kind': 'proof', 'mode': 'legacy',
 'functions': ['hexascii_decode', 'hex2byte', 'hex2half'],
 'clauses': 'for EVERY int size and content: exactly floor(size/2) bytes are written (none for size <= 1, a trailing odd character is ignored), '
            'byte j is 16*value(text[2j]) + value(text[2j+1]) whenever both characters belong to the alphabet 0-9A-F; reads only indata[0..2*floor(size/2)), '
            'writes only out[0..size/2) (exact-size objects when tail == 0, every other byte of a larger output object unchanged), the text is not modified',
 'inject': [{'file': 'igris/util/hexascii.c', 'func': 'hexascii_decode', 'loop': 0, 'expect': 'it != eit',
             'assigns': 'it, oit, __CPROVER_object_whole(out)',
             'invariants': ['__CPROVER_same_object(it, data) && __CPROVER_POINTER_OFFSET(it) >= 0 && __CPROVER_POINTER_OFFSET(it) <= size && __CPROVER_POINTER_OFFSET(it) % 2 == 0',
                            '__CPROVER_same_object(oit, out) && 2 * __CPROVER_POINTER_OFFSET(oit) == __CPROVER_POINTER_OFFSET(it)',
                            'C18_IMP(g_hexdec_j < (size_t)__CPROVER_POINTER_OFFSET(oit), C18_HEXDEC_AT(data, out, g_hexdec_j))',
                            '*g_fp == g_fv'],
             'decreases': 'size - __CPROVER_POINTER_OFFSET(it)'}],
 'assumptions': ['indata and out are distinct objects, both passed by their base address (the loop invariant speaks in object offsets)',
                 'characters outside 0-9A-F: only memory safety and length are claimed (value clause is conditional on the alphabet; lower case is finding C18_hex2half_lowercase)'],
 'witness': {'unwind': 8},
} @*/
#include "vc.h"
#include <limits.h>
#include "c18_hexascii_contracts.h"
const uint8_t *g_fp; uint8_t g_fv; /* ghost frame byte: a byte of the output object outside out[0..size/2) */
#define hexascii_encode vc_hexascii_encode
#define hexascii_decode vc_hexascii_decode
#include "igris/util/hexascii.c"
#undef hexascii_encode
#undef hexascii_decode

void harness(void)
{
    WIT(int, size);
    WIT(size_t, tail);
    WIT(size_t, j);
    WIT(size_t, f);
    WIT_ARR(uint8_t, content, 6);
    WIT_ARR(uint8_t, junk, 6);
    __CPROVER_assume(size <= 0 || (size_t)size <= VC_MAXOBJ);
    __CPROVER_assume(tail <= 4);
    size_t nb = C18_HEXDEC_NBYTES(size);
    uint8_t *in = NEW_OBJ(2 * nb);                        /* exact size: a read outside in[0..2*floor(size/2)) fails */
    FILL(in, 2 * nb, content);
    size_t osize = nb + tail;                             /* tail == 0: exact size, a write outside out[0..size/2) fails */
    uint8_t *obase = NEW_OBJ(osize);
    FILL(obase, osize, junk);
    uint8_t dummy = 0;
    if (tail > 0) {                                       /* tail > 0: an arbitrary byte behind the result is the frame byte */
        __CPROVER_assume(f >= nb && f < osize);
        g_fp = obase + f;
    } else
        g_fp = &dummy;
    g_fv = *g_fp;
    g_hexdec_j = j;
    uint8_t hi = j < nb ? in[2 * j] : 0, lo = j < nb ? in[2 * j + 1] : 0;
    __CPROVER_assert(C18_HEXDEC_PRE(in, size, obase), "harness state satisfies the contract precondition");

    vc_hexascii_decode(in, size, obase);

    __CPROVER_assert(C18_HEXDEC_POST(in, size, obase), "hexascii_decode: contract postcondition (byte j is the value of characters 2j, 2j+1)");
    if (j < nb)
        __CPROVER_assert(in[2 * j] == hi && in[2 * j + 1] == lo, "hexascii_decode: text not modified");
    __CPROVER_assert(*g_fp == g_fv, "hexascii_decode: bytes of the output object beyond out[0..size/2) unchanged (length is exactly floor(size/2))");
    CANARY("hexascii_decode harness end reachable");
}
