/*@unit {
 'kind': 'proof', 'mode': 'legacy',
 'functions': ['strcpy'],
 'clauses': 'ISO 7.24.2.3 strcpy: copies the string src including its terminator to dest, returns dest; every other byte of the destination object (before dest, after the copied terminator) is unchanged; src is intact; reads nothing after the terminator of src. Proves contract C08_STRCPY_* of c08_string.h. Operands: distinct objects (SAME=0), or adjacent disjoint ranges of one object in either order (SAME=1,2)',
 'inject': [{'file': 'compat/libc/string/strcpy.c', 'func': 'strcpy', 'ghost': 'g_src0 = src;', 'at': 'func-begin'},
            {'file': 'compat/libc/string/strcpy.c', 'func': 'strcpy', 'loop': 0, 'expect': 'while ((*cp++ = *src++))',
             'assigns': 'cp, src, __CPROVER_object_whole(dest)',
             'invariants': ['__CPROVER_same_object(cp, dest) && __CPROVER_same_object(src, g_src0)',
                            'C08_IDX(cp, dest) == C08_IDX(src, g_src0) && C08_IDX(cp, dest) <= g_strcpy_L',
                            'C08_IMP(g_strcpy_k < C08_IDX(cp, dest), g_strcpy_v != 0 && dest[g_strcpy_k] == g_strcpy_v)',
                            'C08_IMP(g_strcpy_k <= g_strcpy_L, g_src0[g_strcpy_k] == g_strcpy_v) && g_src0[g_strcpy_L] == 0',
                            'C08_IMP(C08_IDX(cp, dest) <= g_strcpy_k && g_strcpy_k <= g_strcpy_L, dest[g_strcpy_k] == g_strcpy_dv)',
                            'C08_IMP(!(g_fin), *g_fp == g_fv)'],
             'decreases': 'g_strcpy_L - C08_IDX(cp, dest)'},
            {'file': 'compat/libc/string/strcpy.c', 'func': 'strcpy', 'ghost': 'g_strcpy_len = C08_IDX(cp, dest) - 1;', 'at': 'before', 'anchor': 'return dest;'}],
 'ghost_calls': ['C08_IDX'],
 'params': {'C08_FIXOFF': [0], 'SAME': [0, 1, 2]}, 'params_thorough': {'C08_FIXOFF': [0, 3], 'SAME': [0, 1, 2]},
 'witness': {'unwind': 8},
} @*/
#include "c08_harness.h"
#include "c08_string.h"
const char *g_src0; /* ghost: initial src (the parameter is advanced by the loop) */
const char *g_fp;   /* ghost frame byte of the destination object ... */
char g_fv;          /* ... its old value ... */
_Bool g_fin;        /* ... and whether it lies inside dest[0..L] (then the contract's own ghost index covers it) */
#include "compat/libc/string/strcpy.c"

void harness(void)
{
    WIT(size_t, offs);
    WIT(size_t, offd);
    WIT(size_t, L);
    WIT(size_t, tail);
    WIT(size_t, k);
    WIT(size_t, f);
    WIT_ARR(char, cs, 6);
    WIT_ARR(char, cd, 6);
    __CPROVER_assume(L < VC_MAXOBJ && tail <= 8);
    char *src, *dst, *dbase;
    size_t dsize;
#if SAME
    /* one object, adjacent ranges (an overrun of either operand by one byte hits the other):
     * SAME=1: [offs][src L+1][dest L+1][tail]   SAME=2: [offd][dest L+1][src L+1][tail] */
    dsize = offs + offd + 2 * (L + 1) + tail;
    dbase = NEW_OBJ(dsize);
    FILL(dbase, dsize, cd);
#if SAME == 1
    __CPROVER_assume(C08_OFF_OK(offs) && offd == 0); src = dbase + offs; dst = src + L + 1;
#else
    __CPROVER_assume(C08_OFF_OK(offd) && offs == 0); dst = dbase + offd; src = dst + L + 1;
#endif
#else
    __CPROVER_assume(C08_OFF_OK(offs) && C08_OFF_OK(offd));
    char *sbase = NEW_OBJ(offs + L + 1);
    FILL(sbase, offs + L + 1, cs);
    src = sbase + offs;
    dsize = offd + L + 1 + tail;
    dbase = NEW_OBJ(dsize);
    FILL(dbase, dsize, cd);
    dst = dbase + offd;
#endif
    __CPROVER_assume(src[L] == 0);
    g_strcpy_L = L; g_strcpy_k = k;
    g_strcpy_v = k <= L ? src[k] : 0;
    g_strcpy_dv = k <= L ? dst[k] : 0;
    __CPROVER_assert(C08_STRCPY_PRE(dst, src), "harness state satisfies the contract precondition");
    __CPROVER_assume(f < dsize);
    g_fp = dbase + f; g_fv = dbase[f];
    g_fin = g_fp >= dst && g_fp <= dst + L;

    char *r = vc_strcpy(dst, src);

#ifdef WITNESS_MODE /* no ghost statements in the concretisation / native run: recompute the witness */
    g_strcpy_len = 0;
    while (src[g_strcpy_len]) g_strcpy_len++;
#endif
    __CPROVER_assert(C08_STRCPY_POST(r, dst, src), "strcpy: contract postcondition (string copied with its terminator, rest of dest[0..L] and src intact)");
    __CPROVER_assert(g_fin || *g_fp == g_fv, "strcpy: bytes of the destination object outside dest[0..L] unchanged");
    CANARY("strcpy harness end reachable");
}
