/*@unit {
 'kind': 'proof', 'mode': 'legacy',
 'functions': ['strncmp'],
 'clauses': 'ISO 7.24.4.4 strncmp: compares at most n characters, nothing after a NUL; 0 when equal (n == 0 included), otherwise the sign of the first differing pair compared as unsigned char; unterminated arrays of >= n bytes are legal operands; reads nothing beyond; modifies nothing',
 'inject': [{'file': 'compat/libc/string/strncmp.c', 'func': 'strncmp', 'loop': 0, 'expect': 'while (--n && *s1 && *s1 == *s2)',
             'assigns': 's1, s2, n',
             'invariants': ['__CPROVER_same_object(s1, str1) && __CPROVER_same_object(s2, str2)',
                            '1 <= n && n <= g_n0 && C08_IDX(s1, str1) == g_n0 - n && C08_IDX(s2, str2) == g_n0 - n',
                            'g_n0 - n <= g_lima && g_n0 - n <= g_limb',
                            'C08_IMP(g_k < g_n0 - n, str1[g_k] == str2[g_k] && str1[g_k] != 0)'],
             'decreases': 'n'},
            {'file': 'compat/libc/string/strncmp.c', 'func': 'strncmp', 'ghost': 'g_n0 = n;', 'at': 'func-begin'},
            {'file': 'compat/libc/string/strncmp.c', 'func': 'strncmp', 'ghost': 'g_end = C08_IDX(s1, str1);', 'at': 'before', 'anchor': 'return *s1 - *s2;'}],
 'ghost_calls': ['C08_IDX'],
 'assumptions': ['strncmp operands: each an object of sz bytes that is NUL-terminated (last byte) or has sz >= n'],
 'defines': ['C08_MAXOFF=15'], 'cbmc_flags': ['--sat-solver', 'cadical'],
 'witness': {'unwind': 8},
} @*/
#include "c08_harness.h"
#include "c08_string.h"
size_t g_k, g_n0, g_lima, g_limb;
size_t g_end; /* ghost output: index at which the comparison stopped */
#include "compat/libc/string/strncmp.c"

void harness(void)
{
    WIT(size_t, offa);
    WIT(size_t, offb);
    WIT(size_t, sa);
    WIT(size_t, sb);
    WIT(size_t, n);
    WIT(size_t, k);
    WIT_ARR(char, ca, 6);
    WIT_ARR(char, cb, 6);
    __CPROVER_assume(offa <= C08_MAXOFF && offb <= C08_MAXOFF && sa <= VC_MAXOBJ && sb <= VC_MAXOBJ);
    char *abase = NEW_OBJ(offa + sa), *bbase = NEW_OBJ(offb + sb);
    FILL(abase, offa + sa, ca);
    FILL(bbase, offb + sb, cb);
    char *a = abase + offa, *b = bbase + offb;
    _Bool ta = sa > 0 && a[sa - 1] == 0, tb = sb > 0 && b[sb - 1] == 0;
    __CPROVER_assume((ta || n <= sa) && (tb || n <= sb));
    g_lima = ta ? sa - 1 : (size_t)-1;
    g_limb = tb ? sb - 1 : (size_t)-1;
    g_k = k;
    char a_k = k < sa ? a[k] : 0, b_k = k < sb ? b[k] : 0;

    int r = vc_strncmp(a, b, n);

    if (n == 0) {
        __CPROVER_assert(r == 0, "strncmp: n == 0 compares equal");
    } else {
#ifdef WITNESS_MODE
        size_t e = 0;
        while (e + 1 < n && a[e] && a[e] == b[e]) e++;
#else
        size_t e = g_end;
#endif
        __CPROVER_assert(e < n && e < sa && e < sb, "strncmp: stop position within n characters and both arrays");
        __CPROVER_assert(!(k < e) || (a_k == b_k && a_k != 0), "strncmp: before the stop position the arrays agree and have no NUL");
        if (a[e] != b[e])
            __CPROVER_assert(SIGN(r) == SIGN((int)(uchar)a[e] - (int)(uchar)b[e]), "strncmp: sign of the first differing pair, compared as unsigned char");
        else
            __CPROVER_assert(r == 0 && (a[e] == 0 || e == n - 1), "strncmp: 0 only when the strings end together or n characters agree");
    }
    __CPROVER_assert((!(k < sa) || a[k] == a_k) && (!(k < sb) || b[k] == b_k), "strncmp: does not modify the arrays");
    CANARY("strncmp harness end reachable");
}
