/*@unit {
 'kind': 'proof', 'mode': 'legacy',
 'functions': ['strncasecmp', 'tolower', 'igris_tolower'],
 'clauses': 'POSIX strncasecmp: as strcasecmp over at most n bytes (nothing after a NUL): 0 when equal ignoring case (n == 0 included), otherwise the sign of the first differing lower-cased pair as unsigned char; unterminated arrays of >= n bytes are legal operands; reads nothing beyond; modifies nothing',
 'inject': [{'file': 'compat/libc/string/strncasecmp.c', 'func': 'strncasecmp', 'loop': 0, 'expect': 'while (--n && *s1 && (tolower(*s1) == tolower(*s2)))',
             'assigns': 's1, s2, n',
             'invariants': ['__CPROVER_same_object(s1, str1) && __CPROVER_same_object(s2, str2)',
                            '1 <= n && n <= g_n0 && C08_IDX(s1, str1) == g_n0 - n && C08_IDX(s2, str2) == g_n0 - n',
                            'g_n0 - n <= g_lima && g_n0 - n <= g_limb',
                            'C08_IMP(g_k < g_n0 - n, SPEC_TOLOWER((unsigned char)str1[g_k]) == SPEC_TOLOWER((unsigned char)str2[g_k]) && str1[g_k] != 0)'],
             'decreases': 'n'},
            {'file': 'compat/libc/string/strncasecmp.c', 'func': 'strncasecmp', 'ghost': 'g_n0 = n;', 'at': 'func-begin'},
            {'file': 'compat/libc/string/strncasecmp.c', 'func': 'strncasecmp', 'ghost': 'g_end = C08_IDX(s1, str1);', 'at': 'before', 'anchor': 'return tolower(*s1) - tolower(*s2);'}],
 'ghost_calls': ['C08_IDX'],
 'assumptions': ['strncasecmp operands: each an object of sz bytes that is NUL-terminated (last byte) or has sz >= n'],
 'defines': ['C08_MAXOFF=15'], 'cbmc_flags': ['--sat-solver', 'cadical'],
 'witness': {'unwind': 8},
} @*/
#include "c08_harness.h"
#include "c08_string.h"
#include "c08_ctype.h"
size_t g_k, g_n0, g_lima, g_limb;
size_t g_end; /* ghost output: index at which the comparison stopped */
#include "compat/libc/string/strncasecmp.c"

void harness(void)
{
    WIT(size_t, offa);
    WIT(size_t, offb);
    WIT(size_t, sa);
    WIT(size_t, sb);
    WIT(size_t, n);
    WIT(size_t, k);
    WIT_ARR(char, ca, 6);
    WIT_ARR(char, cb, 6);
    __CPROVER_assume(offa <= C08_MAXOFF && offb <= C08_MAXOFF && sa <= VC_MAXOBJ && sb <= VC_MAXOBJ);
    char *abase = NEW_OBJ(offa + sa), *bbase = NEW_OBJ(offb + sb);
    FILL(abase, offa + sa, ca);
    FILL(bbase, offb + sb, cb);
    char *a = abase + offa, *b = bbase + offb;
    _Bool ta = sa > 0 && a[sa - 1] == 0, tb = sb > 0 && b[sb - 1] == 0;
    __CPROVER_assume((ta || n <= sa) && (tb || n <= sb));
    g_lima = ta ? sa - 1 : (size_t)-1;
    g_limb = tb ? sb - 1 : (size_t)-1;
    g_k = k;
    uchar a_k = k < sa ? a[k] : 0, b_k = k < sb ? b[k] : 0;

    int r = vc_strncasecmp(a, b, n);

    if (n == 0) {
        __CPROVER_assert(r == 0, "strncasecmp: n == 0 compares equal");
    } else {
#ifdef WITNESS_MODE
        size_t e = 0;
        while (e + 1 < n && a[e] && SPEC_TOLOWER((uchar)a[e]) == SPEC_TOLOWER((uchar)b[e])) e++;
#else
        size_t e = g_end;
#endif
        __CPROVER_assert(e < n && e < sa && e < sb, "strncasecmp: stop position within n characters and both arrays");
        __CPROVER_assert(!(k < e) || (SPEC_TOLOWER(a_k) == SPEC_TOLOWER(b_k) && a_k != 0), "strncasecmp: before the stop position the arrays agree ignoring case and have no NUL");
        int la = SPEC_TOLOWER((uchar)a[e]), lb = SPEC_TOLOWER((uchar)b[e]);
        if (la != lb)
            __CPROVER_assert(SIGN(r) == SIGN(la - lb), "strncasecmp: sign of the first differing lower-cased pair, as unsigned char");
        else
            __CPROVER_assert(r == 0 && ((a[e] == 0 && b[e] == 0) || e == n - 1), "strncasecmp: 0 only when the strings end together or n characters agree");
    }
    __CPROVER_assert((!(k < sa) || (uchar)a[k] == a_k) && (!(k < sb) || (uchar)b[k] == b_k), "strncasecmp: does not modify the arrays");
    CANARY("strncasecmp harness end reachable");
}
