/*@unit {
 'kind': 'proof', 'mode': 'legacy',
 'functions': ['strcspn'],
 'replace': ['vc_strchr'],
 'clauses': 'ISO 7.24.5.3 strcspn: length of the maximal initial segment of s consisting of characters not in reject (s[r] is the terminator or a member of reject; every earlier byte is a non-member); reads nothing after the terminators; modifies nothing. Proved against the CONTRACT of strchr; proves contract C08_STRCSPN_* of c08_string.h',
 'inject': [{'file': 'compat/libc/string/strcspn.c', 'func': 'strcspn',
             'ghost': 'g_s0 = s; g_strchr_L = g_strcspn_Lr; g_strchr_k = g_strcspn_j;', 'at': 'func-begin'},
            {'file': 'compat/libc/string/strcspn.c', 'func': 'strcspn', 'loop': 0, 'expect': 'while (*s !=',
             'assigns': 's, count, g_strchr_end, g_strcspn_rend',
             'invariants': ['__CPROVER_same_object(s, g_s0) && C08_IDX(s, g_s0) == count && count <= g_strcspn_L',
                            'C08_IMP(g_strcspn_k < count, g_s0[g_strcspn_k] != 0 && g_strcspn_rend <= g_strcspn_Lr && reject[g_strcspn_rend] == 0 && C08_IMP(g_strcspn_j < g_strcspn_rend, reject[g_strcspn_j] != g_s0[g_strcspn_k]))'],
             'decreases': 'g_strcspn_L - count'},
            {'file': 'compat/libc/string/strcspn.c', 'func': 'strcspn', 'ghost': 'if (count - 1 == g_strcspn_k) g_strcspn_rend = g_strchr_end;', 'at': 'after', 'anchor': '++count;'},
            {'file': 'compat/libc/string/strcspn.c', 'func': 'strcspn', 'ghost': 'g_strcspn_hit = g_strchr_end;', 'at': 'after', 'anchor': '} else {'}],
 'witness': {'unwind': 8},
} @*/
#include "c08_harness.h"
#include "c08_string.h"
const char *g_s0; /* ghost: initial s (the parameter is advanced by the loop) */
#ifdef REPLAY /* native run: the replaced callee is the real shim code */
#include "compat/libc/string/strchrnul.c"
#include "compat/libc/string/strchr.c"
#endif
#include "compat/libc/string/strcspn.c"

void harness(void)
{
    WIT(size_t, off);
    WIT(size_t, offr);
    WIT(size_t, L);
    WIT(size_t, Lr);
    WIT(size_t, k);
    WIT(size_t, j);
    WIT_ARR(char, cs, 6);
    WIT_ARR(char, cr, 6);
    C08_STRING(s, off, L, cs);
    C08_STRING(rej, offr, Lr, cr);
    g_strcspn_L = L; g_strcspn_Lr = Lr; g_strcspn_k = k; g_strcspn_j = j;
    __CPROVER_assert(C08_STRCSPN_PRE(s, rej), "harness state satisfies the contract precondition");
    char s_k = k <= L ? s[k] : 0, r_j = j <= Lr ? rej[j] : 0;

    size_t r = vc_strcspn(s, rej);

#ifdef WITNESS_MODE /* no ghost statements in the concretisation / native run: recompute the witnesses */
    g_strcspn_rend = 0;
    while (rej[g_strcspn_rend]) g_strcspn_rend++;
    g_strcspn_hit = 0;
    if (r <= L) while (rej[g_strcspn_hit] && rej[g_strcspn_hit] != s[r]) g_strcspn_hit++;
#endif
    __CPROVER_assert(C08_STRCSPN_POST(r, s, rej), "strcspn: contract postcondition (maximal initial segment of non-members)");
    __CPROVER_assert((!(k <= L) || s[k] == s_k) && (!(j <= Lr) || rej[j] == r_j), "strcspn: does not modify the strings");
    CANARY("strcspn harness end reachable");
}
