/*@unit {
 'kind': 'proof', 'mode': 'legacy',
 'functions': ['strncpy'],
 'clauses': 'ISO 7.24.2.4 strncpy: copies at most n characters of src (nothing after a NUL) to dst and pads with NULs until exactly n bytes are written; returns dst; no terminator when src has n or more characters; unterminated src of >= n bytes is a legal operand; bytes of the destination object outside dst[0..n) unchanged; n == 0 writes nothing',
 'inject': [{'file': 'compat/libc/string/strncpy.c', 'func': 'strncpy', 'ghost': 'g_d0 = dst; g_s0 = src; g_n0 = n;', 'at': 'func-begin'},
            {'file': 'compat/libc/string/strncpy.c', 'func': 'strncpy', 'loop': 0, 'expect': 'do',
             'assigns': 'dst, src, n, __CPROVER_object_whole(ret)',
             'invariants': ['__CPROVER_same_object(dst, g_d0) && __CPROVER_same_object(src, g_s0)',
                            'n <= g_n0 && C08_IDX(dst, g_d0) == g_n0 - n && C08_IDX(src, g_s0) == g_n0 - n && g_n0 - n <= g_lim',
                            'C08_IMP(g_k < g_n0 - n, g_v != 0 && g_d0[g_k] == g_v)',
                            'C08_IMP(!(g_fp >= g_d0 && g_fp < dst), *g_fp == g_fv)'],
             'decreases': 'n'},
            {'file': 'compat/libc/string/strncpy.c', 'func': 'strncpy', 'ghost': 'g_len = C08_IDX(dst, g_d0);', 'at': 'after', 'anchor': 'if (!n--) {'},
            {'file': 'compat/libc/string/strncpy.c', 'func': 'strncpy', 'ghost': 'g_len = C08_IDX(dst, g_d0) - 1;', 'at': 'before', 'anchor': 'while (n--) {'},
            {'file': 'compat/libc/string/strncpy.c', 'func': 'strncpy', 'loop': 1, 'expect': 'while (n--)',
             'assigns': 'dst, n, __CPROVER_object_whole(ret)',
             'invariants': ['__CPROVER_same_object(dst, g_d0)',
                            'n <= g_n0 && C08_IDX(dst, g_d0) == g_n0 - n && g_len < g_n0 - n',
                            'C08_IMP(g_k < g_len, g_v != 0 && g_d0[g_k] == g_v)',
                            'C08_IMP(g_len <= g_k && g_k < g_n0 - n, g_d0[g_k] == 0)',
                            'C08_IMP(!(g_fp >= g_d0 && g_fp < dst), *g_fp == g_fv)'],
             'decreases': 'n'}],
 'ghost_calls': ['C08_IDX'],
 'assumptions': ['strncpy: src is an object of ss bytes that is NUL-terminated (last byte) or has ss >= n; dst and src are distinct objects (ISO: no overlap)'],
 'params': {'C08_FIXOFF': [0]}, 'params_thorough': {'C08_FIXOFF': [0, 3]},
 'witness': {'unwind': 8},
} @*/
#include "c08_harness.h"
#include "c08_string.h"
const char *g_d0, *g_s0; /* ghost: initial dst / src (both parameters are advanced) */
size_t g_n0, g_k, g_lim;
char g_v;                /* old src[g_k] */
size_t g_len;            /* ghost output: number of non-NUL characters copied = min(strlen(src), n) */
const char *g_fp; char g_fv; /* ghost frame byte of the destination object and its old value */
#include "compat/libc/string/strncpy.c"

void harness(void)
{
    WIT(size_t, offs);
    WIT(size_t, offd);
    WIT(size_t, ss);
    WIT(size_t, n);
    WIT(size_t, tail);
    WIT(size_t, k);
    WIT(size_t, f);
    WIT_ARR(char, cs, 6);
    WIT_ARR(char, cd, 6);
    __CPROVER_assume(C08_OFF_OK(offs) && C08_OFF_OK(offd) && ss <= VC_MAXOBJ && n <= VC_MAXOBJ && tail <= 8);
    char *sbase = NEW_OBJ(offs + ss);
    FILL(sbase, offs + ss, cs);
    char *src = sbase + offs;
    _Bool term = ss > 0 && src[ss - 1] == 0;
    __CPROVER_assume(term || n <= ss);
    g_lim = term ? ss - 1 : (size_t)-1;
    size_t dsize = offd + n + tail + 1;
    char *dbase = NEW_OBJ(dsize);
    FILL(dbase, dsize, cd);
    char *dst = dbase + offd;
    g_k = k;
    g_v = k < ss ? src[k] : 0;
    __CPROVER_assume(f < dsize);
    g_fp = dbase + f; g_fv = dbase[f];

    char *r = vc_strncpy(dst, src, n);

#ifdef WITNESS_MODE /* no ghost statements in the concretisation / native run: recompute the witness */
    g_len = 0;
    while (g_len < n && src[g_len]) g_len++;
#endif
    size_t len = g_len;
    __CPROVER_assert(r == dst, "strncpy: returns dst");
    __CPROVER_assert(len <= n && (len == n || (len < ss && src[len] == 0)), "strncpy: witness len = min(strlen(src), n)");
    __CPROVER_assert(!(k < len) || (g_v != 0 && dst[k] == g_v), "strncpy: the first min(strlen(src), n) characters are copied");
    __CPROVER_assert(!(len <= k && k < n) || dst[k] == 0, "strncpy: the rest of dst[0..n) is NUL padding");
    __CPROVER_assert((g_fp >= dst && g_fp < dst + n) || *g_fp == g_fv, "strncpy: bytes of the destination object outside dst[0..n) unchanged");
    __CPROVER_assert(!(k < ss) || src[k] == g_v, "strncpy: src intact");
    CANARY("strncpy harness end reachable");
}
