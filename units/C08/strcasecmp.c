/*@unit {
 'kind': 'proof', 'mode': 'legacy',
 'functions': ['strcasecmp', 'tolower', 'igris_tolower'],
 'clauses': 'POSIX strcasecmp: compares the strings as if every byte were converted with tolower (POSIX locale: A-Z only): 0 when they end together with all pairs equal ignoring case, otherwise the sign of the difference of the first differing lower-cased pair as unsigned char; reads no byte after the terminator / first difference; modifies nothing. tolower is the shim one (igris/util/ctype.h)',
 'inject': [{'file': 'compat/libc/string/strcasecmp.c', 'func': 'strcasecmp', 'loop': 0, 'expect': 'while (',
             'assigns': 's1, s2',
             'invariants': ['__CPROVER_same_object(s1, str1) && __CPROVER_same_object(s2, str2)',
                            'C08_IDX(s1, str1) <= g_La && C08_IDX(s2, str2) <= g_Lb && C08_IDX(s1, str1) == C08_IDX(s2, str2)',
                            'C08_IMP(g_k < C08_IDX(s1, str1), SPEC_TOLOWER((unsigned char)str1[g_k]) == SPEC_TOLOWER((unsigned char)str2[g_k]) && str1[g_k] != 0)'],
             'decreases': 'g_La - C08_IDX(s1, str1)'},
            {'file': 'compat/libc/string/strcasecmp.c', 'func': 'strcasecmp', 'ghost': 'g_end = C08_IDX(s1, str1);', 'at': 'loop-after', 'loop': 0}],
 'fallback': 'ghost-free',
 'ghost_calls': ['C08_IDX'],
 'witness': {'unwind': 8},
} @*/
#include "c08_harness.h"
#include "c08_string.h"
#include "c08_ctype.h"
size_t g_k, g_La, g_Lb;
size_t g_end; /* ghost output: index at which the comparison stopped */
#include "compat/libc/string/strcasecmp.c"

void harness(void)
{
    WIT(size_t, offa);
    WIT(size_t, offb);
    WIT(size_t, La);
    WIT(size_t, Lb);
    WIT(size_t, k);
    WIT_ARR(char, ca, 6);
    WIT_ARR(char, cb, 6);
    C08_STRING(a, offa, La, ca);
    C08_STRING(b, offb, Lb, cb);
    g_k = k; g_La = La; g_Lb = Lb;
    uchar a_k = k <= La ? a[k] : 0, b_k = k <= Lb ? b[k] : 0;

    int r = vc_strcasecmp(a, b);

#ifdef WITNESS_MODE /* no ghost statements in the concretisation / native run: recompute the witness */
    size_t e = 0;
    while (a[e] && SPEC_TOLOWER((uchar)a[e]) == SPEC_TOLOWER((uchar)b[e])) e++;
#else
    size_t e = g_end;
#endif
    __CPROVER_assert(e <= La && e <= Lb, "strcasecmp: stop position inside both strings");
    __CPROVER_assert(!(k < e) || (SPEC_TOLOWER(a_k) == SPEC_TOLOWER(b_k) && a_k != 0), "strcasecmp: before the stop position the strings agree ignoring case and have no NUL");
    int la = SPEC_TOLOWER((uchar)a[e]), lb = SPEC_TOLOWER((uchar)b[e]);
    if (la != lb)
        __CPROVER_assert(SIGN(r) == SIGN(la - lb), "strcasecmp: sign of the first differing lower-cased pair, as unsigned char");
    else
        __CPROVER_assert(a[e] == 0 && b[e] == 0 && r == 0, "strcasecmp: 0 only when both strings end together");
    __CPROVER_assert((!(k <= La) || (uchar)a[k] == a_k) && (!(k <= Lb) || (uchar)b[k] == b_k), "strcasecmp: does not modify the strings");
    CANARY("strcasecmp harness end reachable");
}
