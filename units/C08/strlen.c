/*@unit {
 'kind': 'proof', 'mode': 'legacy',
 'functions': ['strlen'],
 'clauses': 'ISO 7.24.6.3 strlen: returns the index of the first NUL of str; reads only str[0..len]; modifies nothing. Proves contract C08_STRLEN_* of c08_string.h (string at any offset of an exact-size object, earlier NULs allowed)',
 'inject': [{'file': 'compat/libc/string/strlen.c', 'func': 'strlen', 'loop': 0, 'expect': 'while (*s++)',
             'assigns': 's',
             'invariants': ['__CPROVER_same_object(s, str)',
                            'C08_IDX(s, str) <= g_strlen_L',
                            'C08_IMP(g_strlen_k < C08_IDX(s, str), str[g_strlen_k] != 0)'],
             'decreases': 'g_strlen_L - C08_IDX(s, str)'}],
 'witness': {'unwind': 8},
} @*/
#include "vc.h"
#include "c08_string.h"
#include "compat/libc/string/strlen.c"

void harness(void)
{
    WIT(size_t, off);
    WIT(size_t, L);
    WIT(size_t, k);
    WIT_ARR(char, content, 6);
    __CPROVER_assume(off <= VC_MAXOBJ && L < VC_MAXOBJ);
    char *base = NEW_OBJ(off + L + 1);
    FILL(base, off + L + 1, content);
    char *s = base + off;
    __CPROVER_assume(s[L] == 0);
    g_strlen_L = L;
    g_strlen_k = k;
    __CPROVER_assert(C08_STRLEN_PRE(s), "harness state satisfies the contract precondition");
    char at_k = k <= L ? s[k] : 0;

    size_t r = vc_strlen(s);

    __CPROVER_assert(C08_STRLEN_POST(r, s), "strlen: contract postcondition (r <= L, s[r] == 0, no NUL before r)");
    __CPROVER_assert(!(k <= L) || s[k] == at_k, "strlen: does not modify the string");
    CANARY("strlen harness end reachable");
}
