/*@unit {
 'kind': 'proof', 'mode': 'legacy',
 'functions': ['memmove'],
 'replace': ['vc_memcpy'],
 'clauses': 'ISO 7.24.2.2 memmove: dst[0..n) receives the OLD src[0..n) as if through a temporary, for every overlap (src and dst anywhere in one object: SAME=1) and for distinct objects (SAME=0); returns dst; every other byte of the destination object unchanged; n == 0 included. The backward byte loop (dst above src, overlapping) is closed by an invariant; every other case is delegated to memcpy and proved against the CONTRACT C08_MEMCPY_* (precondition C08_FWD_OK - not the ISO no-overlap one: memmove passes overlapping blocks with dst below src). Proves contract C08_MEMMOVE_* of c08_string.h',
 'inject': [{'file': 'compat/libc/string/memmove.c', 'func': 'memmove', 'ghost': 'g_n0 = n; g_memcpy_k = g_memmove_k; g_memcpy_v = g_memmove_v;', 'at': 'func-begin'},
            {'file': 'compat/libc/string/memmove.c', 'func': 'memmove', 'loop': 0, 'expect': 'while (n--)',
             'assigns': 'dst, src, n, __CPROVER_object_whole(_dst)',
             'invariants': ['n <= g_n0 && dst == (char *)_dst + n && src == (const char *)_src + n',
                            'C08_IMP(n <= g_memmove_k && g_memmove_k < g_n0, ((const char *)_dst)[g_memmove_k] == g_memmove_v)',
                            'C08_IMP(g_memmove_k < n, ((const char *)_src)[g_memmove_k] == g_memmove_v)',
                            '*g_fp == g_fv'],
             'decreases': 'n'}],
 'include': ['compat/libc/string'],
 'params': {'SAME': [0, 1]}, 'canaries': 2,
 'defines': ['C08_MAXOFF=15'],
 'assumptions': ['memmove compares src < dst also for pointers into distinct objects (unspecified in ISO C); cbmc\'s flat address model is assumed, in which distinct objects never interleave'],
 'witness': {'unwind': 8},
} @*/
#include "c08_harness.h"
#include "c08_string.h"
size_t g_n0;
const char *g_fp; char g_fv; /* ghost frame byte: a byte of the destination object outside dst[0..n) */
#ifdef REPLAY /* native run: the replaced callee is the real shim code */
#include "compat/libc/string/memcpy.c"
#endif
#if !SAME
/* distinct objects: `src < dst` relates pointers into different objects (ISO C 6.5.8: undefined; every memmove
 * does it).  cbmc flags exactly that ("same object violation"); the check class "pointer" is switched off for
 * the text of memmove.c in this case only.  Nothing is lost: in this case memmove only delegates to memcpy,
 * whose contract precondition (r_ok / w_ok of both blocks) is asserted at the call; memmove's own dereferences
 * (backward loop) are checked in the SAME=1 case. */
#pragma CPROVER check push
#pragma CPROVER check disable "pointer"
#endif
#include "compat/libc/string/memmove.c"
#if !SAME
#pragma CPROVER check pop
#endif

void harness(void)
{
    WIT(size_t, so);
    WIT(size_t, dof);
    WIT(size_t, n);
    WIT(size_t, tail);
    WIT(size_t, k);
    WIT(size_t, f);
    WIT_ARR(char, cs, 6);
    WIT_ARR(char, cd, 6);
    __CPROVER_assume(n <= VC_MAXOBJ && tail <= 8);
    char *src, *dst, *dbase;
    size_t dsize;
#if SAME
    /* one object, both blocks anywhere inside it = every overlap in both directions, and disjoint */
    WIT(size_t, size);
    __CPROVER_assume(size <= VC_MAXOBJ + 64 && so <= size && dof <= size && n <= size - so && n < size - dof);
    dsize = size;
    dbase = NEW_OBJ(dsize);
    FILL(dbase, dsize, cd);
    src = dbase + so; dst = dbase + dof;
#else
    __CPROVER_assume(so <= C08_MAXOFF && dof <= C08_MAXOFF);
    char *sbase = NEW_OBJ(so + n);
    FILL(sbase, so + n, cs);
    src = sbase + so;
    dsize = dof + n + tail + 1;
    dbase = NEW_OBJ(dsize);
    FILL(dbase, dsize, cd);
    dst = dbase + dof;
#endif
    g_memmove_k = k;
    g_memmove_v = k < n ? src[k] : 0;
    __CPROVER_assert(C08_MEM_ACCESS_PRE(dst, src, n) && C08_MEMMOVE_GHOST_PRE(src, n), "harness state satisfies the contract precondition");
    __CPROVER_assume(f < dsize && !(f >= dof && f < dof + n));
    g_fp = dbase + f; g_fv = dbase[f];

    char d_k = k < n ? dst[k] : 0;
    _Bool backward = __CPROVER_same_object(src, dst) && src < dst && dst < src + n;

    void *r = vc_memmove(dst, src, n);

    /* neither path is vacuous: a byte that really changes is reachable through each of them */
#if SAME
    if (backward && k < n && d_k != g_memmove_v) CANARY("backward-loop path changes a byte");
#endif
    if (!backward && k < n && d_k != g_memmove_v) CANARY("memcpy path changes a byte");

    __CPROVER_assert(C08_MEMMOVE_POST(r, dst, n), "memmove: contract postcondition (returns dst, dst[k] == OLD src[k] for every k < n, whatever the overlap)");
    __CPROVER_assert(*g_fp == g_fv, "memmove: bytes of the destination object outside dst[0..n) unchanged");
    CANARY("memmove harness end reachable");
}
