/*@unit {
 'kind': 'proof', 'mode': 'legacy',
 'functions': ['strupr'],
 'clauses': 'strupr (DOS/newlib extension, compat/libc/include/string.h: "map lower-case characters in a string to upper-case"): every character of the string is replaced by its toupper image (POSIX locale, a-z), in place; returns the string; the terminator and every byte after it unchanged; reads nothing after the terminator',
 'inject': [{'file': 'compat/libc/string/strupr.c', 'func': 'strupr', 'loop': 0, 'expect': 'for (cp = string; *cp; ++cp)',
             'assigns': 'cp, __CPROVER_object_whole(string)',
             'invariants': ['__CPROVER_same_object(cp, string) && C08_IDX(cp, string) <= g_L && string[g_L] == 0',
                            'C08_IMP(g_k < C08_IDX(cp, string), g_v != 0 && string[g_k] == SPEC_MAP(g_v))',
                            'C08_IMP(g_k >= C08_IDX(cp, string) && g_k <= g_L, string[g_k] == g_v)',
                            '*g_fp == g_fv'],
             'decreases': 'g_L - C08_IDX(cp, string)'},
            {'file': 'compat/libc/string/strupr.c', 'func': 'strupr', 'ghost': 'g_len = C08_IDX(cp, string);', 'at': 'before', 'anchor': 'return(string);'}],
 'ghost_calls': ['C08_IDX'],
 'witness': {'unwind': 8},
} @*/
#include "c08_harness.h"
#include "c08_string.h"
#include "c08_ctype.h"
#define SPEC_MAP(c) ((char)SPEC_TOUPPER(c))
#define FN vc_strupr
#define FNS "strupr"
size_t g_L, g_k;
char g_v;                    /* old string[g_k] */
size_t g_len;                /* ghost output: strlen(string) */
const char *g_fp; char g_fv; /* ghost frame byte: a byte of the object outside string[0..L] */
#include "compat/libc/string/strupr.c"

void harness(void)
{
    WIT(size_t, off);
    WIT(size_t, L);
    WIT(size_t, k);
    WIT(size_t, f);
    WIT_ARR(char, content, 6);
    __CPROVER_assume(C08_OFF_OK(off) && L < VC_MAXOBJ);
    char *base = NEW_OBJ(off + L + 2);      /* one byte behind the terminator: is it left alone? */
    FILL(base, off + L + 2, content);
    char *s = base + off;
    __CPROVER_assume(s[L] == 0);
    g_L = L; g_k = k;
    g_v = k <= L ? s[k] : 0;
    __CPROVER_assume(f < off || f == off + L + 1);
    g_fp = base + f; g_fv = base[f];

    char *r = FN(s);

#ifdef WITNESS_MODE /* no ghost statements in the concretisation / native run: recompute the witness */
    g_len = 0;
    while (s[g_len]) g_len++;
#endif
    size_t len = g_len;
    __CPROVER_assert(r == s, FNS ": returns the string");
    __CPROVER_assert(len <= L && (!(k < len) || g_v != 0) && (!(k == len) || g_v == 0), FNS ": witness len = strlen(string)");
    __CPROVER_assert(!(k < len) || s[k] == SPEC_MAP(g_v), FNS ": every character is case-mapped");
    __CPROVER_assert(!(k >= len && k <= L) || s[k] == g_v, FNS ": terminator and bytes after it unchanged");
    __CPROVER_assert(*g_fp == g_fv, FNS ": bytes of the object outside string[0..L] unchanged");
    CANARY("harness end reachable");
}
