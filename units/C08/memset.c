/*@unit {
 'kind': 'proof', 'mode': 'legacy',
 'functions': ['memset'],
 'clauses': 'ISO 7.24.6.1 memset: every byte of dest[0..n) becomes (unsigned char)c, returns dest, writes nothing outside dest[0..n) (bytes on both sides of the block in the same object unchanged), n == 0 included',
 'inject': [{'file': 'compat/libc/string/memset.c', 'func': 'memset', 'loop': 0, 'expect': 'while (n--)',
             'assigns': 'ptr, n, __CPROVER_object_whole(dest)',
             'invariants': ['__CPROVER_same_object(ptr, dest)',
                            'n <= g_n0 && C08_IDX(ptr, dest) == g_n0 - n',
                            'C08_IMP(g_k < g_n0 - n, ((const unsigned char *)dest)[g_k] == (unsigned char)c)',
                            '*g_fp == g_fv'],
             'decreases': 'n'},
            {'file': 'compat/libc/string/memset.c', 'func': 'memset', 'ghost': 'g_n0 = n;', 'at': 'func-begin'}],
 'include': ['compat/libc/string'],
 'witness': {'unwind': 8},
} @*/
#include "c08_harness.h"
#include "c08_string.h"
size_t g_k, g_n0;
const uchar *g_fp; /* ghost frame byte: any byte of the object outside dest[0..n) */
uchar g_fv;
#include "compat/libc/string/memset.c"

void harness(void)
{
    WIT(size_t, off);
    WIT(size_t, n);
    WIT(size_t, tail);
    WIT(int, c);
    WIT(size_t, k);
    WIT(size_t, f);
    WIT_ARR(uchar, content, 6);
    __CPROVER_assume(off <= C08_MAXOFF && n <= VC_MAXOBJ && tail <= C08_MAXOFF);
    size_t size = off + n + tail + 1;          /* +1: there is always a frame byte to watch */
    uchar *base = NEW_OBJ(size);
    FILL(base, size, content);
    uchar *d = base + off;
    g_k = k;
    __CPROVER_assume(f < size && !(f >= off && f < off + n));
    g_fp = base + f;
    g_fv = base[f];

    void *r = vc_memset(d, c, n);

    __CPROVER_assert(r == d, "memset: returns dest");
    __CPROVER_assert(!(k < n) || d[k] == (uchar)c, "memset: every byte of dest[0..n) is (unsigned char)c");
    __CPROVER_assert(base[f] == g_fv, "memset: bytes outside dest[0..n) unchanged");
    CANARY("memset harness end reachable");
}
