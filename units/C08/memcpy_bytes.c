/*@unit {
 'kind': 'proof', 'mode': 'legacy',
 'functions': ['memcpy'],
 'clauses': 'ISO 7.24.2.1 memcpy, byte-copy path (n < 4*sizeof(long), or src / dst not long-aligned: every relative alignment, every n): dst[0..n) receives the old src[0..n), returns dst, every other byte of the destination object unchanged, reads only src[0..n), n == 0 included. Proved under the shim-specific precondition C08_FWD_OK (weaker than ISO no-overlap: dst may overlap src from below), which is what memmove relies on; proves contract C08_MEMCPY_* of c08_string.h on this path. Layouts: distinct objects; one object with dst below src at distance 1 or 8 (overlapping when n is larger = the memmove case); one object with src below dst, disjoint. Concrete offset configurations CFG (see the table in the unit) - fully symbolic offsets and the src-below-dst layout in memcpy_bytes_anyalign (thorough). The word-copy path is covered by memcpy_words (bounded) - see NOTES.md',
 'inject': [{'file': 'compat/libc/string/memcpy.c', 'func': 'memcpy', 'ghost': 'g_n0 = n;', 'at': 'func-begin'},
            {'file': 'compat/libc/string/memcpy.c', 'func': 'memcpy', 'loop': 2, 'expect': 'while (n--)',
             'assigns': 'dst, src, n, __CPROVER_object_whole(dst_)',
             'invariants': ['n <= g_n0 && dst == (char *)dst_ + (g_n0 - n) && src == (const char *)src_ + (g_n0 - n)',
                            'C08_IMP(g_memcpy_k < g_n0 - n, ((const char *)dst_)[g_memcpy_k] == g_memcpy_v)',
                            'C08_IMP(g_n0 - n <= g_memcpy_k && g_memcpy_k < g_n0, ((const char *)src_)[g_memcpy_k] == g_memcpy_v)',
                            '*g_fp == g_fv'],
             'decreases': 'n'}],
 'unwind': 1,
 'complete_unwinding': 'the two word-copy loops (memcpy loops 0 and 1) are unreachable under this unit\'s precondition (n < 32 or a pointer not long-aligned); --unwind 1 with unwinding assertions checks exactly that. The byte loop is closed by its invariant.',
 'params': {'CFG': [0, 1, 2, 3, 4, 5]}, 'params_thorough': {'CFG': [0, 1, 2, 3, 4, 5, 6]},
 'defines': ['C08_MAXOFF=15', 'BYTE_PATH', 'TAIL=0'],
 'assumptions': ['pointer-to-integer casts follow cbmc\'s model (address = object base + offset, object bases long-aligned), so alignment of a pointer = alignment of its offset',
                 'memcpy_bytes: precondition restricted to the inputs that take the byte path: n < 4*sizeof(long) or (src|dst) not long-aligned (the very test memcpy.c:31 makes)'],
 'witness': {'unwind': 8},
} @*/
#include "c08_harness.h"
#include "c08_string.h"
size_t g_n0;
#ifndef C08_NMAX
#define C08_NMAX VC_MAXOBJ /* bounded units: their own bound, also in witness mode */
#define C08_WITN 6
#endif
const char *g_fp; char g_fv; /* ghost frame byte: a byte of the destination object outside dst[0..n) */
#include "compat/libc/string/memcpy.c"

/* quick-tier configurations: layout, offset of src, offset of dst, distance */
#if defined(CFG)
#if CFG == 0
#define LAY 0
#define SO 0
#define DO 0   /* both long-aligned: byte path only for n < 32 */
#elif CFG == 1
#define LAY 0
#define SO 1
#define DO 0
#elif CFG == 2
#define LAY 0
#define SO 0
#define DO 3
#elif CFG == 3
#define LAY 0
#define SO 1
#define DO 3
#elif CFG == 4
#define LAY 1
#define DO 0
#define DELTA 1 /* dst one byte below src: every byte written was read one step earlier */
#elif CFG == 5
#define LAY 1
#define DO 0
#define DELTA 8 /* both long-aligned: n < 32 */
#else
#define LAY 1
#define DO 3
#define DELTA 5
#endif
#endif

/* Operand layouts.  LAY=0: distinct objects.  LAY=1: one object, dst below src by a distance `delta`
 * (delta < n: dst overlaps src from below, the case memmove hands to memcpy; delta >= n: disjoint).
 * LAY=2: one object, src below dst, disjoint (src + n + gap == dst).
 * Offsets: symbolic (every alignment) unless the unit fixes them through SO / DO / DELTA. */
void harness(void)
{
    WIT(size_t, so);
    WIT(size_t, dof);
    WIT(size_t, n);
    WIT(size_t, delta);
    WIT(size_t, tail);
    WIT(size_t, k);
    WIT(size_t, f);
    WIT_ARR(char, cs, C08_WITN);
    WIT_ARR(char, cd, C08_WITN);
    __CPROVER_assume(n <= C08_NMAX && tail <= 8 && so <= C08_MAXOFF && dof <= C08_MAXOFF && delta <= C08_NMAX);
#ifdef N
    __CPROVER_assume(n == N);
#endif
#ifdef SO
    __CPROVER_assume(so == SO);
#endif
#ifdef DO
    __CPROVER_assume(dof == DO);
#endif
#ifdef DELTA
    __CPROVER_assume(delta == DELTA);
#endif
#ifdef TAIL
    __CPROVER_assume(tail == TAIL);
#endif
    char *src, *dst, *dbase;
    size_t dsize;
#if LAY == 0
    char *sbase = NEW_OBJ(so + n);
    FILL(sbase, so + n, cs);
    src = sbase + so;
    dsize = dof + n + tail + 1;
    dbase = NEW_OBJ(dsize);
    FILL(dbase, dsize, cd);
    dst = dbase + dof;
#elif LAY == 1
    dsize = dof + delta + n + (delta == 0);     /* src block ends the object; one frame byte when dst == src */
    dbase = NEW_OBJ(dsize);
    FILL(dbase, dsize, cd);
    dst = dbase + dof; src = dst + delta;
#else
    dsize = so + n + tail + n + 1;
    dbase = NEW_OBJ(dsize);
    FILL(dbase, dsize, cd);
    src = dbase + so; dst = src + n + tail;
    dof = so + n + tail;
#endif
    __CPROVER_assert(C08_FWD_OK(dst, src, n), "harness layouts satisfy C08_FWD_OK");
    _Bool aligned = !(((long)(intptr_t)src | (long)(intptr_t)dst) & (sizeof(long) - 1));
#ifdef BYTE_PATH
    __CPROVER_assume(n < 4 * sizeof(long) || !aligned);
#else
    __CPROVER_assume(n >= 4 * sizeof(long) && aligned);
#endif
    g_memcpy_k = k;
    g_memcpy_v = k < n ? src[k] : 0;
    __CPROVER_assert(C08_MEM_ACCESS_PRE(dst, src, n) && C08_MEMCPY_GHOST_PRE(src, n), "harness state satisfies the contract precondition");
    __CPROVER_assume(f < dsize && !(f >= dof && f < dof + n));
    g_fp = dbase + f; g_fv = dbase[f];

    void *r = vc_memcpy(dst, src, n);

    __CPROVER_assert(C08_MEMCPY_POST(r, dst, n), "memcpy: contract postcondition (returns dst, dst[k] == old src[k] for every k < n)");
    __CPROVER_assert(*g_fp == g_fv, "memcpy: bytes of the destination object outside dst[0..n) unchanged");
    CANARY("memcpy harness end reachable");
}
