/*@unit {
 'kind': 'proof', 'mode': 'legacy',
 'functions': ['strrchr'],
 'replace': ['vc_strchr', 'vc_strlen'],
 'clauses': 'ISO 7.24.5.5 strrchr: pointer to the last occurrence of (char)ch in the string, the terminating NUL being part of the string; NULL iff it does not occur; for every int ch. Proved against the CONTRACTS of strchr and strlen (loop over strchr calls closed by an invariant)',
 'inject': [{'file': 'compat/libc/string/strrchr.c', 'func': 'strrchr',
             'ghost': 'g_s0 = str; g_i = 0; g_strlen_L = g_L; g_strlen_k = g_k; g_strchr_L = g_L; g_strchr_k = g_k;', 'at': 'func-begin'},
            {'file': 'compat/libc/string/strrchr.c', 'func': 'strrchr', 'loop': 0, 'expect': 'while ((str = strchr(str, ch)))',
             'assigns': 'str, found, g_i, g_strchr_L, g_strchr_k, g_strchr_end',
             'invariants': ['__CPROVER_same_object(str, g_s0) && g_i == C08_IDX(str, g_s0) && g_i <= g_L',
                            'g_strchr_L == g_L - g_i && g_strchr_k == g_k - g_i',
                            'C08_IMP(g_k < g_i, g_s0[g_k] != 0)',
                            'C08_IMP(found == NULL, C08_IMP(g_k < g_i, g_s0[g_k] != c))',
                            'C08_IMP(found != NULL, __CPROVER_same_object(found, g_s0) && C08_IDX(found, g_s0) < g_i && *found == c && C08_IMP(C08_IDX(found, g_s0) < g_k && g_k < g_i, g_s0[g_k] != c))'],
             'decreases': 'g_L - g_i'},
            {'file': 'compat/libc/string/strrchr.c', 'func': 'strrchr', 'loop': 0, 'at': 'body-end',
             'ghost': 'g_i = C08_IDX(str, g_s0); g_strchr_L = g_L - g_i; g_strchr_k = g_k - g_i;'},
            {'file': 'compat/libc/string/strrchr.c', 'func': 'strrchr', 'ghost': 'g_end = g_i + g_strchr_end;', 'at': 'before', 'anchor': 'return (char *) found;'}],
 'ghost_calls': ['C08_IDX'],
 'params': {'C08_FIXOFF': [0]}, 'params_thorough': {'C08_FIXOFF': [0, 3]},
 'witness': {'unwind': 8},
} @*/
#include "c08_harness.h"
#include "c08_string.h"
const char *g_s0; /* ghost: initial str (the parameter is advanced and finally set to NULL by the loop) */
size_t g_L, g_k;  /* harness witness of the terminator / ghost index */
size_t g_i;       /* ghost: index of str in the original string */
size_t g_end;     /* ghost output: where the last strchr call hit the terminator = strlen(str) */
#ifdef REPLAY /* native run: the replaced callees are the real shim code */
#include "compat/libc/string/strlen.c"
#include "compat/libc/string/strchrnul.c"
#include "compat/libc/string/strchr.c"
#endif
#include "compat/libc/string/strrchr.c"

void harness(void)
{
    WIT(size_t, off);
    WIT(size_t, L);
    WIT(int, ch);
    WIT(size_t, k);
    WIT_ARR(char, content, 6);
    C08_STRING(s, off, L, content);
    g_L = L; g_k = k;
    char at_k = k <= L ? s[k] : 0;
    char c = (char)ch;

    char *r = vc_strrchr(s, ch);

    if (c == 0) {
        __CPROVER_assert(r != NULL && __CPROVER_same_object(r, s) && C08_IDX(r, s) <= L && *r == 0, "strrchr: (char)ch == 0 finds a NUL of the string");
        __CPROVER_assert(!(k < C08_IDX(r, s)) || at_k != 0, "strrchr: ... namely the terminator (no NUL before it)");
    } else {
#ifdef WITNESS_MODE /* no ghost statements in the concretisation / native run: recompute the witness */
        size_t e = 0;
        while (s[e]) e++;
#else
        size_t e = g_end;
#endif
        __CPROVER_assert(e <= L && s[e] == 0 && (!(k < e) || at_k != 0), "strrchr: witness e is the length of the string");
        if (r == NULL) {
            __CPROVER_assert(!(k < e) || at_k != c, "strrchr: NULL only when (char)ch does not occur in the string");
        } else {
            __CPROVER_assert(__CPROVER_same_object(r, s) && C08_IDX(r, s) < e && *r == c, "strrchr: result points at an occurrence inside the string");
            __CPROVER_assert(!(C08_IDX(r, s) < k && k < e) || at_k != c, "strrchr: no later occurrence in the string");
        }
    }
    __CPROVER_assert(!(k <= L) || s[k] == at_k, "strrchr: does not modify the string");
    CANARY("strrchr harness end reachable");
}
