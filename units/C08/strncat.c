/*@unit {
 'kind': 'bounded', 'mode': 'plain',
 'bound': 's1: NUL at index 3 (strlen 0..3, earlier NULs allowed); n from {0,1,3,4,5,8,11} (up to two rounds of the 4x-unrolled loop + 3 remainder iterations); s2 object of 1, 6 or 12 bytes (terminated, or unterminated with >= n bytes); contents symbolic; interior pointers (offset 3); all loops fully unwound (--unwind 14 with unwinding assertions)',
 'functions': ['strncat'],
 'clauses': 'ISO 7.24.3.2 strncat: appends at most n characters of s2 (nothing after a NUL) to the end of the string s1 and always a terminating NUL (min(strlen(s2), n) + 1 bytes written, the first one over the old terminator); returns s1; unterminated s2 of >= n bytes is a legal operand; every other byte of the destination object unchanged; n == 0 changes nothing. BOUNDED stand-in: two of the three loops are do-while loops with a side-effect-free condition, which cbmc legacy loop contracts reject, and the --dfcc instrumentation of the 4x-unrolled copy loop runs out of memory (24 GB) - see NOTES.md',
 'unwind': 14,
 'params': {'N': [0, 1, 3, 4, 5, 8, 11], 'SS': [1, 6, 12]},
 'defines': ['C08_BOUNDED', 'C08_FIXOFF=3'],
 'assumptions': ['strncat: s1 and s2 are distinct objects (ISO: no overlap); s2 is an object of ss bytes that is NUL-terminated (last byte) or has ss >= n; the destination object has room for Ld + min(n, bound of strlen(s2)) + 1 bytes (writes beyond the new terminator are caught by the frame clause)'],
 'witness': {'unwind': 14},
} @*/
#include "c08_harness.h"
#include "c08_string.h"
size_t g_Ld, g_lim, g_k, g_j;
char g_sv;             /* old s2[g_j] */
size_t g_dlen;         /* witness: strlen(s1) before the call */
size_t g_w;            /* witness: number of bytes to be written (appended characters + the terminator; 0 for n == 0) */
const char *g_fp; char g_fv; /* ghost frame byte of the destination object and its old value */
#include "compat/libc/string/strncat.c"

void harness(void)
{
    WIT(size_t, offs);
    WIT(size_t, offd);
    WIT(size_t, ss);
    WIT(size_t, Ld);
    WIT(size_t, n);
    WIT(size_t, tail);
    WIT(size_t, k);
    WIT(size_t, j);
    WIT(size_t, f);
    WIT_ARR(char, cs, 24);
    WIT_ARR(char, cd, 24);
    __CPROVER_assume(C08_OFF_OK(offs) && C08_OFF_OK(offd) && tail <= 8);
#ifndef C08_BOUNDED
    __CPROVER_assume(ss <= VC_MAXOBJ && n <= VC_MAXOBJ && Ld < VC_MAXOBJ);
#else
    __CPROVER_assume(ss == SS && n == N && Ld == 3 && tail == 2);
#endif
    char *sbase = NEW_OBJ(offs + ss);
    FILL(sbase, offs + ss, cs);
    char *src = sbase + offs;
    _Bool term = ss > 0 && src[ss - 1] == 0;
    __CPROVER_assume(term || n <= ss);
    g_lim = term ? ss - 1 : (size_t)-1;
    size_t maxapp = term && ss - 1 < n ? ss - 1 : n; /* upper bound of the number of characters appended */
    size_t dsize = offd + Ld + maxapp + 1 + tail;
    char *dbase = NEW_OBJ(dsize);
    FILL(dbase, dsize, cd);
    char *dst = dbase + offd;
    __CPROVER_assume(dst[Ld] == 0);
    g_Ld = Ld; g_k = k; g_j = j;
    char d_k = k <= Ld ? dst[k] : 0;
    g_sv = j < ss ? src[j] : 0;
    __CPROVER_assume(f < dsize);
    g_fp = dbase + f; g_fv = dbase[f];

    /* witnesses computed by reference loops on the old content (sizes are bounded in this unit) */
    g_dlen = 0;
    while (dst[g_dlen]) g_dlen++;
    g_w = 0;
    while (g_w < n && src[g_w]) g_w++;
    if (n > 0) g_w++;

    char *r = vc_strncat(dst, src, n);

    size_t dl = g_dlen;
    size_t m = g_w ? g_w - 1 : 0; /* characters appended; g_w == 0 only for n == 0 */
    __CPROVER_assert(r == dst, "strncat: returns s1");
    __CPROVER_assert(dl <= Ld && (!(k < dl) || d_k != 0) && (!(k == dl) || d_k == 0), "strncat: witness dl = strlen(s1) before the call");
    __CPROVER_assert(m <= n && (m == n || (m < ss && src[m] == 0)) && (!(j < m) || g_sv != 0), "strncat: witness m = min(strlen(s2), n)");
    __CPROVER_assert(!(j < m) || dst[dl + j] == g_sv, "strncat: the first m characters of s2 appended, starting at the old terminator of s1");
    __CPROVER_assert(dst[dl + m] == 0, "strncat: result is NUL-terminated right after the appended characters");
    __CPROVER_assert((g_fp >= dst + dl && g_fp <= dst + dl + m) || *g_fp == g_fv, "strncat: every byte of the destination object outside s1[dl..dl+m] unchanged");
    __CPROVER_assert(!(j < ss) || src[j] == g_sv, "strncat: s2 intact");
    CANARY("strncat harness end reachable");
}
