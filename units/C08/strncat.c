/*@unit {
 'kind': 'proof', 'mode': 'dfcc',
 'functions': ['strncat'],
 'trusted': ['mode dfcc because cbmc legacy loop contracts do not support do-while loops with a side-effect-free condition'],
 'clauses': 'ISO 7.24.3.2 strncat: appends at most n characters of s2 (nothing after a NUL) to the end of the string s1 and always a terminating NUL (min(strlen(s2), n) + 1 bytes written, the first one over the old terminator); returns s1; unterminated s2 of >= n bytes is a legal operand; every other byte of the destination object unchanged; n == 0 changes nothing. All three copy loops (4x unrolled, remainder) and the final NUL',
 'inject': [{'file': 'compat/libc/string/strncat.c', 'func': 'strncat', 'ghost': 'g_d0 = s1; g_s20 = s2; g_n0 = n;', 'at': 'func-begin'},
            {'file': 'compat/libc/string/strncat.c', 'func': 'strncat', 'loop': 0, 'expect': 'do',
             'assigns': 's1, c',
             'invariants': ['__CPROVER_same_object(s1, g_d0) && C08_IDX(s1, g_d0) <= g_Ld',
                            'C08_IMP(g_k < C08_IDX(s1, g_d0), g_d0[g_k] != 0)'],
             'decreases': 'g_Ld - C08_IDX(s1, g_d0)'},
            {'file': 'compat/libc/string/strncat.c', 'func': 'strncat', 'ghost': 'g_dlen = C08_IDX(s1, g_d0) - 1; g_w = 0;', 'at': 'before', 'anchor': 's1 -= 2;'},
            {'file': 'compat/libc/string/strncat.c', 'func': 'strncat', 'loop': 1, 'expect': 'while (--n4 > 0)',
             'assigns': 's1, s2, c, n4, g_w, __CPROVER_object_whole(g_d0)',
             'invariants': ['n4 >= 1 && n == g_n0 && C08_IDX(s2, g_s20) + 4 * n4 == 4 * (g_n0 >> 2)',
                            '__CPROVER_same_object(s1, g_d0) && __CPROVER_same_object(s2, g_s20) && C08_IDX(s2, g_s20) <= g_lim',
                            's1 + 1 == g_d0 + (g_dlen + C08_IDX(s2, g_s20)) && g_dlen <= g_Ld && g_w == C08_IDX(s2, g_s20)',
                            '(C08_IDX(s2, g_s20) == 0) == (c == 0)',
                            'C08_IMP(g_j < C08_IDX(s2, g_s20), g_sv != 0 && g_d0[g_dlen + g_j] == g_sv)',
                            'C08_IMP(!(g_fp >= g_d0 + g_dlen && g_fp < g_d0 + g_dlen + C08_IDX(s2, g_s20)), *g_fp == g_fv)'],
             'decreases': 'n4'},
            {'file': 'compat/libc/string/strncat.c', 'func': 'strncat', 'loop': 2, 'expect': 'while (n > 0)',
             'assigns': 's1, s2, c, n, g_w, __CPROVER_object_whole(g_d0)',
             'invariants': ['C08_IDX(s2, g_s20) + n == g_n0',
                            '__CPROVER_same_object(s1, g_d0) && __CPROVER_same_object(s2, g_s20) && C08_IDX(s2, g_s20) <= g_lim',
                            's1 + 1 == g_d0 + (g_dlen + C08_IDX(s2, g_s20)) && g_dlen <= g_Ld && g_w == C08_IDX(s2, g_s20)',
                            '(C08_IDX(s2, g_s20) == 0) == (c == 0)',
                            'C08_IMP(g_j < C08_IDX(s2, g_s20), g_sv != 0 && g_d0[g_dlen + g_j] == g_sv)',
                            'C08_IMP(!(g_fp >= g_d0 + g_dlen && g_fp < g_d0 + g_dlen + C08_IDX(s2, g_s20)), *g_fp == g_fv)'],
             'decreases': 'n'},
            {'file': 'compat/libc/string/strncat.c', 'func': 'strncat', 'ghost': 'g_w = C08_IDX(s1, g_d0) + 1 - g_dlen;', 'at': 'after', 'anchor': "do {\n\t\t\tc = *s2++;\n\t\t\t*++s1 = c;"},
            {'file': 'compat/libc/string/strncat.c', 'func': 'strncat', 'ghost': 'g_w = C08_IDX(s1, g_d0) + 1 - g_dlen;', 'at': 'after', 'anchor': "do {\n\t\t\tc = *s2++;\n\t\t\t*++s1 = c;\n\t\t\tif (c == '\\0')\n\t\t\t\treturn s;\n\t\t\tc = *s2++;\n\t\t\t*++s1 = c;"},
            {'file': 'compat/libc/string/strncat.c', 'func': 'strncat', 'ghost': 'g_w = C08_IDX(s1, g_d0) + 1 - g_dlen;', 'at': 'after', 'anchor': "do {\n\t\t\tc = *s2++;\n\t\t\t*++s1 = c;\n\t\t\tif (c == '\\0')\n\t\t\t\treturn s;\n\t\t\tc = *s2++;\n\t\t\t*++s1 = c;\n\t\t\tif (c == '\\0')\n\t\t\t\treturn s;\n\t\t\tc = *s2++;\n\t\t\t*++s1 = c;"},
            {'file': 'compat/libc/string/strncat.c', 'func': 'strncat', 'ghost': 'g_w = C08_IDX(s1, g_d0) + 1 - g_dlen;', 'at': 'after', 'anchor': "do {\n\t\t\tc = *s2++;\n\t\t\t*++s1 = c;\n\t\t\tif (c == '\\0')\n\t\t\t\treturn s;\n\t\t\tc = *s2++;\n\t\t\t*++s1 = c;\n\t\t\tif (c == '\\0')\n\t\t\t\treturn s;\n\t\t\tc = *s2++;\n\t\t\t*++s1 = c;\n\t\t\tif (c == '\\0')\n\t\t\t\treturn s;\n\t\t\tc = *s2++;\n\t\t\t*++s1 = c;"},
            {'file': 'compat/libc/string/strncat.c', 'func': 'strncat', 'ghost': 'g_w = C08_IDX(s1, g_d0) + 1 - g_dlen;', 'at': 'after', 'anchor': "while (n > 0) {\n\t\tc = *s2++;\n\t\t*++s1 = c;"},
            {'file': 'compat/libc/string/strncat.c', 'func': 'strncat', 'ghost': 'g_w = C08_IDX(s1, g_d0) + 1 - g_dlen;', 'at': 'after', 'anchor': "*++s1 = '\\0';"}],
 'ghost_calls': ['C08_IDX'],
 'assumptions': ['strncat: s1 and s2 are distinct objects (ISO: no overlap); s2 is an object of ss bytes that is NUL-terminated (last byte) or has ss >= n; the destination object has room for Ld + min(n, bound of strlen(s2)) + 1 bytes (writes beyond the new terminator are caught by the frame clause)'],
 'params': {'C08_FIXOFF': [0]}, 'params_thorough': {'C08_FIXOFF': [0, 3]},
 'mem_gb': 24, 'timeout': 900,
 'witness': {'unwind': 12},
} @*/
#include "c08_harness.h"
#include "c08_string.h"
const char *g_d0, *g_s20; /* ghost: initial s1 / s2 (both parameters are advanced) */
size_t g_n0, g_Ld, g_lim, g_k, g_j;
char g_sv;             /* old s2[g_j] */
size_t g_dlen;         /* ghost output: strlen(s1) before the call */
size_t g_w;            /* ghost output: number of bytes written (appended characters + the terminator) */
const char *g_fp; char g_fv; /* ghost frame byte of the destination object and its old value */
#include "compat/libc/string/strncat.c"

void harness(void)
{
    WIT(size_t, offs);
    WIT(size_t, offd);
    WIT(size_t, ss);
    WIT(size_t, Ld);
    WIT(size_t, n);
    WIT(size_t, tail);
    WIT(size_t, k);
    WIT(size_t, j);
    WIT(size_t, f);
    WIT_ARR(char, cs, 6);
    WIT_ARR(char, cd, 6);
    __CPROVER_assume(C08_OFF_OK(offs) && C08_OFF_OK(offd) && ss <= VC_MAXOBJ && n <= VC_MAXOBJ && Ld < VC_MAXOBJ && tail <= 8);
    char *sbase = NEW_OBJ(offs + ss);
    FILL(sbase, offs + ss, cs);
    char *src = sbase + offs;
    _Bool term = ss > 0 && src[ss - 1] == 0;
    __CPROVER_assume(term || n <= ss);
    g_lim = term ? ss - 1 : (size_t)-1;
    size_t maxapp = term && ss - 1 < n ? ss - 1 : n; /* upper bound of the number of characters appended */
    size_t dsize = offd + Ld + maxapp + 1 + tail;
    char *dbase = NEW_OBJ(dsize);
    FILL(dbase, dsize, cd);
    char *dst = dbase + offd;
    __CPROVER_assume(dst[Ld] == 0);
    g_Ld = Ld; g_k = k; g_j = j;
    char d_k = k <= Ld ? dst[k] : 0;
    g_sv = j < ss ? src[j] : 0;
    __CPROVER_assume(f < dsize);
    g_fp = dbase + f; g_fv = dbase[f];

    char *r = vc_strncat(dst, src, n);

#ifdef WITNESS_MODE /* no ghost statements in the concretisation / native run: recompute the witnesses */
    g_dlen = 0;
    while (k != g_dlen && g_dlen < Ld && (g_fp == dst + g_dlen ? g_fv : dst[g_dlen])) g_dlen++; /* best effort on the modified buffer */
    g_w = 0;
    while (g_w < n && src[g_w]) g_w++;
    if (n > 0) g_w++;
#endif
    size_t dl = g_dlen;
    size_t m = g_w ? g_w - 1 : 0; /* characters appended; g_w == 0 only for n == 0 */
    __CPROVER_assert(r == dst, "strncat: returns s1");
    __CPROVER_assert(dl <= Ld && (!(k < dl) || d_k != 0) && (!(k == dl) || d_k == 0), "strncat: witness dl = strlen(s1) before the call");
    __CPROVER_assert(m <= n && (m == n || (m < ss && src[m] == 0)) && (!(j < m) || g_sv != 0), "strncat: witness m = min(strlen(s2), n)");
    __CPROVER_assert(!(j < m) || dst[dl + j] == g_sv, "strncat: the first m characters of s2 appended, starting at the old terminator of s1");
    __CPROVER_assert(dst[dl + m] == 0, "strncat: result is NUL-terminated right after the appended characters");
    __CPROVER_assert((g_fp >= dst + dl && g_fp <= dst + dl + m) || *g_fp == g_fv, "strncat: every byte of the destination object outside s1[dl..dl+m] unchanged");
    __CPROVER_assert(!(j < ss) || src[j] == g_sv, "strncat: s2 intact");
    CANARY("strncat harness end reachable");
}
