/*@unit {
 'kind': 'proof', 'mode': 'legacy',
 'functions': ['strtok'],
 'replace': ['vc_strtok_r'],
 'clauses': 'ISO 7.24.5.8 strtok: strtok(s, delim) has the token semantics of strtok_r (contract C08_STRTOK_CORE_POST: delimiters skipped, token of non-delimiters, NUL over the ending delimiter, rest intact) with an internal save pointer; two-call lemma: a following strtok(NULL, delim) continues exactly at the pointer the first call saved (the precondition g_strtok_S == *saveptr of the replaced strtok_r call is CHECKED against s + next of the first call) and again satisfies the token semantics relative to that position. Proved against the CONTRACT of strtok_r',
 'kf': ['C08_strtok_r_saveptr'], 'kf_probe_case': {'C08_strtok_r_saveptr': {'NEVER_PROBED_HERE': 1}},
 'params': {'C08_FIXOFF': [0, 3]},
 'trusted': ['legacy contract replacement: cbmc --dfcc does not havoc *saveptr (a function-local static reached through a pointer parameter) in the SECOND replaced call, which makes the continuation vacuous (second token unreachable); the legacy instrumentation does'],
 'canaries': 4,
 'witness': {'unwind': 8},
} @*/
#include "c08_harness.h"
#include "c08_string.h"
#ifdef REPLAY /* native run: the real shim code */
#include "compat/libc/string/strchrnul.c"
#include "compat/libc/string/strchr.c"
#include "compat/libc/string/strcspn.c"
#endif
#include "compat/libc/string/strtok.c"

void harness(void)
{
    WIT(size_t, off);
    WIT(size_t, offd);
    WIT(size_t, L);
    WIT(size_t, Ld);
    WIT(size_t, k);
    WIT(size_t, k2);
    WIT(size_t, j);
    WIT_ARR(char, cs, 6);
    WIT_ARR(char, cdl, 6);
    C08_STRING(s, off, L, cs);
    C08_STRING(delim, offd, Ld, cdl);
    g_strtok_S = s; g_strtok_L = L; g_strtok_Ld = Ld; g_strtok_k = k; g_strtok_j = j;
    g_strtok_v = k <= L ? s[k] : 0;

    char *r1 = vc_strtok(s, delim);

#ifndef WITNESS_MODE /* the witnesses are outputs of the replaced contract; natively the real code runs and the
                        clause-by-clause check is the strtok_r unit's business */
    __CPROVER_assert(C08_STRTOK_CORE_POST(r1, delim), "strtok: first call has the token semantics of strtok_r on s");
#endif
    if (r1 != NULL && k <= L && s[k] != g_strtok_v) CANARY("strtok: a delimiter is overwritten (the contract havoc is effective)");
    if (r1 != NULL) {
        __CPROVER_assert(__CPROVER_same_object(r1, s) && r1 >= s && r1 <= s + L, "strtok: token inside the string");
#ifdef WITNESS_MODE
        size_t nx = (size_t)(r1 - s); while (s[nx]) nx++; if (nx < L) nx++; /* behind the token (best effort) */
#else
        size_t nx = g_strtok_next;
#endif
        /* continuation: the string that remains behind the first token */
        g_strtok_S = s + nx; g_strtok_L = L - nx; g_strtok_k = k2;
        g_strtok_v = k2 <= L - nx ? s[nx + k2] : 0;

        char *r2 = vc_strtok(NULL, delim);

#ifndef WITNESS_MODE
        __CPROVER_assert(C08_STRTOK_CORE_POST(r2, delim), "strtok: the call with NULL continues at the saved position with the same token semantics");
#endif
        __CPROVER_assert(r2 == NULL || (__CPROVER_same_object(r2, s) && r2 >= s + nx && r2 <= s + L), "strtok: second token lies behind the first");
        CANARY("strtok: two-call sequence reachable");
        if (r2 != NULL) CANARY("strtok: second token reachable");
    }
    CANARY("strtok harness end reachable");
}
