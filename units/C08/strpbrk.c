/*@unit {
 'kind': 'proof', 'mode': 'legacy',
 'functions': ['strpbrk'],
 'clauses': 'ISO 7.24.5.4 strpbrk: pointer to the first byte of s1 that occurs in s2 (a non-NUL byte found before the terminator of s2; no earlier byte of s1 is a member); NULL iff no byte of s1 is a member; reads nothing after the terminators; modifies nothing',
 'inject': [{'file': 'compat/libc/string/strpbrk.c', 'func': 'strpbrk', 'ghost': 'g_s0 = s1; g_end = 0;', 'at': 'func-begin'},
            {'file': 'compat/libc/string/strpbrk.c', 'func': 'strpbrk', 'loop': 0, 'expect': 'while (*s1)',
             'assigns': 's1, c, g_rend',
             'invariants': ['__CPROVER_same_object(s1, g_s0) && C08_IDX(s1, g_s0) <= g_L && g_s0[0] != 0',
                            '__CPROVER_same_object(c, s2) && C08_IDX(c, s2) <= g_L2 && (C08_IDX(s1, g_s0) == 0 ? c == s2 : *c == 0)',
                            'C08_IMP(g_k < C08_IDX(s1, g_s0), g_s0[g_k] != 0 && g_rend <= g_L2 && s2[g_rend] == 0 && C08_IMP(g_j < g_rend, s2[g_j] != g_s0[g_k]))'],
             'decreases': 'g_L - C08_IDX(s1, g_s0)'},
            {'file': 'compat/libc/string/strpbrk.c', 'func': 'strpbrk', 'loop': 1, 'expect': 'for (c = s2; *c; c++)',
             'assigns': 'c',
             'invariants': ['__CPROVER_same_object(c, s2) && C08_IDX(c, s2) <= g_L2',
                            'C08_IMP(g_j < C08_IDX(c, s2), s2[g_j] != 0 && s2[g_j] != *s1)'],
             'decreases': 'g_L2 - C08_IDX(c, s2)'},
            {'file': 'compat/libc/string/strpbrk.c', 'func': 'strpbrk', 'ghost': 'if (C08_IDX(s1, g_s0) == g_k) g_rend = C08_IDX(c, s2);', 'at': 'before', 'anchor': 's1++;'},
            {'file': 'compat/libc/string/strpbrk.c', 'func': 'strpbrk', 'ghost': 'g_end = C08_IDX(s1, g_s0); g_hit = C08_IDX(c, s2);', 'at': 'before', 'anchor': "if (*c == '\\0')"}],
 'ghost_calls': ['C08_IDX'],
 'params': {'C08_FIXOFF': [0, 3]},
 'witness': {'unwind': 8},
} @*/
#include "c08_harness.h"
#include "c08_string.h"
const char *g_s0; /* ghost: initial s1 (the parameter is advanced, then possibly set to NULL) */
size_t g_L, g_L2, g_k, g_j;
size_t g_rend; /* ghost output: for the non-member s1[g_k]: the NUL of s2 the search reached */
size_t g_end;  /* ghost output: index in s1 where the scan stopped */
size_t g_hit;  /* ghost output: index in s2 where s1[g_end] was found */
#include "compat/libc/string/strpbrk.c"

void harness(void)
{
    WIT(size_t, off);
    WIT(size_t, off2);
    WIT(size_t, L);
    WIT(size_t, L2);
    WIT(size_t, k);
    WIT(size_t, j);
    WIT_ARR(char, cs, 6);
    WIT_ARR(char, cset, 6);
    C08_STRING(s, off, L, cs);
    C08_STRING(set, off2, L2, cset);
    g_L = L; g_L2 = L2; g_k = k; g_j = j;
    char s_k = k <= L ? s[k] : 0, t_j = j <= L2 ? set[j] : 0;

    char *r = vc_strpbrk(s, set);

#ifdef WITNESS_MODE /* no ghost statements in the concretisation / native run: recompute the witnesses */
    g_rend = 0;
    while (set[g_rend]) g_rend++;
    g_end = 0; g_hit = 0;
    for (; s[g_end]; g_end++) {
        for (g_hit = 0; set[g_hit] && set[g_hit] != s[g_end]; g_hit++) ;
        if (set[g_hit]) break;
    }
#endif
    size_t e = g_end;
    __CPROVER_assert(e <= L, "strpbrk: stop position inside s1");
    if (k < e) {
        __CPROVER_assert(s_k != 0 && g_rend <= L2 && set[g_rend] == 0, "strpbrk: every byte before the stop position is non-NUL and was searched up to a NUL of s2 ...");
        __CPROVER_assert(!(j < g_rend) || t_j != s_k, "strpbrk: ... without being found");
    }
    if (r == NULL) {
        __CPROVER_assert(s[e] == 0, "strpbrk: NULL only when the whole string was scanned");
    } else {
        __CPROVER_assert(r == s + e && s[e] != 0, "strpbrk: result is the stop position, a non-NUL byte");
        __CPROVER_assert(g_hit <= L2 && set[g_hit] == s[e] && (!(j < g_hit) || t_j != 0), "strpbrk: ... that occurs in s2 before its terminator");
    }
    __CPROVER_assert((!(k <= L) || s[k] == s_k) && (!(j <= L2) || set[j] == t_j), "strpbrk: does not modify the strings");
    CANARY("strpbrk harness end reachable");
}
