/*@unit {
 'kind': 'proof', 'mode': 'dfcc',
 'functions': ['memcpy'],
 'enforce': 'memcpy', 'replace': ['vc_memcpy'],
 'clauses': 'Contract refinement: the memcpy contract of contracts/libc_contracts.h (the literal text other properties assume for the host libc: ISO no-overlap precondition, r_ok/w_ok, returns dst, dst[k] == old src[k], assigns only dst[0..n)) is ENFORCED on a wrapper whose body is a call of the shim memcpy used through its C08 contract (C08_MEMCPY_*, precondition C08_FWD_OK). Hence the shim memcpy, which the memcpy_* units verify against C08_MEMCPY_*, satisfies exactly the libc_contracts.h clauses',
 'trusted': ['vc_memcpy contract: proved by memcpy_bytes (proof) and memcpy_words (bounded stand-in for the word path)'],
} @*/
#include "libc_contracts.h" /* first: here memcpy / memmove are still the libc names */
#include "c08_harness.h"
#include "c08_string.h"
#undef memcpy
void *memcpy(void *dst, const void *src, size_t n)
{
    /* same ghost index / value pair on both sides (g_memcpy_k, g_memcpy_v are shared by the two headers) */
    return vc_memcpy(dst, src, n);
}

void harness(void)
{
    WIT(size_t, so);
    WIT(size_t, dof);
    WIT(size_t, n);
    WIT(size_t, size);
    WIT(_Bool, same);
    WIT(size_t, k);
    WIT(char, v);
    __CPROVER_assume(n <= VC_MAXOBJ && size <= VC_MAXOBJ && so <= size && dof <= size);
    char *sbase = NEW_OBJ(size);
    char *dbase = same ? sbase : NEW_OBJ(size);
    g_memcpy_k = k;
    g_memcpy_v = v;
    /* every argument tuple; the enforced contract's own preconditions select the legal ones */
    void *r = memcpy(dbase + dof, sbase + so, n);
    CANARY("libc memcpy contract: end reachable");
}
