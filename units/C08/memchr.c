/*@unit {
 'kind': 'proof', 'mode': 'legacy',
 'functions': ['memchr'],
 'clauses': 'ISO 7.24.5.1 memchr: first occurrence of (unsigned char)c in s[0..n), NULL if none; reads only s[0..n) (n == 0: nothing); modifies nothing',
 'inject': [{'file': 'compat/libc/string/memchr.c', 'func': 'memchr', 'loop': 0, 'expect': 'while (n--)',
             'assigns': 'src, n',
             'invariants': ['__CPROVER_same_object(src, s)',
                            'n <= g_n0 && C08_IDX(src, s) == g_n0 - n',
                            'C08_IMP(g_k < g_n0 - n, ((const unsigned char *)s)[g_k] != d)'],
             'decreases': 'n'},
            {'file': 'compat/libc/string/memchr.c', 'func': 'memchr', 'ghost': 'g_n0 = n;', 'at': 'func-begin'}],
 'witness': {'unwind': 8},
} @*/
#include "c08_harness.h"
#include "c08_string.h"
size_t g_k, g_n0;
#include "compat/libc/string/memchr.c"

void harness(void)
{
    WIT(size_t, off);
    WIT(size_t, n);
    WIT(int, c);
    WIT(size_t, k);
    WIT_ARR(uchar, content, 6);
    C08_BLOCK(s, off, n, content);
    g_k = k;
    uchar at_k = k < n ? s[k] : 0;

    uchar *r = vc_memchr(s, c, n);

    if (r) {
        __CPROVER_assert(__CPROVER_same_object(r, s) && r >= s && (size_t)(r - s) < n, "memchr: result points into s[0..n)");
        __CPROVER_assert(*r == (uchar)c, "memchr: result points at a byte equal to (unsigned char)c");
        __CPROVER_assert(!(k < (size_t)(r - s)) || at_k != (uchar)c, "memchr: no earlier occurrence than the result");
    } else {
        __CPROVER_assert(!(k < n) || at_k != (uchar)c, "memchr: NULL only when c does not occur in s[0..n)");
    }
    __CPROVER_assert(!(k < n) || s[k] == at_k, "memchr: does not modify s");
    CANARY("memchr harness end reachable");
}
