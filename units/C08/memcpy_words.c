/*@unit {
 'kind': 'bounded', 'mode': 'plain',
 'bound': 'n from {32,33,39,40,47,56,63,64,71,96,103,127} (up to 3 rounds of the 4-word loop, 3 of the 1-word loop, 7 tail bytes), long-aligned offsets 8/16, three layouts (distinct objects; one object with dst one word below src = overlap from below; one object disjoint)',
 'functions': ['memcpy'],
 'clauses': 'ISO 7.24.2.1 memcpy, word-copy path (n >= 4*sizeof(long), src and dst long-aligned): same clauses as memcpy_bytes (C08_MEMCPY_* contract under C08_FWD_OK, frame, exact-size objects), all three loops. BOUNDED stand-in: the inductive step of the 4x-unrolled word loop does not go through any back end within the resource limits (pointers havocked by the loop contract make every one of the 8 word accesses a 6-way alias case split; 1x: 14 s, 2x: 60 s, 4x: > 1 h) - see NOTES.md',
 'unwind': 9,
 'params': {'LAY': [0, 1, 2], 'N': [32, 33, 39, 40, 47, 56, 63, 64, 71, 96, 103, 127]},
 'defines': ['SO=8', 'DO=16', 'DELTA=8', 'TAIL=(8-N%8)', 'C08_MAXOFF=16', 'C08_NMAX=127', 'C08_WITN=300'],
 'assumptions': ['pointer-to-integer casts follow cbmc\'s model (address = object base + offset, object bases long-aligned)'],
 'witness': {'unwind': 9},
} @*/
#include "c08_harness.h"
#include "c08_string.h"
size_t g_n0;
#ifndef C08_NMAX
#define C08_NMAX VC_MAXOBJ /* bounded units: their own bound, also in witness mode */
#define C08_WITN 6
#endif
const char *g_fp; char g_fv; /* ghost frame byte: a byte of the destination object outside dst[0..n) */
#include "compat/libc/string/memcpy.c"

/* Operand layouts.  LAY=0: distinct objects.  LAY=1: one object, dst below src by a distance `delta`
 * (delta < n: dst overlaps src from below, the case memmove hands to memcpy; delta >= n: disjoint).
 * LAY=2: one object, src below dst, disjoint (src + n + gap == dst).
 * Offsets: symbolic (every alignment) unless the unit fixes them through SO / DO / DELTA. */
void harness(void)
{
    WIT(size_t, so);
    WIT(size_t, dof);
    WIT(size_t, n);
    WIT(size_t, delta);
    WIT(size_t, tail);
    WIT(size_t, k);
    WIT(size_t, f);
    WIT_ARR(char, cs, C08_WITN);
    WIT_ARR(char, cd, C08_WITN);
    __CPROVER_assume(n <= C08_NMAX && tail <= 8 && so <= C08_MAXOFF && dof <= C08_MAXOFF && delta <= C08_NMAX);
#ifdef N
    __CPROVER_assume(n == N);
#endif
#ifdef SO
    __CPROVER_assume(so == SO);
#endif
#ifdef DO
    __CPROVER_assume(dof == DO);
#endif
#ifdef DELTA
    __CPROVER_assume(delta == DELTA);
#endif
#ifdef TAIL
    __CPROVER_assume(tail == TAIL);
#endif
    char *src, *dst, *dbase;
    size_t dsize;
#if LAY == 0
    char *sbase = NEW_OBJ(so + n);
    FILL(sbase, so + n, cs);
    src = sbase + so;
    dsize = dof + n + tail + 1;
    dbase = NEW_OBJ(dsize);
    FILL(dbase, dsize, cd);
    dst = dbase + dof;
#elif LAY == 1
    dsize = dof + delta + n + (delta == 0);     /* src block ends the object; one frame byte when dst == src */
    dbase = NEW_OBJ(dsize);
    FILL(dbase, dsize, cd);
    dst = dbase + dof; src = dst + delta;
#else
    dsize = so + n + tail + n + 1;
    dbase = NEW_OBJ(dsize);
    FILL(dbase, dsize, cd);
    src = dbase + so; dst = src + n + tail;
    dof = so + n + tail;
#endif
    __CPROVER_assert(C08_FWD_OK(dst, src, n), "harness layouts satisfy C08_FWD_OK");
    _Bool aligned = !(((long)(intptr_t)src | (long)(intptr_t)dst) & (sizeof(long) - 1));
#ifdef BYTE_PATH
    __CPROVER_assume(n < 4 * sizeof(long) || !aligned);
#else
    __CPROVER_assume(n >= 4 * sizeof(long) && aligned);
#endif
    g_memcpy_k = k;
    g_memcpy_v = k < n ? src[k] : 0;
    __CPROVER_assert(C08_MEM_ACCESS_PRE(dst, src, n) && C08_MEMCPY_GHOST_PRE(src, n), "harness state satisfies the contract precondition");
    __CPROVER_assume(f < dsize && !(f >= dof && f < dof + n));
    g_fp = dbase + f; g_fv = dbase[f];

    void *r = vc_memcpy(dst, src, n);

    __CPROVER_assert(C08_MEMCPY_POST(r, dst, n), "memcpy: contract postcondition (returns dst, dst[k] == old src[k] for every k < n)");
    __CPROVER_assert(*g_fp == g_fv, "memcpy: bytes of the destination object outside dst[0..n) unchanged");
    CANARY("memcpy harness end reachable");
}
