/*@unit {
 'kind': 'proof', 'mode': 'legacy',
 'functions': ['strchrnul'],
 'clauses': 'GNU strchrnul: pointer to the first byte of str equal to (char)ch, or to the terminating NUL if there is none; reads nothing after the first NUL; modifies nothing. Proves contract C08_STRCHRNUL_* of c08_string.h (string at any offset of an exact-size object, earlier NULs allowed, every int ch)',
 'inject': [{'file': 'compat/libc/string/strchrnul.c', 'func': 'strchrnul', 'loop': 0, 'expect': 'while (*str && *str != c)',
             'assigns': 'str',
             'invariants': ['__CPROVER_same_object(str, g_s0)',
                            'C08_IDX(str, g_s0) <= g_strchrnul_L',
                            'C08_IMP(g_strchrnul_k < C08_IDX(str, g_s0), g_s0[g_strchrnul_k] != c && g_s0[g_strchrnul_k] != 0)'],
             'decreases': 'g_strchrnul_L - C08_IDX(str, g_s0)'},
            {'file': 'compat/libc/string/strchrnul.c', 'func': 'strchrnul', 'ghost': 'g_s0 = str;', 'at': 'func-begin'}],
 'witness': {'unwind': 8},
} @*/
#include "c08_harness.h"
#include "c08_string.h"
const char *g_s0; /* ghost: the parameter str is advanced by the loop; its initial value */
#include "compat/libc/string/strchrnul.c"

void harness(void)
{
    WIT(size_t, off);
    WIT(size_t, L);
    WIT(int, ch);
    WIT(size_t, k);
    WIT_ARR(char, content, 6);
    C08_STRING(s, off, L, content);
    g_strchrnul_L = L;
    g_strchrnul_k = k;
    __CPROVER_assert(C08_STRCHRNUL_PRE(s), "harness state satisfies the contract precondition");
    char at_k = k <= L ? s[k] : 0;

    char *r = vc_strchrnul(s, ch);

    __CPROVER_assert(C08_STRCHRNUL_POST(r, s, ch), "strchrnul: contract postcondition (first byte that is (char)ch or NUL)");
    __CPROVER_assert(!(k <= L) || s[k] == at_k, "strchrnul: does not modify the string");
    CANARY("strchrnul harness end reachable");
}
