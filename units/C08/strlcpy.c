/*@unit {
 'kind': 'proof', 'mode': 'legacy',
 'functions': ['strlcpy'],
 'replace': ['vc_strlen'],
 'clauses': 'BSD strlcpy (and the comment in strlcpy.c): copies min(strlen(src), size-1) characters to dst and NUL-terminates when size > 0; writes nothing when size == 0; RETURNS strlen(src) (so that r >= size signals truncation); bytes of the destination object outside dst[0..min(len,size-1)] unchanged; reads src only up to its terminator. strlen (size == 0 path) used through its contract',
 'inject': [{'file': 'compat/libc/string/strlcpy.c', 'func': 'strlcpy', 'ghost': 'g_d0 = dst; g_strlen_L = g_L; g_strlen_k = g_k;', 'at': 'func-begin'},
            {'file': 'compat/libc/string/strlcpy.c', 'func': 'strlcpy', 'loop': 0, 'expect': 'while(n-- != 1)',
             'assigns': 'dst, s, n, __CPROVER_object_whole(g_d0)',
             'invariants': ['__CPROVER_same_object(dst, g_d0) && __CPROVER_same_object(s, src)',
                            '1 <= n && n <= size && C08_IDX(dst, g_d0) == size - n && C08_IDX(s, src) == size - n && size - n <= g_L',
                            'C08_IMP(g_k < size - n, g_v != 0 && g_d0[g_k] == g_v)',
                            'C08_IMP(!(g_fp >= g_d0 && g_fp < dst), *g_fp == g_fv)'],
             'decreases': 'n'},
            {'file': 'compat/libc/string/strlcpy.c', 'func': 'strlcpy', 'ghost': "g_m = C08_IDX(dst, g_d0); g_strlen_L = g_L - C08_IDX(s, src); g_strlen_k = g_k - C08_IDX(s, src);", 'at': 'before', 'anchor': "*dst = '\\0';"}],
 'ghost_calls': ['C08_IDX'],
 'kf': ['C08_strlcpy_return'], 'kf_probe_case': {'C08_strlcpy_return': {'C08_FIXOFF': 0}},
 'assumptions': ['strlcpy: dst and src are distinct objects'],
 'params': {'C08_FIXOFF': [0]}, 'params_thorough': {'C08_FIXOFF': [0, 3]},
 'witness': {'unwind': 8},
} @*/
#include "c08_harness.h"
#include "c08_string.h"
const char *g_d0;  /* ghost: initial dst (the parameter is advanced) */
size_t g_L, g_k;
char g_v;          /* old src[g_k] */
size_t g_m;        /* ghost output: number of characters copied */
const char *g_fp; char g_fv; /* ghost frame byte of the destination object and its old value */
#ifdef REPLAY /* native run: the replaced callee is the real shim code */
#include "compat/libc/string/strlen.c"
#endif
#include "compat/libc/string/strlcpy.c"

void harness(void)
{
    WIT(size_t, offs);
    WIT(size_t, offd);
    WIT(size_t, L);
    WIT(size_t, size);
    WIT(size_t, tail);
    WIT(size_t, k);
    WIT(size_t, f);
    WIT_ARR(char, cs, 6);
    WIT_ARR(char, cd, 6);
    C08_STRING(src, offs, L, cs);
    __CPROVER_assume(C08_OFF_OK(offd) && size <= VC_MAXOBJ && tail <= 8);
    size_t dsize = offd + size + tail + 1;
    char *dbase = NEW_OBJ(dsize);
    FILL(dbase, dsize, cd);
    char *dst = dbase + offd;
    g_L = L; g_k = k;
    g_v = k <= L ? src[k] : 0;
    __CPROVER_assume(f < dsize);
    g_fp = dbase + f; g_fv = dbase[f];

    size_t r = vc_strlcpy(dst, src, size);

#ifdef WITNESS_MODE /* no ghost statements in the concretisation / native run: recompute the witness */
    g_m = 0;
    while (g_m + 1 < size && src[g_m]) g_m++;
#endif
    /* return value: strlen(src).  Known finding C08_strlcpy_return: when the copy is truncated the shim returns
       the number of characters copied (size-1) instead; carved: accept exactly that value in exactly that case */
    __CPROVER_assert(r <= L && (!(k < r) || g_v != 0), "strlcpy: return value does not exceed strlen(src)");
    _Bool is_len = src[r] == 0;
    _Bool trunc_count = size > 0 && r == size - 1; /* with the previous clause: r < strlen(src), i.e. truncation */
    __CPROVER_assert(KF_C08_strlcpy_return == 1 ? (is_len || trunc_count) : is_len, "strlcpy: returns strlen(src), also when the copy is truncated");
    if (size == 0) {
        __CPROVER_assert(*g_fp == g_fv, "strlcpy: size == 0 writes nothing");
    } else {
        size_t m = g_m;
        __CPROVER_assert(m < size && m <= L && (m == size - 1 || src[m] == 0), "strlcpy: witness m = min(strlen(src), size-1)");
        __CPROVER_assert(!(k < m) || (g_v != 0 && dst[k] == g_v), "strlcpy: the first min(strlen(src), size-1) characters are copied");
        __CPROVER_assert(dst[m] == 0, "strlcpy: dst is NUL-terminated");
        __CPROVER_assert((g_fp >= dst && g_fp <= dst + m) || *g_fp == g_fv, "strlcpy: bytes of the destination object outside dst[0..m] unchanged");
    }
    __CPROVER_assert(!(k <= L) || src[k] == g_v, "strlcpy: src intact");
    CANARY("strlcpy harness end reachable");
}
