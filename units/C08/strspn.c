/*@unit {
 'kind': 'proof', 'mode': 'legacy',
 'functions': ['strspn'],
 'clauses': 'ISO 7.24.5.6 strspn: length of the maximal initial segment of s consisting of characters from accept (every byte before r is a non-NUL member of accept; s[r] is the terminator or a non-member); reads nothing after the terminators; modifies nothing',
 'inject': [{'file': 'compat/libc/string/strspn.c', 'func': 'strspn', 'loop': 0, 'expect': 'for (p = s;',
             'assigns': 'p, a, count, g_hit',
             'invariants': ['__CPROVER_same_object(p, s) && C08_IDX(p, s) == count && count <= g_L',
                            'C08_IMP(g_k < count, s[g_k] != 0 && g_hit <= g_La && accept[g_hit] == s[g_k] && C08_IMP(g_j < g_hit, accept[g_j] != 0))'],
             'decreases': 'g_L - count'},
            {'file': 'compat/libc/string/strspn.c', 'func': 'strspn', 'loop': 1, 'expect': 'for (a = accept;',
             'assigns': 'a',
             'invariants': ['__CPROVER_same_object(a, accept) && C08_IDX(a, accept) <= g_La',
                            'C08_IMP(g_j < C08_IDX(a, accept), accept[g_j] != 0 && accept[g_j] != *p)'],
             'decreases': 'g_La - C08_IDX(a, accept)'},
            {'file': 'compat/libc/string/strspn.c', 'func': 'strspn', 'ghost': 'if (count - 1 == g_k) g_hit = C08_IDX(a, accept);', 'at': 'after', 'anchor': '++count;'},
            {'file': 'compat/libc/string/strspn.c', 'func': 'strspn', 'ghost': 'g_aend = C08_IDX(a, accept);', 'at': 'after', 'anchor': "if (*a == '\\0') {"}],
 'ghost_calls': ['C08_IDX'],
 'params': {'C08_FIXOFF': [0, 3]},
 'witness': {'unwind': 8},
} @*/
#include "c08_harness.h"
#include "c08_string.h"
size_t g_L, g_La, g_k, g_j;
size_t g_hit;  /* ghost output: for s[g_k] inside the segment, where it occurs in accept */
size_t g_aend; /* ghost output: when the segment ends at a non-member: the NUL of accept the search reached */
#include "compat/libc/string/strspn.c"

void harness(void)
{
    WIT(size_t, off);
    WIT(size_t, offa);
    WIT(size_t, L);
    WIT(size_t, La);
    WIT(size_t, k);
    WIT(size_t, j);
    WIT_ARR(char, cs, 6);
    WIT_ARR(char, cacc, 6);
    C08_STRING(s, off, L, cs);
    C08_STRING(acc, offa, La, cacc);
    g_L = L; g_La = La; g_k = k; g_j = j;
    char s_k = k <= L ? s[k] : 0, a_j = j <= La ? acc[j] : 0;

    size_t r = vc_strspn(s, acc);

    __CPROVER_assert(r <= L, "strspn: result inside the string");
#ifdef WITNESS_MODE /* no ghost statements in the concretisation / native run: recompute the witnesses */
    g_hit = 0;
    if (k < r && k <= L) while (acc[g_hit] && acc[g_hit] != s[k]) g_hit++;
    g_aend = 0;
    while (acc[g_aend]) g_aend++;
#endif
    if (k < r) {
        __CPROVER_assert(s_k != 0 && g_hit <= La && acc[g_hit] == s_k, "strspn: every byte of the segment occurs in accept ...");
        __CPROVER_assert(!(j < g_hit) || a_j != 0, "strspn: ... before the terminator of accept");
    }
    if (r <= L && s[r] != 0) {
        __CPROVER_assert(g_aend <= La && acc[g_aend] == 0, "strspn: the segment ends at a byte that does not occur in accept ...");
        __CPROVER_assert(!(j < g_aend) || a_j != s[r], "strspn: ... up to a NUL of accept");
    }
    __CPROVER_assert((!(k <= L) || s[k] == s_k) && (!(j <= La) || acc[j] == a_j), "strspn: does not modify the strings");
    CANARY("strspn harness end reachable");
}
