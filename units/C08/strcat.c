/*@unit {
 'kind': 'proof', 'mode': 'dfcc',
 'functions': ['strcat'],
 'trusted': ['mode dfcc because cbmc legacy loop contracts do not support do-while loops with a side-effect-free condition'],
 'clauses': 'ISO 7.24.3.1 strcat: appends a copy of the string src (with its terminator) to the end of the string dest, the first character of src overwriting the terminator of dest; returns dest; the old characters of dest and every byte of the destination object after the new terminator are unchanged; src intact',
 'inject': [{'file': 'compat/libc/string/strcat.c', 'func': 'strcat', 'loop': 0, 'expect': 'do',
             'assigns': 's1, c',
             'invariants': ['__CPROVER_same_object(s1, dest) && C08_IDX(s1, dest) <= g_Ld',
                            'C08_IMP(g_k < C08_IDX(s1, dest), dest[g_k] != 0)'],
             'decreases': 'g_Ld - C08_IDX(s1, dest)'},
            {'file': 'compat/libc/string/strcat.c', 'func': 'strcat', 'ghost': 'g_dlen = C08_IDX(s1, dest) - 1;', 'at': 'before', 'anchor': 's1 -= 2;'},
            {'file': 'compat/libc/string/strcat.c', 'func': 'strcat', 'loop': 1, 'expect': 'do',
             'assigns': 's1, s2, c, __CPROVER_object_whole(dest)',
             'invariants': ['__CPROVER_same_object(s1, dest) && __CPROVER_same_object(s2, src) && C08_IDX(s2, src) <= g_Ls',
                            's1 + 1 == dest + (g_dlen + C08_IDX(s2, src))',
                            'g_dlen <= g_Ld',
                            'C08_IMP(g_j < C08_IDX(s2, src), g_sv != 0 && dest[g_dlen + g_j] == g_sv)',
                            'C08_IMP(!(g_fp >= dest + g_dlen && g_fp < dest + g_dlen + C08_IDX(s2, src)), *g_fp == g_fv)'],
             'decreases': 'g_Ls - C08_IDX(s2, src)'},
            {'file': 'compat/libc/string/strcat.c', 'func': 'strcat', 'ghost': 'g_slen = C08_IDX(s2, src) - 1;', 'at': 'before', 'anchor': 'return dest;'}],
 'ghost_calls': ['C08_IDX'],
 'assumptions': ['strcat: dest and src are distinct objects (ISO: no overlap); the destination object has room for Ld + Ls + 1 bytes where dest[Ld] and src[Ls] are NULs (an upper bound of strlen(dest) + strlen(src) + 1; writes beyond the new terminator are caught by the frame clause)'],
 'params': {'C08_FIXOFF': [0]}, 'params_thorough': {'C08_FIXOFF': [0, 3]},
 'witness': {'unwind': 8},
} @*/
#include "c08_harness.h"
#include "c08_string.h"
size_t g_Ld, g_Ls, g_k, g_j;
char g_sv;            /* old src[g_j] */
size_t g_dlen, g_slen; /* ghost outputs: strlen(dest) before the call, strlen(src) */
const char *g_fp; char g_fv; /* ghost frame byte of the destination object and its old value */
#include "compat/libc/string/strcat.c"

void harness(void)
{
    WIT(size_t, offs);
    WIT(size_t, offd);
    WIT(size_t, Ls);
    WIT(size_t, Ld);
    WIT(size_t, tail);
    WIT(size_t, k);
    WIT(size_t, j);
    WIT(size_t, f);
    WIT_ARR(char, cs, 6);
    WIT_ARR(char, cd, 6);
    C08_STRING(src, offs, Ls, cs);
    __CPROVER_assume(C08_OFF_OK(offd) && Ld < VC_MAXOBJ && tail <= 8);
    size_t dsize = offd + Ld + Ls + 1 + tail;
    char *dbase = NEW_OBJ(dsize);
    FILL(dbase, dsize, cd);
    char *dst = dbase + offd;
    __CPROVER_assume(dst[Ld] == 0);
    g_Ld = Ld; g_Ls = Ls; g_k = k; g_j = j;
    char d_k = k <= Ld ? dst[k] : 0;
    g_sv = j <= Ls ? src[j] : 0;
    __CPROVER_assume(f < dsize);
    g_fp = dbase + f; g_fv = dbase[f];

    char *r = vc_strcat(dst, src);

#ifdef WITNESS_MODE /* no ghost statements in the concretisation / native run: recompute the witnesses */
    g_dlen = 0;
    while (k != g_dlen && g_dlen < Ld && (g_fp == dst + g_dlen ? g_fv : dst[g_dlen])) g_dlen++; /* best effort on the modified buffer */
    g_slen = 0;
    while (src[g_slen]) g_slen++;
#endif
    size_t dl = g_dlen, sl = g_slen;
    __CPROVER_assert(r == dst, "strcat: returns dest");
    __CPROVER_assert(dl <= Ld && (!(k < dl) || d_k != 0) && (!(k == dl) || d_k == 0), "strcat: witness dl = strlen(dest) before the call");
    __CPROVER_assert(sl <= Ls && src[sl] == 0 && (!(j < sl) || g_sv != 0), "strcat: witness sl = strlen(src)");
    __CPROVER_assert(!(j <= sl) || dst[dl + j] == g_sv, "strcat: src appended with its terminator, starting at the old terminator of dest");
    __CPROVER_assert((g_fp >= dst + dl && g_fp <= dst + dl + sl) || *g_fp == g_fv, "strcat: every byte of the destination object outside dest[dl..dl+sl] (old characters of dest, bytes after the new terminator, slack) unchanged");
    __CPROVER_assert(!(j <= Ls) || src[j] == g_sv, "strcat: src intact");
    CANARY("strcat harness end reachable");
}
