/*@unit {
 'kind': 'proof', 'mode': 'legacy',
 'functions': ['strchr'],
 'replace': ['vc_strchrnul'],
 'clauses': 'ISO 7.24.5.2 strchr: pointer to the first occurrence of (char)ch in the string, the terminating NUL being part of the string; NULL iff it does not occur. Proved against the CONTRACT of strchrnul; proves contract C08_STRCHR_* of c08_string.h for every int ch',
 'inject': [{'file': 'compat/libc/string/strchr.c', 'func': 'strchr', 'ghost': 'g_strchrnul_L = g_strchr_L; g_strchrnul_k = g_strchr_k;', 'at': 'func-begin'},
            {'file': 'compat/libc/string/strchr.c', 'func': 'strchr', 'ghost': 'g_strchr_end = C08_IDX(chp, str);', 'at': 'after', 'anchor': 'char *chp = strchrnul(str, ch);'}],
 'ghost_calls': ['C08_IDX'],
 'kf': ['C08_strchr_wide_nul'],
 'witness': {'unwind': 8},
} @*/
#include "c08_harness.h"
#include "c08_string.h"
#ifdef REPLAY /* native run: the replaced callee is the real shim code */
#include "compat/libc/string/strchrnul.c"
#endif
#include "compat/libc/string/strchr.c"

void harness(void)
{
    WIT(size_t, off);
    WIT(size_t, L);
    WIT(int, ch);
    WIT(size_t, k);
    WIT_ARR(char, content, 6);
    C08_STRING(s, off, L, content);
    /* known finding: (char)ch == 0 with ch != 0 (256, -256, ...): the terminator is not found */
    __CPROVER_assume(KF_C08_strchr_wide_nul == 0 ? 1 : KF_C08_strchr_wide_nul == 1 ? !C08_STRCHR_KF_REGION(ch) : C08_STRCHR_KF_REGION(ch));
    g_strchr_L = L;
    g_strchr_k = k;
    __CPROVER_assert(C08_STRCHR_PRE(s), "harness state satisfies the contract precondition");
    char at_k = k <= L ? s[k] : 0;

    char *r = vc_strchr(s, ch);

#ifdef WITNESS_MODE /* no ghost statements in the concretisation / native run: recompute the witness */
    g_strchr_end = 0;
    while (s[g_strchr_end] && s[g_strchr_end] != (char)ch) g_strchr_end++;
#endif
    __CPROVER_assert(C08_STRCHR_POST(r, s, ch), "strchr: contract postcondition (first occurrence of (char)ch, terminator included; NULL iff none)");
    __CPROVER_assert(!(k <= L) || s[k] == at_k, "strchr: does not modify the string");
    CANARY("strchr harness end reachable");
}
