/*@unit {
 'kind': 'proof', 'mode': 'legacy',
 'functions': ['memcmp'],
 'clauses': 'ISO 7.24.4.1 memcmp: 0 when the first n bytes are equal (n == 0 included), otherwise the sign of the difference of the first differing pair of bytes compared as unsigned char; reads only [0..n) of both blocks (exact-size objects); modifies nothing',
 'inject': [{'file': 'compat/libc/string/memcmp.c', 'func': 'memcmp', 'loop': 0, 'expect': 'while (--n && *dst == *src)',
             'assigns': 'dst, src, n',
             'invariants': ['__CPROVER_same_object(dst, _dst) && __CPROVER_same_object(src, _src)',
                            '1 <= n && n <= g_n0 && C08_IDX(dst, _dst) == g_n0 - n && C08_IDX(src, _src) == g_n0 - n',
                            'C08_IMP(g_k < g_n0 - n, ((const unsigned char *)_dst)[g_k] == ((const unsigned char *)_src)[g_k])'],
             'decreases': 'n'},
            {'file': 'compat/libc/string/memcmp.c', 'func': 'memcmp', 'ghost': 'g_n0 = n;', 'at': 'func-begin'},
            {'file': 'compat/libc/string/memcmp.c', 'func': 'memcmp', 'ghost': 'g_end = C08_IDX(dst, _dst);', 'at': 'before', 'anchor': 'return *dst - *src;'}],
 'ghost_calls': ['C08_IDX'],
 'witness': {'unwind': 8},
} @*/
#include "c08_harness.h"
#include "c08_string.h"
size_t g_k, g_n0;
size_t g_end; /* ghost output: index at which the comparison stopped (witness of "first differing pair") */
#include "compat/libc/string/memcmp.c"

void harness(void)
{
    WIT(size_t, offa);
    WIT(size_t, offb);
    WIT(size_t, n);
    WIT(size_t, k);
    WIT_ARR(uchar, ca, 6);
    WIT_ARR(uchar, cb, 6);
    C08_BLOCK(a, offa, n, ca);
    C08_BLOCK(b, offb, n, cb);
    g_k = k;
    uchar a_k = k < n ? a[k] : 0, b_k = k < n ? b[k] : 0;

    int r = vc_memcmp(a, b, n);

    if (n == 0) {
        __CPROVER_assert(r == 0, "memcmp: n == 0 compares equal");
    } else {
#ifdef WITNESS_MODE /* no ghost statements are injected in the concretisation / native run: recompute the witness */
        size_t e = 0;
        while (e + 1 < n && a[e] == b[e]) e++;
#else
        size_t e = g_end;
#endif
        __CPROVER_assert(e < n, "memcmp: stop position inside the blocks");
        __CPROVER_assert(!(k < e) || a_k == b_k, "memcmp: all bytes before the stop position are pairwise equal");
        if (a[e] != b[e])
            __CPROVER_assert(SIGN(r) == SIGN((int)a[e] - (int)b[e]), "memcmp: sign of the first differing pair, compared as unsigned char");
        else
            __CPROVER_assert(e == n - 1 && r == 0, "memcmp: 0 only when all n bytes are equal");
    }
    __CPROVER_assert(!(k < n) || (a[k] == a_k && b[k] == b_k), "memcmp: does not modify the blocks");
    CANARY("memcmp harness end reachable");
}
