/*@unit {
 'kind': 'proof', 'mode': 'legacy',
 'functions': ['strcmp'],
 'clauses': 'ISO 7.24.4.2 strcmp: 0 when the strings are equal up to and including the terminator, otherwise the sign of the difference of the first differing pair compared as unsigned char; reads no byte after the first NUL / first difference of either string; modifies nothing',
 'inject': [{'file': 'compat/libc/string/strcmp.c', 'func': 'strcmp', 'loop': 0, 'expect': 'while (*s1 && *s1 == *s2)',
             'assigns': 's1, s2',
             'invariants': ['__CPROVER_same_object(s1, str1) && __CPROVER_same_object(s2, str2)',
                            'C08_IDX(s1, str1) <= g_La && C08_IDX(s2, str2) <= g_Lb && C08_IDX(s1, str1) == C08_IDX(s2, str2)',
                            'C08_IMP(g_k < C08_IDX(s1, str1), str1[g_k] == str2[g_k] && str1[g_k] != 0)'],
             'decreases': 'g_La - C08_IDX(s1, str1)'},
            {'file': 'compat/libc/string/strcmp.c', 'func': 'strcmp', 'ghost': 'g_end = C08_IDX(s1, str1);', 'at': 'before', 'anchor': 'return *s1 - *s2;'}],
 'ghost_calls': ['C08_IDX'],
 'witness': {'unwind': 8},
} @*/
#include "c08_harness.h"
#include "c08_string.h"
size_t g_k, g_La, g_Lb;
size_t g_end; /* ghost output: index at which the comparison stopped */
#include "compat/libc/string/strcmp.c"

void harness(void)
{
    WIT(size_t, offa);
    WIT(size_t, offb);
    WIT(size_t, La);
    WIT(size_t, Lb);
    WIT(size_t, k);
    WIT_ARR(char, ca, 6);
    WIT_ARR(char, cb, 6);
    C08_STRING(a, offa, La, ca);
    C08_STRING(b, offb, Lb, cb);
    g_k = k; g_La = La; g_Lb = Lb;
    char a_k = k <= La ? a[k] : 0, b_k = k <= Lb ? b[k] : 0;

    int r = vc_strcmp(a, b);

#ifdef WITNESS_MODE /* no ghost statements in the concretisation / native run: recompute the witness */
    size_t e = 0;
    while (a[e] && a[e] == b[e]) e++;
#else
    size_t e = g_end;
#endif
    __CPROVER_assert(e <= La && e <= Lb, "strcmp: stop position inside both strings");
    __CPROVER_assert(!(k < e) || (a_k == b_k && a_k != 0), "strcmp: before the stop position the strings agree and have no NUL");
    if (a[e] != b[e])
        __CPROVER_assert(SIGN(r) == SIGN((int)(uchar)a[e] - (int)(uchar)b[e]), "strcmp: sign of the first differing pair, compared as unsigned char");
    else
        __CPROVER_assert(a[e] == 0 && r == 0, "strcmp: 0 only when both strings end together");
    __CPROVER_assert((!(k <= La) || a[k] == a_k) && (!(k <= Lb) || b[k] == b_k), "strcmp: does not modify the strings");
    CANARY("strcmp harness end reachable");
}
