/*@unit {
 'kind': 'proof', 'mode': 'legacy',
 'functions': ['memrchr'],
 'clauses': 'POSIX memrchr: last occurrence of (unsigned char)c in s[0..n), NULL if none; reads only s[0..n), n==0 included',
 'inject': [{'file': 'compat/libc/string/memrchr.c', 'func': 'memrchr', 'loop': 0,
             'assigns': 'src',
             'invariants': ['__CPROVER_same_object(src, s)',
                            '__CPROVER_POINTER_OFFSET(src) >= 0 && (size_t)__CPROVER_POINTER_OFFSET(src) < n',
                            '(g_k < n && g_k > (size_t)__CPROVER_POINTER_OFFSET(src)) ==> ((const unsigned char*)s)[g_k] != d'],
             'decreases': '__CPROVER_POINTER_OFFSET(src)'}],
 'witness': {'unwind': 8},
} @*/
#include "vc.h"
#include <string.h>
size_t g_k; /* ghost index: arbitrary, so a statement about s[g_k] is a statement about every byte */
#define memrchr vc_memrchr
#include "compat/libc/string/memrchr.c"
#undef memrchr

void harness(void)
{
    WIT(size_t, n);
    WIT(int, c);
    WIT_ARR(uchar, content, 6);
    __CPROVER_assume(n <= VC_MAXOBJ);
    uchar *s = NEW_OBJ(n);
    FILL(s, n, content);
    WIT(size_t, k);
    g_k = k;
    uchar at_k = g_k < n ? s[g_k] : 0;

    uchar *r = vc_memrchr(s, c, n);

    if (r) {
        __CPROVER_assert(__CPROVER_same_object(r, s) && r >= s && (size_t)(r - s) < n, "memrchr: result points into s[0..n)");
        __CPROVER_assert(*r == (uchar)c, "memrchr: result points at a byte equal to (unsigned char)c");
        __CPROVER_assert(!(g_k < n && g_k > (size_t)(r - s)) || at_k != (uchar)c, "memrchr: no later occurrence than the result");
    } else {
        __CPROVER_assert(!(g_k < n) || at_k != (uchar)c, "memrchr: NULL only when c does not occur");
    }
    __CPROVER_assert(!(g_k < n) || s[g_k] == at_k, "memrchr: does not modify s");
    CANARY("memrchr harness end reachable");
}
