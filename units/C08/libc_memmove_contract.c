/*@unit {
 'kind': 'proof', 'mode': 'dfcc',
 'functions': ['memmove'],
 'enforce': 'memmove', 'replace': ['vc_memmove'],
 'clauses': 'Contract refinement: the memmove contract of contracts/libc_contracts.h (the literal text other properties assume for the host libc: r_ok/w_ok, returns dst, dst[k] == old src[k], assigns only dst[0..n)) is ENFORCED on a wrapper whose body is a call of the shim memmove used through its C08 contract (C08_MEMCPY_*, precondition C08_FWD_OK). Hence the shim memmove, which the memmove unit verifies against C08_MEMCPY_*, satisfies exactly the libc_contracts.h clauses',
 'trusted': ['vc_memmove contract: proved by memmove (proof, against the vc_memcpy contract)'],
} @*/
#include "libc_contracts.h" /* first: here memmove / memmove are still the libc names */
#include "c08_harness.h"
#include "c08_string.h"
#undef memmove
void *memmove(void *dst, const void *src, size_t n)
{
    /* same ghost index / value pair on both sides (g_memmove_k, g_memmove_v are shared by the two headers) */
    return vc_memmove(dst, src, n);
}

void harness(void)
{
    WIT(size_t, so);
    WIT(size_t, dof);
    WIT(size_t, n);
    WIT(size_t, size);
    WIT(_Bool, same);
    WIT(size_t, k);
    WIT(char, v);
    __CPROVER_assume(n <= VC_MAXOBJ && size <= VC_MAXOBJ && so <= size && dof <= size);
    char *sbase = NEW_OBJ(size);
    char *dbase = same ? sbase : NEW_OBJ(size);
    g_memmove_k = k;
    g_memmove_v = v;
    /* every argument tuple; the enforced contract's own preconditions select the legal ones */
    void *r = memmove(dbase + dof, sbase + so, n);
    CANARY("libc memmove contract: end reachable");
}
