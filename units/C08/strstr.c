/*@unit {
 'kind': 'proof', 'mode': 'legacy',
 'functions': ['strstr'],
 'clauses': 'ISO 7.24.5.7 strstr: pointer to the first occurrence of the character sequence of needle in haystack (needle matches at the result; at every earlier position of the haystack there is a mismatch inside the needle); haystack itself for an empty needle; NULL iff there is no occurrence; reads nothing after the terminators; modifies nothing',
 'inject': [{'file': 'compat/libc/string/strstr.c', 'func': 'strstr', 'ghost': 'g_h0 = haystack; g_nl = 0;', 'at': 'func-begin'},
            {'file': 'compat/libc/string/strstr.c', 'func': 'strstr', 'loop': 0, 'expect': 'for (; *haystack; ++haystack)',
             'assigns': 'haystack, g_m',
             'invariants': ['__CPROVER_same_object(haystack, g_h0) && C08_IDX(haystack, g_h0) <= g_Lh',
                            'C08_IMP(g_q < C08_IDX(haystack, g_h0), g_h0[g_q] != 0 && g_m <= g_Ln && g_m <= g_Lh - g_q && needle[g_m] != 0 && g_h0[g_q + g_m] != needle[g_m] && C08_IMP(g_j < g_m, needle[g_j] != 0))'],
             'decreases': 'g_Lh - C08_IDX(haystack, g_h0)'},
            {'file': 'compat/libc/string/strstr.c', 'func': 'strstr', 'loop': 1, 'expect': 'while (*h && *h == *n)',
             'assigns': 'h, n',
             'invariants': ['__CPROVER_same_object(h, g_h0) && __CPROVER_same_object(n, needle)',
                            'C08_IDX(n, needle) <= g_Ln && C08_IDX(h, g_h0) <= g_Lh && C08_IDX(h, g_h0) == C08_IDX(haystack, g_h0) + C08_IDX(n, needle)',
                            'C08_IMP(g_j < C08_IDX(n, needle), needle[g_j] != 0 && haystack[g_j] == needle[g_j])'],
             'decreases': 'g_Lh - C08_IDX(h, g_h0)'},
            {'file': 'compat/libc/string/strstr.c', 'func': 'strstr', 'ghost': 'g_nl = C08_IDX(n, needle);', 'at': 'after', 'anchor': 'if (!*n) {'},
            {'file': 'compat/libc/string/strstr.c', 'func': 'strstr', 'loop': 0, 'at': 'body-end', 'ghost': 'if (C08_IDX(haystack, g_h0) == g_q) g_m = C08_IDX(n, needle);'},
            {'file': 'compat/libc/string/strstr.c', 'func': 'strstr', 'ghost': 'g_hend = C08_IDX(haystack, g_h0);', 'at': 'before', 'anchor': 'return NULL;'}],
 'ghost_calls': ['C08_IDX'],
 'params': {'C08_FIXOFF': [0]}, 'params_thorough': {'C08_FIXOFF': [0, 3]},
 'witness': {'unwind': 8},
} @*/
#include "c08_harness.h"
#include "c08_string.h"
const char *g_h0; /* ghost: initial haystack (the parameter is advanced by the loop) */
size_t g_Lh, g_Ln, g_q, g_j;
size_t g_m;    /* ghost output: for start position g_q before the result: index in needle of the mismatch */
size_t g_nl;   /* ghost output: length of the needle (where the match reached its terminator) */
size_t g_hend; /* ghost output: NULL case: where the haystack ended */
#include "compat/libc/string/strstr.c"
#define FN vc_strstr
#define FNS "strstr"
#define EQ(x, y) ((x) == (y)) /* character equality of the definition */
void harness(void)
{
    WIT(size_t, offh);
    WIT(size_t, offn);
    WIT(size_t, Lh);
    WIT(size_t, Ln);
    WIT(size_t, q);
    WIT(size_t, j);
    WIT_ARR(char, ch, 6);
    WIT_ARR(char, cn, 6);
    C08_STRING(h, offh, Lh, ch);
    C08_STRING(nd, offn, Ln, cn);
    g_Lh = Lh; g_Ln = Ln; g_q = q; g_j = j;
    char h_q = q <= Lh ? h[q] : 0, n_j = j <= Ln ? nd[j] : 0;

    char *r = FN(h, nd);

#ifdef WITNESS_MODE /* no ghost statements in the concretisation / native run: recompute the witnesses */
    g_nl = 0;
    while (nd[g_nl]) g_nl++;
    g_hend = 0;
    while (h[g_hend]) g_hend++;
    g_m = 0;
    if (q < g_hend) while (nd[g_m] && h[q + g_m] && EQ(h[q + g_m], nd[g_m])) g_m++;
#endif
    if (nd[0] == 0) {
        __CPROVER_assert(r == h, FNS ": empty needle matches at the start of the haystack");
    } else {
        size_t e; /* number of start positions that must have been rejected */
        if (r == NULL) {
            e = g_hend;
            __CPROVER_assert(e <= Lh && h[e] == 0, FNS ": NULL only after the whole haystack was scanned");
        } else {
            __CPROVER_assert(__CPROVER_same_object(r, h) && C08_IDX(r, h) <= Lh, FNS ": result points into the haystack");
            e = C08_IDX(r, h);
            __CPROVER_assert(g_nl <= Ln && nd[g_nl] == 0 && g_nl <= Lh - e, FNS ": witness of the needle length, match lies inside the haystack");
            __CPROVER_assert(!(j < g_nl) || (n_j != 0 && EQ(h[e + j], n_j)), FNS ": the needle matches at the result");
        }
        if (q < e) {
            __CPROVER_assert(h_q != 0, FNS ": earlier start positions are inside the haystack string");
            __CPROVER_assert(g_m <= Ln && g_m <= Lh - q && nd[g_m] != 0 && !EQ(h[q + g_m], nd[g_m]), FNS ": at every earlier start position some needle character differs ...");
            __CPROVER_assert(!(j < g_m) || n_j != 0, FNS ": ... inside the needle");
        }
    }
    __CPROVER_assert((!(q <= Lh) || h[q] == h_q) && (!(j <= Ln) || nd[j] == n_j), FNS ": does not modify the strings");
    CANARY("strstr harness end reachable");
}
