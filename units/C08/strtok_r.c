/*@unit {
 'kind': 'proof', 'mode': 'legacy',
 'functions': ['strtok_r'],
 'replace': ['vc_strchr', 'vc_strcspn'],
 'clauses': 'POSIX strtok_r: scans str, or *saveptr when str is NULL (NULL there too: returns NULL); skips leading bytes that occur in delim; no further byte: returns NULL and leaves the string intact; otherwise returns the first non-delimiter, the token extends to the first delimiter (overwritten with NUL, *saveptr = the byte behind it) or to the terminator (*saveptr = the terminator, so later calls return NULL); no other byte of the string changes; delim intact. Proved against the CONTRACTS of strchr and strcspn; proves contract C08_STRTOK_R_* of c08_string.h. First call (str != NULL, *saveptr arbitrary) and continuation calls (str == NULL, *saveptr anywhere in a string)',
 'inject': [{'file': 'compat/libc/string/strtok.c', 'func': 'strtok_r', 'at': 'func-begin',
             'ghost': 'g_strchr_L = g_strtok_Ld; g_strchr_k = g_strtok_j;'},
            {'file': 'compat/libc/string/strtok.c', 'func': 'strtok_r', 'loop': 0, 'expect': 'do',
             'assigns': 'str, ch, g_strchr_end, g_strtok_w, g_strtok_t, g_strtok_next',
             'invariants': ['__CPROVER_same_object(str, g_strtok_S) && C08_IDX(str, g_strtok_S) <= g_strtok_L',
                            'C08_IMP(g_strtok_k < C08_IDX(str, g_strtok_S), g_strtok_v != 0 && C08_W_NOW <= g_strtok_Ld && delim[C08_W_NOW] == g_strtok_v && C08_IMP(g_strtok_j < C08_W_NOW, delim[g_strtok_j] != 0))'],
             'decreases': 'g_strtok_L - C08_IDX(str, g_strtok_S)'},
            {'file': 'compat/libc/string/strtok.c', 'func': 'strtok_r', 'loop': 0, 'at': 'body-begin',
             'ghost': 'if (C08_IDX(str, g_strtok_S) == g_strtok_k + 1) g_strtok_w = g_strchr_end; g_strtok_t = C08_IDX(str, g_strtok_S); g_strtok_next = g_strtok_t;'},
            {'file': 'compat/libc/string/strtok.c', 'func': 'strtok_r', 'at': 'before', 'anchor': '*saveptr = str + strcspn(str, delim);',
             'ghost': 'g_strtok_t = C08_IDX(str, g_strtok_S) - 1; if (g_strtok_k + 1 < C08_IDX(str, g_strtok_S)) g_strtok_w = C08_W_NOW; if (g_strtok_k == g_strtok_t) g_strtok_w = g_strchr_end; g_strcspn_L = g_strtok_L - C08_IDX(str, g_strtok_S); g_strcspn_Lr = g_strtok_Ld; g_strcspn_k = g_strtok_k - C08_IDX(str, g_strtok_S); g_strcspn_j = g_strtok_j;'},
            {'file': 'compat/libc/string/strtok.c', 'func': 'strtok_r', 'at': 'after', 'anchor': '*saveptr = str + strcspn(str, delim);',
             'ghost': 'g_strtok_e = C08_IDX(*saveptr, g_strtok_S); if (g_strtok_k > g_strtok_t && g_strtok_k < g_strtok_e) g_strtok_w = g_strcspn_rend; if (g_strtok_k == g_strtok_e) g_strtok_w = g_strcspn_hit;'},
            {'file': 'compat/libc/string/strtok.c', 'func': 'strtok_r', 'at': 'before', 'anchor': 'return --str;',
             'ghost': 'g_strtok_next = C08_IDX(*saveptr, g_strtok_S);'}],
 'ghost_calls': ['C08_IDX'],
 'kf': ['C08_strtok_r_saveptr'], 'kf_probe_case': {'C08_strtok_r_saveptr': {'C08_FIXOFF': 0, 'FIRST': 1}},
 'params': {'C08_FIXOFF': [0], 'FIRST': [0, 1]}, 'params_thorough': {'C08_FIXOFF': [0, 3], 'FIRST': [0, 1]},
 'assumptions': ['strtok_r: the string, delim and the saveptr variable are three distinct objects'],
 'witness': {'unwind': 8},
} @*/
#include "c08_harness.h"
#include "c08_string.h"
/* witness of "S[k] is a delimiter" valid at the loop head: the strchr call of the iteration that has just
 * finished reports it in g_strchr_end; it is copied into g_strtok_w at the beginning of the next iteration */
#define C08_W_NOW (g_strtok_k + 1 == C08_IDX(str, g_strtok_S) ? g_strchr_end : g_strtok_w)
#ifdef REPLAY /* native run: the replaced callees are the real shim code */
#include "compat/libc/string/strchrnul.c"
#include "compat/libc/string/strchr.c"
#include "compat/libc/string/strcspn.c"
#endif
#include "compat/libc/string/strtok.c"

void harness(void)
{
    WIT(size_t, off);
    WIT(size_t, offd);
    WIT(size_t, L);
    WIT(size_t, Ld);
    WIT(size_t, k);
    WIT(size_t, j);
    _Bool first = FIRST;              /* 1: first call (str != NULL); 0: continuation call (str == NULL) */
    WIT(_Bool, nullsave);
    WIT_ARR(char, cs, 6);
    WIT_ARR(char, cdl, 6);
    C08_STRING(s, off, L, cs);
    C08_STRING(delim, offd, Ld, cdl);
    char *save;                       /* first call: whatever is in there */
    if (!first) save = nullsave ? NULL : s;
    char *arg = first ? s : NULL;
    g_strtok_S = first ? s : save;
    g_strtok_L = L; g_strtok_Ld = Ld; g_strtok_k = k; g_strtok_j = j;
    g_strtok_v = k <= L ? s[k] : 0;
    char d_j = j <= Ld ? delim[j] : 0;
    g_strtok_t = 0; g_strtok_e = 0; g_strtok_w = 0; g_strtok_next = 0;
    __CPROVER_assert(C08_STRTOK_R_PRE(arg, delim, &save), "harness state satisfies the contract precondition");

    char *r = vc_strtok_r(arg, delim, &save);

#ifdef WITNESS_MODE /* no ghost statements in the concretisation / native run: recompute the witnesses on the old content */
    if (g_strtok_S != NULL) {
        /* old content of s: only s[e] may have changed (to NUL) - recompute from the result */
        size_t t = 0, e, w;
        #define OLD(i) ((i) == k ? g_strtok_v : s[i])
        #define ISDELIM(c, wp) ({ size_t w_ = 0; while (delim[w_] && delim[w_] != (c)) w_++; *(wp) = w_; delim[w_] != 0; })
        if (r == NULL) { while (s[t]) t++; e = t; }
        else { t = (size_t)(r - s); e = t; while (s[e]) e++; }
        g_strtok_t = t; g_strtok_e = e;
        g_strtok_next = (r != NULL) ? (size_t)(save - s) : t;
        if (k <= L) ISDELIM(g_strtok_v, &w); else w = 0;
        g_strtok_w = w;
    }
#endif
    __CPROVER_assert(C08_STRTOK_CORE_POST(r, delim), "strtok_r: contract postcondition, token part (delimiters skipped, token of non-delimiters, NUL written over the ending delimiter, rest of the string intact)");
    __CPROVER_assert(C08_STRTOK_SAVE_POST(r, &save), "strtok_r: contract postcondition, saved pointer (behind the overwritten delimiter / at the terminator; at the terminator when no token was found)");
    if (g_strtok_S == NULL) __CPROVER_assert(save == NULL, "strtok_r: NULL, NULL: nothing stored");
    __CPROVER_assert(!(j <= Ld) || delim[j] == d_j, "strtok_r: delim intact");
    CANARY("strtok_r harness end reachable");
    if (r != NULL) CANARY("call returning a token reachable");
    if (r == NULL && g_strtok_S != NULL) CANARY("call without token reachable");
}
