/*@unit {
 'kind': 'proof', 'mode': 'legacy',
 'functions': ['memcpy'],
 'clauses': 'ISO 7.24.2.1 memcpy: dst[0..n) receives the old src[0..n), returns dst, every other byte of the destination object unchanged (frame on both sides), reads only src[0..n), n == 0 included. All three loops: 4-word and 1-word copy loops (n >= 32, both pointers long-aligned) and the byte loop; symbolic offsets of src and dst = every relative alignment. Proved under the shim-specific precondition C08_FWD_OK (weaker than ISO no-overlap: dst may overlap src from below), which is what memmove relies on. SAME=0 distinct objects, SAME=1 one object with arbitrary offsets satisfying C08_FWD_OK',
 'inject': [{'file': 'compat/libc/string/memcpy.c', 'func': 'memcpy', 'ghost': 'g_n0 = n;', 'at': 'func-begin'},
            {'file': 'compat/libc/string/memcpy.c', 'func': 'memcpy', 'loop': 0, 'expect': 'for (; n >= BLOCK_SZ * 4; n -= BLOCK_SZ * 4)',
             'assigns': 'aligned_dst, aligned_src, n, __CPROVER_object_whole(dst_)',
             'invariants': ['n <= g_n0 && (const char *)aligned_dst == (const char *)dst_ + (g_n0 - n) && (const char *)aligned_src == (const char *)src_ + (g_n0 - n)',
                            'C08_IMP(g_memcpy_k < g_n0 - n, ((const char *)dst_)[g_memcpy_k] == g_memcpy_v)',
                            'C08_IMP(g_n0 - n <= g_memcpy_k && g_memcpy_k < g_n0, ((const char *)src_)[g_memcpy_k] == g_memcpy_v)',
                            '*g_fp == g_fv'],
             'decreases': 'n'},
            {'file': 'compat/libc/string/memcpy.c', 'func': 'memcpy', 'loop': 1, 'expect': 'for (; n >= BLOCK_SZ; n -= BLOCK_SZ)',
             'assigns': 'aligned_dst, aligned_src, n, __CPROVER_object_whole(dst_)',
             'invariants': ['n <= g_n0 && (const char *)aligned_dst == (const char *)dst_ + (g_n0 - n) && (const char *)aligned_src == (const char *)src_ + (g_n0 - n)',
                            'C08_IMP(g_memcpy_k < g_n0 - n, ((const char *)dst_)[g_memcpy_k] == g_memcpy_v)',
                            'C08_IMP(g_n0 - n <= g_memcpy_k && g_memcpy_k < g_n0, ((const char *)src_)[g_memcpy_k] == g_memcpy_v)',
                            '*g_fp == g_fv'],
             'decreases': 'n'},
            {'file': 'compat/libc/string/memcpy.c', 'func': 'memcpy', 'loop': 2, 'expect': 'while (n--)',
             'assigns': 'dst, src, n, __CPROVER_object_whole(dst_)',
             'invariants': ['n <= g_n0 && dst == (char *)dst_ + (g_n0 - n) && src == (const char *)src_ + (g_n0 - n)',
                            'C08_IMP(g_memcpy_k < g_n0 - n, ((const char *)dst_)[g_memcpy_k] == g_memcpy_v)',
                            'C08_IMP(g_n0 - n <= g_memcpy_k && g_memcpy_k < g_n0, ((const char *)src_)[g_memcpy_k] == g_memcpy_v)',
                            '*g_fp == g_fv'],
             'decreases': 'n'}],
 'params': {'SAME': [0, 1]},
 'defines': ['C08_MAXOFF=15'],
 'assumptions': ['pointer-to-integer casts follow cbmc\'s model (address = object base + offset, object bases long-aligned), so alignment of a pointer = alignment of its offset'],
 'witness': {'unwind': 8},
} @*/
#include "c08_harness.h"
#include "c08_string.h"
size_t g_n0;
const char *g_fp; char g_fv; /* ghost frame byte: a byte of the destination object outside dst[0..n) */
#include "compat/libc/string/memcpy.c"

void harness(void)
{
    WIT(size_t, so);
    WIT(size_t, dof);
    WIT(size_t, n);
    WIT(size_t, tail);
    WIT(size_t, k);
    WIT(size_t, f);
    WIT_ARR(char, cs, 6);
    WIT_ARR(char, cd, 6);
    __CPROVER_assume(n <= VC_MAXOBJ && tail <= 8);
    char *src, *dst, *dbase;
    size_t dsize;
#if SAME
    /* one object, both blocks anywhere inside it (room for a frame byte at the end) */
    WIT(size_t, size);
    __CPROVER_assume(size <= VC_MAXOBJ + 64 && so <= size && dof <= size && n <= size - so && n < size - dof);
    dsize = size;
    dbase = NEW_OBJ(dsize);
    FILL(dbase, dsize, cd);
    src = dbase + so; dst = dbase + dof;
#else
    __CPROVER_assume(so <= C08_MAXOFF && dof <= C08_MAXOFF);
    char *sbase = NEW_OBJ(so + n);
    FILL(sbase, so + n, cs);
    src = sbase + so;
    dsize = dof + n + tail + 1;
    dbase = NEW_OBJ(dsize);
    FILL(dbase, dsize, cd);
    dst = dbase + dof;
#endif
    __CPROVER_assume(C08_FWD_OK(dst, src, n));
    g_memcpy_k = k;
    g_memcpy_v = k < n ? src[k] : 0;
    __CPROVER_assert(C08_MEM_ACCESS_PRE(dst, src, n) && C08_MEMCPY_GHOST_PRE(src, n), "harness state satisfies the contract precondition");
    __CPROVER_assume(f < dsize && !(f >= dof && f < dof + n));
    g_fp = dbase + f; g_fv = dbase[f];

    void *r = vc_memcpy(dst, src, n);

    __CPROVER_assert(C08_MEMCPY_POST(r, dst, n), "memcpy: contract postcondition (returns dst, dst[k] == old src[k] for every k < n)");
    __CPROVER_assert(*g_fp == g_fv, "memcpy: bytes of the destination object outside dst[0..n) unchanged");
    CANARY("memcpy harness end reachable");
}
