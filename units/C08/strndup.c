/*@unit {
 'kind': 'proof', 'mode': 'dfcc',
 'functions': ['strndup'],
 'replace': ['vc_strlen', 'vc_memcpy'],
 'clauses': 'POSIX strndup: returns a pointer to a NEW object obtained from malloc (distinct from s, exactly m+1 bytes, m = min(strlen(s), size)) holding the first m characters of s and a terminating NUL, or NULL when malloc fails; s is intact; size == 0 gives an empty string. Proved against the CONTRACTS of strlen and memcpy. Operand: s is a string (see NOTES.md: the shim calls strlen(s), so an unterminated array of >= size bytes - accepted by glibc/musl/BSD which use strnlen - would be over-read)',
 'inject': [{'file': 'compat/libc/string/strndup.c', 'func': 'strndup', 'ghost': 'g_strlen_L = g_L; g_strlen_k = g_k;', 'at': 'func-begin'},
            {'file': 'compat/libc/string/strndup.c', 'func': 'strndup', 'at': 'before', 'anchor': 'memcpy(ret, s, len);',
             'ghost': 'g_memcpy_k = g_k; g_memcpy_v = g_v;'}],
 'trusted': ['cbmc\'s malloc model: a fresh object of the requested size, or NULL'],
 'witness': {'unwind': 8},
} @*/
#include "c08_harness.h"
#include "c08_string.h"
size_t g_L, g_k;
char g_v; /* s[g_k] */
#ifdef REPLAY /* native run: the replaced callees are the real shim code */
#include "compat/libc/string/strlen.c"
#include "compat/libc/string/memcpy.c"
#endif
#include "compat/libc/string/strndup.c"

void harness(void)
{
    WIT(size_t, off);
    WIT(size_t, L);
    WIT(size_t, size);
    WIT(size_t, k);
    WIT_ARR(char, content, 6);
    C08_STRING(s, off, L, content);
    g_L = L; g_k = k;
    g_v = k <= L ? s[k] : 0;

    char *r = vc_strndup(s, size);

    if (r != NULL) {
        __CPROVER_assert(!__CPROVER_same_object(r, s) && __CPROVER_POINTER_OFFSET(r) == 0, "strndup: result is the start of an object distinct from s");
#ifdef WITNESS_MODE
        size_t m = 0; while (m < size && s[m]) m++;
#else
        size_t m = __CPROVER_OBJECT_SIZE(r) - 1; /* witness: allocated size - 1 */
#endif
        __CPROVER_assert(m <= size && m <= L && (m == size || s[m] == 0) && (!(k < m) || g_v != 0), "strndup: the new object has exactly min(strlen(s), size)+1 bytes");
        __CPROVER_assert(!(k < m) || r[k] == g_v, "strndup: the first m characters are copied");
        __CPROVER_assert(r[m] == 0, "strndup: the copy is NUL-terminated");
    }
    __CPROVER_assert(!(k <= L) || s[k] == g_v, "strndup: s intact");
    CANARY("strndup harness end reachable");
    if (r != NULL) CANARY("strndup: successful allocation reachable");
    if (r == NULL) CANARY("strndup: failed allocation reachable");
}
