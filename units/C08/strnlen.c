/*@unit {
 'kind': 'proof', 'mode': 'legacy',
 'functions': ['strnlen'],
 'clauses': 'POSIX strnlen: returns min(strlen(str), maxlen); never examines more than maxlen bytes (an unterminated array of maxlen bytes is a legal operand) nor any byte after the first NUL; modifies nothing',
 'inject': [{'file': 'compat/libc/string/strnlen.c', 'func': 'strnlen', 'loop': 0, 'expect': 'for (len = 0; len < maxlen; len++)',
             'assigns': 's, len',
             'invariants': ['__CPROVER_same_object(s, str)',
                            'len <= maxlen && len <= g_lim && C08_IDX(s, str) == len',
                            'C08_IMP(g_k < len, str[g_k] != 0)'],
             'decreases': 'maxlen - len'}],
 'assumptions': ['strnlen operand: an object of sz bytes with either str[sz-1] == 0 (a string) or maxlen <= sz (POSIX: array of at least maxlen bytes)'],
 'witness': {'unwind': 8},
} @*/
#include "c08_harness.h"
#include "c08_string.h"
size_t g_k;
size_t g_lim; /* largest index the scan may reach: sz-1 for a terminated object, else unconstrained by the object (maxlen <= sz) */
#include "compat/libc/string/strnlen.c"

void harness(void)
{
    WIT(size_t, off);
    WIT(size_t, sz);
    WIT(size_t, maxlen);
    WIT(size_t, k);
    WIT_ARR(char, content, 6);
    __CPROVER_assume(off <= C08_MAXOFF && sz <= VC_MAXOBJ);
    char *base = NEW_OBJ(off + sz);
    FILL(base, off + sz, content);
    char *s = base + off;
    _Bool terminated = sz > 0 && s[sz - 1] == 0;
    __CPROVER_assume(terminated || maxlen <= sz);
    g_lim = terminated ? sz - 1 : maxlen;
    g_k = k;
    char at_k = k < sz ? s[k] : 0;

    size_t r = vc_strnlen(s, maxlen);

    __CPROVER_assert(r <= maxlen && r <= sz, "strnlen: result <= maxlen");
    __CPROVER_assert(!(k < r) || at_k != 0, "strnlen: no NUL before the result");
    __CPROVER_assert(!(r < maxlen) || s[r] == 0, "strnlen: result < maxlen only at the first NUL");
    __CPROVER_assert(!(k < sz) || s[k] == at_k, "strnlen: does not modify the array");
    CANARY("strnlen harness end reachable");
}
