/*@unit {
 'kind': 'proof', 'mode': 'dfcc',
 'functions': ['strdup'],
 'replace': ['vc_strlen', 'vc_strcpy'],
 'clauses': 'POSIX strdup: returns a pointer to a NEW object obtained from malloc (distinct from s, exactly strlen(s)+1 bytes) holding a copy of the string s including its terminator, or NULL when malloc fails (both outcomes of cbmc\'s malloc model); s is intact. Proved against the CONTRACTS of strlen and strcpy',
 'inject': [{'file': 'compat/libc/string/strdup.c', 'func': 'strdup', 'ghost': 'g_strlen_L = g_L; g_strlen_k = g_k;', 'at': 'func-begin'},
            {'file': 'compat/libc/string/strdup.c', 'func': 'strdup', 'at': 'before', 'anchor': 'strcpy(ret, s);',
             'ghost': 'g_strcpy_L = __CPROVER_OBJECT_SIZE(ret) - 1; g_strcpy_k = g_k; g_strcpy_v = g_v; g_strcpy_dv = g_k <= g_strcpy_L ? ret[g_k] : 0;'}],
 'trusted': ['cbmc\'s malloc model: a fresh object of the requested size, or NULL'],
 'witness': {'unwind': 8},
} @*/
#include "c08_harness.h"
#include "c08_string.h"
size_t g_L, g_k;
char g_v; /* s[g_k] */
#ifdef REPLAY /* native run: the replaced callees are the real shim code */
#include "compat/libc/string/strlen.c"
#include "compat/libc/string/strcpy.c"
#endif
#include "compat/libc/string/strdup.c"

void harness(void)
{
    WIT(size_t, off);
    WIT(size_t, L);
    WIT(size_t, k);
    WIT_ARR(char, content, 6);
    C08_STRING(s, off, L, content);
    g_L = L; g_k = k;
    g_v = k <= L ? s[k] : 0;

    char *r = vc_strdup(s);

    if (r != NULL) {
        __CPROVER_assert(!__CPROVER_same_object(r, s) && __CPROVER_POINTER_OFFSET(r) == 0, "strdup: result is the start of an object distinct from s");
#ifdef WITNESS_MODE
        size_t len = 0; while (s[len]) len++;
        size_t cl = len;
#else
        size_t len = __CPROVER_OBJECT_SIZE(r) - 1; /* witness 1: allocated size - 1 */
        size_t cl = g_strcpy_len;                  /* witness 2: index of the terminator that was copied */
#endif
        __CPROVER_assert(len <= L && s[len] == 0 && (!(k < len) || g_v != 0), "strdup: the new object has exactly strlen(s)+1 bytes");
        __CPROVER_assert(cl <= L && s[cl] == 0 && (!(k < cl) || g_v != 0), "strdup: the copy stops at strlen(s) ...");
        __CPROVER_assert(!(k <= cl) || r[k] == g_v, "strdup: ... and every byte of the string including the terminator is copied");
    }
    __CPROVER_assert(!(k <= L) || s[k] == g_v, "strdup: s intact");
    CANARY("strdup harness end reachable");
    if (r != NULL) CANARY("strdup: successful allocation reachable");
    if (r == NULL) CANARY("strdup: failed allocation reachable");
}
