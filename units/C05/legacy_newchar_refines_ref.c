/*@unit {
 'kind': 'proof', 'mode': 'dfcc',
 'functions': ['gstuff_autorecv_newchar_v1', 'gstuff_autorecv_reset_v1', 'sline_putchar', 'sline_reset', 'sline_empty', 'igris_strmcrc8'],
 'replace': ['memmove'],
 'clauses': 'one-step refinement (DESIGN 3.4): for every receiver state related to a state of the reference automaton '
            '(spec/gstuff_v1_ref.h), every byte and every capacity >= 2, the REAL legacy newchar returns the reference status and '
            'ends in a related state: same phase, length <= cap-1, CRC, and the same byte at an arbitrary line index; '
            'all memory accesses stay inside the receiver struct and buf[0..cap)',
 'unwindset': ['igris_strmcrc8.0:9'],
 'complete_unwinding': 'igris_strmcrc8 has exactly 8 rounds',
 'witness': {'unwind': 9},
 'assumptions': ['stream-level conclusion (the real receiver behaves like the reference on every byte stream) is the standard '
                 'simulation induction over the stream length on top of this one-step lemma; that induction is not machine-checked here '
                 '(thorough tier: units/C04/legacy_roundtrip_modular.c discharges it mechanically for encoder-produced streams)'],
} @*/
#include "vc.h"
#include "libc_contracts.h"
#include "gstuff_v1_ref.h"
#include "igris/protocols/gstuff_v1/autorecv.c"

void harness(void)
{
    struct gstuff_autorecv_v1 a;
    struct rxv1_ref r;
    WIT(uint, cap); WIT(uint, len); WIT(uint8_t, state); WIT(uint8_t, crc); WIT(char, c); WIT(size_t, k);
    WIT_ARR(char, content, 6);
    __CPROVER_assume(cap >= 2 && cap <= VC_MAXOBJ && len <= cap - 1 && state <= 2);
    char *buf = NEW_OBJ(cap);
    FILL(buf, (size_t)cap, content);
    a.line.buf = buf; a.line.cap = cap; a.line.len = len; a.line.cursor = len; a.state = state; a.crc = crc;
    /* REL: the reference state related to `a` */
    r.st = state; r.crc = crc; r.len = len; r.cap = cap; r.k = k; r.at_k = (k < len) ? buf[k] : 0;

    int got = gstuff_autorecv_newchar_v1(&a, c);
    int want = spec_rxv1_step(&r, c);

    __CPROVER_assert(got == want, "status equals the reference status");
    __CPROVER_assert(a.state == r.st, "next phase equals the reference phase");
    __CPROVER_assert(a.line.buf == buf && a.line.cap == cap, "buffer identity and capacity unchanged");
    __CPROVER_assert(a.line.len <= cap - 1 && a.line.cursor == a.line.len, "never more than cap-1 bytes stored; cursor at the end");
    if (r.st != 0) {
        __CPROVER_assert(a.line.len == r.len && a.crc == r.crc, "line length and CRC equal the reference");
        __CPROVER_assert(!(k < r.len) || buf[k] == r.at_k, "line content equals the reference (arbitrary index)");
    }
    if (want == RXV1_NEWPACKAGE) {
        __CPROVER_assert(a.line.len == r.len && (!(k < r.len) || buf[k] == r.at_k), "delivered line equals the reference line");
    }
    CANARY("refinement step end reachable");
}
