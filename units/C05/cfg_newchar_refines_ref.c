/*@unit {
 'kind': 'proof', 'mode': 'dfcc',
 'functions': ['gstuff_autorecv::newchar', 'gstuff_autorecv::reset', 'gstuff_autorecv::size', 'gstuff_autorecv::cstr',
               'sline_putchar', 'sline_backspace', 'sline_reset', 'sline_getline', 'sline_size', 'igris_strmcrc8'],
 'extract': 'units/C04/gstuff_extract.py',
 'replace': ['memmove'],
 'params': {'CTX': [0, 1, 2]},
 'clauses': 'one-step refinement (DESIGN 3.4) of the configurable receiver (gstuff.cpp, extracted to C mechanically): for every '
            'receiver state related to a state of the reference automaton (spec/gstuff_ref.h), every byte, every capacity >= 2 and '
            'alphabet CTX (0 = gstuff_context_v0(), 1 = default gstuff_context{}, 2 = any alphabet satisfying spec_gs_alpha_valid): '
            'same status, related next state, never more than cap-1 bytes stored, delivered size()/cstr() == reference line minus CRC; '
            'all accesses inside the receiver and buf[0..cap)',
 'unwindset': ['igris_strmcrc8.0:9'],
 'complete_unwinding': 'igris_strmcrc8 has exactly 8 rounds',
 'witness': {'unwind': 9},
 'kf': ['C05_escape_const_test'],
 'assumptions': ['capacity <= INT_MAX (the receiver API takes the buffer length as int)',
                 'receiver invariant assumed on entry and proved on exit: state in {0,1,2,4}, cursor == len <= cap-1, (in frame and len == 0) => crc == 0xFF',
                 'stream-level conclusion by simulation induction over the stream on top of this one-step lemma (not machine-checked)',
                 'C++ semantics of gstuff.cpp carried over by the cxx2c rules listed in the evidence (members -> self->, references -> pointers, '
                 'default member initialisers -> *_defaults())'],
} @*/
#include "vc.h"
#include <limits.h>
#include "libc_contracts.h"
#include "gstuff_ref.h"
#include "cxx/gstuff_cxx.c"

void harness(void)
{
    struct gstuff_autorecv a;
    struct gs_ref r;
    WIT(uint, cap); WIT(uint, len); WIT(uint8_t, state); WIT(uint8_t, crc); WIT(char, c); WIT(size_t, k);
    WIT(char, a0); WIT(char, a1); WIT(char, a2); WIT(char, a3); WIT(char, a4); WIT(char, a5);
    WIT_ARR(char, content, 6);
    gstuff_autorecv_defaults(&a);
#if CTX == 0
    a.ctx = gstuff_context_v0();
#elif CTX == 2
    a.ctx.GSTUFF_START = a0; a.ctx.GSTUFF_STOP = a1; a.ctx.GSTUFF_STUB = a2;
    a.ctx.GSTUFF_STUB_START = a3; a.ctx.GSTUFF_STUB_STOP = a4; a.ctx.GSTUFF_STUB_STUB = a5;
#endif
    r.a.START = a.ctx.GSTUFF_START; r.a.STOP = a.ctx.GSTUFF_STOP; r.a.STUB = a.ctx.GSTUFF_STUB;
    r.a.E_START = a.ctx.GSTUFF_STUB_START; r.a.E_STOP = a.ctx.GSTUFF_STUB_STOP; r.a.E_STUB = a.ctx.GSTUFF_STUB_STUB;
    __CPROVER_assume(spec_gs_alpha_valid(&r.a));
    __CPROVER_assume(cap >= 2 && cap <= INT_MAX && len <= cap - 1);   /* init(buf, int len): capacity is an int */
    __CPROVER_assume(state == 0 || state == 1 || state == 2 || state == 4);
    /* inductive receiver invariant: an empty line inside a frame still carries the CRC seed (proved preserved below) */
    __CPROVER_assume(!((state == 1 || state == 2) && len == 0) || crc == 0xFF);
    char *buf = NEW_OBJ(cap);
    FILL(buf, (size_t)cap, content);
    a.line.buf = buf; a.line.cap = cap; a.line.len = len; a.line.cursor = len; a.state = state; a.crc = crc;
    /* REL: idle <-> code state 0 or 4; in-frame / escape: same length, crc, content */
    r.st = (state == 0 || state == 4) ? 0 : state; r.crc = crc; r.len = len; r.cap = cap; r.k = k;
    r.at_k = (k < len) ? buf[k] : 0;
    /* known finding (genuine defect, see known_findings.json): in the escape state the code tests the
       constant ctx.GSTUFF_START instead of comparing the byte with it */
    int invalid_escape = state == 2 && c != r.a.E_START && c != r.a.E_STOP && c != r.a.E_STUB && c != r.a.START;
    __CPROVER_assume(KF_C05_escape_const_test == 0 ? 1 : KF_C05_escape_const_test == 1 ? !invalid_escape : invalid_escape);

    int got = gstuff_autorecv_newchar(&a, c);
    int want = spec_gs_step(&r, c);

    __CPROVER_assert(got == want, "status equals the reference status");
    __CPROVER_assert(r.st == 0 ? (a.state == 0 || a.state == 4) : a.state == r.st, "next phase equals the reference phase");
    __CPROVER_assert(a.line.buf == buf && a.line.cap == cap, "buffer identity and capacity unchanged");
    __CPROVER_assert(a.line.len <= cap - 1 && a.line.cursor == a.line.len, "never more than cap-1 bytes stored; cursor at the end");
    __CPROVER_assert(!((a.state == 1 || a.state == 2) && a.line.len == 0) || a.crc == 0xFF, "invariant preserved: empty in-frame line carries the CRC seed");
    if (r.st != 0) {
        __CPROVER_assert(a.line.len == r.len && a.crc == r.crc, "line length and CRC equal the reference");
        __CPROVER_assert(!(k < r.len) || buf[k] == r.at_k, "line content equals the reference (arbitrary index)");
    }
    if (want == GS_NEWPACKAGE) {
        __CPROVER_assert(gstuff_autorecv_size(&a) == r.len, "delivered size == unescaped bytes since the start marker minus the CRC byte");
        const char *s = gstuff_autorecv_cstr(&a);
        __CPROVER_assert(s == buf && (!(k < r.len) || s[k] == r.at_k), "delivered bytes == reference line");
        __CPROVER_assert(s[r.len] == 0, "cstr() terminates the packet inside the buffer");
    }
    CANARY("refinement step end reachable");
}
