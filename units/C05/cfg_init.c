/*@unit {
 'kind': 'proof', 'mode': 'plain',
 'functions': ['gstuff_autorecv::init', 'gstuff_autorecv::reset', 'sline_init', 'sline_setbuf', 'sline_reset', 'gstuff_autorecv default member initialisers'],
 'extract': 'units/C04/gstuff_extract.py',
 'clauses': 'init(buf, len) / setbuf establish the receiver invariant every other lemma starts from: the line covers exactly the buffer handed over '
            '(line.buf == buf, line.cap == len, so "never more than capacity-1 bytes, nothing outside the buffer" refers to the caller\'s buffer), empty line, '
            'cursor 0, CRC seed, idle state; a default-constructed receiver is idle with an empty line',
 'witness': {'unwind': 2},
} @*/
#include "vc.h"
#include <limits.h>
#include "cxx/gstuff_cxx.c"

void harness(void)
{
    struct gstuff_autorecv a;
    WIT(int, len); WIT(uint8_t, state); WIT(uint8_t, crc); WIT(uint, oldlen);
    __CPROVER_assume(len >= 2);
    gstuff_autorecv_defaults(&a);
    __CPROVER_assert(a.state == 0 && a.line.len == 0 && a.line.cursor == 0 && a.line.buf == 0 && a.line.cap == 0, "default-constructed receiver: idle, no buffer");
    a.state = state; a.crc = crc; a.line.len = oldlen; a.line.cursor = oldlen;
    uint8_t *buf = NEW_OBJ((size_t)len);
    gstuff_autorecv_init(&a, buf, len);
    __CPROVER_assert(a.line.buf == (char *)buf && a.line.cap == (unsigned)len, "init: the line covers exactly the caller's buffer");
    __CPROVER_assert(a.line.len == 0 && a.line.cursor == 0 && a.crc == 0xFF && a.state == 0, "init: empty line, CRC seed, idle");
    CANARY("init end reachable");
}
