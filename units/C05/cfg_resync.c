/*@unit {
 'kind': 'proof', 'mode': 'dfcc',
 'functions': ['gstuff_autorecv::newchar', 'gstuff_autorecv::reset', 'sline_putchar', 'sline_backspace', 'sline_reset', 'igris_strmcrc8'],
 'extract': 'units/C04/gstuff_extract.py',
 'replace': ['memmove'],
 'params': {'CTX': [0, 1, 2]},
 'clauses': 'resynchronisation lemmas of the configurable receiver, for EVERY receiver state (whatever garbage came before), every capacity >= 2: '
            '(a) START != STOP: one START byte leads to (in frame, empty line, CRC seed) = the start state of C04\'s round-trip induction, so the first '
            'well-formed frame after any garbage is delivered; (b) START == STOP: one marker leads into SYNC = {idle} u {in frame, empty line, CRC seed}, and from '
            'every SYNC state a marker leads to (in frame, empty line, CRC seed) with status CONTINUE - so a whole frame M..M entering in SYNC is decoded from its first '
            'marker exactly as in C04 (second frame at the latest); (c) a data byte arriving at len == cap-1 reports OVERFLOW, stores nothing and leaves the receiver idle (then (a)/(b))',
 'unwindset': ['igris_strmcrc8.0:9'],
 'complete_unwinding': 'igris_strmcrc8 has exactly 8 rounds',
 'witness': {'unwind': 9},
 'assumptions': ['capacity <= INT_MAX (API takes int)', 'receiver invariant on entry (proved preserved in cfg_newchar_refines_ref)'],
} @*/
#include "vc.h"
#include <limits.h>
#include "libc_contracts.h"
#include "gstuff_ref.h"
#include "cxx/gstuff_cxx.c"

#define IN_FRAME_EMPTY(a) ((a).state == 1 && (a).line.len == 0 && (a).line.cursor == 0 && (a).crc == 0xFF)
#define IDLE(a) ((a).state == 0 || (a).state == 4)

void harness(void)
{
    struct gstuff_autorecv a;
    struct gs_alpha al;
    WIT(uint, cap); WIT(uint, len); WIT(uint8_t, state); WIT(uint8_t, crc); WIT(char, c); WIT(int, lemma);
    WIT(char, a0); WIT(char, a1); WIT(char, a2); WIT(char, a3); WIT(char, a4); WIT(char, a5);
    WIT_ARR(char, content, 6);
    gstuff_autorecv_defaults(&a);
#if CTX == 0
    a.ctx = gstuff_context_v0();
#elif CTX == 2
    a.ctx.GSTUFF_START = a0; a.ctx.GSTUFF_STOP = a1; a.ctx.GSTUFF_STUB = a2;
    a.ctx.GSTUFF_STUB_START = a3; a.ctx.GSTUFF_STUB_STOP = a4; a.ctx.GSTUFF_STUB_STUB = a5;
#endif
    al.START = a.ctx.GSTUFF_START; al.STOP = a.ctx.GSTUFF_STOP; al.STUB = a.ctx.GSTUFF_STUB;
    al.E_START = a.ctx.GSTUFF_STUB_START; al.E_STOP = a.ctx.GSTUFF_STUB_STOP; al.E_STUB = a.ctx.GSTUFF_STUB_STUB;
    __CPROVER_assume(spec_gs_alpha_valid(&al));
    __CPROVER_assume(cap >= 2 && cap <= INT_MAX && len <= cap - 1);
    __CPROVER_assume(state == 0 || state == 1 || state == 2 || state == 4);
    __CPROVER_assume(!((state == 1 || state == 2) && len == 0) || crc == 0xFF);
    char *buf = NEW_OBJ(cap);
    FILL(buf, (size_t)cap, content);
    a.line.buf = buf; a.line.cap = cap; a.line.len = len; a.line.cursor = len; a.state = state; a.crc = crc;
    __CPROVER_assume(lemma >= 0 && lemma <= 2);

    if (lemma == 0) {
        /* any state, one start marker */
        int s = gstuff_autorecv_newchar(&a, al.START);
        if (al.START != al.STOP) {
            __CPROVER_assert(IN_FRAME_EMPTY(a), "(a) START != STOP: a start marker always opens a fresh frame");
            __CPROVER_assert(s == GSTUFF_CONTINUE || s == GSTUFF_FORCE_RESTART, "(a) status is CONTINUE or FORCE_RESTART");
        } else {
            __CPROVER_assert(IDLE(a) || IN_FRAME_EMPTY(a), "(b) START == STOP: one marker leads into SYNC");
        }
        CANARY("lemma 0 reachable");
    } else if (lemma == 1) {
        /* SYNC state, one marker (the opening marker of the next frame) */
        __CPROVER_assume(IDLE(a) || IN_FRAME_EMPTY(a));
        int s = gstuff_autorecv_newchar(&a, al.START);
        __CPROVER_assert(IN_FRAME_EMPTY(a), "(b) from SYNC the opening marker of a frame leads to the start state of the round-trip induction");
        __CPROVER_assert(s == GSTUFF_CONTINUE || (al.START != al.STOP && s == GSTUFF_FORCE_RESTART), "(b) no error status on the opening marker");
        CANARY("lemma 1 reachable");
    } else {
        /* over-long frame: a data byte that does not fit */
        __CPROVER_assume(state == 1 && len == cap - 1 && c != al.START && c != al.STOP && c != al.STUB);
        int s = gstuff_autorecv_newchar(&a, c);
        __CPROVER_assert(s == GSTUFF_OVERFLOW && IDLE(a), "(c) a frame that does not fit is reported as overflow and the receiver goes idle");
        __CPROVER_assert(a.line.len <= cap - 1, "(c) never more than cap-1 bytes stored");
        CANARY("lemma 2 reachable");
    }
}
