/*@unit {
 'kind': 'proof', 'mode': 'dfcc',
 'functions': ['gstuff_autorecv_newchar_v1', 'gstuff_autorecv_reset_v1', 'sline_putchar', 'sline_reset', 'sline_empty', 'igris_strmcrc8'],
 'enforce': 'gstuff_autorecv_newchar_v1',
 'replace': ['memmove'],
 'clauses': 'one step of the legacy receiver == one step of the reference automaton of contracts/gstuff_v1_contracts.h, for every '
            'receiver state, every byte, every capacity >= 2: status, next state, line length <= cap-1, CRC, stored byte, all earlier '
            'bytes kept (ghost index), overflow reported instead of storing beyond cap-1, writes confined to the receiver fields and buf[0..cap)',
 'unwindset': ['igris_strmcrc8.0:9'],
 'complete_unwinding': 'igris_strmcrc8 has exactly 8 rounds',
} @*/
#include "vc.h"
#include "libc_contracts.h"
#include "gstuff_v1_contracts.h"
#include "igris/protocols/gstuff_v1/autorecv.c"

void harness(void)
{
    struct gstuff_autorecv_v1 *a;
    char c;
    g_rxv1_k = nondet_size_t();
    g_rxv1_v = nondet_char();
    int r = gstuff_autorecv_newchar_v1(a, c);
    CANARY("newchar returns");
}
