/*@unit {
 'kind': 'proof', 'mode': 'dfcc',
 'functions': ['gstuff_autorecv_newchar_v1', 'gstuff_autorecv_reset_v1', 'gstuff_autorecv_setbuf_v1', 'sline_putchar', 'sline_init', 'sline_reset', 'sline_empty', 'igris_strmcrc8'],
 'replace': ['memmove'],
 'clauses': 'resynchronisation lemmas of the legacy receiver (marker == start == stop), for EVERY receiver state, every capacity >= 2: one marker leads into '
            'SYNC = {state 0} u {state 1 with an empty line}; from every SYNC state a marker leaves (state 1, empty line, CRC seed) with status CONTINUE - the start state of '
            'C04\'s legacy round-trip induction, so every frame M..M that enters in SYNC is delivered (second frame at the latest after arbitrary garbage); a data byte at '
            'len == cap-1 reports OVERFLOW and leaves the receiver in state 0; setbuf gives (state as given, empty line, CRC seed) over exactly the given buffer',
 'unwindset': ['igris_strmcrc8.0:9'],
 'complete_unwinding': 'igris_strmcrc8 has exactly 8 rounds',
 'witness': {'unwind': 9},
 'assumptions': ['capacity <= INT_MAX (setbuf takes int)', 'receiver invariant on entry (proved preserved in legacy_newchar_refines_ref / legacy_newchar_contract)'],
} @*/
#include "vc.h"
#include <limits.h>
#include "libc_contracts.h"
#include "igris/protocols/gstuff_v1/autorecv.c"

#define IN_FRAME_EMPTY(a) ((a).state == 1 && (a).line.len == 0 && (a).line.cursor == 0)
/* effective CRC: in state 0 the next byte resets first */
#define SEEDED(a) ((a).crc == 0xFF)

void harness(void)
{
    struct gstuff_autorecv_v1 a;
    WIT(uint, cap); WIT(uint, len); WIT(uint8_t, state); WIT(uint8_t, crc); WIT(char, c); WIT(int, lemma);
    WIT_ARR(char, content, 6);
    __CPROVER_assume(cap >= 2 && cap <= INT_MAX && len <= cap - 1 && state <= 2);
    /* inductive invariant: an empty line in state 1/2 carries the CRC seed */
    __CPROVER_assume(!((state == 1 || state == 2) && len == 0) || crc == 0xFF);
    char *buf = NEW_OBJ(cap);
    FILL(buf, (size_t)cap, content);
    __CPROVER_assume(lemma >= 0 && lemma <= 3);
    if (lemma == 3) {
        a.state = state;
        gstuff_autorecv_setbuf_v1(&a, buf, (int)cap);
        __CPROVER_assert(a.line.buf == buf && a.line.cap == cap && a.line.len == 0 && a.line.cursor == 0 && a.crc == 0xFF && a.state == state,
                         "setbuf: empty line over exactly the given buffer, CRC seed");
        CANARY("lemma 3 reachable");
        return;
    }
    a.line.buf = buf; a.line.cap = cap; a.line.len = len; a.line.cursor = len; a.state = state; a.crc = crc;
    if (lemma == 0) {
        int s = gstuff_autorecv_newchar_v1(&a, GSTUFF_START_V1);
        __CPROVER_assert(a.state == 0 || (IN_FRAME_EMPTY(a) && SEEDED(a)), "one marker from any state leads into SYNC");
        __CPROVER_assert(!((a.state == 1 || a.state == 2) && a.line.len == 0) || a.crc == 0xFF, "invariant preserved");
        CANARY("lemma 0 reachable");
    } else if (lemma == 1) {
        __CPROVER_assume(state == 0 || (state == 1 && len == 0));
        int s = gstuff_autorecv_newchar_v1(&a, GSTUFF_START_V1);
        __CPROVER_assert(s == GSTUFF_CONTINUE_V1 && IN_FRAME_EMPTY(a) && SEEDED(a), "from SYNC the opening marker leads to the start state of the round-trip induction");
        CANARY("lemma 1 reachable");
    } else {
        __CPROVER_assume(state == 1 && len == cap - 1 && c != GSTUFF_START_V1 && c != GSTUFF_STUB_V1);
        int s = gstuff_autorecv_newchar_v1(&a, c);
        __CPROVER_assert(s == GSTUFF_OVERFLOW_V1 && a.state == 0 && a.line.len <= cap - 1, "over-long frame: overflow, idle, nothing stored beyond cap-1");
        CANARY("lemma 2 reachable");
    }
}
