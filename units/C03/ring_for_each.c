/*@unit {
 'kind': 'proof', 'mode': 'legacy',
 'functions': ['ring_for_each'],
 'loop_contracts_in_unit': 1, 'cbmc_flags': ['--sat-solver', 'cadical'],
 'clauses': 'for every RING(r) (symbolic size, the macro\'s `(n + 1) % size` included): the macro visits exactly the slots of the view in queue order (the i-th iteration sees n == slot(tail, i), i < avail, so n < size), runs avail times and terminates; it does not change the ring',
 'assumptions': ['RING(r)'],
 'witness': {'unwind': 8},
} @*/
#include "c03_ring.h"
#include <igris/datastruct/ring.h>

void harness(void)
{
    WIT(uint, size);
    WIT(uint, head);
    WIT(uint, tail);
    WIT(uint, k);              /* ghost index into the view */
    WIT_ARR(char, content, 6);
    __CPROVER_assume(size >= 2 && size <= VC_MAXOBJ && head < size && tail < size);
    struct ring_head r;
    r.size = size; r.head = head; r.tail = tail;
    char *buf = NEW_OBJ(size);
    FILL(buf, (size_t)size, content);
    uint len = spec_ring_len(head, tail, size);
    C03_LEMMA(spec_ring_slot(tail, len, size) == head && len <= size - 1, "len single steps from tail reach head");
    uint cnt = 0;              /* iterations so far */
    _Bool seen_k = 0;          /* iteration k happened and saw slot(tail, k) */
    char sum = 0;

    ring_for_each(n, &r)
        __CPROVER_assigns(n, cnt, seen_k, sum)
        __CPROVER_loop_invariant(cnt <= len && n == SPEC_RING_SLOT(tail, cnt, size))
        __CPROVER_loop_invariant(seen_k == (k < cnt))
        __CPROVER_decreases(len - cnt)
    {
        __CPROVER_assert(cnt < len, "ring_for_each: at most avail iterations");
        __CPROVER_assert(n < size && n == spec_ring_slot(tail, cnt, size), "ring_for_each: iteration i visits slot(tail, i), inside the buffer");
        sum ^= buf[n];         /* a typical body: reads the element */
        if (cnt == k)
            seen_k = 1;
        cnt++;
    }

    C03_LEMMA(spec_ring_dist(tail, spec_ring_slot(tail, cnt, size), size) == cnt, "dist is the inverse of slot");
    __CPROVER_assert(cnt == len, "ring_for_each: exactly avail iterations");
    __CPROVER_assert(!(k < len) || seen_k, "ring_for_each: every element of the view is visited");
    __CPROVER_assert(r.size == size && r.head == head && r.tail == tail, "ring_for_each does not change the ring");
    CANARY("ring_for_each end reachable");
}
