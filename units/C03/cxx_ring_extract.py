# NOTE: rewrite rules capture argument expressions with groups instead of spelling them out, so that a change of an
# argument (e.g. a wrong size) stays a *verified difference* and does not become an extraction failure (exit 2).
# cxx2c recipe for igris::ring<T> (igris/container/ring.h), igris::cyclic_buffer<T> and the parts of
# igris::unbounded_array<T> they use, instantiated at T = char, Alloc = std::allocator<char>.
# std::allocator<char>::allocate(n)/deallocate(p,n) are mapped onto an exact-size allocation stub (R8):
# the accessible range of the array is exactly m_size elements.
[{
 'out': 'cxx/ring_cxx.c',
 'typedefs': ['unbounded_array', 'ring', 'cyclic_buffer'],
 'pieces': [
  {'op': 'glue', 'text': '#include <stddef.h>\n#include <stdbool.h>\n#include <igris/datastruct/ring.h>\n#include <igris/datastruct/ring_counter.h>\n'
                         'typedef struct ring_head ring_head; typedef struct ring_counter ring_counter;\n'
                         '// R8: std::allocator<char>: allocate(n) returns storage for exactly n elements; deallocate(p, n) releases it\n'
                         'static inline char *vc_allocate_char(size_t n) { return (char *)__CPROVER_allocate(n, 0); }\n'
                         'static inline void vc_deallocate_char(char *p, size_t n) { (void)p; (void)n; }\n'
                         '// std::vector<char>(n): n value-initialised elements in storage of exactly n elements; operator[] is unchecked (exact-size object: cbmc/ASan check it)\n'
                         'typedef struct c03_vec { char *data; size_t n; } c03_vec;\n'
                         'static inline c03_vec c03_vec_make(size_t n) { c03_vec v; v.data = (char *)__CPROVER_allocate(n, 1); v.n = n; return v; }\n'
                         'static inline char *c03_vec_at(c03_vec *v, size_t i) { return v->data + i; }\n'},
  {'op': 'struct', 'file': 'igris/container/unbounded_array.h', 'name': 'unbounded_array', 'ctor': 'unbounded_array_defaults',
   'tparams': {'T': 'char'}, 'drop_fields': ['alloc']},
  # unbounded_array(size_t sz)
  {'op': 'func', 'file': 'igris/container/unbounded_array.h', 'name': 'unbounded_array', 'in_class': 'unbounded_array', 'occurrence': 1,
   'self': 'unbounded_array', 'as': 'unbounded_array_ctor_sz', 'tparams': {'T': 'char'}, 'members': ['m_data', 'm_size'],
   'rewrite': [[r'memset\(&alloc, 0, sizeof\(alloc\)\);', '', 1],
               [r'alloc\.allocate\(', 'vc_allocate_char(', 1],
               [r'new \(self->m_data \+ i\) char\(\);', 'self->m_data[i] = 0; /* value-initialised char */', 1]]},
  {'op': 'func', 'file': 'igris/container/unbounded_array.h', 'name': 'invalidate', 'in_class': 'unbounded_array',
   'self': 'unbounded_array', 'as': 'unbounded_array_invalidate', 'tparams': {'T': 'char'}, 'members': ['m_data', 'm_size'],
   'rewrite': [[r'self->m_data\[i\]\.~char\(\);', '/* ~char(): trivial */;', 1],
               [r'alloc\.deallocate\(', 'vc_deallocate_char(', 1]]},
  {'op': 'func', 'file': 'igris/container/unbounded_array.h', 'name': 'create_buffer', 'in_class': 'unbounded_array',
   'self': 'unbounded_array', 'as': 'unbounded_array_create_buffer', 'tparams': {'T': 'char'}, 'members': ['m_data', 'm_size'],
   'rewrite': [[r'alloc\.allocate\(', 'vc_allocate_char(', 1]]},
  {'op': 'func', 'file': 'igris/container/unbounded_array.h', 'name': 'resize', 'in_class': 'unbounded_array',
   'self': 'unbounded_array', 'as': 'unbounded_array_resize', 'members': ['m_data', 'm_size'],
   'methods': {'invalidate': 'unbounded_array_invalidate', 'create_buffer': 'unbounded_array_create_buffer'}},
  # T &operator[](size_t i): returns the address instead of a reference
  {'op': 'func', 'file': 'igris/container/unbounded_array.h', 'name': 'operator[]', 'in_class': 'unbounded_array', 'occurrence': 0,
   'self': 'unbounded_array', 'as': 'unbounded_array_at', 'tparams': {'T': 'char'}, 'members': ['m_data', 'm_size'], 'ret': 'char *',
   'rewrite': [[r'return \*\(self->m_data \+ i\);', 'return (self->m_data + i);', 1]]},
  # ---- igris::ring<char>
  {'op': 'struct', 'file': 'igris/container/ring.h', 'name': 'ring', 'ctor': 'ring_defaults',
   'rewrite_fields': [], 'nested_ctor': {}, 'tparams': {'unbounded_array<T, Alloc>': 'unbounded_array'}},
  {'op': 'func', 'file': 'igris/container/ring.h', 'name': 'ring', 'in_class': 'ring', 'occurrence': 0, 'self': 'ring', 'as': 'ring_ctor_bufsize',
   'members': ['r', 'buffer'],
   'rewrite': [[r'self->buffer = ([^;]*);', r'unbounded_array_ctor_sz(&self->buffer, \1);', 1]]},
  {'op': 'func', 'file': 'igris/container/ring.h', 'name': 'resize', 'in_class': 'ring', 'self': 'ring', 'as': 'ring_resize', 'members': ['r', 'buffer'],
   'rewrite': [[r'self->buffer\.resize\(([^;]*)\);', r'unbounded_array_resize(&self->buffer, \1);', 1]]},
  {'op': 'func', 'file': 'igris/container/ring.h', 'name': 'reset', 'in_class': 'ring', 'self': 'ring', 'as': 'ring_reset', 'members': ['r', 'buffer'],
   'rewrite': [[r'self->buffer\.size\(\)', 'self->buffer.m_size', 1]]},
  {'op': 'func', 'file': 'igris/container/ring.h', 'name': 'fixup_index', 'in_class': 'ring', 'self': 'ring', 'as': 'ring_fixup_index_m', 'members': ['r', 'buffer']},
  {'op': 'func', 'file': 'igris/container/ring.h', 'name': 'last', 'in_class': 'ring', 'self': 'ring', 'as': 'ring_last', 'members': ['r', 'buffer'],
   'tparams': {'T': 'char'}, 'ret': 'char *', 'methods': {'fixup_index': 'ring_fixup_index_m'},
   'rewrite': [[r'return self->buffer\[([^;]*)\];', r'return unbounded_array_at(&self->buffer, \1);', 1]]},
  # std::vector<T> get_last(int offset, int count, bool order_from_end): std::vector<char> is the exact-size stub c03_vec (glue above)
  {'op': 'func', 'file': 'igris/container/ring.h', 'name': 'get_last', 'in_class': 'ring', 'self': 'ring', 'as': 'ring_get_last', 'members': ['r', 'buffer'],
   'tparams': {'T': 'char'}, 'ret': 'c03_vec', 'methods': {'fixup_index': 'ring_fixup_index_m'},
   'rewrite': [[r'std::vector<char> (\w+)\(([^;]*)\);', r'c03_vec \1 = c03_vec_make(\2);', 1, 'strict'],
               [r'\bvec\[([^\]]*)\]', r'(*c03_vec_at(&vec, \1))', 0],
               [r'self->buffer\[((?:[^\[\]]|\[[^\[\]]*\])*)\]', r'(*unbounded_array_at(&self->buffer, \1))', 0]]},
  {'op': 'func', 'file': 'igris/container/ring.h', 'name': 'tail', 'in_class': 'ring', 'self': 'ring', 'as': 'ring_tail', 'members': ['r', 'buffer'],
   'tparams': {'T': 'char'}, 'ret': 'char *',
   'rewrite': [[r'return self->buffer\[([^;]*)\];', r'return unbounded_array_at(&self->buffer, \1);', 1]]},
  {'op': 'func', 'file': 'igris/container/ring.h', 'name': 'push', 'in_class': 'ring', 'self': 'ring', 'as': 'ring_push', 'members': ['r', 'buffer'],
   'tparams': {'T': 'char'}, 'refs': ['obj'],
   'rewrite': [[r'new \(self->buffer\.data\(\) \+ self->r\.head\) char\(\(\*obj\)\);', '*(self->buffer.m_data + self->r.head) = (*obj); /* placement new of a char */', 1]]},
  {'op': 'func', 'file': 'igris/container/ring.h', 'name': 'pop', 'in_class': 'ring', 'self': 'ring', 'as': 'ring_pop', 'members': ['r', 'buffer'],
   'rewrite': [[r'self->buffer\[([^;]*)\]\.~T\(\);', r'(void)unbounded_array_at(&self->buffer, \1); /* ~char(): trivial */', 1]]},
  {'op': 'func', 'file': 'igris/container/ring.h', 'name': 'move_head_one', 'in_class': 'ring', 'self': 'ring', 'as': 'ring_move_head_one_m', 'members': ['r', 'buffer']},
  {'op': 'func', 'file': 'igris/container/ring.h', 'name': 'set_last_index', 'in_class': 'ring', 'self': 'ring', 'as': 'ring_set_last_index', 'members': ['r', 'buffer'],
   'methods': {'move_head_one': 'ring_move_head_one_m'}},
  {'op': 'func', 'file': 'igris/container/ring.h', 'name': 'distance', 'in_class': 'ring', 'self': 'ring', 'as': 'ring_distance', 'members': ['r', 'buffer']},
  {'op': 'func', 'file': 'igris/container/ring.h', 'name': 'avail', 'in_class': 'ring', 'self': 'ring', 'as': 'ring_avail_m', 'members': ['r', 'buffer']},
  {'op': 'func', 'file': 'igris/container/ring.h', 'name': 'room', 'in_class': 'ring', 'self': 'ring', 'as': 'ring_room_m', 'members': ['r', 'buffer']},
  # ---- igris::cyclic_buffer<char>
  {'op': 'struct', 'file': 'igris/container/cyclic_buffer.h', 'name': 'cyclic_buffer', 'ctor': 'cyclic_buffer_defaults',
   'tparams': {'igris::unbounded_array<T, Alloc>': 'unbounded_array'}},
  {'op': 'func', 'file': 'igris/container/cyclic_buffer.h', 'name': 'cyclic_buffer', 'in_class': 'cyclic_buffer', 'occurrence': 0, 'self': 'cyclic_buffer',
   'as': 'cyclic_buffer_ctor', 'members': ['data', 'counter', '_size'],
   'rewrite': [[r'self->data = ([^;]*);', r'unbounded_array_ctor_sz(&self->data, \1);', 1]]},
  {'op': 'func', 'file': 'igris/container/cyclic_buffer.h', 'name': 'push', 'in_class': 'cyclic_buffer', 'self': 'cyclic_buffer', 'as': 'cyclic_buffer_push',
   'members': ['data', 'counter', '_size'], 'tparams': {'T': 'char'},
   'rewrite': [[r'self->data\[((?:[^\[\]]|\[[^\[\]]*\])*)\]', r'(*unbounded_array_at(&self->data, \1))', 0]]},
  {'op': 'func', 'file': 'igris/container/cyclic_buffer.h', 'name': 'operator[]', 'in_class': 'cyclic_buffer', 'occurrence': 0, 'self': 'cyclic_buffer',
   'as': 'cyclic_buffer_at', 'members': ['data', 'counter', '_size'], 'tparams': {'T': 'char'},
   'rewrite': [[r'self->data\[((?:[^\[\]]|\[[^\[\]]*\])*)\]', r'(*unbounded_array_at(&self->data, \1))', 0]]},
  # const T operator[](int i) const
  {'op': 'func', 'file': 'igris/container/cyclic_buffer.h', 'name': 'operator[]', 'in_class': 'cyclic_buffer', 'occurrence': 1, 'self': 'cyclic_buffer',
   'as': 'cyclic_buffer_at_c', 'members': ['data', 'counter', '_size'], 'tparams': {'T': 'char'}, 'ret': 'char',
   'rewrite': [[r'self->data\[((?:[^\[\]]|\[[^\[\]]*\])*)\]', r'(*unbounded_array_at(&self->data, \1))', 0]]},
  {'op': 'func', 'file': 'igris/container/cyclic_buffer.h', 'name': 'resize', 'in_class': 'cyclic_buffer', 'self': 'cyclic_buffer', 'as': 'cyclic_buffer_resize',
   'members': ['data', 'counter', '_size'],
   'rewrite': [[r'self->data\.resize\(([^;]*)\);', r'unbounded_array_resize(&self->data, \1);', 1]]},
 ],
}]
