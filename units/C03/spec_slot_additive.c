/*@unit {
 'kind': 'proof', 'mode': 'plain',
 'functions': [],
 'params': {'PART': [1, 2, 3]}, 'cbmc_flags': ['--sat-solver', 'cadical'],
 'clauses': 'reference lemma, every size >= 2: a steps followed by c steps are a + c steps, slot(slot(b,a),c) == slot(b,a+c) for a + c <= size - 1 (three exhaustive cases by where the wrap falls). With it the index statements of ring_write (head\' == slot(tail, len + result)) and ring_read (tail\' == slot(tail, result)) give: head\' is `result` steps after the old head, element k of the view after ring_read is element k + result of the view before, and the length after ring_read is len - result',
 'witness': {'unwind': 4},
} @*/
#include "c03_ring.h"

#define ADDITIVE spec_ring_slot(spec_ring_slot(base, a, size), c, size) == spec_ring_slot(base, a + c, size)
void harness(void)
{
    WIT(uint, size);
    WIT(uint, base);
    WIT(uint, a);
    WIT(uint, c);
    __CPROVER_assume(size >= 2 && base < size && a < size && c < size && a <= size - 1 - c);
    if (a + c < size - base) {
        P1(__CPROVER_assert(ADDITIVE, "slot additive: no wrap");)
    } else if (a < size - base) {
        P2(__CPROVER_assert(ADDITIVE, "slot additive: the second leg wraps");)
    } else {
        P3(__CPROVER_assert(ADDITIVE, "slot additive: the first leg wraps");)
    }
    CANARY("spec_slot_additive end reachable");
}
