/*@unit {
 'kind': 'proof', 'mode': 'legacy', 'timeout': 20,
 'functions': ['ring_write', 'ring_putc', 'ring_full', 'ring_move_head_one'],
 'params': {'PART': [1, 2]},
 'clauses': 'for every RING(r), every buffer content, every source block of n bytes (n symbolic, loop closed by an injected invariant, ring_putc inlined as it is): returns min(n, room); head advances by that many single steps, tail and size unchanged, RING(r) preserved; buffer slot j holds source byte dist(old head, j) if that is below the result and its old value otherwise (PART 1: j arbitrary = exact frame, PART 2: j = slot(tail, k) = view\' is view followed by the accepted prefix of the source, every old element kept); reads only src[0..n), writes only inside the size-byte buffer',
 'inject': [{'file': 'igris/datastruct/ring.h', 'func': 'ring_write', 'loop': 0, 'expect': 'size--',
             'assigns': 'size, data, ret, r->head, __CPROVER_object_whole(buffer)',
             'invariants': ['0 <= ret && (unsigned int)ret <= g_n && size == g_n - (unsigned int)ret',
                            '(unsigned int)ret <= g_room0',
                            'data == g_data0 + ret',
                            'r->size == g_rsize && r->tail == g_tail0',
                            'r->head == SPEC_RING_SLOT(g_head0, (unsigned int)ret, g_rsize)',
                            'g_d < (unsigned int)ret ? buffer[g_j] == g_dv : buffer[g_j] == g_vj'],
             'decreases': 'size'}],
 'assumptions': ['RING(r)', 'buffer is an object of exactly r->size bytes, data an object of exactly n bytes',
                 'r->size <= 2^31 for ring_write/ring_read: the result type is int, so a count above INT_MAX cannot be reported (ret++ would overflow)'],
 'witness': {'unwind': 8},
} @*/
#include "c03_ring.h"
/* ghosts: entry values, one arbitrary buffer slot g_j with its old content g_vj, its forward
   distance g_d from the old head and the source byte g_dv that belongs there */
uint g_n, g_head0, g_tail0, g_rsize, g_room0, g_j, g_d;
const char *g_data0;
char g_vj, g_dv;
#include <igris/datastruct/ring.h>

void harness(void)
{
    WIT(uint, size);
    WIT(uint, head);
    WIT(uint, tail);
    WIT(uint, n);
    WIT(uint, k);              /* ghost index into the view  (PART 2) */
    WIT(uint, j);              /* ghost index into the buffer (PART 1) */
    WIT_ARR(char, content, 6);
    WIT_ARR(char, src, 6);
    __CPROVER_assume(size >= 2 && size <= VC_MAXOBJ && size <= 0x80000000u && head < size && tail < size);
    __CPROVER_assume(n <= VC_MAXOBJ);
    struct ring_head r;
    r.size = size; r.head = head; r.tail = tail;
    char *buf = NEW_OBJ(size);
    FILL(buf, (size_t)size, content);
    char *data = NEW_OBJ(n);
    FILL(data, (size_t)n, src);
    uint len = spec_ring_len(head, tail, size);
    uint room = size - 1 - len;
#if PART == 2
    __CPROVER_assume(k <= size - 1);
    j = spec_ring_slot(tail, k, size);
#else
    __CPROVER_assume(j < size);
#endif
    g_n = n; g_head0 = head; g_tail0 = tail; g_rsize = size; g_room0 = room; g_data0 = data;
    g_j = j; g_vj = buf[j]; g_d = spec_ring_dist(head, j, size); g_dv = g_d < n ? data[g_d] : 0;
    WIT(uint, m);              /* ghost index into the source */
    char old_m = m < n ? data[m] : 0;

    int ret = ring_write(&r, buf, data, n);

    uint want = n < room ? n : room;
    __CPROVER_assert(ret >= 0 && (uint)ret == want, "ring_write returns min(n, room)");
    __CPROVER_assert(r.size == size && r.tail == tail && C03_RING_INV(r), "ring_write preserves RING(r), size and tail");
    __CPROVER_assert(r.head == spec_ring_slot(head, want, size), "ring_write: head advanced by the number of bytes accepted");
    __CPROVER_assert(spec_ring_len(r.head, r.tail, r.size) == len + want, "ring_write: reference length grows by the result");
    __CPROVER_assert(!(m < n) || data[m] == old_m, "ring_write does not modify the source");
#if PART == 2
    if (k < len)
        __CPROVER_assert(buf[spec_ring_slot(r.tail, k, size)] == g_vj, "ring_write: every old element keeps position and value");
    else if (k < len + want)
        __CPROVER_assert(buf[spec_ring_slot(r.tail, k, size)] == g_dv && g_d == k - len, "ring_write: element len+i of the new view is source byte i");
#else
    if (g_d < want)
        __CPROVER_assert(buf[j] == g_dv, "ring_write: slot old head + i holds source byte i, i < result");
    else
        __CPROVER_assert(buf[j] == g_vj, "ring_write: no other buffer byte is changed");
#endif
    CANARY("ring_write end reachable");
}
